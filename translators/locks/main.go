// Command locks is the T-locks translator of /verif (see DESIGN.md 1.1, C08/C17).
//
// For each listed package of the repository it computes, per function, the mutex events
// (x.Lock / RLock / Unlock / RUnlock, incl. defer), follows calls to functions and methods of the same package and
// calls through function-valued struct fields whose binding is syntactically visible
// (newTimedQueue(ttl, p.afterCooldown) -> timedQueue.onPop = pool.afterCooldown), and emits the
// held -> acquired edge list as Gen/LockGraph_<name>.v.  The Coq side decides acyclicity of the generated list
// (Base/LockOrder.v) — nothing is decided here.
//
// Abstractions (all on the conservative side for "is there a cycle"):
//   - a lock is named by the struct type declaring the mutex field: pool.m, timedQueue.Mutex (embedded),
//     Manager.lock; all instances of a type share the name (nesting two instances gives a self edge);
//   - RLock is an acquisition like Lock; TryLock acquires without waiting (held afterwards, no edge into it);
//   - control flow: both branches of if/switch/select are followed, a loop body is followed twice, the held set
//     after a join is the union (may-hold); a return runs the deferred calls;
//   - every function, method and function literal is a possible thread entry (held = {}); `go f()` starts f with
//     nothing held; a function literal handed to a call that cannot be resolved is assumed to be invoked at once
//     (under the caller's locks) as well as later;
//   - calls into other packages and through interfaces are opaque (assumed not to come back into this package's
//     locks); they are listed in a comment when made with a lock held.
//
// Standard library only.  Usage: go run . -repo /repo -out <dir> [-pkgs path=name,path=name,...]
package main

import (
	"flag"
	"fmt"
	"go/ast"
	"go/parser"
	"go/token"
	"go/types"
	"os"
	"path/filepath"
	"sort"
	"strings"
)

const defaultPkgs = "share/shwap/p2p/shrex/peers=peers"

func main() {
	repo := flag.String("repo", "/repo", "repository root")
	out := flag.String("out", ".", "output directory")
	pkgs := flag.String("pkgs", defaultPkgs, "comma separated list of <package dir relative to repo>=<name>")
	groups := flag.String("groups", defaultGroups, "comma separated list of <name>=<dir>+<dir>+...: packages analysed as one unit (group.go)")
	flag.Parse()
	if err := os.MkdirAll(*out, 0o755); err != nil {
		fatal(err)
	}
	for _, spec := range strings.Split(*pkgs, ",") {
		spec = strings.TrimSpace(spec)
		if spec == "" {
			continue
		}
		dir, name, ok := strings.Cut(spec, "=")
		if !ok {
			name = strings.ReplaceAll(dir, "/", "_")
		}
		a, err := analyse(filepath.Join(*repo, dir))
		if err != nil {
			fatal(fmt.Errorf("%s: %w", dir, err))
		}
		path := filepath.Join(*out, "LockGraph_"+name+".v")
		if err := os.WriteFile(path, []byte(a.render(dir)), 0o644); err != nil {
			fatal(err)
		}
		fmt.Printf("locks: %s: %d locks, %d edges, %d unbalanced -> %s\n", dir, len(a.locks), len(a.edgeOrder), len(a.unbalancedOrder), path)
	}
	for _, spec := range strings.Split(*groups, ",") {
		spec = strings.TrimSpace(spec)
		name, dirs, ok := strings.Cut(spec, "=")
		if spec == "" || !ok {
			continue
		}
		qualifyNames = true
		a, err := analyseGroup(*repo, strings.Split(dirs, "+"))
		if err != nil {
			fatal(fmt.Errorf("group %s: %w", name, err))
		}
		path := filepath.Join(*out, "LockGraph_"+name+".v")
		if err := os.WriteFile(path, []byte(a.renderGroup(name)), 0o644); err != nil {
			fatal(err)
		}
		qualifyNames = false
		fmt.Printf("locks: group %s (%s): %d locks, %d edges, %d unbalanced -> %s\n", name, dirs, len(a.locks), len(a.edgeOrder), len(a.unbalancedOrder), path)
	}
}

func fatal(err error) {
	fmt.Fprintln(os.Stderr, "locks:", err)
	os.Exit(1)
}

// ---------------------------------------------------------------------------------------------- loading

type stdImporter struct {
	fakes map[string]*types.Package
}

// fakeSync builds a stand-in for package sync: Mutex and RWMutex with their locking methods (pointer receivers),
// the other exported types without methods.  All the analysis needs from the imports are these method sets; the
// package's own struct types are checked from its source.
func fakeSync() *types.Package {
	p := types.NewPackage("sync", "sync")
	mk := func(name string, methods ...string) {
		tn := types.NewTypeName(token.NoPos, p, name, nil)
		named := types.NewNamed(tn, types.NewStruct(nil, nil), nil)
		for _, m := range methods {
			recv := types.NewVar(token.NoPos, p, "m", types.NewPointer(named))
			var results *types.Tuple
			if strings.HasPrefix(m, "Try") {
				results = types.NewTuple(types.NewVar(token.NoPos, p, "", types.Typ[types.Bool]))
			}
			sig := types.NewSignatureType(recv, nil, nil, nil, results, false)
			named.AddMethod(types.NewFunc(token.NoPos, p, m, sig))
		}
		p.Scope().Insert(tn)
	}
	mk("Mutex", "Lock", "Unlock", "TryLock")
	mk("RWMutex", "Lock", "Unlock", "TryLock", "RLock", "RUnlock", "TryRLock")
	for _, n := range []string{"WaitGroup", "Once", "Map", "Pool", "Cond"} {
		mk(n)
	}
	p.MarkComplete()
	return p
}

// Import fakes every imported package (empty scope, except sync).
func (im *stdImporter) Import(path string) (*types.Package, error) {
	if p, ok := im.fakes[path]; ok {
		return p, nil
	}
	if path == "sync" {
		im.fakes[path] = fakeSync()
		return im.fakes[path], nil
	}
	name := path[strings.LastIndex(path, "/")+1:]
	if strings.HasPrefix(name, "v") && len(name) <= 3 && strings.Contains(path, "/") { // .../v2
		rest := path[:strings.LastIndex(path, "/")]
		name = rest[strings.LastIndex(rest, "/")+1:]
	}
	name = strings.TrimPrefix(name, "go-")
	name = strings.ReplaceAll(name, "-", "_")
	p := types.NewPackage(path, name)
	p.MarkComplete()
	im.fakes[path] = p
	return p, nil
}

type callee struct {
	fn  *types.Func
	lit *ast.FuncLit
}

type analyzer struct {
	fset  *token.FileSet
	info  *types.Info
	pkg   *types.Package
	decls map[*types.Func]*ast.FuncDecl

	bindings map[*types.Var][]callee // function-valued struct field -> functions bound to it
	litRoots map[*ast.FuncLit]bool

	locks           map[string]bool
	edges           map[[2]string]string
	edgeOrder       [][2]string
	unbalanced      map[[2]string]bool
	unbalancedOrder [][2]string
	opaque          map[string]bool

	group *groupState // nil: single-package mode (see group.go)
}

func analyse(dir string) (*analyzer, error) {
	fset := token.NewFileSet()
	ents, err := os.ReadDir(dir)
	if err != nil {
		return nil, err
	}
	var files []*ast.File
	for _, e := range ents {
		n := e.Name()
		if e.IsDir() || !strings.HasSuffix(n, ".go") || strings.HasSuffix(n, "_test.go") || strings.HasPrefix(n, "zz_verif_") {
			continue
		}
		f, err := parser.ParseFile(fset, filepath.Join(dir, n), nil, parser.SkipObjectResolution)
		if err != nil {
			return nil, err
		}
		files = append(files, f)
	}
	if len(files) == 0 {
		return nil, fmt.Errorf("no Go files")
	}
	info := &types.Info{
		Types:      map[ast.Expr]types.TypeAndValue{},
		Defs:       map[*ast.Ident]types.Object{},
		Uses:       map[*ast.Ident]types.Object{},
		Selections: map[*ast.SelectorExpr]*types.Selection{},
	}
	conf := types.Config{
		Importer: &stdImporter{fakes: map[string]*types.Package{}},
		Error:    func(error) {}, // faked imports produce errors by design
	}
	pkg, _ := conf.Check(files[0].Name.Name, fset, files, info)
	a := &analyzer{fset: fset, info: info, pkg: pkg, decls: map[*types.Func]*ast.FuncDecl{},
		bindings: map[*types.Var][]callee{}, litRoots: map[*ast.FuncLit]bool{}, locks: map[string]bool{},
		edges: map[[2]string]string{}, unbalanced: map[[2]string]bool{}, opaque: map[string]bool{}}
	var order []*ast.FuncDecl
	for _, f := range files {
		for _, d := range f.Decls {
			if fd, ok := d.(*ast.FuncDecl); ok && fd.Body != nil {
				if obj, ok := info.Defs[fd.Name].(*types.Func); ok {
					a.decls[obj] = fd
					order = append(order, fd)
				}
			}
		}
	}
	a.collectBindings(files)
	// every declared function is a thread entry
	for _, fd := range order {
		obj := a.info.Defs[fd.Name].(*types.Func)
		a.root(callee{fn: obj})
	}
	return a, nil
}

// ---------------------------------------------------------------------------------------------- bindings

func (a *analyzer) resolve(e ast.Expr) (callee, bool) {
	switch x := ast.Unparen(e).(type) {
	case *ast.FuncLit:
		return callee{lit: x}, true
	case *ast.Ident:
		if f, ok := a.info.Uses[x].(*types.Func); ok && a.isOwn(f.Pkg()) {
			return callee{fn: f}, true
		}
	case *ast.SelectorExpr:
		if f, ok := a.info.Uses[x.Sel].(*types.Func); ok && a.isOwn(f.Pkg()) {
			return callee{fn: f}, true
		}
	}
	return callee{}, false
}

func isFuncType(t types.Type) bool {
	if t == nil {
		return false
	}
	_, ok := t.Underlying().(*types.Signature)
	return ok
}

func (a *analyzer) fieldVar(e ast.Expr) *types.Var {
	switch x := ast.Unparen(e).(type) {
	case *ast.SelectorExpr:
		if sel, ok := a.info.Selections[x]; ok && sel.Kind() == types.FieldVal {
			if v, ok := sel.Obj().(*types.Var); ok && isFuncType(v.Type()) {
				return v
			}
		}
	}
	return nil
}

func (a *analyzer) bind(field *types.Var, c callee) {
	for _, x := range a.bindings[field] {
		if x == c {
			return
		}
	}
	a.bindings[field] = append(a.bindings[field], c)
}

func (a *analyzer) collectBindings(files []*ast.File) {
	type flow struct {
		fn    *types.Func
		index int
	}
	paramOf := map[*types.Var]flow{}
	for fn := range a.decls {
		sig := fn.Type().(*types.Signature)
		for i := 0; i < sig.Params().Len(); i++ {
			paramOf[sig.Params().At(i)] = flow{fn, i}
		}
	}
	flows := map[flow][]*types.Var{} // parameter -> fields it is stored into
	note := func(field *types.Var, v ast.Expr) {
		if field == nil || !isFuncType(field.Type()) {
			return
		}
		if c, ok := a.resolve(v); ok {
			a.bind(field, c)
			return
		}
		if id, ok := ast.Unparen(v).(*ast.Ident); ok {
			if pv, ok := a.info.Uses[id].(*types.Var); ok {
				if fl, ok := paramOf[pv]; ok {
					flows[fl] = append(flows[fl], field)
				}
			}
		}
	}
	for _, f := range files {
		ast.Inspect(f, func(n ast.Node) bool {
			switch x := n.(type) {
			case *ast.CompositeLit:
				tv, ok := a.info.Types[x]
				if !ok {
					return true
				}
				t := tv.Type
				if p, ok := t.Underlying().(*types.Pointer); ok {
					t = p.Elem()
				}
				st, ok := t.Underlying().(*types.Struct)
				if !ok {
					return true
				}
				for i, el := range x.Elts {
					if kv, ok := el.(*ast.KeyValueExpr); ok {
						if k, ok := kv.Key.(*ast.Ident); ok {
							for j := 0; j < st.NumFields(); j++ {
								if st.Field(j).Name() == k.Name {
									note(st.Field(j), kv.Value)
								}
							}
						}
					} else if i < st.NumFields() {
						note(st.Field(i), el)
					}
				}
			case *ast.AssignStmt:
				if len(x.Lhs) == len(x.Rhs) {
					for i := range x.Lhs {
						note(a.fieldVar(x.Lhs[i]), x.Rhs[i])
					}
				}
			}
			return true
		})
	}
	if len(flows) == 0 {
		return
	}
	for _, f := range files {
		ast.Inspect(f, func(n ast.Node) bool {
			call, ok := n.(*ast.CallExpr)
			if !ok {
				return true
			}
			c, ok := a.resolve(call.Fun)
			if !ok || c.fn == nil {
				return true
			}
			for i, arg := range call.Args {
				for _, field := range flows[flow{c.fn, i}] {
					if ac, ok := a.resolve(arg); ok {
						a.bind(field, ac)
					}
				}
			}
			return true
		})
	}
}

// ---------------------------------------------------------------------------------------------- naming

func typeName(t types.Type) string {
	for {
		if p, ok := t.(*types.Pointer); ok {
			t = p.Elem()
			continue
		}
		break
	}
	if n, ok := t.(*types.Named); ok {
		if qualifyNames && n.Obj().Pkg() != nil {
			return n.Obj().Pkg().Name() + "." + n.Obj().Name()
		}
		return n.Obj().Name()
	}
	return t.String()
}

func structOf(t types.Type) *types.Struct {
	for {
		if p, ok := t.Underlying().(*types.Pointer); ok {
			t = p.Elem()
			continue
		}
		break
	}
	st, _ := t.Underlying().(*types.Struct)
	return st
}

// ownerField follows a selection's field path and names the last field by the struct type that declares it.
func ownerField(recv types.Type, index []int) string {
	t := recv
	for i, k := range index {
		st := structOf(t)
		if st == nil || k >= st.NumFields() {
			return ""
		}
		f := st.Field(k)
		if i == len(index)-1 {
			return typeName(t) + "." + f.Name()
		}
		t = f.Type()
	}
	return ""
}

func isSyncMutex(t types.Type) bool {
	for {
		if p, ok := t.(*types.Pointer); ok {
			t = p.Elem()
			continue
		}
		break
	}
	n, ok := t.(*types.Named)
	if !ok || n.Obj().Pkg() == nil || n.Obj().Pkg().Path() != "sync" {
		return false
	}
	return n.Obj().Name() == "Mutex" || n.Obj().Name() == "RWMutex"
}

// lockOp recognises x.Lock() etc. on a sync.Mutex / sync.RWMutex and names the lock.
func (a *analyzer) lockOp(call *ast.CallExpr, fname string) (op, lock string) {
	sel, ok := ast.Unparen(call.Fun).(*ast.SelectorExpr)
	if !ok {
		return "", ""
	}
	switch sel.Sel.Name {
	case "Lock", "RLock", "Unlock", "RUnlock", "TryLock", "TryRLock":
	default:
		return "", ""
	}
	s, ok := a.info.Selections[sel]
	if !ok || s.Kind() != types.MethodVal {
		return "", ""
	}
	m, ok := s.Obj().(*types.Func)
	if !ok {
		return "", ""
	}
	recv := m.Type().(*types.Signature).Recv()
	if recv == nil || !isSyncMutex(recv.Type()) {
		return "", ""
	}
	idx := s.Index()
	if len(idx) > 1 { // promoted through embedded field(s): the last field is the mutex itself
		return sel.Sel.Name, ownerField(s.Recv(), idx[:len(idx)-1])
	}
	// the receiver expression is the mutex
	switch x := ast.Unparen(sel.X).(type) {
	case *ast.SelectorExpr:
		if fs, ok := a.info.Selections[x]; ok && fs.Kind() == types.FieldVal {
			return sel.Sel.Name, ownerField(fs.Recv(), fs.Index())
		}
		if v, ok := a.info.Uses[x.Sel].(*types.Var); ok { // pkg.Var
			return sel.Sel.Name, "var." + v.Name()
		}
	case *ast.Ident:
		if v, ok := a.info.Uses[x].(*types.Var); ok {
			if v.Parent() == a.pkg.Scope() || (a.group != nil && v.Pkg() != nil && v.Parent() == v.Pkg().Scope()) {
				return sel.Sel.Name, "var." + v.Name()
			}
			return sel.Sel.Name, fname + "." + v.Name()
		}
	case *ast.UnaryExpr, *ast.StarExpr:
	}
	return sel.Sel.Name, fmt.Sprintf("expr@%s", a.pos(sel.Pos()))
}

func (a *analyzer) pos(p token.Pos) string {
	ps := a.fset.Position(p)
	return fmt.Sprintf("%s:%d", filepath.Base(ps.Filename), ps.Line)
}

func (a *analyzer) calleeName(c callee) string {
	if c.fn != nil {
		sig := c.fn.Type().(*types.Signature)
		if sig.Recv() != nil {
			return typeName(sig.Recv().Type()) + "." + c.fn.Name()
		}
		if qualifyNames && c.fn.Pkg() != nil {
			return c.fn.Pkg().Name() + "." + c.fn.Name()
		}
		return c.fn.Name()
	}
	return "func@" + a.pos(c.lit.Pos())
}

// ---------------------------------------------------------------------------------------------- interpretation

type heldSet map[string]string // lock -> where it was acquired (witness)

func (h heldSet) copy() heldSet {
	c := make(heldSet, len(h))
	for k, v := range h {
		c[k] = v
	}
	return c
}

func union(a, b heldSet) heldSet {
	c := a.copy()
	for k, v := range b {
		if _, ok := c[k]; !ok {
			c[k] = v
		}
	}
	return c
}

type frame struct {
	name     string
	stack    []string
	deferred []*ast.CallExpr
	locals   map[*types.Var][]callee
	exits    []heldSet
	aliases  map[*types.Var][]string // group mode: local variable -> names of the mutex / channel it holds
}

func (a *analyzer) root(c callee) {
	if c.lit != nil {
		if a.litRoots[c.lit] {
			return
		}
		a.litRoots[c.lit] = true
	}
	out := a.run(c, heldSet{}, nil)
	for l := range out {
		k := [2]string{a.calleeName(c), l}
		if !a.unbalanced[k] {
			a.unbalanced[k] = true
			a.unbalancedOrder = append(a.unbalancedOrder, k)
		}
	}
}

// run interprets one function from the given held set and returns the held set at its exit.
func (a *analyzer) run(c callee, held heldSet, stack []string) heldSet {
	name := a.calleeName(c)
	for _, s := range stack {
		if s == name {
			return held // recursion: already being interpreted
		}
	}
	if len(stack) > 24 {
		return held
	}
	var body *ast.BlockStmt
	if c.fn != nil {
		fd := a.decls[c.fn]
		if fd == nil {
			return held
		}
		body = fd.Body
	} else {
		body = c.lit.Body
	}
	fr := &frame{name: name, stack: append(append([]string{}, stack...), name), locals: map[*types.Var][]callee{}}
	end, term := a.block(body.List, held.copy(), fr)
	exit := heldSet{}
	if !term {
		exit = end
	}
	for _, e := range fr.exits {
		exit = union(exit, e)
	}
	for i := len(fr.deferred) - 1; i >= 0; i-- {
		exit = a.call(fr.deferred[i], exit, fr)
	}
	return exit
}

func (a *analyzer) block(stmts []ast.Stmt, held heldSet, fr *frame) (heldSet, bool) {
	for _, s := range stmts {
		var term bool
		held, term = a.stmt(s, held, fr)
		if term {
			return held, true
		}
	}
	return held, false
}

func (a *analyzer) stmt(s ast.Stmt, held heldSet, fr *frame) (heldSet, bool) {
	switch x := s.(type) {
	case nil:
	case *ast.ExprStmt:
		held = a.expr(x.X, held, fr)
		if call, ok := x.X.(*ast.CallExpr); ok {
			if id, ok := call.Fun.(*ast.Ident); ok && id.Name == "panic" {
				fr.exits = append(fr.exits, held.copy())
				return held, true
			}
		}
	case *ast.AssignStmt:
		for _, r := range x.Rhs {
			held = a.expr(r, held, fr)
		}
		for _, l := range x.Lhs {
			if _, ok := l.(*ast.Ident); !ok {
				held = a.expr(l, held, fr)
			}
		}
		if a.group != nil {
			a.groupAssign(x, fr)
		}
		if len(x.Lhs) == len(x.Rhs) {
			for i, l := range x.Lhs {
				if id, ok := l.(*ast.Ident); ok {
					var v *types.Var
					if d, ok := a.info.Defs[id].(*types.Var); ok {
						v = d
					} else if u, ok := a.info.Uses[id].(*types.Var); ok {
						v = u
					}
					if c, ok := a.resolve(x.Rhs[i]); ok && v != nil {
						fr.locals[v] = append(fr.locals[v], c)
					}
				}
			}
		}
	case *ast.DeclStmt:
		if gd, ok := x.Decl.(*ast.GenDecl); ok {
			for _, sp := range gd.Specs {
				if vs, ok := sp.(*ast.ValueSpec); ok {
					for i, v := range vs.Values {
						held = a.expr(v, held, fr)
						if i < len(vs.Names) {
							if d, ok := a.info.Defs[vs.Names[i]].(*types.Var); ok {
								if c, ok := a.resolve(v); ok {
									fr.locals[d] = append(fr.locals[d], c)
								}
							}
						}
					}
				}
			}
		}
	case *ast.GoStmt:
		for _, arg := range x.Call.Args {
			held = a.expr(arg, held, fr)
		}
		if c, ok := a.resolve(x.Call.Fun); ok && c.lit != nil {
			a.root(c) // a new thread: nothing held
		} else if sel, ok := x.Call.Fun.(*ast.SelectorExpr); ok {
			held = a.expr(sel.X, held, fr)
		}
	case *ast.DeferStmt:
		fr.deferred = append(fr.deferred, x.Call)
	case *ast.ReturnStmt:
		for _, r := range x.Results {
			held = a.expr(r, held, fr)
		}
		fr.exits = append(fr.exits, held.copy())
		return held, true
	case *ast.BlockStmt:
		return a.block(x.List, held, fr)
	case *ast.LabeledStmt:
		return a.stmt(x.Stmt, held, fr)
	case *ast.IfStmt:
		held, _ = a.stmt(x.Init, held, fr)
		held = a.expr(x.Cond, held, fr)
		h1, t1 := a.block(x.Body.List, held.copy(), fr)
		h2, t2 := held, false
		if x.Else != nil {
			h2, t2 = a.stmt(x.Else, held.copy(), fr)
		}
		switch {
		case t1 && t2:
			return held, true
		case t1:
			return h2, false
		case t2:
			return h1, false
		}
		return union(h1, h2), false
	case *ast.ForStmt:
		held, _ = a.stmt(x.Init, held, fr)
		if x.Cond != nil {
			held = a.expr(x.Cond, held, fr)
		}
		out := held
		for i := 0; i < 2; i++ {
			h, t := a.block(x.Body.List, out.copy(), fr)
			if !t {
				h, _ = a.stmt(x.Post, h, fr)
				out = union(out, h)
			}
		}
		return out, false
	case *ast.RangeStmt:
		held = a.expr(x.X, held, fr)
		if a.group != nil {
			if h, ok := a.groupRange(x, held, fr); ok {
				return h, false
			}
		}
		out := held
		for i := 0; i < 2; i++ {
			h, t := a.block(x.Body.List, out.copy(), fr)
			if !t {
				out = union(out, h)
			}
		}
		return out, false
	case *ast.SwitchStmt:
		held, _ = a.stmt(x.Init, held, fr)
		if x.Tag != nil {
			held = a.expr(x.Tag, held, fr)
		}
		return a.clauses(x.Body.List, held, fr)
	case *ast.TypeSwitchStmt:
		held, _ = a.stmt(x.Init, held, fr)
		held, _ = a.stmt(x.Assign, held, fr)
		return a.clauses(x.Body.List, held, fr)
	case *ast.SelectStmt:
		return a.clauses(x.Body.List, held, fr)
	case *ast.SendStmt:
		held = a.expr(x.Chan, held, fr)
		held = a.expr(x.Value, held, fr)
	case *ast.IncDecStmt:
		held = a.expr(x.X, held, fr)
	case *ast.BranchStmt, *ast.EmptyStmt:
	}
	return held, false
}

func (a *analyzer) clauses(list []ast.Stmt, held heldSet, fr *frame) (heldSet, bool) {
	out := held // no clause taken / blocking
	for _, cl := range list {
		h := held.copy()
		var body []ast.Stmt
		switch c := cl.(type) {
		case *ast.CaseClause:
			for _, e := range c.List {
				h = a.expr(e, h, fr)
			}
			body = c.Body
		case *ast.CommClause:
			h, _ = a.stmt(c.Comm, h, fr)
			body = c.Body
		}
		h, t := a.block(body, h, fr)
		if !t {
			out = union(out, h)
		}
	}
	return out, false
}

// expr interprets the calls inside an expression, operands before the call itself.
func (a *analyzer) expr(e ast.Expr, held heldSet, fr *frame) heldSet {
	switch x := e.(type) {
	case nil:
	case *ast.CallExpr:
		return a.call(x, held, fr)
	case *ast.FuncLit:
		a.root(callee{lit: x}) // not called here: a closure that runs later, as its own entry
	case *ast.ParenExpr:
		return a.expr(x.X, held, fr)
	case *ast.SelectorExpr:
		return a.expr(x.X, held, fr)
	case *ast.IndexExpr:
		held = a.expr(x.X, held, fr)
		return a.expr(x.Index, held, fr)
	case *ast.IndexListExpr:
		return a.expr(x.X, held, fr)
	case *ast.SliceExpr:
		held = a.expr(x.X, held, fr)
		held = a.expr(x.Low, held, fr)
		held = a.expr(x.High, held, fr)
		return a.expr(x.Max, held, fr)
	case *ast.StarExpr:
		return a.expr(x.X, held, fr)
	case *ast.UnaryExpr:
		held = a.expr(x.X, held, fr)
		if a.group != nil && x.Op == token.ARROW {
			held = a.groupRecv(x, held, fr)
		}
		return held
	case *ast.BinaryExpr:
		held = a.expr(x.X, held, fr)
		return a.expr(x.Y, held, fr)
	case *ast.KeyValueExpr:
		held = a.expr(x.Key, held, fr)
		return a.expr(x.Value, held, fr)
	case *ast.CompositeLit:
		for _, el := range x.Elts {
			held = a.expr(el, held, fr)
		}
	case *ast.TypeAssertExpr:
		return a.expr(x.X, held, fr)
	}
	return held
}

func (a *analyzer) acquire(lock string, held heldSet, fr *frame, pos token.Pos, wait bool) heldSet {
	a.locks[lock] = true
	here := fmt.Sprintf("%s [%s]", strings.Join(fr.stack, " -> "), a.pos(pos))
	if wait {
		names := make([]string, 0, len(held))
		for h := range held {
			names = append(names, h)
		}
		sort.Strings(names)
		for _, h := range names {
			k := [2]string{h, lock}
			w := fmt.Sprintf("%s taken in %s; then %s taken in %s", h, held[h], lock, here)
			if old, ok := a.edges[k]; !ok {
				a.edges[k] = w
				a.edgeOrder = append(a.edgeOrder, k)
			} else if len(w) < len(old) {
				a.edges[k] = w
			}
		}
	}
	if _, ok := held[lock]; !ok {
		held[lock] = here
	}
	return held
}

func (a *analyzer) call(call *ast.CallExpr, held heldSet, fr *frame) heldSet {
	// operands first
	fun := ast.Unparen(call.Fun)
	if sel, ok := fun.(*ast.SelectorExpr); ok {
		held = a.expr(sel.X, held, fr)
	} else if _, ok := fun.(*ast.FuncLit); !ok {
		if _, ok := fun.(*ast.Ident); !ok {
			held = a.expr(fun, held, fr)
		}
	}
	var litArgs []callee
	for _, arg := range call.Args {
		if l, ok := ast.Unparen(arg).(*ast.FuncLit); ok {
			litArgs = append(litArgs, callee{lit: l})
			a.root(callee{lit: l})
			continue
		}
		held = a.expr(arg, held, fr)
	}
	// mutex operation?
	if a.group != nil {
		if op, locks := a.groupLockOp(call, fr); op != "" {
			for _, lock := range locks {
				switch op {
				case "Lock", "RLock":
					held = a.acquire(lock, held, fr, call.Pos(), true)
				case "TryLock", "TryRLock":
					held = a.acquire(lock, held, fr, call.Pos(), false)
				default:
					a.locks[lock] = true
					delete(held, lock)
				}
			}
			return held
		}
	}
	if op, lock := a.lockOp(call, fr.name); op != "" && lock != "" {
		switch op {
		case "Lock", "RLock":
			return a.acquire(lock, held, fr, call.Pos(), true)
		case "TryLock", "TryRLock":
			return a.acquire(lock, held, fr, call.Pos(), false)
		default:
			a.locks[lock] = true
			delete(held, lock)
			return held
		}
	}
	// which functions can this call reach?
	var targets []callee
	known := false
	switch x := fun.(type) {
	case *ast.FuncLit:
		targets, known = []callee{{lit: x}}, true
	case *ast.Ident:
		switch o := a.info.Uses[x].(type) {
		case *types.Func:
			if a.isOwn(o.Pkg()) {
				targets, known = []callee{{fn: o}}, true
			}
		case *types.Var:
			if cs, ok := fr.locals[o]; ok {
				targets, known = cs, true
			}
		case *types.Builtin, *types.TypeName:
			known = true
		case nil:
			known = x.Name == "panic" || x.Name == "len" || x.Name == "make" || x.Name == "append"
		}
	case *ast.SelectorExpr:
		switch o := a.info.Uses[x.Sel].(type) {
		case *types.Func:
			if a.isOwn(o.Pkg()) {
				if recv := o.Type().(*types.Signature).Recv(); recv == nil { // group mode: pkg.Func of another package of the group
					targets, known = []callee{{fn: o}}, true
				} else if _, isIface := recv.Type().Underlying().(*types.Interface); !isIface {
					targets, known = []callee{{fn: o}}, true
				}
			}
		case *types.Var:
			if cs, ok := a.bindings[o]; ok && o.IsField() {
				targets, known = cs, true
			}
		}
	}
	if !known && a.group != nil {
		if cs, ok := a.groupTargets(call, fr); ok {
			targets, known = cs, true
		}
	}
	if known {
		out := held
		if len(targets) > 0 {
			out = nil
			for _, t := range targets {
				h := a.run(t, held.copy(), fr.stack)
				if out == nil {
					out = h
				} else {
					out = union(out, h)
				}
			}
		}
		// function literals handed to a resolved callee are called where the callee calls its parameter; the
		// parameter call is opaque there, so treat them as invoked under the caller's locks too
		for _, l := range litArgs {
			out = union(out, a.run(l, out.copy(), fr.stack))
		}
		return out
	}
	// opaque call
	if len(held) > 0 {
		names := make([]string, 0, len(held))
		for h := range held {
			names = append(names, h)
		}
		sort.Strings(names)
		a.opaque[fmt.Sprintf("%s calls %s holding %s [%s]", fr.name, exprString(call.Fun), strings.Join(names, ","), a.pos(call.Pos()))] = true
	}
	for _, l := range litArgs {
		held = union(held, a.run(l, held.copy(), fr.stack))
	}
	return held
}

func exprString(e ast.Expr) string {
	switch x := e.(type) {
	case *ast.Ident:
		return x.Name
	case *ast.SelectorExpr:
		return exprString(x.X) + "." + x.Sel.Name
	case *ast.CallExpr:
		return exprString(x.Fun) + "()"
	case *ast.IndexExpr:
		return exprString(x.X) + "[]"
	case *ast.ParenExpr:
		return exprString(x.X)
	case *ast.StarExpr:
		return "*" + exprString(x.X)
	}
	return fmt.Sprintf("%T", e)
}

// ---------------------------------------------------------------------------------------------- output

func coqString(s string) string { return `"` + strings.ReplaceAll(s, `"`, `""`) + `"` }

func comment(s string) string {
	s = strings.ReplaceAll(s, "(*", "( *")
	s = strings.ReplaceAll(s, "*)", "* )")
	return s
}

func (a *analyzer) render(dir string) string {
	var b strings.Builder
	b.WriteString("(** GENERATED by /verif/translators/locks from " + dir + " — do not edit, never committed as truth.\n")
	b.WriteString("    held -> acquired edges of the package's mutexes; each edge is followed by one witness call path. *)\n")
	b.WriteString("From Coq Require Import List String.\nImport ListNotations.\nOpen Scope string_scope.\n\n")
	b.WriteString("Definition package : string := " + coqString(dir) + ".\n\n")
	locks := make([]string, 0, len(a.locks))
	for l := range a.locks {
		locks = append(locks, l)
	}
	sort.Strings(locks)
	b.WriteString("Definition locks : list string := [")
	for i, l := range locks {
		if i > 0 {
			b.WriteString("; ")
		}
		b.WriteString(coqString(l))
	}
	b.WriteString("].\n\n")
	edges := append([][2]string{}, a.edgeOrder...)
	sort.Slice(edges, func(i, j int) bool {
		if edges[i][0] != edges[j][0] {
			return edges[i][0] < edges[j][0]
		}
		return edges[i][1] < edges[j][1]
	})
	b.WriteString("Definition edges : list (string * string) := [")
	for i, e := range edges {
		if i > 0 {
			b.WriteString(";")
		}
		b.WriteString("\n  (" + coqString(e[0]) + ", " + coqString(e[1]) + ")\n    (* " + comment(a.edges[e]) + " *)")
	}
	b.WriteString("\n].\n\n")
	b.WriteString("(** functions that can return with a lock still held (function, lock) *)\n")
	b.WriteString("Definition unbalanced : list (string * string) := [")
	ub := append([][2]string{}, a.unbalancedOrder...)
	sort.Slice(ub, func(i, j int) bool { return ub[i][0]+ub[i][1] < ub[j][0]+ub[j][1] })
	for i, e := range ub {
		if i > 0 {
			b.WriteString("; ")
		}
		b.WriteString("(" + coqString(e[0]) + ", " + coqString(e[1]) + ")")
	}
	b.WriteString("].\n\n")
	var bs []string
	for f, cs := range a.bindings {
		for _, c := range cs {
			bs = append(bs, f.Name()+" := "+a.calleeName(c))
		}
	}
	sort.Strings(bs)
	b.WriteString("(* function-valued fields resolved: " + comment(strings.Join(bs, "; ")) + " *)\n")
	var ops []string
	for o := range a.opaque {
		ops = append(ops, o)
	}
	sort.Strings(ops)
	b.WriteString("(* calls that leave the package while a lock is held (not followed):\n")
	for _, o := range ops {
		b.WriteString("     " + comment(o) + "\n")
	}
	b.WriteString("*)\n")
	return b.String()
}

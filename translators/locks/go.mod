module verif/translators/locks

go 1.26

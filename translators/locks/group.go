// Group mode of the T-locks translator (C08): several packages of the repository are analysed as ONE unit, so that the
// held -> acquired edges that arise from calls across package boundaries are part of the generated graph.
//
// On top of the single-package analysis of main.go (which is left untouched in behaviour; everything here is behind
// a.group) the group mode adds:
//
//   - imports between the listed packages are type-checked for real (all other imports stay faked); names of types and
//     functions are qualified with their package name ("cache.accessor.lock");
//   - a mutex that is an element of a slice / array field is named "<owner>.<field>[]" (one name per stripe FAMILY:
//     two stripes of one family held together give a self edge, i.e. a cycle, unless the code orders them);
//   - a local variable initialised from a call of a function of the group that returns a mutex
//     (lock := s.stripLock.byHeight(h)) carries the names of the mutexes that function can return;
//   - a slice-of-mutex field bound by a composite literal (&multiLock{[]*sync.RWMutex{l.byHash(d), l.byHeight(h)}}) is an
//     ORDERED lock sequence: `for _, lk := range m.mu { lk.Lock() }` is unrolled in that order;
//   - a call through an interface declared in the group (cache.Cache, eds.AccessorStreamer, also when embedded in a
//     struct) reaches every method of that name declared on a concrete type of the group (class-hierarchy analysis by
//     name: a superset of the real targets);
//   - a call of a function-typed parameter reaches every function literal / function that some call site in the group
//     passes for that parameter — directly, as the result of a function that returns a literal
//     (s.cache.GetOrLoad(ctx, h, accessorLoader(acc))), or handed on from the caller's own parameter;
//   - a receive from a channel stored in a struct field (also through a local alias: done := s.done; <-done) is a WAIT:
//     it is recorded as the acquisition (and immediate release) of the pseudo lock "wait:<owner>.<field>", so the
//     generated graph has the edges (held lock -> wait).  Which locks the party that ends the wait needs is not
//     syntactically visible; the Coq side adds those edges (Store/ConcLocks.v).
//
// Receives from local channels, context cancellation, timers, WaitGroups and the locks inside third-party code are
// not followed.
package main

import (
	"fmt"
	"go/ast"
	"go/parser"
	"go/token"
	"go/types"
	"os"
	"path/filepath"
	"sort"
	"strings"
)

const defaultGroups = "store=store+store/cache+store/file+share/eds"

// qualifyNames makes typeName / calleeName prefix the declaring package (group mode only).
var qualifyNames bool

type groupState struct {
	own       map[*types.Package]bool
	seqBind   map[*types.Var][][][]string // slice-of-mutex field -> bound sequences -> element -> alternative names
	paramBind map[*types.Var][]callee     // function-typed parameter -> functions passed for it somewhere in the group
	byName    map[string][]*types.Func    // method name -> concrete methods of the group
	waits     map[string]bool
	retLock   map[*types.Func][]string
	retBusy   map[*types.Func]bool
	filePkg   map[string]*types.Package // file name -> package of the group
	typeAST   map[*types.Var]ast.Expr   // field / parameter / declared variable -> its type as written
	initAST   map[*types.Var]ast.Expr   // variable defined by := / var = -> the defining expression
	dirs      []string
}

func (a *analyzer) isOwn(p *types.Package) bool {
	if a.group == nil {
		return p == a.pkg
	}
	return p != nil && a.group.own[p]
}

type groupImporter struct {
	repo, module string
	dirs         map[string]string // import path -> dir (relative to repo)
	fset         *token.FileSet
	info         *types.Info
	conf         *types.Config
	fake         *stdImporter
	done         map[string]*types.Package
	files        map[string][]*ast.File
	order        []string
	err          error
}

func (g *groupImporter) Import(path string) (*types.Package, error) {
	dir, ok := g.dirs[path]
	if !ok {
		return g.fake.Import(path)
	}
	if p, ok := g.done[path]; ok {
		return p, nil
	}
	files, err := parseDir(g.fset, filepath.Join(g.repo, dir))
	if err != nil {
		g.err = err
		return nil, err
	}
	g.files[path] = files
	p, _ := g.conf.Check(path, g.fset, files, g.info)
	g.done[path] = p
	g.order = append(g.order, path)
	return p, nil
}

func parseDir(fset *token.FileSet, dir string) ([]*ast.File, error) {
	ents, err := os.ReadDir(dir)
	if err != nil {
		return nil, err
	}
	var files []*ast.File
	for _, e := range ents {
		n := e.Name()
		if e.IsDir() || !strings.HasSuffix(n, ".go") || strings.HasSuffix(n, "_test.go") || strings.HasPrefix(n, "zz_verif_") {
			continue
		}
		f, err := parser.ParseFile(fset, filepath.Join(dir, n), nil, parser.SkipObjectResolution)
		if err != nil {
			return nil, err
		}
		files = append(files, f)
	}
	if len(files) == 0 {
		return nil, fmt.Errorf("%s: no Go files", dir)
	}
	return files, nil
}

func modulePath(repo string) (string, error) {
	b, err := os.ReadFile(filepath.Join(repo, "go.mod"))
	if err != nil {
		return "", err
	}
	for _, line := range strings.Split(string(b), "\n") {
		if rest, ok := strings.CutPrefix(strings.TrimSpace(line), "module "); ok {
			return strings.TrimSpace(rest), nil
		}
	}
	return "", fmt.Errorf("no module line in go.mod")
}

func analyseGroup(repo string, dirs []string) (*analyzer, error) {
	mod, err := modulePath(repo)
	if err != nil {
		return nil, err
	}
	fset := token.NewFileSet()
	info := &types.Info{
		Types:      map[ast.Expr]types.TypeAndValue{},
		Defs:       map[*ast.Ident]types.Object{},
		Uses:       map[*ast.Ident]types.Object{},
		Selections: map[*ast.SelectorExpr]*types.Selection{},
	}
	gi := &groupImporter{repo: repo, module: mod, dirs: map[string]string{}, fset: fset, info: info,
		fake: &stdImporter{fakes: map[string]*types.Package{}}, done: map[string]*types.Package{}, files: map[string][]*ast.File{}}
	for _, d := range dirs {
		gi.dirs[mod+"/"+d] = d
	}
	gi.conf = &types.Config{Importer: gi, Error: func(error) {}}
	for _, d := range dirs {
		if _, err := gi.Import(mod + "/" + d); err != nil {
			return nil, err
		}
	}
	if gi.err != nil {
		return nil, gi.err
	}
	a := &analyzer{fset: fset, info: info, decls: map[*types.Func]*ast.FuncDecl{},
		bindings: map[*types.Var][]callee{}, litRoots: map[*ast.FuncLit]bool{}, locks: map[string]bool{},
		edges: map[[2]string]string{}, unbalanced: map[[2]string]bool{}, opaque: map[string]bool{}}
	a.group = &groupState{own: map[*types.Package]bool{}, seqBind: map[*types.Var][][][]string{},
		paramBind: map[*types.Var][]callee{}, byName: map[string][]*types.Func{}, waits: map[string]bool{},
		retLock: map[*types.Func][]string{}, retBusy: map[*types.Func]bool{}, filePkg: map[string]*types.Package{},
		typeAST: map[*types.Var]ast.Expr{}, initAST: map[*types.Var]ast.Expr{}, dirs: dirs}
	var all []*ast.File
	var order []*ast.FuncDecl
	// deterministic order: the order of the -groups list
	for _, d := range dirs {
		p := gi.done[mod+"/"+d]
		if p == nil {
			return nil, fmt.Errorf("%s: not type-checked", d)
		}
		a.group.own[p] = true
		if a.pkg == nil {
			a.pkg = p
		}
		for _, f := range gi.files[mod+"/"+d] {
			all = append(all, f)
			a.group.filePkg[fset.Position(f.Pos()).Filename] = p
			for _, dcl := range f.Decls {
				if fd, ok := dcl.(*ast.FuncDecl); ok && fd.Body != nil {
					if obj, ok := info.Defs[fd.Name].(*types.Func); ok {
						a.decls[obj] = fd
						order = append(order, fd)
						if sig := obj.Type().(*types.Signature); sig.Recv() != nil {
							a.group.byName[obj.Name()] = append(a.group.byName[obj.Name()], obj)
						}
					}
				}
			}
		}
	}
	a.collectDefs(all)
	a.collectBindings(all)
	a.collectSeqBindings(all)
	a.collectParamBindings(all)
	for _, fd := range order {
		a.root(callee{fn: a.info.Defs[fd.Name].(*types.Func)})
	}
	return a, nil
}

// ---------------------------------------------------------------------------------------------- lock names

func isMutexType(t types.Type) bool { return t != nil && isSyncMutex(t) }

func isMutexSeqType(t types.Type) bool {
	if t == nil {
		return false
	}
	switch u := t.Underlying().(type) {
	case *types.Slice:
		return isMutexType(u.Elem())
	case *types.Array:
		return isMutexType(u.Elem())
	}
	return false
}

func isChanType(t types.Type) bool {
	if t == nil {
		return false
	}
	_, ok := t.Underlying().(*types.Chan)
	return ok
}

// lockNames gives the names of the mutexes a mutex-valued expression can denote (nil: unknown).
func (a *analyzer) lockNames(e ast.Expr, fr *frame) []string {
	switch x := ast.Unparen(e).(type) {
	case *ast.UnaryExpr:
		if x.Op == token.AND {
			return a.lockNames(x.X, fr)
		}
	case *ast.StarExpr:
		return a.lockNames(x.X, fr)
	case *ast.SelectorExpr:
		if fs, ok := a.info.Selections[x]; ok && fs.Kind() == types.FieldVal {
			if n := ownerField(fs.Recv(), fs.Index()); n != "" {
				return []string{n}
			}
		}
	case *ast.IndexExpr:
		if sel, ok := ast.Unparen(x.X).(*ast.SelectorExpr); ok {
			if fs, ok := a.info.Selections[sel]; ok && fs.Kind() == types.FieldVal {
				if n := ownerField(fs.Recv(), fs.Index()); n != "" {
					return []string{n + "[]"}
				}
			}
		}
	case *ast.Ident:
		if v, ok := a.info.Uses[x].(*types.Var); ok && fr != nil {
			if ns, ok := fr.aliases[v]; ok {
				return ns
			}
		}
	case *ast.CallExpr:
		if c, ok := a.resolve(x.Fun); ok && c.fn != nil {
			return a.returnedLocks(c.fn)
		}
	}
	return nil
}

// returnedLocks: the mutexes a function of the group can return (from its return statements).
func (a *analyzer) returnedLocks(fn *types.Func) []string {
	g := a.group
	if ns, ok := g.retLock[fn]; ok {
		return ns
	}
	if g.retBusy[fn] {
		return nil
	}
	fd := a.decls[fn]
	if fd == nil {
		return nil
	}
	g.retBusy[fn] = true
	defer delete(g.retBusy, fn)
	tmp := &frame{name: a.calleeName(callee{fn: fn}), locals: map[*types.Var][]callee{}}
	set := map[string]bool{}
	ast.Inspect(fd.Body, func(n ast.Node) bool {
		switch s := n.(type) {
		case *ast.FuncLit:
			return false
		case *ast.AssignStmt:
			a.groupAssign(s, tmp)
		case *ast.ReturnStmt:
			if len(s.Results) > 0 {
				for _, n := range a.lockNames(s.Results[0], tmp) {
					set[n] = true
				}
			}
		}
		return true
	})
	var ns []string
	for n := range set {
		ns = append(ns, n)
	}
	sort.Strings(ns)
	g.retLock[fn] = ns
	return ns
}

// groupAssign records aliases: a local variable that holds a mutex / a channel taken from a field.
func (a *analyzer) groupAssign(x *ast.AssignStmt, fr *frame) {
	if len(x.Lhs) != len(x.Rhs) {
		return
	}
	for i, l := range x.Lhs {
		id, ok := l.(*ast.Ident)
		if !ok {
			continue
		}
		var v *types.Var
		if d, ok := a.info.Defs[id].(*types.Var); ok {
			v = d
		} else if u, ok := a.info.Uses[id].(*types.Var); ok {
			v = u
		}
		if v == nil {
			continue
		}
		switch {
		case isMutexType(v.Type()):
			if ns := a.lockNames(x.Rhs[i], fr); len(ns) > 0 {
				if fr.aliases == nil {
					fr.aliases = map[*types.Var][]string{}
				}
				fr.aliases[v] = ns
			}
		case isChanType(v.Type()):
			if ns := a.chanNames(x.Rhs[i], fr); len(ns) > 0 {
				if fr.aliases == nil {
					fr.aliases = map[*types.Var][]string{}
				}
				fr.aliases[v] = ns
			}
		}
	}
}

func (a *analyzer) chanNames(e ast.Expr, fr *frame) []string {
	switch x := ast.Unparen(e).(type) {
	case *ast.SelectorExpr:
		if fs, ok := a.info.Selections[x]; ok && fs.Kind() == types.FieldVal && isChanType(fs.Type()) {
			if n := ownerField(fs.Recv(), fs.Index()); n != "" {
				return []string{"wait:" + n}
			}
		}
	case *ast.Ident:
		if v, ok := a.info.Uses[x].(*types.Var); ok && fr != nil {
			if ns, ok := fr.aliases[v]; ok && isChanType(v.Type()) {
				return ns
			}
		}
	}
	return nil
}

// groupRecv: `<-ch` on a named channel is a wait edge from everything held.
func (a *analyzer) groupRecv(x *ast.UnaryExpr, held heldSet, fr *frame) heldSet {
	for _, n := range a.chanNames(x.X, fr) {
		a.group.waits[n] = true
		_, was := held[n]
		held = a.acquire(n, held, fr, x.Pos(), true)
		if !was {
			delete(held, n)
		}
	}
	return held
}

// groupLockOp recognises a mutex operation whose receiver needs the group's naming (alias, slice element).
func (a *analyzer) groupLockOp(call *ast.CallExpr, fr *frame) (op string, locks []string) {
	sel, ok := ast.Unparen(call.Fun).(*ast.SelectorExpr)
	if !ok {
		return "", nil
	}
	switch sel.Sel.Name {
	case "Lock", "RLock", "Unlock", "RUnlock", "TryLock", "TryRLock":
	default:
		return "", nil
	}
	s, ok := a.info.Selections[sel]
	if !ok || s.Kind() != types.MethodVal {
		return "", nil
	}
	m, ok := s.Obj().(*types.Func)
	if !ok {
		return "", nil
	}
	recv := m.Type().(*types.Signature).Recv()
	if recv == nil || !isSyncMutex(recv.Type()) || len(s.Index()) > 1 {
		return "", nil
	}
	switch ast.Unparen(sel.X).(type) {
	case *ast.Ident, *ast.IndexExpr, *ast.CallExpr:
		if ns := a.lockNames(sel.X, fr); len(ns) > 0 {
			return sel.Sel.Name, ns
		}
	}
	return "", nil
}

// ---------------------------------------------------------------------------------------------- lock sequences

// collectSeqBindings finds slice-of-mutex struct fields bound by composite literals.
func (a *analyzer) collectSeqBindings(files []*ast.File) {
	for _, f := range files {
		ast.Inspect(f, func(n ast.Node) bool {
			x, ok := n.(*ast.CompositeLit)
			if !ok {
				return true
			}
			tv, ok := a.info.Types[x]
			if !ok || tv.Type == nil {
				return true
			}
			t := tv.Type
			if p, ok := t.Underlying().(*types.Pointer); ok {
				t = p.Elem()
			}
			st, ok := t.Underlying().(*types.Struct)
			if !ok {
				return true
			}
			note := func(field *types.Var, v ast.Expr) {
				if !isMutexSeqType(field.Type()) {
					return
				}
				lit, ok := ast.Unparen(v).(*ast.CompositeLit)
				if !ok {
					return
				}
				var seq [][]string
				for _, el := range lit.Elts {
					ns := a.lockNames(el, nil)
					if len(ns) == 0 {
						ns = []string{"expr@" + a.pos(el.Pos())}
					}
					seq = append(seq, ns)
				}
				a.group.seqBind[field] = append(a.group.seqBind[field], seq)
			}
			for i, el := range x.Elts {
				if kv, ok := el.(*ast.KeyValueExpr); ok {
					if k, ok := kv.Key.(*ast.Ident); ok {
						for j := 0; j < st.NumFields(); j++ {
							if st.Field(j).Name() == k.Name {
								note(st.Field(j), kv.Value)
							}
						}
					}
				} else if i < st.NumFields() {
					note(st.Field(i), el)
				}
			}
			return true
		})
	}
}

// groupRange unrolls `for _, lk := range <bound lock sequence> { body }` in the bound order.
func (a *analyzer) groupRange(x *ast.RangeStmt, held heldSet, fr *frame) (heldSet, bool) {
	sel, ok := ast.Unparen(x.X).(*ast.SelectorExpr)
	if !ok {
		return held, false
	}
	fs, ok := a.info.Selections[sel]
	if !ok || fs.Kind() != types.FieldVal {
		return held, false
	}
	field, ok := fs.Obj().(*types.Var)
	if !ok {
		return held, false
	}
	seqs := a.group.seqBind[field]
	if len(seqs) == 0 {
		return held, false
	}
	var val *types.Var
	if id, ok := x.Value.(*ast.Ident); ok && id.Name != "_" {
		val, _ = a.info.Defs[id].(*types.Var)
	}
	if val == nil {
		return held, false
	}
	var out heldSet
	for _, seq := range seqs {
		h := held.copy()
		for _, names := range seq {
			if fr.aliases == nil {
				fr.aliases = map[*types.Var][]string{}
			}
			fr.aliases[val] = names
			nh, term := a.block(x.Body.List, h, fr)
			if term {
				break
			}
			h = nh
		}
		if out == nil {
			out = h
		} else {
			out = union(out, h)
		}
	}
	return out, true
}

// ---------------------------------------------------------------------------------------------- call targets

// methodsNamed: concrete methods of the group with that name (interfaces have no bodies, so they are not in decls).
func (a *analyzer) methodsNamed(name string, nargs int) []callee {
	var out []callee
	for _, f := range a.group.byName[name] {
		sig := f.Type().(*types.Signature)
		if sig.Params().Len() == nargs || sig.Variadic() {
			out = append(out, callee{fn: f})
		}
	}
	return out
}

// ownNamedOrInterface: the static type of a receiver is a type declared in the group, or an interface.
func (a *analyzer) ownReceiver(e ast.Expr) bool {
	tv, ok := a.info.Types[e]
	if !ok || tv.Type == nil {
		return false
	}
	t := tv.Type
	for {
		if p, ok := t.(*types.Pointer); ok {
			t = p.Elem()
			continue
		}
		break
	}
	if n, ok := t.(*types.Named); ok {
		return a.isOwn(n.Obj().Pkg())
	}
	_, isIface := t.Underlying().(*types.Interface)
	return isIface
}

// groupTargets resolves what main.go leaves opaque: interface calls, embedded-interface calls, function parameters.
func (a *analyzer) groupTargets(call *ast.CallExpr, fr *frame) ([]callee, bool) {
	switch x := ast.Unparen(call.Fun).(type) {
	case *ast.Ident:
		if v, ok := a.info.Uses[x].(*types.Var); ok {
			if cs, ok := a.group.paramBind[v]; ok {
				return cs, true
			}
		}
	case *ast.SelectorExpr:
		if f, ok := a.info.Uses[x.Sel].(*types.Func); ok {
			sig, _ := f.Type().(*types.Signature)
			if sig != nil && sig.Recv() != nil {
				if _, isIface := sig.Recv().Type().Underlying().(*types.Interface); isIface {
					if cs := a.methodsNamed(x.Sel.Name, len(call.Args)); len(cs) > 0 {
						return cs, true
					}
				}
			}
			return nil, false
		}
		if _, ok := a.info.Uses[x.Sel].(*types.Var); ok {
			return nil, false
		}
		// method lookup failed: the receiver's type (or the embedded interface that declares the method) comes from a
		// faked import, e.g. the value returned by the generic third-party LRU (ac, ok := bc.cache.Get(h); ac.close()).
		// Resolve by name: an unexported method can only be one declared in the calling package; an exported one
		// may be any method of that name in the group (superset).  pkg.Func of a faked package stays opaque.
		if a.info.Uses[x.Sel] == nil {
			if a.thirdParty(x.X, 0) {
				return nil, false
			}
			cs := a.methodsNamed(x.Sel.Name, len(call.Args))
			if !ast.IsExported(x.Sel.Name) {
				here := a.group.filePkg[a.fset.Position(call.Pos()).Filename]
				var same []callee
				for _, c := range cs {
					if c.fn.Pkg() == here {
						same = append(same, c)
					}
				}
				cs = same
			}
			if len(cs) > 0 {
				return cs, true
			}
		}
	}
	return nil, false
}

// returnedFuncs: function literals / functions of the group that a function returns.
func (a *analyzer) returnedFuncs(fn *types.Func) []callee {
	fd := a.decls[fn]
	if fd == nil {
		return nil
	}
	var out []callee
	ast.Inspect(fd.Body, func(n ast.Node) bool {
		switch s := n.(type) {
		case *ast.FuncLit:
			return false
		case *ast.ReturnStmt:
			for _, r := range s.Results {
				if c, ok := a.resolve(r); ok {
					out = append(out, c)
				}
			}
		}
		return true
	})
	return out
}

// collectParamBindings: which functions reach a function-typed parameter, over all call sites of the group.
func (a *analyzer) collectParamBindings(files []*ast.File) {
	paramOf := map[*types.Var]bool{}
	for fn := range a.decls {
		sig := fn.Type().(*types.Signature)
		for i := 0; i < sig.Params().Len(); i++ {
			if isFuncType(sig.Params().At(i).Type()) {
				paramOf[sig.Params().At(i)] = true
			}
		}
	}
	type passthrough struct{ from, to *types.Var }
	var flows []passthrough
	add := func(p *types.Var, c callee) bool {
		for _, x := range a.group.paramBind[p] {
			if x == c {
				return false
			}
		}
		a.group.paramBind[p] = append(a.group.paramBind[p], c)
		return true
	}
	for _, f := range files {
		ast.Inspect(f, func(n ast.Node) bool {
			call, ok := n.(*ast.CallExpr)
			if !ok {
				return true
			}
			var targets []callee
			if c, ok := a.resolve(call.Fun); ok && c.fn != nil {
				if sig := c.fn.Type().(*types.Signature); sig.Recv() != nil {
					if _, isIface := sig.Recv().Type().Underlying().(*types.Interface); isIface {
						targets = a.methodsNamed(c.fn.Name(), len(call.Args))
					} else {
						targets = []callee{c}
					}
				} else {
					targets = []callee{c}
				}
			} else if cs, ok := a.groupTargets(call, nil); ok {
				targets = cs
			}
			for _, t := range targets {
				if t.fn == nil || a.decls[t.fn] == nil {
					continue
				}
				sig := t.fn.Type().(*types.Signature)
				for i, arg := range call.Args {
					if i >= sig.Params().Len() || !paramOf[sig.Params().At(i)] {
						continue
					}
					p := sig.Params().At(i)
					arg = ast.Unparen(arg)
					if c, ok := a.resolve(arg); ok {
						add(p, c)
						continue
					}
					switch y := arg.(type) {
					case *ast.CallExpr:
						if c, ok := a.resolve(y.Fun); ok && c.fn != nil {
							for _, r := range a.returnedFuncs(c.fn) {
								add(p, r)
							}
						}
					case *ast.Ident:
						if v, ok := a.info.Uses[y].(*types.Var); ok && paramOf[v] {
							flows = append(flows, passthrough{v, p})
						}
					}
				}
			}
			return true
		})
	}
	for changed := true; changed; {
		changed = false
		for _, fl := range flows {
			for _, c := range a.group.paramBind[fl.from] {
				if add(fl.to, c) {
					changed = true
				}
			}
		}
	}
}

// ---------------------------------------------------------------------------------------------- third-party values

// collectDefs records, for fields, parameters and local variables, the type as written or the defining expression.
// With faked imports the type checker cannot type values that come from third-party packages; the syntax still tells
// that `file *os.File`, `cache *lru.Cache[uint64, *accessor]`, `f, err := os.OpenFile(..)` are third-party values, whose
// methods cannot be methods of the group.
func (a *analyzer) collectDefs(files []*ast.File) {
	g := a.group
	field := func(fl *ast.FieldList) {
		if fl == nil {
			return
		}
		for _, f := range fl.List {
			for _, n := range f.Names {
				if v, ok := a.info.Defs[n].(*types.Var); ok {
					g.typeAST[v] = f.Type
				}
			}
		}
	}
	for _, f := range files {
		ast.Inspect(f, func(n ast.Node) bool {
			switch x := n.(type) {
			case *ast.StructType:
				field(x.Fields)
			case *ast.FuncType:
				field(x.Params)
				field(x.Results)
			case *ast.FuncDecl:
				field(x.Recv)
			case *ast.ValueSpec:
				for i, n := range x.Names {
					v, ok := a.info.Defs[n].(*types.Var)
					if !ok {
						continue
					}
					if x.Type != nil {
						g.typeAST[v] = x.Type
					} else if len(x.Values) == len(x.Names) {
						g.initAST[v] = x.Values[i]
					} else if len(x.Values) == 1 {
						g.initAST[v] = x.Values[0]
					}
				}
			case *ast.AssignStmt:
				if x.Tok != token.DEFINE {
					return true
				}
				for i, l := range x.Lhs {
					id, ok := l.(*ast.Ident)
					if !ok {
						continue
					}
					v, ok := a.info.Defs[id].(*types.Var)
					if !ok {
						continue
					}
					if len(x.Rhs) == len(x.Lhs) {
						g.initAST[v] = x.Rhs[i]
					} else if len(x.Rhs) == 1 {
						g.initAST[v] = x.Rhs[0]
					}
				}
			}
			return true
		})
	}
}

func (a *analyzer) foreignPkgIdent(e ast.Expr) bool {
	id, ok := ast.Unparen(e).(*ast.Ident)
	if !ok {
		return false
	}
	pn, ok := a.info.Uses[id].(*types.PkgName)
	return ok && !a.isOwn(pn.Imported())
}

// thirdPartyType: the written type is (a pointer to / slice of / instantiation of) pkg.T for a package outside the group,
// or the predeclared error type.
func (a *analyzer) thirdPartyType(t ast.Expr) bool {
	for {
		switch x := t.(type) {
		case *ast.StarExpr:
			t = x.X
			continue
		case *ast.ParenExpr:
			t = x.X
			continue
		case *ast.ArrayType:
			t = x.Elt
			continue
		case *ast.Ellipsis:
			t = x.Elt
			continue
		case *ast.IndexExpr:
			t = x.X
			continue
		case *ast.IndexListExpr:
			t = x.X
			continue
		case *ast.SelectorExpr:
			return a.foreignPkgIdent(x.X)
		case *ast.Ident:
			return x.Name == "error" && a.info.Uses[x] == types.Universe.Lookup("error")
		}
		return false
	}
}

// thirdParty: the expression certainly denotes a package outside the group or a value of a type declared outside it.
func (a *analyzer) thirdParty(e ast.Expr, depth int) bool {
	if depth > 8 {
		return false
	}
	switch x := ast.Unparen(e).(type) {
	case *ast.Ident:
		if a.foreignPkgIdent(x) {
			return true
		}
		if v, ok := a.info.Uses[x].(*types.Var); ok {
			if t, ok := a.group.typeAST[v]; ok {
				return a.thirdPartyType(t)
			}
			if in, ok := a.group.initAST[v]; ok {
				return a.thirdParty(in, depth+1)
			}
		}
	case *ast.SelectorExpr:
		if a.foreignPkgIdent(x.X) {
			return true // pkg.Var
		}
		if fs, ok := a.info.Selections[x]; ok && fs.Kind() == types.FieldVal {
			if v, ok := fs.Obj().(*types.Var); ok {
				if t, ok := a.group.typeAST[v]; ok {
					return a.thirdPartyType(t)
				}
			}
		}
	case *ast.CallExpr:
		// the result of pkg.Func(..) of a package outside the group (os.OpenFile, bufio.NewWriterSize, ...); the
		// result of a METHOD of a third-party value is left undecided (a generic container returns the group's values)
		if sel, ok := ast.Unparen(x.Fun).(*ast.SelectorExpr); ok && a.foreignPkgIdent(sel.X) {
			return true
		}
	case *ast.StarExpr:
		return a.thirdParty(x.X, depth+1)
	case *ast.UnaryExpr:
		return a.thirdParty(x.X, depth+1)
	case *ast.TypeAssertExpr:
		if x.Type != nil {
			return a.thirdPartyType(x.Type)
		}
	}
	return false
}

// ---------------------------------------------------------------------------------------------- output

func (a *analyzer) renderGroup(name string) string {
	s := a.render(strings.Join(a.group.dirs, " + "))
	var b strings.Builder
	b.WriteString(s)
	var ws []string
	for w := range a.group.waits {
		ws = append(ws, w)
	}
	sort.Strings(ws)
	b.WriteString("\n(** channel waits recorded as pseudo locks (a receive from a channel kept in a struct field) *)\n")
	b.WriteString("Definition waits : list string := [")
	for i, w := range ws {
		if i > 0 {
			b.WriteString("; ")
		}
		b.WriteString(coqString(w))
	}
	b.WriteString("].\n\n")
	var ps []string
	for p, cs := range a.group.paramBind {
		for _, c := range cs {
			ps = append(ps, p.Name()+" := "+a.calleeName(c))
		}
	}
	sort.Strings(ps)
	ps = dedup(ps)
	b.WriteString("(* function-typed parameters resolved: " + comment(strings.Join(ps, "; ")) + " *)\n")
	var qs []string
	for f, seqs := range a.group.seqBind {
		for _, seq := range seqs {
			var els []string
			for _, ns := range seq {
				els = append(els, strings.Join(ns, "|"))
			}
			qs = append(qs, f.Name()+" := ["+strings.Join(els, ", ")+"]")
		}
	}
	sort.Strings(qs)
	b.WriteString("(* ordered lock sequences resolved: " + comment(strings.Join(qs, "; ")) + " *)\n")
	return b.String()
}

func dedup(xs []string) []string {
	var out []string
	for i, x := range xs {
		if i == 0 || xs[i-1] != x {
			out = append(out, x)
		}
	}
	return out
}

module verif/translators/perms

go 1.22

// Translator T-perms (property C19): regenerates coq/theories/Gen/RpcTable.v from the working tree of celestia-node.
//
// What is read, and how it is found (nothing but the entry points below is hard-coded):
//
//   - every call  <x>.RegisterService("<namespace>", <service>, &<pkg>.<T>{})  in any non-test Go file of the repo
//     (today: nodebuilder/rpc/constructors.go registerEndpoints) -> the list of registered modules;
//   - for each registered <pkg>.<T>: the struct type <T> in that package: its field `Internal struct{...}` (one table
//     row per field: name, raw `perm` tag, signature) and every other field of <T> (a second embedded struct would
//     promote methods); every exported method declared on <T> / *<T> in the package with the Internal field its body
//     forwards to (go-jsonrpc registers the wrapper's METHODS, auth.PermissionedProxy fills only Internal's FIELDS);
//   - api/rpc/client/client.go: the Client struct and moduleMap -> what a client can address;
//   - api/rpc/perms/permissions.go: every package-level `X = []auth.Permission{...}`;
//   - api/rpc/server.go: the two permission sets handed to auth.PermissionedProxy, the set returned by verifyAuth when
//     authentication is disabled, and which value RegisterService registers in each mode.
//
// Only the standard library is used (go/ast, go/parser, go/printer). Any construct the translator does not understand is
// an error (exit 1): the check then reports the translator as broken instead of silently dropping a method.
package main

import (
	"bytes"
	"flag"
	"fmt"
	"go/ast"
	"go/parser"
	"go/printer"
	"go/token"
	"os"
	"path/filepath"
	"reflect"
	"sort"
	"strconv"
	"strings"
)

var fset = token.NewFileSet()

func fatalf(f string, a ...any) {
	fmt.Fprintf(os.Stderr, "perms translator: "+f+"\n", a...)
	os.Exit(1)
}

type registration struct {
	Namespace string
	PkgPath   string // import path
	Dir       string // directory relative to the repo
	Type      string
	File      string
	Service   string // rendered service argument
}

type method struct {
	Module   string
	Name     string
	HasTag   bool
	Tag      string
	IsFunc   bool
	HasCtx   bool
	Params   []string
	Results  []string
	RetTx    bool
	RetChan  bool
	Variadic bool
}

type wrapper struct {
	Module  string
	Name    string
	PtrRecv bool
	Forward string // Internal field the body forwards to ("" = body is not a plain forwarding call)
	ArgsOK  bool   // the call passes exactly the method's parameters, in order
}

func main() {
	repo := flag.String("repo", "/repo", "celestia-node checkout")
	out := flag.String("out", "", "output directory")
	flag.Parse()
	if *out == "" {
		fatalf("-out required")
	}
	modPath := modulePath(*repo)

	regs := findRegistrations(*repo, modPath)
	if len(regs) == 0 {
		fatalf("no RegisterService call found under %s", *repo)
	}
	var methods []method
	var wrappers []wrapper
	var extra [][2]string
	for _, r := range regs {
		ms, ws, ex := readAPI(*repo, r)
		methods = append(methods, ms...)
		wrappers = append(wrappers, ws...)
		extra = append(extra, ex...)
	}
	clientMods := readClient(*repo, modPath)
	permSets := readPermSets(*repo)
	srv := readServer(*repo)

	var b strings.Builder
	b.WriteString("(* GENERATED on every run by /verif/translators/perms from the working tree of celestia-node. Do not edit. *)\n")
	b.WriteString("From Coq Require Import String List.\nFrom CN Require Import Rpc.Table.\nImport ListNotations.\nOpen Scope string_scope.\n\n")

	b.WriteString("(* namespace, package directory, wrapper struct, as passed to RegisterService *)\n")
	b.WriteString("Definition registered : list registration := [\n")
	for i, r := range regs {
		sep(&b, i)
		fmt.Fprintf(&b, "  mk_registration %s %s %s", q(r.Namespace), q(r.Dir), q(r.Type))
	}
	b.WriteString("\n].\n\n")

	b.WriteString("(* one row per field of <T>.Internal *)\n")
	b.WriteString("Definition methods : list method := [\n")
	for i, m := range methods {
		sep(&b, i)
		tag := "None"
		if m.HasTag {
			tag = "(Some " + q(m.Tag) + ")"
		}
		fmt.Fprintf(&b, "  mk_method %s %s %s %s %s %s %s %s %s", q(m.Module), q(m.Name), tag, bl(m.IsFunc), bl(m.HasCtx),
			ql(m.Params), ql(m.Results), bl(m.RetTx), bl(m.RetChan))
	}
	b.WriteString("\n].\n\n")

	b.WriteString("(* one row per exported method declared on the wrapper struct *)\n")
	b.WriteString("Definition wrappers : list wrapper := [\n")
	for i, w := range wrappers {
		sep(&b, i)
		fw := "None"
		if w.Forward != "" {
			fw = "(Some " + q(w.Forward) + ")"
		}
		fmt.Fprintf(&b, "  mk_wrapper %s %s %s %s %s", q(w.Module), q(w.Name), bl(w.PtrRecv), fw, bl(w.ArgsOK))
	}
	b.WriteString("\n].\n\n")

	b.WriteString("(* fields of a wrapper struct other than Internal (module, field or embedded type) *)\n")
	b.WriteString("Definition extra_fields : list (string * string) := [")
	for i, e := range extra {
		if i > 0 {
			b.WriteString("; ")
		}
		fmt.Fprintf(&b, "(%s, %s)", q(e[0]), q(e[1]))
	}
	b.WriteString("].\n\n")

	b.WriteString("(* api/rpc/client: namespace -> package directory, struct of the Client field whose Internal is mapped *)\n")
	b.WriteString("Definition client_modules : list registration := [\n")
	for i, r := range clientMods {
		sep(&b, i)
		fmt.Fprintf(&b, "  mk_registration %s %s %s", q(r.Namespace), q(r.Dir), q(r.Type))
	}
	b.WriteString("\n].\n\n")

	b.WriteString("(* api/rpc/perms/permissions.go *)\n")
	b.WriteString("Definition perm_sets : list (string * list string) := [\n")
	for i, ps := range permSets {
		sep(&b, i)
		fmt.Fprintf(&b, "  (%s, %s)", q(ps.Name), ql(ps.Perms))
	}
	b.WriteString("\n].\n\n")

	b.WriteString("(* api/rpc/server.go *)\n")
	fmt.Fprintf(&b, "Definition proxy_valid_set : string := %s.\n", q(srv.ProxyValid))
	fmt.Fprintf(&b, "Definition proxy_default_set : string := %s.\n", q(srv.ProxyDefault))
	fmt.Fprintf(&b, "Definition auth_disabled_set : string := %s.\n", q(srv.DisabledSet))
	fmt.Fprintf(&b, "Definition auth_disabled_registers_service : bool := %s.\n", bl(srv.DisabledRegistersService))
	fmt.Fprintf(&b, "Definition auth_enabled_registers_proxy : bool := %s.\n", bl(srv.EnabledRegistersOut))
	fmt.Fprintf(&b, "Definition auth_enabled_proxies_internal : bool := %s.\n", bl(srv.ProxiesInternal))
	fmt.Fprintf(&b, "Definition auth_handler_skipped_only_when_disabled : bool := %s.\n", bl(srv.HandlerOK))

	if err := os.MkdirAll(*out, 0o755); err != nil {
		fatalf("%v", err)
	}
	if err := os.WriteFile(filepath.Join(*out, "RpcTable.v"), []byte(b.String()), 0o644); err != nil {
		fatalf("%v", err)
	}
	fmt.Printf("perms: %d registrations, %d methods, %d wrapper methods, %d permission sets\n", len(regs), len(methods), len(wrappers), len(permSets))
}

func sep(b *strings.Builder, i int) {
	if i > 0 {
		b.WriteString(";\n")
	}
}

func q(s string) string { return `"` + strings.ReplaceAll(s, `"`, `""`) + `"` }

func ql(xs []string) string {
	ys := make([]string, len(xs))
	for i, x := range xs {
		ys[i] = q(x)
	}
	return "[" + strings.Join(ys, "; ") + "]"
}

func bl(b bool) string {
	if b {
		return "true"
	}
	return "false"
}

func modulePath(repo string) string {
	b, err := os.ReadFile(filepath.Join(repo, "go.mod"))
	if err != nil {
		fatalf("%v", err)
	}
	for _, l := range strings.Split(string(b), "\n") {
		l = strings.TrimSpace(l)
		if strings.HasPrefix(l, "module ") {
			return strings.TrimSpace(strings.TrimPrefix(l, "module "))
		}
	}
	fatalf("no module line in go.mod")
	return ""
}

func render(n ast.Node) string {
	var buf bytes.Buffer
	if err := printer.Fprint(&buf, fset, n); err != nil {
		fatalf("print: %v", err)
	}
	return strings.Join(strings.Fields(buf.String()), " ")
}

// imports maps the local name of every import of f to its path.
func imports(f *ast.File) map[string]string {
	m := map[string]string{}
	for _, is := range f.Imports {
		p, _ := strconv.Unquote(is.Path.Value)
		name := ""
		if is.Name != nil {
			name = is.Name.Name
		} else {
			parts := strings.Split(p, "/")
			name = parts[len(parts)-1]
			if len(parts) > 1 && len(name) > 1 && name[0] == 'v' && strings.Trim(name[1:], "0123456789") == "" {
				name = parts[len(parts)-2]
			}
		}
		m[name] = p
	}
	return m
}

func goFiles(dir string) []string {
	es, err := os.ReadDir(dir)
	if err != nil {
		fatalf("%v", err)
	}
	var fs []string
	for _, e := range es {
		n := e.Name()
		if e.IsDir() || !strings.HasSuffix(n, ".go") || strings.HasSuffix(n, "_test.go") || strings.HasPrefix(n, "zz_verif_") {
			continue
		}
		fs = append(fs, filepath.Join(dir, n))
	}
	sort.Strings(fs)
	return fs
}

func parse(path string) *ast.File {
	f, err := parser.ParseFile(fset, path, nil, parser.SkipObjectResolution)
	if err != nil {
		fatalf("parse %s: %v", path, err)
	}
	return f
}

// ------------------------------------------------------------------------------------------- registrations

func findRegistrations(repo, modPath string) []registration {
	var regs []registration
	var files []string
	err := filepath.WalkDir(repo, func(p string, d os.DirEntry, err error) error {
		if err != nil {
			return err
		}
		n := d.Name()
		if d.IsDir() {
			if p != repo && (strings.HasPrefix(n, ".") || n == "vendor" || n == "testdata" || n == "node_modules") {
				return filepath.SkipDir
			}
			return nil
		}
		if strings.HasSuffix(n, ".go") && !strings.HasSuffix(n, "_test.go") && !strings.HasPrefix(n, "zz_verif_") {
			files = append(files, p)
		}
		return nil
	})
	if err != nil {
		fatalf("walk: %v", err)
	}
	sort.Strings(files)
	for _, p := range files {
		src, err := os.ReadFile(p)
		if err != nil {
			fatalf("%v", err)
		}
		if !bytes.Contains(src, []byte("RegisterService")) {
			continue
		}
		f := parse(p)
		imps := imports(f)
		rel, _ := filepath.Rel(repo, p)
		ast.Inspect(f, func(n ast.Node) bool {
			c, ok := n.(*ast.CallExpr)
			if !ok {
				return true
			}
			sel, ok := c.Fun.(*ast.SelectorExpr)
			if !ok || sel.Sel.Name != "RegisterService" {
				return true
			}
			if len(c.Args) != 3 {
				fatalf("%s: RegisterService with %d arguments", fset.Position(c.Pos()), len(c.Args))
			}
			lit, ok := c.Args[0].(*ast.BasicLit)
			if !ok || lit.Kind != token.STRING {
				fatalf("%s: RegisterService namespace is not a string literal", fset.Position(c.Pos()))
			}
			ns, _ := strconv.Unquote(lit.Value)
			un, ok := c.Args[2].(*ast.UnaryExpr)
			if !ok || un.Op != token.AND {
				fatalf("%s: RegisterService third argument is not &pkg.T{}", fset.Position(c.Pos()))
			}
			cl, ok := un.X.(*ast.CompositeLit)
			if !ok || len(cl.Elts) != 0 {
				fatalf("%s: RegisterService third argument is not an empty composite literal", fset.Position(c.Pos()))
			}
			r := registration{Namespace: ns, File: rel, Service: render(c.Args[1])}
			switch t := cl.Type.(type) {
			case *ast.SelectorExpr:
				pk, ok := t.X.(*ast.Ident)
				if !ok {
					fatalf("%s: unsupported type expression", fset.Position(c.Pos()))
				}
				path, ok := imps[pk.Name]
				if !ok {
					fatalf("%s: unknown package %s", fset.Position(c.Pos()), pk.Name)
				}
				r.PkgPath, r.Type = path, t.Sel.Name
			case *ast.Ident:
				r.PkgPath, r.Type = modPath+"/"+filepath.ToSlash(filepath.Dir(rel)), t.Name
			default:
				fatalf("%s: unsupported type expression", fset.Position(c.Pos()))
			}
			if r.PkgPath != modPath && !strings.HasPrefix(r.PkgPath, modPath+"/") {
				fatalf("%s: registered API %s.%s lives outside the module", fset.Position(c.Pos()), r.PkgPath, r.Type)
			}
			r.Dir = strings.TrimPrefix(strings.TrimPrefix(r.PkgPath, modPath), "/")
			regs = append(regs, r)
			return true
		})
	}
	return regs
}

// ------------------------------------------------------------------------------------------- API structs

func readAPI(repo string, r registration) (ms []method, ws []wrapper, extra [][2]string) {
	dir := filepath.Join(repo, filepath.FromSlash(r.Dir))
	var files []*ast.File
	for _, p := range goFiles(dir) {
		files = append(files, parse(p))
	}
	found := false
	for _, f := range files {
		for _, d := range f.Decls {
			gd, ok := d.(*ast.GenDecl)
			if !ok || gd.Tok != token.TYPE {
				continue
			}
			for _, sp := range gd.Specs {
				ts := sp.(*ast.TypeSpec)
				if ts.Name.Name != r.Type {
					continue
				}
				st, ok := ts.Type.(*ast.StructType)
				if !ok {
					fatalf("%s: %s.%s is not a struct type", fset.Position(ts.Pos()), r.Dir, r.Type)
				}
				if found {
					fatalf("%s: %s.%s declared twice", fset.Position(ts.Pos()), r.Dir, r.Type)
				}
				found = true
				hasInternal := false
				for _, fld := range st.Fields.List {
					names := fieldNames(fld)
					for _, n := range names {
						if n != "Internal" {
							extra = append(extra, [2]string{r.Namespace, n + " " + render(fld.Type)})
							continue
						}
						ist, ok := fld.Type.(*ast.StructType)
						if !ok {
							fatalf("%s: %s.%s.Internal is not an inline struct", fset.Position(fld.Pos()), r.Dir, r.Type)
						}
						hasInternal = true
						ms = append(ms, internalFields(r.Namespace, ist)...)
					}
				}
				if !hasInternal {
					fatalf("%s: %s.%s has no Internal field", fset.Position(ts.Pos()), r.Dir, r.Type)
				}
			}
		}
	}
	if !found {
		fatalf("type %s not found in %s", r.Type, r.Dir)
	}
	for _, f := range files {
		for _, d := range f.Decls {
			fd, ok := d.(*ast.FuncDecl)
			if !ok || fd.Recv == nil || len(fd.Recv.List) != 1 {
				continue
			}
			rt := fd.Recv.List[0].Type
			ptr := false
			if s, ok := rt.(*ast.StarExpr); ok {
				ptr = true
				rt = s.X
			}
			id, ok := rt.(*ast.Ident)
			if !ok || id.Name != r.Type || !fd.Name.IsExported() {
				continue
			}
			w := wrapper{Module: r.Namespace, Name: fd.Name.Name, PtrRecv: ptr}
			recv := ""
			if len(fd.Recv.List[0].Names) == 1 {
				recv = fd.Recv.List[0].Names[0].Name
			}
			w.Forward, w.ArgsOK = forwardTarget(fd, recv)
			ws = append(ws, w)
		}
	}
	return ms, ws, extra
}

func fieldNames(f *ast.Field) []string {
	if len(f.Names) == 0 {
		// embedded field: its name is the type name
		t := f.Type
		if s, ok := t.(*ast.StarExpr); ok {
			t = s.X
		}
		switch x := t.(type) {
		case *ast.Ident:
			return []string{x.Name}
		case *ast.SelectorExpr:
			return []string{x.Sel.Name}
		}
		return []string{render(f.Type)}
	}
	var ns []string
	for _, n := range f.Names {
		ns = append(ns, n.Name)
	}
	return ns
}

func internalFields(module string, st *ast.StructType) []method {
	var ms []method
	for _, fld := range st.Fields.List {
		for _, name := range fieldNames(fld) {
			m := method{Module: module, Name: name}
			if fld.Tag != nil {
				raw, err := strconv.Unquote(fld.Tag.Value)
				if err != nil {
					fatalf("%s: bad struct tag", fset.Position(fld.Pos()))
				}
				// exactly what auth.PermissionedProxy does: field.Tag.Get("perm"); "" counts as missing
				v, ok := reflect.StructTag(raw).Lookup("perm")
				if ok && v != "" {
					m.HasTag, m.Tag = true, v
				}
			}
			ft, ok := fld.Type.(*ast.FuncType)
			if ok {
				m.IsFunc = true
				ps := expand(ft.Params)
				if len(ps) > 0 && ps[0] == "context.Context" {
					m.HasCtx = true
					ps = ps[1:]
				}
				m.Params = ps
				m.Results = expand(ft.Results)
				for _, r := range m.Results {
					if strings.Contains(r, "TxResponse") {
						m.RetTx = true
					}
					if strings.HasPrefix(r, "<-chan") || strings.HasPrefix(r, "chan") {
						m.RetChan = true
					}
				}
			} else {
				m.Results = []string{render(fld.Type)}
			}
			ms = append(ms, m)
		}
	}
	return ms
}

func expand(fl *ast.FieldList) []string {
	if fl == nil {
		return nil
	}
	var out []string
	for _, f := range fl.List {
		t := render(f.Type)
		n := len(f.Names)
		if n == 0 {
			n = 1
		}
		for i := 0; i < n; i++ {
			out = append(out, t)
		}
	}
	return out
}

// forwardTarget recognises bodies of the form `return recv.Internal.X(args...)` / `recv.Internal.X(args...)`.
func forwardTarget(fd *ast.FuncDecl, recv string) (string, bool) {
	if fd.Body == nil || len(fd.Body.List) != 1 || recv == "" {
		return "", false
	}
	var call *ast.CallExpr
	switch s := fd.Body.List[0].(type) {
	case *ast.ReturnStmt:
		if len(s.Results) == 1 {
			call, _ = s.Results[0].(*ast.CallExpr)
		}
	case *ast.ExprStmt:
		call, _ = s.X.(*ast.CallExpr)
	}
	if call == nil {
		return "", false
	}
	sel, ok := call.Fun.(*ast.SelectorExpr)
	if !ok {
		return "", false
	}
	in, ok := sel.X.(*ast.SelectorExpr)
	if !ok || in.Sel.Name != "Internal" {
		return "", false
	}
	id, ok := in.X.(*ast.Ident)
	if !ok || id.Name != recv {
		return "", false
	}
	// arguments = the parameters in order
	var params []string
	for _, f := range fd.Type.Params.List {
		if len(f.Names) == 0 {
			return sel.Sel.Name, false
		}
		for _, n := range f.Names {
			params = append(params, n.Name)
		}
	}
	if len(params) != len(call.Args) {
		return sel.Sel.Name, false
	}
	for i, a := range call.Args {
		ai, ok := a.(*ast.Ident)
		if !ok || ai.Name != params[i] || ai.Name == "_" {
			return sel.Sel.Name, false
		}
	}
	return sel.Sel.Name, true
}

// ------------------------------------------------------------------------------------------- client

func readClient(repo, modPath string) []registration {
	p := filepath.Join(repo, "api", "rpc", "client", "client.go")
	f := parse(p)
	imps := imports(f)
	fields := map[string][2]string{} // Client field -> (dir, type)
	var mapLit *ast.CompositeLit
	for _, d := range f.Decls {
		switch x := d.(type) {
		case *ast.GenDecl:
			if x.Tok != token.TYPE {
				continue
			}
			for _, sp := range x.Specs {
				ts := sp.(*ast.TypeSpec)
				st, ok := ts.Type.(*ast.StructType)
				if ts.Name.Name != "Client" || !ok {
					continue
				}
				for _, fld := range st.Fields.List {
					se, ok := fld.Type.(*ast.SelectorExpr)
					if !ok {
						continue
					}
					pk, ok := se.X.(*ast.Ident)
					if !ok {
						continue
					}
					path, ok := imps[pk.Name]
					if !ok || !strings.HasPrefix(path, modPath+"/") {
						continue
					}
					for _, n := range fld.Names {
						fields[n.Name] = [2]string{strings.TrimPrefix(path, modPath+"/"), se.Sel.Name}
					}
				}
			}
		case *ast.FuncDecl:
			if x.Name.Name != "moduleMap" || x.Body == nil {
				continue
			}
			ast.Inspect(x.Body, func(n ast.Node) bool {
				if cl, ok := n.(*ast.CompositeLit); ok {
					if _, ok := cl.Type.(*ast.MapType); ok && mapLit == nil {
						mapLit = cl
					}
				}
				return true
			})
		}
	}
	if mapLit == nil {
		fatalf("%s: moduleMap map literal not found", p)
	}
	var out []registration
	for _, e := range mapLit.Elts {
		kv, ok := e.(*ast.KeyValueExpr)
		if !ok {
			fatalf("%s: unexpected moduleMap element", fset.Position(e.Pos()))
		}
		lit, ok := kv.Key.(*ast.BasicLit)
		if !ok {
			fatalf("%s: moduleMap key is not a literal", fset.Position(e.Pos()))
		}
		ns, _ := strconv.Unquote(lit.Value)
		// &client.<Field>.Internal
		un, ok := kv.Value.(*ast.UnaryExpr)
		if !ok || un.Op != token.AND {
			fatalf("%s: moduleMap value is not &client.X.Internal", fset.Position(e.Pos()))
		}
		s1, ok := un.X.(*ast.SelectorExpr)
		if !ok || s1.Sel.Name != "Internal" {
			fatalf("%s: moduleMap value is not &client.X.Internal", fset.Position(e.Pos()))
		}
		s2, ok := s1.X.(*ast.SelectorExpr)
		if !ok {
			fatalf("%s: moduleMap value is not &client.X.Internal", fset.Position(e.Pos()))
		}
		fl, ok := fields[s2.Sel.Name]
		if !ok {
			fatalf("%s: Client has no module field %s", fset.Position(e.Pos()), s2.Sel.Name)
		}
		out = append(out, registration{Namespace: ns, Dir: fl[0], Type: fl[1]})
	}
	return out
}

// ------------------------------------------------------------------------------------------- permission sets

type permSet struct {
	Name  string
	Perms []string
}

func readPermSets(repo string) []permSet {
	dir := filepath.Join(repo, "api", "rpc", "perms")
	var out []permSet
	for _, p := range goFiles(dir) {
		f := parse(p)
		for _, d := range f.Decls {
			gd, ok := d.(*ast.GenDecl)
			if !ok || gd.Tok != token.VAR {
				continue
			}
			for _, sp := range gd.Specs {
				vs := sp.(*ast.ValueSpec)
				for i, n := range vs.Names {
					if i >= len(vs.Values) {
						continue
					}
					cl, ok := vs.Values[i].(*ast.CompositeLit)
					if !ok {
						continue
					}
					at, ok := cl.Type.(*ast.ArrayType)
					if !ok || at.Len != nil || render(at.Elt) != "auth.Permission" {
						continue
					}
					ps := permSet{Name: n.Name}
					for _, e := range cl.Elts {
						lit, ok := e.(*ast.BasicLit)
						if !ok || lit.Kind != token.STRING {
							fatalf("%s: permission set %s has a non-literal element", fset.Position(e.Pos()), n.Name)
						}
						s, _ := strconv.Unquote(lit.Value)
						ps.Perms = append(ps.Perms, s)
					}
					out = append(out, ps)
				}
			}
		}
	}
	if len(out) == 0 {
		fatalf("no []auth.Permission sets found in %s", dir)
	}
	return out
}

// ------------------------------------------------------------------------------------------- server.go

type serverFacts struct {
	ProxyValid, ProxyDefault, DisabledSet string
	DisabledRegistersService             bool // `if s.authDisabled { s.rpc.Register(namespace, service); return }`
	EnabledRegistersOut                  bool // otherwise: s.rpc.Register(namespace, out)
	ProxiesInternal                      bool // PermissionedProxy(..., service, getInternalStruct(out))
	HandlerOK                            bool // newHandlerStack: the only case that skips authHandler is `case s.authDisabled`
}

func permSetName(e ast.Expr) string {
	if s, ok := e.(*ast.SelectorExpr); ok {
		if id, ok := s.X.(*ast.Ident); ok && id.Name == "perms" {
			return s.Sel.Name
		}
	}
	return "?" + render(e)
}

func isAuthDisabledCond(e ast.Expr) bool {
	s, ok := e.(*ast.SelectorExpr)
	return ok && s.Sel.Name == "authDisabled"
}

func readServer(repo string) serverFacts {
	p := filepath.Join(repo, "api", "rpc", "server.go")
	f := parse(p)
	var sf serverFacts
	sf.ProxyValid, sf.ProxyDefault, sf.DisabledSet = "?", "?", "?"
	for _, d := range f.Decls {
		fd, ok := d.(*ast.FuncDecl)
		if !ok || fd.Body == nil {
			continue
		}
		switch fd.Name.Name {
		case "RegisterService":
			if len(fd.Type.Params.List) == 0 {
				continue
			}
			var pnames []string
			for _, pf := range fd.Type.Params.List {
				for _, n := range pf.Names {
					pnames = append(pnames, n.Name)
				}
			}
			if len(pnames) != 3 {
				fatalf("%s: RegisterService does not have 3 parameters", p)
			}
			nsP, svcP, outP := pnames[0], pnames[1], pnames[2]
			isReg := func(s ast.Stmt, arg string) bool {
				es, ok := s.(*ast.ExprStmt)
				if !ok {
					return false
				}
				c, ok := es.X.(*ast.CallExpr)
				if !ok || len(c.Args) != 2 {
					return false
				}
				sel, ok := c.Fun.(*ast.SelectorExpr)
				return ok && sel.Sel.Name == "Register" && render(c.Args[0]) == nsP && render(c.Args[1]) == arg
			}
			body := fd.Body.List
			if len(body) == 3 {
				if ifs, ok := body[0].(*ast.IfStmt); ok && ifs.Init == nil && ifs.Else == nil && isAuthDisabledCond(ifs.Cond) && len(ifs.Body.List) == 2 {
					_, isRet := ifs.Body.List[1].(*ast.ReturnStmt)
					sf.DisabledRegistersService = isRet && isReg(ifs.Body.List[0], svcP)
				}
				if es, ok := body[1].(*ast.ExprStmt); ok {
					if c, ok := es.X.(*ast.CallExpr); ok && render(c.Fun) == "auth.PermissionedProxy" && len(c.Args) == 4 {
						sf.ProxyValid, sf.ProxyDefault = permSetName(c.Args[0]), permSetName(c.Args[1])
						sf.ProxiesInternal = render(c.Args[2]) == svcP && render(c.Args[3]) == "getInternalStruct("+outP+")"
					}
				}
				sf.EnabledRegistersOut = isReg(body[2], outP)
			}
		case "verifyAuth":
			ast.Inspect(fd.Body, func(n ast.Node) bool {
				ifs, ok := n.(*ast.IfStmt)
				if !ok || !isAuthDisabledCond(ifs.Cond) || len(ifs.Body.List) != 1 {
					return true
				}
				if rs, ok := ifs.Body.List[0].(*ast.ReturnStmt); ok && len(rs.Results) == 2 {
					sf.DisabledSet = permSetName(rs.Results[0])
				}
				return true
			})
		case "newHandlerStack":
			// every case of the switch must wrap with authHandler unless its condition is s.authDisabled
			ok := false
			ast.Inspect(fd.Body, func(n ast.Node) bool {
				sw, isSw := n.(*ast.SwitchStmt)
				if !isSw || sw.Tag != nil {
					return true
				}
				ok = true
				for _, cc := range sw.Body.List {
					c := cc.(*ast.CaseClause)
					disabled := len(c.List) == 1 && isAuthDisabledCond(c.List[0])
					wraps := strings.Contains(render(&ast.BlockStmt{List: c.Body}), "authHandler(")
					if disabled == wraps {
						ok = false
					}
				}
				return false
			})
			sf.HandlerOK = ok
		}
	}
	return sf
}

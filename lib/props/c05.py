SPEC = dict(
    id="C05",
    props_file="Props/C05.v",
    harness=[dict(pkg="store", test="TestVerifC05", timeout=900, timeout_thorough=3000)],
    allowed_axioms=[],
    level_text=("Machine-checked theorems (Coq) over an executable model of the store's block format and of every read path: the ODS file "
                "(65-byte header with its exact byte layout, 90-byte roots, 512-byte shares up to the first tail-padding share) and the Q4 "
                "file are read back by byte offset exactly as the Go readers do (padding substituted past end of file); for every valid "
                "block (any width, any namespace layout, any amount of trailing padding incl. none / all-but-one / the empty block), every "
                "representation (in memory, ODS, ODS+Q4, Q4 pruned) and ANY history of requests on the accessor the store hands out "
                "(bounds validation + close-once + proofs cache as a memo + the ODS accessor's in-memory square cache) every sample, axis "
                "half, row/block namespace data, share range, Shares, streamed ODS, roots, data hash and size equals its meaning on the "
                "block; out-of-bounds arguments are refused after any history; the answer is representation independent. The erasure code "
                "is abstract (parity/recover with two completeness hypotheses, not used by the file-format theorems). The model is "
                "re-validated on every run against the real Store / CachedStore / store.Getter / bare accessors on a temp dir (read results "
                "as share ids, real file bytes cut into header bytes, roots and shares) and every read is compared with the rsmt2d square "
                "that was put and verified against its roots. Partial: NMT proof production is not modelled (proofs are verified by the "
                "implementation oracle only); the bare accessors (no wrappers) are in the executable model and under correspondence but "
                "their own Sample/RowNamespaceData producers have no theorem."),
    rule=("blocks: the empty block, widths 1,2,4 with every amount of trailing padding, widths 8,16 (quick) / 8,16 with eight paddings and 32 with three (thorough; the Coq evaluation is quadratic in the width, 64-wide squares only as designed wide squares) with sampled "
          "padding, 1-5 namespaces in runs; plus, in every tier, two 32-wide squares (thorough: also two 64-wide) with a designed layout: "
          "'long' = a namespace spanning 19..k-3 rows, '16+17' = one namespace spanning exactly 16 rows followed by one spanning exactly "
          "17 rows (eds.NamespaceData fans out over the rows of a namespace; histograms ns_rows_in_block / nd_rows show the 16 / 17 / >17 "
          "coverage). On the wide squares namespace data is requested for every namespace worth asking for (present, neighbours, extremes, "
          "reserved) on every representation and layer incl. store.Getter.GetNamespaceData and eds.NamespaceData over the bare accessors, "
          "row namespace data at the first / 16th / 17th / 18th / last row of each namespace, and 16 (thorough, 32-wide: 160) sampled other reads; "
          "every answer is compared row by row with the square that was put and verified against the roots (L3). Model cases of the wide "
          "squares in the quick tier: the file contents, every history on the ODS-only and Q4-pruned representations (every layer), one "
          "history on the in-memory and one on the ODS+Q4 representation; the remaining wide-square histories of the quick tier "
          "(in-memory cached/getter/plain, ODS+Q4 store/cached/plain, shared-store) are L3 ONLY (histogram l3_only_history) because the "
          "model evaluation of the parity quadrants of a 32-wide square costs 3-5 s per case; the thorough tier emits all of them for the 32-wide squares and applies the same "
          "restriction (and the 16-read budget) to the 64-wide ones, where one in-memory case costs about a minute. "
          "eds.NamespaceData over a bare accessor (no wrappers) is L3 only in every tier (the model has PNd on the wrapped accessor only). "
          "Each block is put with PutODSQ4 / PutODS and read as: recent-cache (rsmt2d), reopened ODS+Q4, "
          "Q4 pruned (RemoveQ4 or file deleted), ODS-only, through Store, CachedStore (second cache), store.Getter and the bare accessor, "
          "plus a shared store whose recent cache holds one block (previous block evicted to files). Requests: every sample coordinate, "
          "axis, row x namespace (present, neighbours, extremes, reserved, tail-padding and parity namespaces), namespace data, every "
          "share range for widths <= 4 (sampled above), Shares/Reader/roots/hash/size, plus out-of-bounds values (-1, size, size+1, "
          "2*size, 2^20, empty / inverted / overlong ranges). One case = one history of <= 24 requests on one accessor instance with the "
          "observed results, or the real .ods/.q4 file contents of one block; non-trivial = at least one request was served (or a file "
          "case); distinct = distinct Coq case term."),
    trusted_base=[
        "model Store/OdsFile.v + Store/ReadPaths.v hand-written after store/file/{header,ods,q4,ods_q4,square}.go, share/eds/{read,rsmt2d,proofs_cache,validation,close_once,nd}.go, share/shwap RangeNamespaceDataFromShares / RowNamespaceDataFromShares; tied by harness/store/zz_verif_c05_test.go whose observations are recomputed by the model inside Coq (vm_compute) on every run",
        "the erasure code (rsmt2d + Leopard) is abstract: parity/recover; the read-path theorems assume |parity x| = |x| and recover (parity x) = x; in the correspondence run parity is the table of the real codec's outputs for the axes of the block",
        "shares are opaque (dictionary id + namespace); share size 512 and root size 90 are constants of the model compared with the real file sizes each run",
        "NMT proof production (share/ipld proofs walk, nmt.ProveRange/ProveNamespace) is not modelled: every served sample / row / namespace data / range is verified against the block's roots by the real Verify functions in the harness (L3)",
        "axis roots and the data hash are opaque values supplied at put time; a valid block's row roots carry the rows' min/max namespaces (checked on every generated block by wf inside Coq)",
        "close-once is modelled as pass-through while the accessor is open; reads after Close are out of scope",
        "Go int modelled as unbounded Z / nat: harness keeps widths <= 64",
        "the OS file system: a file is its byte content; ReadAt past EOF returns the available prefix",
    ],
)

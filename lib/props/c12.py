SPEC = dict(
    id="C12",
    props_file="Props/C12.v",
    harness=[
        dict(pkg="blob", test="TestVerifC12", timeout=900, timeout_thorough=3000, overlay_tags=["c11"]),
        dict(pkg="nodebuilder/share", test="TestVerifC12Range", timeout=900, timeout_thorough=3000),
        dict(pkg="nodebuilder/blobstream", test="TestVerifC12Tuple", timeout=900, timeout_thorough=3000),
    ],
    allowed_axioms=[],
    level_text=("Machine-checked theorems (Coq), no axioms: (1) Proof.equal is structural equality of proofs and total (padded / trimmed / "
                "nil-holding proofs refused, never a panic), hence Included answers yes exactly when the blob is in the block and the supplied "
                "proof is the node's own; (2) an accepted GetRangeResult hands out exactly the proven shares, never panics; (3) "
                "CommitmentProof.Verify, for every instantiation of the primitives it calls: accepted => the subtree roots hash to the "
                "commitment, the subtree-root proofs consume all subtree roots front to back exactly once, each verified against its row root, "
                "every row root is proven to the data root, counts consistent, nothing missing, the row range ordered and at least one row; "
                "the node's own Validate counts rows in uint32 (mod 2^32, so an inverted range [e+1,e] and [0,2^32-1] count zero rows and an "
                "inverted range can count any number): the ordered-range / at-least-one-row conclusions rest on celestia-app's RowProof.Validate "
                "called inside Verify, and the variant without that call is refuted in Coq (the proof without any component verifies for the "
                "commitment of the empty list against every data root, for every instantiation of the primitives; concrete witness by "
                "vm_compute); with the symbolic hash a commitment names one list of subtree roots; (4) RFC-6962 Merkle proofs over symbolic hashes: a produced proof verifies, a verifying proof pins the "
                "item at its index; data-root tuples: encoding = 32-byte big-endian height ++ root and injective, range/request validation "
                "characterised, a produced proof verifies against the range's root for exactly the tuple of that height (one-block ranges "
                "included) and for nothing else. The models follow the repaired code (fix-c12-1..4) and are re-validated on every run "
                "against the real services with 80+ tamper families under recover(). Partial: NMT verification (nmt), ShareProof.Validate "
                "(celestia-core), SubTreeWidth/ToLeafRanges are primitives whose answers are observed from the real libraries, not re-proved; "
                "SHA-256 is symbolic."),
    rule=("blob: blocks from the real square builder (threshold 64, squares 4..32, blobs up to >64 shares / several rows); per blob: "
          "GetCommitmentProof+Verify honest, after JSON round trip, and under 36 tamper families (append/drop/reorder/substitute/widen/shift "
          "subtree roots, subtree proofs, nodes, row roots, row proofs, indexes, totals, aunts, leaf hashes, nil components, other commitment, "
          "other root, parts of another blob's proof, metadata, JSON byte mutations) plus 11 row-range families at the uint32 boundaries, "
          "each as a struct and through the JSON form (every component trimmed with the range inverted [1,0] / [max,max-1] / [e+1,e] / random, "
          "wrapped [0,max], zero value, honest rows; honest components under an inverted range that wraps to the right count, inverted to "
          "zero, swapped, EndRow or StartRow = MaxUint32, full range; zero rows with the subtree roots kept); GetProof+Included honest / nil / absent commitment / 16 "
          "tamper families, and Proof.equal directly; "
          "for EVERY blob of every block (c12ProofRows), on the blocks above plus, per run, 8 hand-placed and 2 builder-made squares in which blobs of one "
          "namespace follow each other so that a blob starts in the row in which a predecessor spanning >= 2 rows ended (chains of 2..4, the smallest: 4x4 "
          "ODS, shares 0..5 then 6..7): GetProof must return exactly one nmt proof per row the blob occupies (rows computed from the builder's start index / "
          "share count and the square width; components compared with the row proofs taken straight from the square and verified against the row roots), "
          "Included must accept exactly that proof, and refuse it padded in front with the preceding row's / the previous blob's row proofs, padded behind, "
          "trimmed, and the proof of a neighbouring blob (L3 sigs proof-rows-wrong, included-own-proof-rejected, included-padded-proof-accepted, "
          "included-neighbour-proof-accepted, included-trimmed-proof-accepted); the same GetProof answers are one L2 case per namespace (group proofrows: "
          "the parser model's proofs bookkeeping, Blob/Parser.v get_proof_rows via Blob/ProofRows.v, must name the same row proofs). nodebuilder/share: deterministic squares of namespace runs, ranges inside one namespace "
          "(whole namespace, single share, random), newGetRangeResult+Verify honest and under 25 tamper families. nodebuilder/blobstream: "
          "header chains of 1..21 (thorough: ..257) heights behind a getter with the go-header store's range semantics, plus the real go-header "
          "store once; encoding at boundary heights, range/request validation at boundaries incl. the 10000-block limit, every produced proof "
          "named aunt by aunt, 9 structural tamper families mirrored in the model. One case = one call with its observed verdict class "
          "(accept / reject / panic, or the produced proof's shape); non-trivial = every case except constants; distinct = distinct Coq term. "
          "L3: honest rejected, tampered accepted (authenticated content differs), an accepted proof without subtree roots or without row "
          "roots (it proves nothing: same verdict against every root), an accepted proof whose row range is inverted, panic, proof not produced."),
    trusted_base=[
        "models Blob/ProofEq.v, Blob/Commitment.v, Blob/Tuple.v, Blob/TupleMerkle.v hand-written after blob/blob.go (Proof.equal), blob/service.go (Included), "
        "nodebuilder/share/get_range_result.go (Verify), blob/commitment_proof.go (Validate, Verify), nodebuilder/blobstream/{data_root_tuple_root,service}.go "
        "and cometbft crypto/merkle (HashFromByteSlices, ProofsFromByteSlices, Proof.Verify); tied by the three correspondence harnesses whose observations are "
        "re-computed inside Coq (vm_compute) on every run",
        "SHA-256 is symbolic: leaf / inner / empty hashes are free constructors (injective, domain-separated); tuple proofs are compared with the model aunt by aunt "
        "(each real aunt is the real RFC-6962 root of the slice of tuples the model names)",
        "nmt (VerifySubtreeRootInclusion, ToLeafRanges, VerifyInclusion), go-square inclusion.SubTreeWidth and merkle root, celestia-core ShareProof.Validate / "
        "RowProof, celestia-app pkg/proof are primitives: CommitmentProof.Verify and GetRangeResult.Verify are modelled over their observed answers (theorems hold for "
        "every instantiation); that an NMT subtree-root / inclusion proof binds shares to a row root is the libraries' property, not proved here",
        "byte strings are abstracted to ids by the harness (equal bytes <-> equal id; nil = empty, as for bytes.Equal)",
        "Included's own proof comes from retrieve: which blob is found is C11's model (Blob/Parser.v), which rows' proofs retrieve collects for it (append per row, "
        "keep the last after a multi-row blob that did not verify, drop all after a row that ends with an empty parser) is transcribed there too and tied by "
        "the proofrows cases (Blob/ProofRows.v, no theorem of its own: that the collected rows are exactly the blob's rows is checked by the L3 oracle against "
        "the builder's record, not proved); the header getter is a function height -> data root; the fake getter "
        "mirrors the go-header store (empty range refused), the real store is exercised once per run",
        "unauthenticated metadata of a CommitmentProof (NamespaceID/Version, StartRow/EndRow shifted together, nmt leaf hash / flag inside it) and a Merkle proof's "
        "Total widened without changing the path are not bound by verification; the oracle does not count their acceptance as a forgery",
        "Go int / uint32 / uint64 are modelled as Z; the uint32 row count of CommitmentProof.Validate is modelled mod 2^32 (row_count_u32), the int64 row "
        "count and the EndRow >= StartRow / len(RowRoots) != 0 checks of celestia-app's RowProof.Validate are modelled as read in the vendored "
        "v9.0.4 source (row_validate / grow_validate) and tied by the row-range tamper families",
    ],
)

SPEC = dict(
    id="C12",
    props_file="Props/C12.v",
    harness=[
        dict(pkg="blob", test="TestVerifC12", timeout=900, timeout_thorough=3000, overlay_tags=["c11"]),
        dict(pkg="nodebuilder/share", test="TestVerifC12Range", timeout=900, timeout_thorough=3000),
        dict(pkg="nodebuilder/blobstream", test="TestVerifC12Tuple", timeout=900, timeout_thorough=3000),
    ],
    allowed_axioms=[],
    level_text=("Machine-checked theorems (Coq), no axioms: (1) Proof.equal is structural equality of proofs and total (padded / trimmed / "
                "nil-holding proofs refused, never a panic), hence Included answers yes exactly when the blob is in the block and the supplied "
                "proof is the node's own; (2) an accepted GetRangeResult hands out exactly the proven shares, never panics; (3) "
                "CommitmentProof.Verify, for every instantiation of the primitives it calls: accepted => the subtree roots hash to the "
                "commitment, the subtree-root proofs consume all subtree roots front to back exactly once, each verified against its row root, "
                "every row root is proven to the data root, counts consistent, nothing missing, the row range ordered and at least one row; "
                "the node's own Validate counts rows in uint32 (mod 2^32, so an inverted range [e+1,e] and [0,2^32-1] count zero rows and an "
                "inverted range can count any number): the ordered-range / at-least-one-row conclusions rest on celestia-app's RowProof.Validate "
                "called inside Verify, and the variant without that call is refuted in Coq (the proof without any component verifies for the "
                "commitment of the empty list against every data root, for every instantiation of the primitives; concrete witness by "
                "vm_compute); with the symbolic hash a commitment names one list of subtree roots; (4) RFC-6962 Merkle proofs over symbolic hashes: a produced proof verifies, a verifying proof pins the "
                "item at its index; data-root tuples: encoding = 32-byte big-endian height ++ root and injective, range/request validation "
                "characterised, a produced proof verifies against the range's root for exactly the tuple of that height (one-block ranges "
                "included) and for nothing else. The models follow the repaired code (fix-c12-1..4) and are re-validated on every run "
                "against the real services with 80+ tamper families under recover(). Partial: NMT verification (nmt), ShareProof.Validate "
                "(celestia-core), SubTreeWidth/ToLeafRanges are primitives whose answers are observed from the real libraries, not re-proved; "
                "SHA-256 is symbolic."),
    rule=("blob: blocks from the real square builder (threshold 64, squares 4..32, blobs up to >64 shares / several rows); per blob: "
          "GetCommitmentProof+Verify honest, after JSON round trip, and under 36 tamper families (append/drop/reorder/substitute/widen/shift "
          "subtree roots, subtree proofs, nodes, row roots, row proofs, indexes, totals, aunts, leaf hashes, nil components, other commitment, "
          "other root, parts of another blob's proof, metadata, JSON byte mutations) plus 11 row-range families at the uint32 boundaries, "
          "each as a struct and through the JSON form (every component trimmed with the range inverted [1,0] / [max,max-1] / [e+1,e] / random, "
          "wrapped [0,max], zero value, honest rows; honest components under an inverted range that wraps to the right count, inverted to "
          "zero, swapped, EndRow or StartRow = MaxUint32, full range; zero rows with the subtree roots kept); GetProof+Included honest / nil / absent commitment / 16 "
          "tamper families, and Proof.equal directly. nodebuilder/share: deterministic squares of namespace runs, ranges inside one namespace "
          "(whole namespace, single share, random), newGetRangeResult+Verify honest and under 25 tamper families. nodebuilder/blobstream: "
          "header chains of 1..21 (thorough: ..257) heights behind a getter with the go-header store's range semantics, plus the real go-header "
          "store once; encoding at boundary heights, range/request validation at boundaries incl. the 10000-block limit, every produced proof "
          "named aunt by aunt, 9 structural tamper families mirrored in the model. One case = one call with its observed verdict class "
          "(accept / reject / panic, or the produced proof's shape); non-trivial = every case except constants; distinct = distinct Coq term. "
          "L3: honest rejected, tampered accepted (authenticated content differs), an accepted proof without subtree roots or without row "
          "roots (it proves nothing: same verdict against every root), an accepted proof whose row range is inverted, panic, proof not produced."),
    trusted_base=[
        "models Blob/ProofEq.v, Blob/Commitment.v, Blob/Tuple.v, Blob/TupleMerkle.v hand-written after blob/blob.go (Proof.equal), blob/service.go (Included), "
        "nodebuilder/share/get_range_result.go (Verify), blob/commitment_proof.go (Validate, Verify), nodebuilder/blobstream/{data_root_tuple_root,service}.go "
        "and cometbft crypto/merkle (HashFromByteSlices, ProofsFromByteSlices, Proof.Verify); tied by the three correspondence harnesses whose observations are "
        "re-computed inside Coq (vm_compute) on every run",
        "SHA-256 is symbolic: leaf / inner / empty hashes are free constructors (injective, domain-separated); tuple proofs are compared with the model aunt by aunt "
        "(each real aunt is the real RFC-6962 root of the slice of tuples the model names)",
        "nmt (VerifySubtreeRootInclusion, ToLeafRanges, VerifyInclusion), go-square inclusion.SubTreeWidth and merkle root, celestia-core ShareProof.Validate / "
        "RowProof, celestia-app pkg/proof are primitives: CommitmentProof.Verify and GetRangeResult.Verify are modelled over their observed answers (theorems hold for "
        "every instantiation); that an NMT subtree-root / inclusion proof binds shares to a row root is the libraries' property, not proved here",
        "byte strings are abstracted to ids by the harness (equal bytes <-> equal id; nil = empty, as for bytes.Equal)",
        "Included's own proof comes from retrieve (C11 model covers which blob is found); the header getter is a function height -> data root; the fake getter "
        "mirrors the go-header store (empty range refused), the real store is exercised once per run",
        "unauthenticated metadata of a CommitmentProof (NamespaceID/Version, StartRow/EndRow shifted together, nmt leaf hash / flag inside it) and a Merkle proof's "
        "Total widened without changing the path are not bound by verification; the oracle does not count their acceptance as a forgery",
        "Go int / uint32 / uint64 are modelled as Z; the uint32 row count of CommitmentProof.Validate is modelled mod 2^32 (row_count_u32), the int64 row "
        "count and the EndRow >= StartRow / len(RowRoots) != 0 checks of celestia-app's RowProof.Validate are modelled as read in the vendored "
        "v9.0.4 source (row_validate / grow_validate) and tied by the row-range tamper families",
    ],
)

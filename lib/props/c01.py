SPEC = dict(
    id="C01",
    props_file="Props/C01.v",
    harness=[dict(pkg="share/shwap", test="TestVerifC01", timeout=900, timeout_thorough=3000)],
    allowed_axioms=[],
    rule=("squares from a namespace-layout grammar (single namespace, one namespace per share, namespaces spanning rows, tail padding "
          "of any amount, reserved namespaces) for ODS widths 1,2,4 (model + oracle) and 8 (oracle; thorough: 8 in the model, 16/32 oracle); "
          "per square: every coordinate x both proof axes (sampled for larger widths), every row x side, single-namespace ranges incl. "
          "ranges needing 0/1/2 incomplete-row proofs; forgery families: shifted row/col, axis flipped, claimed range moved/widened with "
          "nodes kept or trimmed (position promotion), nodes dropped/appended/swapped/borrowed/mutated/short, share substituted or mutated, "
          "material of another square, absence-flavoured/empty/nil proofs, rows reordered/truncated/extended/wrong side, ranges re-sliced "
          "across rows keeping the total, proofs dropped/swapped, request shifted/wider/narrower. A case is one (input, real verdict) pair; "
          "distinct = distinct Coq term; every emitted case is non-trivial except none (tree cases check the real root equals the model tree "
          "and is well formed)."),
    level_text=("Machine-checked theorems (Coq): for EVERY square width 2^D, every committed square, every requested coordinate / row / range and "
                "EVERY response value (any shares, any proof nodes incl. attacker-chosen digests, any start/end, either axis, any side, any "
                "decoder behaviour): if the model of Sample.Verify / Row.Verify / RangeNamespaceData.VerifyInclusion accepts, the exposed shares "
                "are exactly the committed shares at the requested position (content, position, length, order). The deepest lemma is NMT "
                "position binding (compute_root_pos), by induction on tree depth. Hashing is symbolic (injective). The model is re-validated "
                "against the real verifiers (nmt v0.24.3 + shwap) on thousands of honest and forged responses per run, evaluated inside Coq. "
                "Partial: byte-level protobuf decoding is C18's; the Leopard codec is abstract (soundness does not depend on it)."),
    trusted_base=[
        "SHA-256 modelled as a free injective constructor (symbolic digests, Dolev-Yao); DAtom = bytes that are no known hash output",
        "model Base/Nmt.v (nmt v0.24.3 computeRoot/VerifyLeafHashes/VerifyNamespace/VerifyInclusion, hasher with ignoreMaxNamespace) and Shwap/Verify.v hand-written; tied by the correspondence harness harness/share/shwap/zz_verif_c01_*.go: real verdicts vs model verdicts recomputed by vm_compute each run; the harness symbolises real digests with a dictionary of every hash of the honest trees and checks that its own tree recomputation equals the DAH roots",
        "trees are perfect (EDS width is a power of two); proof indices above 4096 are exercised by the oracle only (nat literals)",
        "erasure codec (rsmt2d Leopard) abstract: per-case decode/extend tables computed with the real codec; theorems assume only that a decode returns a row of the right length",
        "row_roots passed to the model for sample/row cases keep only the root the verifier reads (others DBad)",
    ],
)

SPEC = dict(
    id="C20",
    props_file="Props/C20.v",
    harness=[dict(pkg="blob", test="TestVerifC20", timeout=900, timeout_thorough=3000),
             dict(pkg="nodebuilder/header", test="TestVerifC20Feed", timeout=900, timeout_thorough=3000)],
    allowed_axioms=[],
    level_text=("Machine-checked theorems (Coq, no axioms) over a labelled transition system of blob.Service.Subscribe at channel "
                "granularity (header feed -> getAll retry loop -> send on the 16-slot channel, consumer, cancel / service stop / feed close): "
                "for EVERY event sequence the responses sent are exactly those owed for the headers received, in order (no gap, duplicate, "
                "reorder), a failing retrieval is retried on the same height, the send never blocks; the stream closes only on cancel, stop, "
                "feed close or a header arriving with 16 unread responses; after cancel or stop it is closed within two producer steps under "
                "every failure pattern (refuted for the code before fix-c20-1: stop during a failing retrieval is never noticed), after feed "
                "close within three producer steps not counting failing retrievals (a height already taken is still answered). "
                "The header feed that the node wires into the blob service (Service.Subscribe of nodebuilder/header, passed to blob.NewService by "
                "nodebuilder/blob) is a second LTS (Blob/Feed.v: NextHeader, blocking send on the unbuffered channel guarded by the context, "
                "deferred cancel + close) and is composed with the first: for every event sequence the forwarder has sent a prefix of what the "
                "source handed it, in order, nothing dropped or repeated, at most one header in hand; it closes only on cancel or a source error; "
                "and END TO END the responses sent are those owed for the headers the SOURCE made ready - every header of the source is answered, "
                "or is the one in work, or the one in the forwarder's hand, or still ready in the source, in this order, however long a retrieval "
                "stalls (e2e_prefix_inv; the producer part of every composed run is a run of the subscription LTS, so all of the above carries over). "
                "Both models are re-validated on every run against the real code: ~900 generated schedules of the real blob.Service.Subscribe with a "
                "scripted feed, ~400 of the real header feed alone and ~180 of the real composition blob.NewService(..., headerService.Subscribe) "
                "over real squares, including retrieval outages during which the source makes 18..40 further headers ready. "
                "Partial: 'promptly' is counted in producer steps, not wall time (a getAll call in flight is not "
                "interrupted by the service stop); which ready case a Go select takes and data-race freedom are the runtime's; the "
                "correctness of the blobs that getAll parses out of a square is C11's subject - here the response content is compared "
                "with the blobs the harness put into the square; the source behind the feed (go-header's pubsub subscription) is scripted "
                "as an unbounded in-order queue - what pubsub itself drops before NextHeader is outside this check; after a service stop the "
                "forwarder goroutine stays blocked on its send until the subscriber's context ends (observed, not part of the property)."),
    rule=("one case = one Service with 1..3 concurrent subscriptions on different namespaces (one of them possibly a namespace that never "
          "occurs) over a pool of 40 real blocks (0..3 one-share blobs per namespace and block); per subscription a scripted feed (mostly "
          "consecutive heights, 6% repeats/jumps), scripted outcome of every getAll call (never fails / sometimes / bursts / keeps failing), "
          "consumer pace fast / slow / stalled, 15..150 scheduled steps, in 70% of the cases a cancel, service stop or feed close forced at "
          "a random step (so that over a run they land in every producer state). Observed: channel length after every event, every response "
          "received (height + blob commitments), whether the channel ended closed. Non-trivial = a subscription that received responses "
          "and saw a failing retrieval or was closed; distinct = distinct Coq case term. "
          "Feed harness (nodebuilder/header): 'feed' cases = the real Service.Subscribe over a scripted libhead.Subscription, the harness as reader: "
          "lockstep / slow reader / bursts of 17..40 headers with no read / mixed, cancel or source error at a random step in half of the cases, "
          "the reader mostly catches up at the end; non-trivial = headers received and (feed closed or reader >= 2 behind). 'compose' cases = "
          "blob.NewService(nil, getter, byHeight, headerService.Subscribe) with 1..2 subscriptions, the source publishing ahead of the "
          "subscription, retrieval outcome scripted as above plus long outages (45% of the cases: once a retrieval fails it keeps failing while "
          "the source makes 18..40 more headers ready), consumer fast / slow / stalled, cancel / service stop / source error forced at a random "
          "step in 60% of the cases, in 70% everything recovers and is read at the end. Observed at every quiescent point: response channel "
          "length and number of headers NextHeader handed out; at the end all responses, both channels' closed flags."),
    trusted_base=[
        "model Blob/Subscribe.v hand-written after blob/service.go Subscribe (with fix-c20-1); tied by harness/blob/zz_verif_c20_test.go, which "
        "drives the real Service.Subscribe and whose observations are re-computed by the model inside Coq (vm_compute) on every run",
        "model Blob/Feed.v hand-written after nodebuilder/header/service.go Subscribe and the wiring in nodebuilder/blob/module.go; tied by "
        "harness/nodebuilder/header/zz_verif_c20_feed_test.go, which drives the real Service.Subscribe alone and wired into the real blob.Service; "
        "it mocks the libhead.Subscriber/Subscription (in-order queue of ready headers or an error; NextHeader prefers a ready item to a cancelled "
        "context), the header getter (as below) and the share getter (as below); the feed-alone cases are written one number per event and "
        "decoded by Feed.fdecode inside Coq",
        "the L3 oracle 'feed:header-dropped' counts NextHeader calls/returns of the scripted source and the length of the feed's channel while the "
        "reader is known not to read; it reads the closed flag of both channels like the first harness",
        "in the TestVerifC20 harness (package blob) the mocks are: header feed (unbuffered channel per subscription, as nodebuilder/header/service.go Subscribe provides), header getter "
        "(blocks every getAll call until the schedule decides fail/ok), share getter (gomock; serves namespace data from real squares via "
        "eds.NamespaceData); squares, headers and blobs are real (rsmt2d, headertest, NewBlobV0)",
        "the harness observes that the producer has returned (close(blobCh)) by reading the closed flag of runtime.hchan through unsafe (layout "
        "self-tested at the start of every run): receiving from the channel instead would change what the producer decides when it tests "
        "len(blobCh) == cap(blobCh); responses are read only through the channel",
        "Go runtime: channel FIFO order, select semantics and goroutine scheduling are modelled at channel/select granularity (events), not verified",
        "the harness only generates schedules whose outcome is determined (it never races a header against an already cancelled/stopped idle "
        "producer); the theorems cover those interleavings too",
    ],
)

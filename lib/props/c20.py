SPEC = dict(
    id="C20",
    props_file="Props/C20.v",
    harness=[dict(pkg="blob", test="TestVerifC20", timeout=900, timeout_thorough=3000),
             dict(pkg="nodebuilder/header", test="TestVerifC20Feed", timeout=900, timeout_thorough=3000)],
    allowed_axioms=[],
    level_text=("Machine-checked theorems (Coq, no axioms) over a labelled transition system of blob.Service.Subscribe at channel "
                "granularity (header feed -> getAll retry loop -> send on the 16-slot channel, consumer, cancel / service stop / feed close): "
                "for EVERY event sequence the responses sent are exactly those owed for the headers received, in order (no gap, duplicate, "
                "reorder), a failing retrieval is retried on the same height, the send never blocks; the stream closes only on cancel, stop, "
                "feed close or a header arriving with 16 unread responses; after cancel or stop it is closed within two producer steps under "
                "every failure pattern (refuted for the code before fix-c20-1: stop during a failing retrieval is never noticed), after feed "
                "close within three producer steps not counting failing retrievals (a height already taken is still answered). The model is "
                "re-validated on every run against the real Service.Subscribe on ~900 generated schedules with 1-3 concurrent subscriptions "
                "over real squares. Partial: 'promptly' is counted in producer steps, not wall time (a getAll call in flight is not "
                "interrupted by the service stop); which ready case a Go select takes and data-race freedom are the runtime's; the "
                "correctness of the blobs that getAll parses out of a square is C11's subject - here the response content is compared "
                "with the blobs the harness put into the square."),
    rule=("one case = one Service with 1..3 concurrent subscriptions on different namespaces (one of them possibly a namespace that never "
          "occurs) over a pool of 40 real blocks (0..3 one-share blobs per namespace and block); per subscription a scripted feed (mostly "
          "consecutive heights, 6% repeats/jumps), scripted outcome of every getAll call (never fails / sometimes / bursts / keeps failing), "
          "consumer pace fast / slow / stalled, 15..150 scheduled steps, in 70% of the cases a cancel, service stop or feed close forced at "
          "a random step (so that over a run they land in every producer state). Observed: channel length after every event, every response "
          "received (height + blob commitments), whether the channel ended closed. Non-trivial = a subscription that received responses "
          "and saw a failing retrieval or was closed; distinct = distinct Coq case term."),
    trusted_base=[
        "model Blob/Subscribe.v hand-written after blob/service.go Subscribe (with fix-c20-1); tied by harness/blob/zz_verif_c20_test.go, which "
        "drives the real Service.Subscribe and whose observations are re-computed by the model inside Coq (vm_compute) on every run",
        "the harness mocks: header feed (unbuffered channel per subscription, as nodebuilder/header/service.go Subscribe provides), header getter "
        "(blocks every getAll call until the schedule decides fail/ok), share getter (gomock; serves namespace data from real squares via "
        "eds.NamespaceData); squares, headers and blobs are real (rsmt2d, headertest, NewBlobV0)",
        "the harness observes that the producer has returned (close(blobCh)) by reading the closed flag of runtime.hchan through unsafe (layout "
        "self-tested at the start of every run): receiving from the channel instead would change what the producer decides when it tests "
        "len(blobCh) == cap(blobCh); responses are read only through the channel",
        "Go runtime: channel FIFO order, select semantics and goroutine scheduling are modelled at channel/select granularity (events), not verified",
        "the harness only generates schedules whose outcome is determined (it never races a header against an already cancelled/stopped idle "
        "producer); the theorems cover those interleavings too",
    ],
)

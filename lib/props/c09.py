SPEC = dict(
    id="C09",
    props_file="Props/C09.v",
    harness=[dict(pkg="share/shwap/p2p/shrex", test="TestVerifC09", timeout=900, timeout_thorough=3000)],
    allowed_axioms=[],
    rule=("a case = one raw request byte string written to a stream of one of the five shrex protocols of the real Server (over a real "
          "store holding squares of ODS width 1,2,4,8,16; the server's AccessorGetter is the store itself, or - for the not-found family, a "
          "served request, zero height, a tight budget, two faults and the three beyond-the-square requests per protocol and square - "
          "store.CachedStore (Store.WithCache) or a decorator wrapping every error with %w), possibly with a fault injected behind the server (GetByHeight fails / Size() "
          "fails / the accessor call of the ResponseReader fails / it panics), with the observed outcome class (reset / reset after a "
          "refused reservation / NOT_FOUND / INTERNAL / OK+payload) and the counted accessor opens/closes and reserved/released bytes; "
          "or one ResponseSize(edsSize) evaluation. Requests: ODS width 1,2,4 exhaustive - every row index and every (row,col) from 0 to "
          "one beyond the EDS width plus 255/256/32767/65535, every (from,to) pair from 0 to one beyond the square plus 2^16, 2^31, "
          "2^32-1 (width 4: 40% of the in-square pairs), every namespace class (present, absent inside / outside the row ranges, tx, "
          "pfb, reserved padding, parity, tail padding, bad version, bad prefix, random); widths 8,16 sampled plus the edges of the "
          "square and of its first/last namespace run; per protocol and square zero height, unknown heights, lengths 0 / 1 / size-1 / "
          "size+junk, a memory budget of 0 / a few hundred bytes, the four faults, a client that resets mid-request (oracle only); 1200 "
          "random or bit-flipped byte strings. Requests that are valid, in bounds and answerable additionally go through the real Client "
          "and the real container verification against the block's roots and the stored shares; the real Client must report ErrNotFound "
          "for an unknown height (through each of the three getters). Well-formedness of a request is decided by the harness from the wire "
          "grammar alone (non-zero height, a namespace go-square accepts for data, from<to), not by the code under test. Non-trivial = every handler case that is not a plain valid request, or a valid one that was served; "
          "distinct = distinct Coq term."),
    level_text=("Machine-checked theorems (Coq) over an executable model of the handler inside its recovery middleware, for EVERY request "
                "byte string, store, memory budget and inner accessor behaviour (container / error / panic): a payload goes out only when "
                "the bytes decode to a valid identifier of a stored height that fits the budget and lies inside the stored square, and it "
                "is the accessor's container for exactly that identifier (served_only_wellformed, serve_complete); the identifier a "
                "client's constructor accepts for the stored square, encoded as the client does, meets these hypotheses and the client "
                "returns the container when its verification accepts it (serve_client; that honest containers verify is C01/C05 and is "
                "checked on the real containers for every served reply by the harness); an unknown height yields NOT_FOUND whether the getter reports the bare store.ErrNotFound or one wrapped with context "
                "(C09_notfound quantifies over [wrapped]); short, "
                "undecodable (zero height, bad namespace, from>=to) requests are reset; out-of-bounds ones get INTERNAL or, when the "
                "declared size exceeds the budget, a reset - never data; a panicking accessor is recovered into a reset; on every path "
                "accessors opened = closed (at most one) and bytes reserved = released, proved from the defer structure "
                "(deferred_balanced) from any starting state; the reservation computed from attacker-chosen fields is within [0, 2^41) "
                "for every byte string and within the size of the stored square for a request that passes the bounds check. The model "
                "is replayed against the real Server on ~4500 requests per run inside Coq. "
                "Partial: libp2p's resource manager is replaced by a counting scope with a fixed budget; mocknet streams have no "
                "deadlines, so a client that stalls mid-request (as opposed to one that resets) is not exercised; panics and hangs are "
                "the oracle's (L3) verdict; a share range is 'well formed' only inside one namespace (RangeNamespaceData is the data of "
                "one namespace: the accessor refuses a range spanning two, the server answers INTERNAL - in the model this is build = BErr)."),
    trusted_base=[
        "model Shwap/Server.v hand-written after shrex/server.go (streamHandler, handleDataRequest, respondStatus), recovery.go, the ResponseSize / ReadFrom / Validate of share/shwap/*_id.go and the bounds checks of share/eds/validation.go; identifier decoding is Shwap/Ids.v (C18); tied by harness/share/shwap/p2p/shrex/zz_verif_c09_test.go whose observations are re-computed inside Coq on every run",
        "Go's defer is modelled as 'run the release after the body whatever it returns' (Server.deferred); a panic unwinds through both deferred calls and is turned into a reset by the recovery middleware - tied by the injected-panic cases (the counters are observed after the real deferred calls ran)",
        "int(math.Log2(float64(edsSize))) is modelled as Z.log2 (floor); compared on widths 1..2048; edsSize 0 is excluded (a stored square has EDS width >= 2)",
        "the inner accessor (what the stored square answers) and the container verification are abstract in the theorems; the harness decides 'answerable' from the stored shares alone (everything in bounds, except a range spanning two namespaces) and verifies every served payload with the real containers against the real roots and the stored data",
        "mocked: libp2p network (mocknet), the stream's resource scope (a counting scope with a fixed byte budget standing in for rcmgr), the per-IP rate limiter (disabled for the run: thousands of requests come from one address); rate limiting and SetService refusals are not modelled; faults are injected by wrapping the store and the accessor it returns (outside the validating wrapper)",
        "the getter in front of the store is switched per request inside the harness's counting AccessorGetter, which hands the chosen getter's result to the server unchanged; other wrappers a node could put in front of the store are represented by the %w decorator",
        "Go int as unbounded Z: fields are at most 32 bits wide on the wire, reservations stay below 2^41 (theorem)",
    ],
)

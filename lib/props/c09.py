SPEC = dict(
    id="C09",
    props_file="Props/C09.v",
    harness=[dict(pkg="share/shwap/p2p/shrex", test="TestVerifC09", timeout=900, timeout_thorough=3000)],
    allowed_axioms=[],
    rule=("a case = one raw request byte string written to a stream of one of the five shrex protocols of the real Server (over a real "
          "store holding squares of ODS width 1,2,4,8,16) with the observed outcome class (reset / reset after a refused reservation / "
          "NOT_FOUND / INTERNAL / OK+payload) and the counted accessor opens/closes and reserved/released bytes; or one "
          "ResponseSize(edsSize) evaluation. Requests: ODS width 1,2,4 exhaustive — every row index and every (row,col) from 0 to one "
          "beyond the EDS width plus 255/256/32767/65535, every (from,to) pair from 0 to one beyond the square plus 2^16, 2^31, 2^32-1 "
          "(width 4: 40% of the in-square pairs), every namespace class (present, absent inside / outside the row ranges, tx, pfb, "
          "reserved padding, parity, tail padding, bad version, bad prefix, random); widths 8,16 sampled; per protocol zero height, "
          "unknown heights, lengths 0 / 1 / size-1 / size+junk, a memory budget of 0 / a few hundred bytes; 400 random or bit-flipped "
          "byte strings. Valid in-bounds requests additionally go through the real Client and the real container verification. "
          "Non-trivial = every handler case that is not a valid request, or a valid one that was served; distinct = distinct Coq term."),
    level_text=("Machine-checked theorems (Coq) over an executable model of the handler, for EVERY request byte string, store, memory budget "
                "and inner accessor: a payload goes out only when the bytes decode to a valid identifier of a stored height that fits the "
                "budget and lies inside the stored square (then it is the accessor's container, which the client accepts given that honest "
                "containers verify — C01/C05); an unknown height yields NOT_FOUND; short, undecodable, invalid requests are reset; "
                "out-of-bounds ones get an error status; on every path accessors opened = closed (at most one) and bytes reserved = "
                "released; the reservation computed from attacker-chosen fields is within [0, 2^41]; the requests a client builds meet "
                "the hypotheses of serve_complete. The model is replayed against the real Server on ~3400 requests per run inside Coq. "
                "Partial: libp2p's resource manager is replaced by a counting scope with a fixed budget; mocknet streams have no "
                "deadlines, so a client that stalls mid-request is not exercised; panics and hangs are the oracle's (L3) verdict."),
    trusted_base=[
        "model Shwap/Server.v hand-written after shrex/server.go (streamHandler, handleDataRequest, respondStatus), the ResponseSize / ReadFrom / Validate of share/shwap/*_id.go and the bounds checks of share/eds/validation.go; identifier decoding is Shwap/Ids.v (C18); tied by harness/share/shwap/p2p/shrex/zz_verif_c09_test.go whose observations are re-computed inside Coq on every run",
        "int(math.Log2(float64(edsSize))) is modelled as Z.log2 (floor); compared on all widths 1..2048 used by the harness; edsSize 0 is excluded (a stored square has width >= 2)",
        "the inner accessor (what the stored square answers) and the container verification are abstract; the harness verifies every served payload with the real containers against the real roots and the stored data",
        "mocked: libp2p network (mocknet), the stream's resource scope (a counting scope with a fixed byte budget standing in for rcmgr), the per-IP rate limiter (disabled for the run: thousands of requests come from one address); rate limiting and SetService refusals are not modelled",
        "Go int as unbounded Z: fields are at most 32 bits wide on the wire, reservations stay below 2^41 (theorem)",
    ],
)

SPEC = dict(
    id="C08",
    props_file="Props/C08.v",
    harness=[
        dict(pkg="store/cache", test="TestVerifC08Cache", timeout=600, timeout_thorough=3000),
        dict(pkg="store", test="TestVerifC08", timeout=900, timeout_thorough=3000),
    ],
    translators=["locks"],
    allowed_axioms=[],
    level_text="wip",
    rule="wip",
    trusted_base=["wip"],
)

import os

# The race detector writes its reports to <log_path>.<pid of the harness>; the harness reads them after every round and
# turns a report into a violation with the round that produced it.  The prefix is unique per check process so that two
# checks of C08 running at the same time (e.g. one against a scratch worktree) never read each other's reports.
# exitcode=0: the verdict travels through result.json (and the harness commits one deliberate race on a variable of its
# own at start to make sure the detector's reports do reach it).
_RACE_LOG = os.path.join(os.environ.get("VERIF_BUILD") or os.path.join(os.path.dirname(os.path.dirname(os.path.dirname(os.path.abspath(__file__)))), ".build"),
                         "c08_race_%d" % os.getpid())

SPEC = dict(
    id="C08",
    props_file="Props/C08.v",
    harness=[
        dict(pkg="store/cache", test="TestVerifC08Cache", timeout=600, timeout_thorough=3000),
        dict(pkg="store", test="TestVerifC08", timeout=900, timeout_thorough=3000),
        # pkg "store/." (= ./store): the driver names the test binary after pkg, and the plain and the -race binary of one
        # package would otherwise overwrite each other, so that both are re-linked (20-90 s each) on every run even when
        # nothing changed
        dict(pkg="store/.", test="TestVerifC08Race", timeout=900, timeout_thorough=3000, race=True,
             env=dict(GORACE="log_path=%s halt_on_error=0 exitcode=0" % _RACE_LOG)),
    ],
    translators=["locks"],
    allowed_axioms=[],
    level_text=("PARTIAL: machine-checked theorems (Coq, no axioms) cover the lock order, the reference-counting protocol and the sequential "
                "specification; which interleavings the Go scheduler produces is explored by stress and directed concurrent scenarios, not "
                "proved, and data-race freedom is the race detector's verdict. "
                "(a) Deadlock freedom: the held->acquired graph of the mutexes of store, store/cache, store/file and share/eds analysed as one "
                "unit (striped locks per family, the wait of accessor.close for its readers as a pseudo lock, calls through interfaces and "
                "loader callbacks followed) is regenerated from the Go source by a translator on every run; Coq decides it acyclic together "
                "with the edges of a reader holding a cache reference, and a generic theorem (Base/LockOrder.v extended by non-blocking shared "
                "acquisition) gives: any number of goroutines, programs of any length that follow the graph never deadlock; the lock programs "
                "of the store's operations are checked against the generated graph; the one excluded behaviour (a caller re-entering the store "
                "while holding an accessor) is shown to produce a cycle and a reachable deadlocked state. "
                "(b) Cache entries: an executable model of accessor_cache.go at lock granularity, two levels (entry protocol refs/done/isClosed "
                "in an arbitrary environment; LRU + eviction goroutines + stripe locks + Get/GetOrLoad/Remove), level 2 proved to refine level "
                "1; for EVERY interleaving of any number of goroutines: refs = number of holders >= 0, Close of the accessor at most once and "
                "only with no reference out (the defaultCloseTimeout forced close is an explicit event, excluded and flagged), a holder always "
                "reads an open accessor, no reference after isClosed, close(done) never panics, closers wait only while a reference is out, and "
                "at quiescence every entry that left the LRU (removed, evicted, replaced) was closed exactly once (no leak). The model is "
                "re-validated on every run against the real AccessorCache on ~360 scripted schedules cut at its blocking points. "
                "(c) Store content: sequential specification (height -> absent | ODS | ODS+Q4), a linearizability checker proved sound and "
                "complete and evaluated in Coq on histories recorded from the real store, and a theorem that operations whose file-system "
                "effects run one by one under the height's stripe lock are linearizable for every schedule. "
                "The concurrent harness (real Store + CachedStore, heights colliding on lock stripes and cache slots, cache sizes 0..2, race "
                "detector, watchdog, /proc/self/fd) checks every byte read through held accessors, termination, descriptor release and the "
                "content at rest."),
    rule=("cache cases: 360 (quick) seed-derived schedules of 12-40 operations {GetOrLoad (10% failing loader), Get, Remove, release} for 3-5 "
          "goroutine slots over heights {7, 263, 519 (one cache stripe), 8}, capacity 1-3; a Remove that must wait for readers runs in its own "
          "goroutine until the last reference is released; every operation is emitted as its atomic model steps plus a snapshot of the real "
          "cache (LRU order, refs/isClosed/Close-count per entry); non-trivial = the schedule has a blocked Remove and an eviction or a "
          "replace-on-closed. "
          "history cases: 160 (quick) micro rounds of 3 goroutines x 2-3 operations {PutODSQ4, PutODS, GetByHeight, cached GetByHeight, "
          "HasByHeight, HasQ4ByHash, RemoveODSQ4, RemoveQ4} over 2 heights with an optional sequential prologue, recent cache 0-2, cached store "
          "1-2; the recorded invocation/return order with results and the content at rest before/after is the case; a read that overlaps a "
          "put of its height is recorded with an unconstrained result (put publishes to the cache before the files exist); non-trivial = two "
          "operations of different goroutines on one height overlap. "
          "stress (L3 only, plain binary and -race binary): 'reput' (sequential: a stored block is put again, all four PutODS/PutODSQ4 "
          "combinations - deterministic replay for the descriptor oracle), 'parityrace' (32 rounds plain / 12 under -race in the quick "
          "tier, run first and never cut by the time budget, collector off: three blocks stored in full, 6-8 readers per block obtain the SAME "
          "file-backed accessor through the cached store (recent cache off), leave a two-stage barrier (channel close, then a bounded spin "
          "until all are running) together and make their FIRST read an axis half with index >= size/2, i.e. through the lazy open of the "
          "parity file; then a second read, close, removal, descriptor count: an accessor that opens its parity file more than once keeps "
          "only the last handle - fd-leak-until-gc, and data-race-store.file.ODSQ4 under -race), directed rounds 'lazyq4' (4 readers holding accessors of a k=32 "
          "block (k=8 under the race detector in the quick tier) + 2 arriving readers while PutODSQ4 adds / RemoveODSQ4+PutODSQ4 re-creates "
          "its parity file; the readers signal on a channel when they have their accessor and the writer opens the gate), 'cachedremove' "
          "(cached GetByHeight against RemoveODSQ4), and stress rounds of 6-10 goroutines x 10-19 operations over 3 heights (h, h+1024, "
          "h+2048) with up to 5 reads per accessor (sample, axis half, shares, stream, row namespace data, roots/hash/size, every byte "
          "compared); shapes interleaved; the quick plan (296 rounds) takes about 7 s in the plain binary and is cut at 14 s there and at "
          "10 s in the -race binary (a loaded machine does fewer rounds, never a different verdict). After every round: all blocks removed, "
          "the goroutines the caches spawned for evictions waited for (goroutine dump, no sleep), then /proc/self/fd must hold no file of "
          "the store directory."),
    trusted_base=[
        "translator /verif/translators/locks in group mode (group.go + main.go, go/ast+go/types, ~1500 lines): imports between the four packages type-checked for real, other imports faked; locks named by declaring type+field, slice elements per family ('[]'); lock-returning helpers, ordered lock slices bound by composite literals (multiLock) and function-typed parameters (cache loaders) resolved syntactically; calls through interfaces of the group resolved by method name (superset); values of third-party types (os.File, the LRU) are opaque: the LRU's internal mutex and the order in which hashicorp/golang-lru calls the eviction callback (outside its lock) are not analysed; receives from local channels, contexts and timers are not followed",
        "the edges out of the pseudo lock wait:cache.accessor.done (what a reader may lock while it holds a cache reference: accessor.lock, the cache stripes, proofsCache, ODS and ODSQ4 locks) are written by hand in Store/ConcLocks.v; the hypothesis of C08_store_no_deadlock (every goroutine follows the graph, in particular: no call back into the store while holding an accessor) is an obligation on callers, not verified for the rest of celestia-node; RWMutex is treated as exclusive",
        "model Store/CacheRef.v hand-written after store/cache/accessor_cache.go and hashicorp/golang-lru/v2 simplelru (Add of an existing key replaces without callback; Get moves to front; Contains/Peek do not); atomicity of each step = the critical section of accessor.lock / of the LRU's own mutex; tied by harness/store/cache/zz_verif_c08_test.go (real AccessorCache, counting mock accessors, in-package reads of refs/isClosed/LRU order) whose snapshots are recomputed by the model inside Coq on every run; the timeout event (defaultCloseTimeout = 1 min, a constant) is modelled but never exercised by the harness",
        "interleavings INSIDE the real cache that the scripted schedules cannot force (two goroutines between lru.Get and addRef, etc.) are covered by the theorems over the model only, and by the concurrent stress",
        "model Store/StoreSpec.v (content per height, operation results) hand-written after store/store.go; tied by the histories recorded from the real store; a read overlapping a put of the same height is unconstrained (design: put publishes the in-memory accessor before the files exist, store.go:140-148); blocks are fixed per height (a height never gets two different blocks)",
        "Store/ConcAtomic.v models the mutators' disk effects (create ODS/Q4, link; unlink, delete) under an exclusive per-stripe lock; the caches in front of the files and the hash-stripe lock are not in that model; the file system is a map with atomic single effects",
        "Go scheduling: which interleavings occur is explored by stress (seed-derived scripts, directed gates), not proved and not replayable step by step; a replay re-runs the round's scripts up to 300 times; data-race freedom = no report of the Go race detector during TestVerifC08Race (the same rounds in a binary built with -race; at its start a child process commits a deliberate race to prove that reports reach the harness); all puts of a height pass one square object whose roots were computed first (as callers of Put do), so the published in-memory accessor is read-only",
        "the watchdog reports a call into the store (operation, read through an accessor, Close) that has not returned after 40 s (the cache force-closes after 60 s); only calls into the code under test are timed, never the harness's own waits; file descriptors are counted in /proc/self/fd by path prefix of the store directory once the store is at rest: every operation returned, every accessor closed, every block removed and no goroutine with a frame of the store packages left (the eviction goroutines `go ac.close()` are waited for, up to 90 s, then reported as evict-hangs); a descriptor still open then was dropped without Close(): sig fd-leak-until-gc if a garbage collection (os.File finalizer) releases it, fd-leak otherwise; for the micro rounds, which share one store per cache configuration so that content carries over, the count is taken once after the last of them",
        "the lazy once-only open of the parity file (ODSQ4.tryLoadQ4: atomic attempted flag, re-checked under q4Mu) has NO Coq model: the two goroutines would have to be placed between the lock-free check and the lock, which the real code offers no blocking point for, so a model could not be tied to the code by scripted schedules; the lock translator sees only that q4Mu is taken, not the re-check. It is covered by L3 only: the 'parityrace' rounds (descriptor count at rest with the collector off, race detector), whose hit rate per round is 20-40% on a loaded machine, i.e. a miss of all 32+12 rounds of a quick run is improbable (< 1e-3) but not impossible",
        "observation, not counted as a violation: proofsCache.AxisRoots hands the SAME *share.AxisRoots to every holder of a cached accessor, and AxisRoots.Hash()/Equals() (celestia-app DataAvailabilityHeader) memoize the hash inside that value without synchronisation, so two holders that hash the returned roots race (race detector report in da.(*DataAvailabilityHeader).Hash); no caller inside celestia-node hashes roots obtained from an accessor, and the harness compares them field by field",
    ],
)

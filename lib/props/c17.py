SPEC = dict(
    id="C17",
    props_file="Props/C17.v",
    harness=[dict(pkg="share/shwap/p2p/shrex/peers", test="TestVerifC17", timeout=600, timeout_thorough=2400)],
    translators=[],
    allowed_axioms=[],
    level_text="(work in progress)",
    rule="(work in progress)",
    trusted_base=[],
)

SPEC = dict(
    id="C17",
    props_file="Props/C17.v",
    harness=[dict(pkg="share/shwap/p2p/shrex/peers", test="TestVerifC17", timeout=600, timeout_thorough=3000)],
    translators=["locks"],
    allowed_axioms=[],
    level_text=("Machine-checked theorems (Coq, no axioms). (1) Deadlock freedom: a generic theorem (Base/LockOrder.v: any number of threads, "
                "programs of any length, interleaving semantics at mutex granularity) instantiated with the held->acquired lock graph of the "
                "peers package, which a translator regenerates from the Go source on every run and Coq decides acyclic by computation. "
                "(2) Pool: an executable model of pool.go+timedqueue.go at the granularity of its atomic (mutex-protected) steps, incl. single "
                "cool-down expiries and the try/read-channel/wake/cancel steps of any number of next() callers; over ALL step sequences: "
                "activeCount = number of active peers (+ list/map consistency, hasPeer <-> activeCount>0), tryGet returns only active peers, "
                "never panics, never misses one, an offered peer has no cool-down younger than ttl, a parked waiter's channel is closed as soon "
                "as a peer is active and its retry gets one. (3) Manager: model of manager.go with one event per entry-point call; over all event "
                "sequences and all map-iteration orders: a peer is in the general pool only if discovery added it or a hash it announced was "
                "confirmed, and a blacklisted peer is never returned by Peer again. Both models are re-validated against the real pool / real "
                "Manager on ~900 generated operation sequences (~30k operations) per run. PARTIAL: interleavings inside one Manager call "
                "(the Manager holds no lock across a call) and Go-runtime scheduling/data races are not modelled; they are exercised only by the "
                "harness' deterministic two-thread deadlock schedule and concurrent stress with a watchdog."),
    rule=("pool sequences: 13 scripted (unit-test scenarios, cool-down/remove/re-add/cool-down, waiters) + 500 random sequences of 8-48 operations over "
          "3-6 peers {add 1-3, remove, tryGet, putOnCooldown (biased to active peers), clock tick 0-20 s with ttl 10 s, cleanup, next() start/cancel}, "
          "cleanup thresholds {0,1,2,3}; non-trivial = the sequence has a cool-down followed by a remove and by a clock tick. "
          "manager sequences: 11 scripted + 400 random sequences of 6-36 events over 5 peers x 4 hashes {shrex-sub notification (right/old/random height, "
          "self), header, Peer, DoneFunc(noop|cooldown|blacklist) of an outstanding peer, discovery add/remove, disconnect, pool ageing, GC round, clock "
          "tick}, blacklisting on in 70%; non-trivial = a notification followed by a confirmation and (when blacklisting is on) a blacklisting event. "
          "distinct = distinct Coq case term (events + every returned value + projected final state)."),
    trusted_base=[
        "translator /verif/translators/locks (go/ast+go/types, ~600 lines): extracts mutex events per function, follows same-package calls and function-valued fields bound syntactically (timedQueue.onPop = pool.afterCooldown), may-hold sets over branches/loops; calls leaving the package or going through interfaces/unbound function values are assumed not to re-enter the package's locks (listed in the generated file); locks are identified by declaring type+field (instance-insensitive, RLock = Lock)",
        "the hypothesis of C17_peers_no_deadlock (every thread follows the generated edge list and releases what it took) is what the translator asserts of the Go code; Go mutex semantics (exclusive, blocking) as modelled in Base/LockOrder.v",
        "models Peers/Pool.v and Peers/Manager.v hand-written after pool.go, timedqueue.go, manager.go; tied by the correspondence harness (real pool with benbjohnson mock clock injected like timedqueue_test.go; real Manager built like manager_test.go: mocknet host, BasicConnectionGater over a map datastore, real subscribeHeader / subscribeDisconnectedPeers loops fed by scripted subscriptions; one GC round = cleanUp + blacklistPeers as in the GC loop body; pool age = createdAt moved 1h back)",
        "pool steps are atomic because every pool method holds pool.m (and the queue its mutex); manager events are modelled as atomic although the Manager holds no lock across a call (partial)",
        "Go map iteration order enters the manager model as an explicit event parameter (theorems quantify over it; cases record the order the implementation used)",
        "libp2p host / connection gater / pubsub are mocked or real third-party code, not verified; metrics are off; blacklistedHashes LRU eviction (1024 entries) is not modelled",
        "Peer()'s blocking wait is modelled only up to 'would wait' (PWait); the wait itself is the pool's next(), covered by the pool model",
    ],
)

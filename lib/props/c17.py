SPEC = dict(
    id="C17",
    props_file="Props/C17.v",
    harness=[dict(pkg="share/shwap/p2p/shrex/peers", test="TestVerifC17", timeout=600, timeout_thorough=3000)],
    translators=["locks"],
    allowed_axioms=[],
    level_text=("Machine-checked theorems (Coq, no axioms). (1) Deadlock freedom: a generic theorem (Base/LockOrder.v: any number of threads, "
                "programs of any length, interleaving semantics at mutex granularity) instantiated with the held->acquired lock graph of the "
                "peers package, which a translator regenerates from the Go source on every run and Coq decides acyclic by computation. "
                "(2) Pool: an executable model of pool.go+timedqueue.go at the granularity of its atomic (mutex-protected) steps, incl. single "
                "cool-down expiries and the try/read-channel/wake/cancel steps of any number of next() callers; over ALL step sequences: "
                "activeCount = number of active peers (+ list/map consistency, hasPeer <-> activeCount>0), tryGet returns only active peers, "
                "never panics, never misses one, an offered peer has no cool-down younger than ttl, a parked waiter's channel is closed as soon "
                "as a peer is active and its retry gets one. "
                "(3) Manager, whole calls: model of manager.go with one event per entry-point call; over all event "
                "sequences and all map-iteration orders: a peer is in the general pool only if discovery added it or a hash it announced was "
                "confirmed, and a blacklisted peer is never returned by Peer again. "
                "(4) Manager at LOCK GRANULARITY (Peers/Fine.v): the Manager holds no lock across a call, so every call in progress is a thread "
                "with a program counter and its local variables, one event is ONE critical section of one thread (Validate 7, validatedPool 4+n, "
                "Peer up to 9 per retry + the blocking select, blacklistPeers 3 per peer: nodes.remove | BlockPeer | ClosePeer, UpdateNodePool 2, "
                "disconnect 2, GC round 2 + blacklistPeers, ...), syncPools are heap objects that outlive their map entry; over ALL interleavings of "
                "any number of concurrent calls: a Peer call that begins after a peer was blacklisted never returns it (fast path and blocking "
                "path), a returned misbehaviour report did blacklist, a peer is in the general pool only if a discovery add / an announcement of a "
                "hash whose confirmation has begun has begun; and the blacklist test in removeIfUnreachable is necessary: for the variant that "
                "tests nodes.has only, the theorem is refuted by the schedule 'discovery add between nodes.remove and BlockPeer'. "
                "(5) Cool-down timer at LOCK GRANULARITY (Peers/PoolFine.v): one expiry is split into the timer goroutine's critical sections "
                "(take the queue mutex | one scan iteration of releaseUnsafe | the callback pool.afterCooldown under pool.m | release), with remove / "
                "tryGet / cleanup / clock / waiter steps free to run between any two of them and add / putOnCooldown enabled only while the timer does "
                "not hold the queue mutex; with the callback under the queue mutex (the code under test) every such history is simulated by a history "
                "of the pool model, so cooldown_respected and the bookkeeping invariant hold for every interleaving; for the variant 'collect, "
                "unlock, then call back' cooldown_respected is refuted (remove + add + putOnCooldown between the unlock and the stale callback). "
                "All models are re-validated against the real pool / real Manager on every run: ~900 sequential operation sequences, each "
                "manager sequence evaluated by BOTH manager models, plus ~230 schedules in which real Manager calls are parked at named points "
                "inside the real code (log statements, the gater's datastore write, ClosePeer, the general pool's queue mutex) while other calls "
                "run, and ~170 pool schedules in which the real expiry callback is held back (onPop wrapped) while a worker runs pool calls and the "
                "scheduler records which of them return and which queue up behind the queue mutex. PARTIAL: cleanUp is one step (it holds Manager.lock but reads atomics and peersList unlocked); Go-runtime scheduling below "
                "lock granularity and data races are not modelled; the harness reaches only the interleavings whose switch points have a hook; "
                "deadlock freedom rests on the translator's lock graph."),
    rule=("pool sequences: 13 scripted (unit-test scenarios, cool-down/remove/re-add/cool-down, waiters) + 500 random sequences of 8-48 operations over "
          "3-6 peers {add 1-3, remove, tryGet, putOnCooldown (biased to active peers), clock tick 0-20 s with ttl 10 s, cleanup, next() start/cancel}, "
          "cleanup thresholds {0,1,2,3}; non-trivial = the sequence has a cool-down followed by a remove and by a clock tick. "
          "manager sequences: 11 scripted + 400 random sequences of 6-36 events over 5 peers x 4 hashes {shrex-sub notification (right/old/random height, "
          "self), header, Peer, DoneFunc(noop|cooldown|blacklist) of an outstanding peer, discovery add/remove, disconnect, pool ageing, GC round, clock "
          "tick}, blacklisting on in 70%; non-trivial = a notification followed by a confirmation and (when blacklisting is on) a blacklisting event. "
          "fine schedules: 13 scripted (every parking point; the discovery-add / in-flight-Validate / GC variants of the gap between nodes.remove and "
          "BlockPeer; the benign overlap where Peer has made its last test before the blacklisting) + 220 random schedules of 8-34 scheduler decisions over "
          "4 peers x 4 hashes {start a call and run it to its end or to one of its parking points, resume a parked call to its end or to a later parking "
          "point, age, tick}, at most 3 calls parked, peers biased to the one being blacklisted, blacklisting on in 85%; non-trivial = some call ran "
          "while another was parked and (when blacklisting is on) a blacklisting call happened. "
          "expiry windows: 11 scripted + 160 random pool sequences of 8-32 operations over 3-5 peers in which, with probability 30% when an item is queued, "
          "the clock is moved exactly to the head item's deadline and callback number Park of that expiry is parked before pool.afterCooldown while a worker "
          "runs 1-5 calls {remove, add, putOnCooldown, tryGet; 70% on the expiring peer; 35% the triple remove+add+putOnCooldown}; non-trivial = a callback "
          "was parked with at least one call run meanwhile. "
          "distinct = distinct Coq case term (events + every returned value + projected final state)."),
    trusted_base=[
        "translator /verif/translators/locks (go/ast+go/types, ~600 lines): extracts mutex events per function, follows same-package calls and function-valued fields bound syntactically (timedQueue.onPop = pool.afterCooldown), may-hold sets over branches/loops; calls leaving the package or going through interfaces/unbound function values are assumed not to re-enter the package's locks (listed in the generated file); locks are identified by declaring type+field (instance-insensitive, RLock = Lock)",
        "the hypothesis of C17_peers_no_deadlock (every thread follows the generated edge list and releases what it took) is what the translator asserts of the Go code; Go mutex semantics (exclusive, blocking) as modelled in Base/LockOrder.v",
        "models Peers/Pool.v and Peers/Manager.v hand-written after pool.go, timedqueue.go, manager.go; tied by the correspondence harness (real pool with benbjohnson mock clock injected like timedqueue_test.go; real Manager built like manager_test.go: mocknet host, BasicConnectionGater over a map datastore, real subscribeHeader / subscribeDisconnectedPeers loops fed by scripted subscriptions; one GC round = cleanUp + blacklistPeers as in the GC loop body; pool age = createdAt moved 1h back)",
        "pool steps are atomic because every pool method holds pool.m (and the queue its mutex); Peers/Manager.v treats a whole Manager call as atomic, Peers/Fine.v splits it into its critical sections; the two are tied by evaluating every sequential case in both (no Coq refinement proof between them)",
        "Peers/Fine.v: one step = one critical section as read off manager.go (Manager.lock, pool.m, the gater's RWMutex, the LRU, atomics); cleanUp is a single step; connGater.BlockPeer takes effect atomically when it sets its map (its datastore write before that is a parking point; a failing datastore is not modelled); Network().ClosePeer has no effect on the model",
        "Peers/PoolFine.v: one timer goroutine at a time; items are trimmed at each scan iteration instead of after the loop (only holders of the queue mutex read the queue); the blocked add / putOnCooldown are 'not enabled' events; harness: the queue's onPop field is wrapped so that one callback parks before pool.afterCooldown, the mock clock is moved exactly to the head item's deadline (one releaseExpired), a single worker goroutine runs the injected calls in order and 'queued up behind the queue mutex' is read off the mutex waiter count",
        "lock-granularity harness: the package variable `log` is replaced by a logger whose zap core calls the scheduler (parking points = log statements of manager.go, matched by message text), the gater's datastore and the host are wrapped (BlockPeer's write, ClosePeer), the scheduler holds the general pool's queue mutex and reads its waiter count to park a call before nodes.add / nodes.putOnCooldown; exactly one call runs at a time; Peer is called with a cancelled context, so its blocking select is exercised only up to 'would wait' (the FWake steps of the model are proved about, not replayed)",
        "Go map iteration order enters the manager model as an explicit event parameter (theorems quantify over it; cases record the order the implementation used)",
        "libp2p host / connection gater / pubsub are mocked or real third-party code, not verified; metrics are off; blacklistedHashes LRU eviction (1024 entries) is not modelled",
        "Peer()'s blocking wait is modelled only up to 'would wait' (PWait); the wait itself is the pool's next(), covered by the pool model",
    ],
)

SPEC = dict(
    id="C04",
    props_file="Props/C04.v",
    harness=[dict(pkg="das", test="TestVerifC04", timeout=900, timeout_thorough=3000)],
    allowed_axioms=[],
    level_text="(draft)",
    rule="(draft)",
    trusted_base=[],
)

_MODEL = ("model Das/Coordinator.v hand-written after das/state.go, coordinator.go, worker.go, checkpoint.go, daser.go, store.go, backoff.go; "
          "tied by the correspondence harness harness/das/zz_verif_c04_*_test.go which drives the REAL DASer (NewDASer/Start/Stop, the real "
          "coordinator and worker goroutines, the real checkpoint store on a map datastore) one event at a time and whose observations "
          "(statistics, failed/inRetry attempts, worker states, checkpoint-now, persisted checkpoint) are re-computed by the model inside Coq "
          "(vm_compute) after every event of every history")
_TB = [
    _MODEL,
    "harness mechanics: the coordinator goroutine is held inside its own statistics rendezvous (waitCh) between events; finished workers' "
    "results are taken from resultCh by the harness and handed to the coordinator in the order of the history; the Availability mock parks "
    "every SharesAvailable call until released with a scripted outcome; header store, subscription and datastore are mocks",
    "time: retryAttempt.after is real time with a back-off table in hours; back-off expiry is simulated by rewriting 'after' to a past/future "
    "instant according to a virtual clock; a tick is always followed by a wake-up pass of the coordinator (the schedule 'time passes, then a head "
    "arrives at a coordinator blocked in select' is covered by the theorems but not replayed on the implementation); time.Now() is assumed "
    "strictly increasing between a resume and the first retry scan",
    "Go's random map iteration in retryJob is an explicit choice list in the model's events; the harness restricts the set of due heights so "
    "that the choice is forced, except right after Start where the observed choice is recorded",
    "the background store goroutine is disabled (interval 0); its tick is replayed by the harness calling the real getCheckpoint and store "
    "with the rule 'SampleFrom > prev' re-implemented in 3 lines",
    "the header store is assumed to contain every announced head at restart (Restart's head is at least the largest announced head); "
    "Go uint64 heights are modelled as unbounded Z (harness heights stay below 2^20)",
    "most cases carry a 31-bit fingerprint of the canonical serialisation of the observation (same serialisation and polynomial hash on both "
    "sides) instead of the record itself; 30 histories per run carry full records",
    "Go-level data races inside the coordinator are outside the model (it is single-threaded by construction; worker<->coordinator hand-off "
    "is modelled at channel granularity)",
]

SPEC = dict(
    id="C04",
    props_file="Props/C04.v",
    harness=[dict(pkg="das", test="TestVerifC04", timeout=900, timeout_thorough=3000)],
    allowed_axioms=[],
    level_text=("Machine-checked theorems (Coq) over an executable model of the DASer coordinator at channel/lock granularity: for EVERY history "
                "of heads (consecutive, skipping, duplicate, stale), worker steps with any outcome, deliveries, statistics/checkpoint requests, "
                "ticks, stops, crashes and restarts, every sampling range, concurrency limit and back-off table: the coverage invariant, "
                "SampledChainHead below every unsampled height, and restart coverage for every checkpoint that can be taken or lie on disk. "
                "The model follows the repaired code (fix-c04-1 + fix-c13-1..3); the statement is proved false of the code before fix-c04-1 "
                "(C04_restart_cover_refuted) and that history is replayed on the implementation. The model is re-validated against the real "
                "DASer on ~430 random + directed histories (~20k events) per quick run, with implementation-level oracles after every event "
                "and after a final 'everything succeeds' drain."),
    rule=("a history = random configuration (range 1-4, limit 1-4, 6 back-off tables, tail 1-3, up to 12 stored heads) and 15-75 events chosen "
          "from what the implementation can do (head: next/skipping/duplicate/stale/far; step of any live worker with ok/fail/outside/cancel "
          "as different concrete errors; delivery of any finished worker; wake; background checkpoint; tick; stop; crash; restart with moved "
          "tail/head), then a drain phase in which every sampler call succeeds. One case = one history with the observation after every event. "
          "Non-trivial = at least one restart after the first start and at least one checkpoint (background or stop) taken while a worker was in flight; "
          "distinct = distinct Coq case term."),
    trusted_base=_TB,
)

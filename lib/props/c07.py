import json, os, re, shutil


def _parse_strace(path, info):
    """Normalise an strace log (-f -y) of TestVerifC07Trace into per-mode effect lists (Coq terms)."""
    names = {}
    for mode, d in info.items():
        names[mode] = {d["ods"]: "POds", d["q4"]: "PQ4", d["link"]: "PLink"}
    pending = {}
    events = []  # (syscall, args, ret) in completion order
    line_re = re.compile(r"^(\d+)\s+(.*)$")
    for raw in open(path, errors="replace"):
        m = line_re.match(raw.rstrip("\n"))
        if not m:
            continue
        pid, rest = m.group(1), m.group(2)
        if rest.endswith("<unfinished ...>"):
            pending[pid] = rest[: -len("<unfinished ...>")]
            continue
        r = re.match(r"^<\.\.\. (\w+) resumed>(.*)$", rest)
        if r:
            rest = pending.pop(pid, r.group(1) + "(") + r.group(2)
        c = re.match(r"^(\w+)\((.*)\)\s+=\s+(-?\d+|\?)(.*)$", rest)
        if not c:
            continue
        events.append((c.group(1), c.group(2), c.group(3), c.group(4)))
    out, detail, foreign = {}, {}, {}
    cur = None
    pos = {}     # (mode, fd path) -> bytes written so far through sequential writes
    size = {}    # (mode, fd path) -> current file size as far as the trace tells
    for sc, args, ret, tail in events:
        if sc in ("openat", "open", "creat"):
            pm = re.search(r'"([^"]*)"', args)
            pth = pm.group(1) if pm else ""
            if pth.endswith("C07-BEGIN") and "O_CREAT" in args:
                cur = os.path.basename(os.path.dirname(pth))
                out[cur], detail[cur], foreign[cur] = [], [], []
                continue
            if pth.endswith("C07-END"):
                cur = None
                continue
            if cur and pth in names[cur] and not ret.startswith("-"):
                if "O_CREAT" in args:
                    out[cur].append("Create %s" % names[cur][pth])
                    detail[cur].append(dict(op="create", p=names[cur][pth]))
                    pos[(cur, pth)], size[(cur, pth)] = 0, 0
                elif "O_TRUNC" in args or "O_WRONLY" in args or "O_RDWR" in args:
                    foreign[cur].append("%s(%s) on %s" % (sc, args[-60:], names[cur][pth]))
            continue
        if not cur:
            continue
        fm = re.match(r"^\d+<([^>]*)>", args)
        fdp = fm.group(1) if fm else None
        if sc == "write":
            if fdp in names[cur] and not ret.startswith("-"):
                n = int(ret)
                off = pos.get((cur, fdp), 0)
                if off != size.get((cur, fdp), 0):
                    foreign[cur].append("write of %d bytes at offset %d into %s of size %d (not an append)" % (n, off, names[cur][fdp], size.get((cur, fdp), 0)))
                out[cur].append("Append %s %s" % (names[cur][fdp], ret))
                detail[cur].append(dict(op="write", p=names[cur][fdp], off=off, n=n))
                pos[(cur, fdp)] = off + n
                size[(cur, fdp)] = max(size.get((cur, fdp), 0), off + n)
        elif sc == "pwrite64":
            if fdp in names[cur] and not ret.startswith("-"):
                n = int(ret)
                om = re.search(r",\s*(\d+)\s*$", args)
                off = int(om.group(1)) if om else -1
                if off != size.get((cur, fdp), 0):
                    foreign[cur].append("pwrite64 of %d bytes at offset %d into %s of size %d (not an append)" % (n, off, names[cur][fdp], size.get((cur, fdp), 0)))
                out[cur].append("Append %s %s" % (names[cur][fdp], ret))
                detail[cur].append(dict(op="write", p=names[cur][fdp], off=off, n=n))
                size[(cur, fdp)] = max(size.get((cur, fdp), 0), off + n)
        elif sc == "lseek":
            if fdp in names[cur] and not ret.startswith("-"):
                pos[(cur, fdp)] = int(ret)
        elif sc in ("ftruncate", "fallocate", "sendfile", "copy_file_range", "pwritev", "writev", "pwritev2"):
            if fdp in names[cur] and not ret.startswith("-"):
                nm = re.search(r",\s*(\d+)\s*$", args)
                n = int(nm.group(1)) if nm else -1
                foreign[cur].append("%s(%s, %s) = %s" % (sc, names[cur][fdp], args.split(",", 1)[1].strip() if "," in args else "", ret))
                if sc == "ftruncate":
                    detail[cur].append(dict(op="truncate", p=names[cur][fdp], n=n))
                    size[(cur, fdp)] = n
                else:
                    detail[cur].append(dict(op="other", p=names[cur][fdp], what=sc))
        elif sc == "truncate":
            ps = re.findall(r'"([^"]*)"', args)
            if ps and ps[0] in names[cur] and not ret.startswith("-"):
                nm = re.search(r",\s*(\d+)\s*$", args)
                n = int(nm.group(1)) if nm else -1
                foreign[cur].append("truncate(%s, %d)" % (names[cur][ps[0]], n))
                detail[cur].append(dict(op="truncate", p=names[cur][ps[0]], n=n))
                size[(cur, ps[0])] = n
        elif sc in ("fsync", "fdatasync"):
            pass
        elif sc == "close":
            if fdp in names[cur]:
                out[cur].append("Close %s" % names[cur][fdp])
                detail[cur].append(dict(op="close", p=names[cur][fdp]))
        elif sc in ("linkat", "link"):
            ps = re.findall(r'"([^"]*)"', args)
            if len(ps) == 2 and ps[0] in names[cur] and ps[1] in names[cur] and not ret.startswith("-"):
                out[cur].append("Link %s %s" % (names[cur][ps[0]], names[cur][ps[1]]))
                detail[cur].append(dict(op="link", p=names[cur][ps[0]], q=names[cur][ps[1]]))
        elif sc in ("symlinkat", "symlink"):
            ps = re.findall(r'"([^"]*)"', args)
            if len(ps) == 2 and ps[1] in names[cur]:
                out[cur].append("Symlink PEOds %s" % names[cur][ps[1]])
                detail[cur].append(dict(op="symlink", q=names[cur][ps[1]]))
        elif sc in ("unlinkat", "unlink"):
            ps = re.findall(r'"([^"]*)"', args)
            if ps and ps[0] in names[cur] and not ret.startswith("-"):
                out[cur].append("Unlink %s" % names[cur][ps[0]])
                detail[cur].append(dict(op="unlink", p=names[cur][ps[0]]))
        elif sc in ("renameat", "rename", "renameat2"):
            ps = re.findall(r'"([^"]*)"', args)
            hit = [names[cur][x] for x in ps if x in names[cur]]
            if hit and not ret.startswith("-"):
                foreign[cur].append("%s involving %s" % (sc, ",".join(hit)))
                detail[cur].append(dict(op="other", p=hit[0], what=sc))
    return out, detail, foreign


def extra(ctx):
    """T-fs: run one real put of the harness binary under strace, normalise the file-system effects into
    coq/theories/Gen/PutEffects.v and let Coq check that the observed sequence is one of the modelled put traces."""
    problems, cov = [], {}
    binp = os.path.join(ctx["BUILD"], "bin", "C07_store.test")
    work = os.path.join(ctx["out"], "tfs")
    shutil.rmtree(work, ignore_errors=True)
    os.makedirs(work)
    trace = os.path.join(work, "strace.txt")
    env = dict(ctx["GOENV"])
    env["VERIF_C07_TRACE_DIR"] = work
    cmd = ["strace", "-f", "--seccomp-bpf", "-y", "-s", "0", "-e", "trace=openat,open,creat,write,pwrite64,writev,pwritev,pwritev2,close,fsync,fdatasync,ftruncate,truncate,fallocate,lseek,sendfile,copy_file_range,linkat,link,symlinkat,symlink,unlinkat,unlink,renameat,renameat2,rename",
           "-o", trace, binp, "-test.run", "^TestVerifC07Trace$", "-test.count", "1"]
    # strace does not always return in this sandbox after the traced Go binary has exited (it keeps waiting on an
    # already dead thread): wait for the test to write its result file and the last marker, then stop strace.
    import signal, subprocess, time
    e = dict(os.environ)
    e.update(env)
    ipath = os.path.join(work, "info.json")
    t0 = time.time()
    p = subprocess.Popen(cmd, cwd=os.path.join(ctx["REPO"], "store"), env=e, stdout=subprocess.DEVNULL, stderr=subprocess.DEVNULL, start_new_session=True)
    done = False
    while time.time() - t0 < 300:
        if p.poll() is not None:
            done = True
            break
        if os.path.exists(ipath) and os.path.exists(trace) and open(trace, errors="replace").read().count("C07-END") >= 4:
            time.sleep(0.5)
            done = True
            break
        time.sleep(0.2)
    if p.poll() is None:
        for sig in (signal.SIGTERM, signal.SIGKILL):
            try:
                os.killpg(p.pid, sig)
            except ProcessLookupError:
                break
            time.sleep(0.5)
    rc = 0 if done else 124
    out = ""
    ctx["log"].append("$ %s rc=%d %.1fs" % (" ".join(cmd), rc, time.time() - t0))
    if rc != 0 or not os.path.exists(ipath) or not os.path.exists(trace):
        problems.append(dict(layer="L2-translator", what="T-fs: the put could not be traced with strace (rc=%d)" % rc, detail=out[-1500:]))
        return dict(problems=problems, coverage=cov)
    info = json.load(open(ipath))
    eff, detail, foreign = _parse_strace(trace, info)
    for mode in ("q4", "ods"):
        if foreign.get(mode):
            problems.append(dict(layer="L2-translator", what="T-fs: the real put (%s) performs file-system effects on the block files that are not effects of the modelled put program (create, appending writes, close, link): %s" % (mode, "; ".join(foreign[mode][:6]))))
    cov["tfs_foreign_effects"] = {m: foreign.get(m, [])[:10] for m in ("q4", "ods")}
    lines = ["(** GENERATED on every run by lib/props/c07.py from an strace of the real Store.PutODSQ4 / PutODS (T-fs). *)",
             "From Coq Require Import List NArith.", "From CN Require Import Store.Crash Store.CrashProofs.", "Import ListNotations.", "Open Scope N_scope.", ""]
    for mode, cmode in (("q4", "MQ4"), ("ods", "MOds")):
        l = eff.get(mode, [])
        cov["tfs_effects_" + mode] = len(l)
        cov["tfs_writes_" + mode] = dict(ods=sum(1 for e in l if e.startswith("Append POds")), q4=sum(1 for e in l if e.startswith("Append PQ4")))
        lines.append("Definition put_effects_%s : list effect := [%s]." % (mode, "; ".join(l)))
        lines.append("Definition to_%s : N := %d. Definition tq_%s : N := %d." % (mode, info[mode]["to"], mode, max(info[mode]["tq"], 0)))
        lines.append("Lemma observed_is_instance_%s : is_fresh_put to_%s tq_%s %s put_effects_%s = true.\nProof. vm_compute. reflexivity. Qed." % (mode, mode, mode, cmode, mode))
        lines.append("Lemma observed_is_modelled_%s : put_trace to_%s tq_%s %s fs0 put_effects_%s.\nProof. exact (is_fresh_put_sound _ _ _ _ observed_is_instance_%s). Qed." % (mode, mode, mode, cmode, mode, mode))
        lines.append("Print Assumptions observed_is_modelled_%s.\n" % mode)
    gen = os.path.join(ctx["TH"], "Gen", "PutEffects.v")
    os.makedirs(os.path.dirname(gen), exist_ok=True)
    open(gen, "w").write("\n".join(lines) + "\n")
    rc, out = ctx["sh"](["coqc", "-Q", ctx["TH"], "CN", gen], cwd=os.path.dirname(ctx["TH"]), timeout=600)
    ctx["log"].append("$ coqc Gen/PutEffects.v rc=%d\n%s" % (rc, out[-3000:]))
    cov["tfs_observed_is_instance"] = (rc == 0 and out.count("Closed under the global context") == 2)
    if not cov["tfs_observed_is_instance"]:
        problems.append(dict(layer="L2-translator", what="T-fs: the observed effect sequence of the real put is not an instance of the modelled put program (Gen/PutEffects.v does not check)", detail=out[-1500:]))
    cov["tfs_sample"] = dict(q4=eff.get("q4", [])[:12], ods=eff.get("ods", [])[:8])
    # L3 on the observed trace: every prefix of the effect sequence the real put was seen to perform is materialised on
    # disk (bytes taken from the complete files at the traced offsets) and given to the real store: restart, lookup,
    # re-put either way, lookup, remove.
    violations = []
    epath = os.path.join(work, "effects.json")
    json.dump(detail, open(epath, "w"))
    eout = os.path.join(work, "effects_out")
    env2 = dict(ctx["GOENV"])
    env2.update(VERIF_OUT=eout, VERIF_SEED=str(ctx["seed"]), VERIF_TIER=ctx["tier"], VERIF_C07_EFFECTS=epath)
    rc, out = ctx["sh"]([binp, "-test.run", "^TestVerifC07Effects$", "-test.count", "1", "-test.timeout", "900s"], cwd=os.path.join(ctx["REPO"], "store"), env=env2, timeout=1000)
    ctx["log"].append("$ TestVerifC07Effects rc=%d\n%s" % (rc, out[-3000:]))
    rp = os.path.join(eout, "result.json")
    if rc != 0 or not os.path.exists(rp):
        problems.append(dict(layer="L2-run", what="T-fs: the crash states of the observed effect sequence could not be evaluated (rc=%d)" % rc, detail=out[-1500:]))
    else:
        res = json.load(open(rp))
        violations = res.get("l3_violations", [])
        cov["tfs_prefix_states"] = res.get("extra", {}).get("prefix_states", 0)
    return dict(problems=problems, violations=violations, coverage=cov)


SPEC = dict(
    id="C07",
    props_file="Props/C07.v",
    harness=[dict(pkg="store", test="TestVerifC07", timeout=900, timeout_thorough=3000, overlay_tags=["c05"])],
    allowed_axioms=[],
    level_text=("Machine-checked theorem (Coq): for every effect sequence one call of the store's put (PutODSQ4 / PutODS: exclusive create, "
                "ErrExist -> size validation -> remove-and-rewrite, height link last) or of removal can produce — every interleaving of the "
                "ODS and Q4 writers, any number and size of buffered writes — and EVERY prefix of it (crash point), from any consistent "
                "state: after restart no partially written file is linked, a lookup by height is absent or the complete correct block, "
                "re-putting the block either way succeeds and leaves it linked and fully readable, removal leaves it absent; same for "
                "the empty block (symlink, files rewritten on every start). The system-call sequence of the real put is captured with "
                "strace on every run and checked (in Coq, by a checker proved sound) to be one of the modelled sequences; the harness "
                "materialises the product of prefixes of the real .ods and .q4 files (incl. the real 64 KiB flush boundaries) on disk and "
                "compares the real NewStore / HasByHeight / GetByHeight (everything read back) / PutODSQ4 / PutODS / RemoveODSQ4 with the "
                "model's prediction and with the reference square. The model is the repaired code (fix commit 209657c: openQ4 refuses a Q4 "
                "file that does not hold the whole quadrant); on the unrepaired code the property is refuted (theorem + concrete replay). "
                "Partial: process-crash semantics only."),
    rule=("crash states: blocks of width 2, 4, 4 (padded), 16 (quick) / 1..32 (thorough) x {.ods absent, 0, 1, 40, 64, 65 (header complete), "
          "66, mid-roots, roots complete, one share, mid-share, half, last share, all-but-last byte, complete, every 64 KiB flush boundary, "
          "random} x the same for .q4 x link absent/present x re-put by PutODSQ4 / PutODS; one case = one materialised state with the "
          "observed has/lookup (all axis halves both ways, samples with proof verification, Shares, Reader)/q4-used, re-put result, "
          "files and lookup after re-put (fresh process), lookup after removal. Non-trivial = at least one of the two files is present. "
          "L3 applies to the states the write path can leave behind (link => complete ODS); a few unreachable states (link to a partial "
          "file) are kept for the lookup correspondence only. The empty block: symlink absent/present x empty-block file absent / partial."),
    trusted_base=[
        "model Store/Crash.v hand-written after store/store.go put/createODSQ4File/validateAndRecover*/linkHeight/removeODSQ4/populateEmptyFile and store/file Create*/Validate*Size/OpenODS/openQ4; tied by (1) the strace-based observation of the real put's effects checked in Coq each run (Gen/PutEffects.v, checker proved sound) and (2) the crash-state correspondence harness harness/store/zz_verif_c07_test.go",
        "process-crash semantics only: effects are applied in order, one at a time, a write is atomic; no torn or reordered writes, no fsync / power-loss semantics (the harness additionally truncates inside writes, which the code also survives, but the theorem does not cover it)",
        "a file is modelled by its length: every writer of a block file writes the canonical bytes of that block, so a prefix is determined by its length (that a complete file reads back as the block is C05)",
        "hard links are modelled by sharing (LShared / LOwn); only the height link can alias the ODS file; other heights of the same data hash and I/O errors (ENOSPC, EIO) are out of scope",
        "the recent-blocks cache is not part of the crash model (it does not survive a restart); lookups are made on a freshly started store",
        "the model follows the repaired code (fix commit 209657c, store/file/q4.go openQ4 size check); lookups by hash (no height link involved) are not covered",
        "the strace normaliser (lib/props/c07.py, ~80 lines) maps openat(O_CREAT)/write/close/linkat/symlinkat/unlinkat on the three block paths to effects; syscalls on other paths are ignored",
    ],
)

SPEC = dict(
    id="C16",
    props_file="Props/C16.v",
    harness=[dict(pkg="header/headertest", test="TestVerifC16", timeout=900, timeout_thorough=3000)],
    allowed_axioms=[],
    level_text=("Machine-checked theorems (Coq) over an executable model of ExtendedHeader.Validate / Verify / Hash, the binary and JSON codecs "
                "(as field-record maps with the decoders' validations) and MsgID, including cometbft's commit verification in BOTH its "
                "one-by-one and batch variants (proved to accept exactly the same commits) and celestia-app's DAH hashing (surplus column "
                "roots are dropped by Hash()). Proved for all headers: acceptance soundness (DAH/valset/commit consistent, > 2/3 valid "
                "signed power), the block hash binds every raw-header field, every root and every validator key/power (so any such "
                "mutation under the same commit is refused), <= 2/3 valid power is refused, Verify soundness (adjacent link; > 1/3 trusted "
                "signed power on either signature path; basic checks of the go-header wrapper), re-encoding keeps fields, hash and "
                "Validate verdict and - for basically valid untrusted commits - the Verify verdict, MsgID is the commit's block id. The model is re-validated on every run against the real code on "
                "~1200 (quick) generated headers / pairs; hashes and ed25519 are symbolic (Dolev-Yao)."),
    rule=("chains of real signed headers over validator sets of 1,2,3,4,5,7,10 keys with equal / random / whale / multiple-of-three / "
          "zero-power distributions and validator-set changes; 57 mutation operators (every raw-header field: flip, empty, wrong length, "
          "neighbour's value; DAH roots change/swap/transpose/add/remove/empty/neighbour/oversize; commit height/round/block id; signatures "
          "flip/length/swap/drop/duplicate/absent/flag/timestamp/address/from-neighbour/forged key; validator power/overflow/remove/add/swap/"
          "key/address/duplicate/other chain/priority/proposer/key-type flag), applied singly (each at least once) and in groups of 2-3, "
          "35% re-committed consistently (data hash, validators hash, block id recomputed, re-signed by > 2/3); a signer-threshold sweep; "
          "Verify on adjacent / non-adjacent honest and mutated pairs (partial signer sets around 1/3, other chain, same validators under "
          "another chain id, double votes, malformed block ids, basic checks); MsgID pairs. Each case: real Validate before and after "
          "binary and JSON round trips, trusted.Verify and go-header Verify. A case is non-trivial when it is a mutant, a Verify pair or a "
          "MsgID pair; distinct = distinct Coq case term."),
    trusted_base=[
        "model Header/Validate.v hand-written after header/header.go, header/serde.go and the called parts of celestia-core v0.40.2 "
        "(types/block.go, validation.go, validator_set.go, validator.go), celestia-app/v9 pkg/da and go-header verify.go; tied by the "
        "correspondence harness harness/header/headertest/zz_verif_c16_test.go whose observed verdict classes are re-computed by the model "
        "inside Coq (vm_compute) on every run",
        "hashing (tmhash merkle roots of header, validator set, DAH; address = sha256(key)[:20]) is symbolic: free constructors, injective "
        "by construction, with domain separation between header / validator-set / DAH roots assumed; ed25519 is symbolic: a signature "
        "verifies iff it is the signature made by that key over exactly that canonical vote (chain id, height, round, block id, timestamp)",
        "the harness symbolises real bytes: a byte string is a hash term only if it is the real hash of a header / validator set / DAH of the "
        "same case, a signature term only if the harness made it (it records what was signed); everything else is an interned atom",
        "protobuf / tmjson byte formats are not modelled: codecs are field-record maps; that the real codecs carry every field is checked "
        "on the implementation (field-by-field comparison after MarshalBinary/UnmarshalBinary and MarshalJSON/UnmarshalJSON) on every case",
        "only ed25519 validator keys with present public keys; header times between years 1 and 9999; nil Commit / ValidatorSet / DAH "
        "pointers are not generated (Validate panics on a nil commit)",
        "wall clock for the from-the-future check is passed to the model as a number; generated times stay more than an hour from now",
    ],
)

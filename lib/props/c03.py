SPEC = dict(
    id="C03",
    props_file="Props/C03.v",
    harness=[dict(pkg="share/availability/light", test="TestVerifC03", timeout=900, timeout_thorough=3000)],
    allowed_axioms=[],
    level_text=(
        "Machine-checked theorems (Coq, no axioms) over an executable model of light availability sampling at interleaving granularity "
        "(every SharesAvailable call advances one shared-state access at a time: session LoadOrStore / wait / Get + load-or-draw / persist / "
        "close / Delete; getter answers, context aborts, crash and restart are events of the environment), for ALL histories and schedules: "
        "avail_sound (success => a duplicate-free in-square set of >= min(count, w*w) coordinates, each returned non-empty by the getter at its "
        "own position for this root), served_genuine/served_verified (what 'returned non-empty' means; 'verified' is the hypothesis the getter, "
        "C06, must supply), session_mutex (one call per height inside its session), requests_are_pending / pending_step / pending_stable "
        "(the persisted set never changes, a coordinate leaves 'remaining' only through a non-empty answer at its position, every request asks "
        "for exactly the persisted remaining list - across retries, concurrent calls, crash and restart), draw_ok (every byte stream of "
        "crypto/rand yields exactly min(count, w*w) distinct in-square coordinates) and draw_reaches_every_cell (no cell of the square is "
        "excluded by construction). The model follows the REPAIRED code (branches fix-c03-1, "
        "fix-c03-2); for the code before the repairs the two pending_stable_original_*_refuted witnesses are proved and replayed. The model is "
        "re-validated on every run against the real ShareAvailability driven through ~700 generated concurrent histories (scripted getter, "
        "scripted crypto/rand.Reader, crash/restart over a shared datastore) plus ~1000 draws. Partial: unpredictability/uniformity of "
        "crypto/rand is outside any model (the draw stream is an input; a chi-square statistic over real draws is reported); validity of a "
        "non-empty sample is the getter's obligation (C06)."),
    rule=(
        "hist groups: one case = one whole history of the real code: 1-3 headers (widths 1..32 incl. non powers of two, rarely empty / outside "
        "the window), SampleAmount 0..area+3, write-batch 0..2 or 2048, 1-4 concurrent calls, 5-17 scheduled ops out of {call (6% with a "
        "cancelled context), getter answer (all / random subset / none served / nil / empty slice / one missing / SHORTER / LONGER than requested, "
        "x error none|other|deadline|canceled), abort of a waiting call (canceled|deadline), crash (no Close), restart (Close), 6% with a "
        "changed SampleAmount}; observed per op: blocked | coordinates handed to the getter | verdict class, and the durable JSON of every root "
        "whenever it changed. A history is non-trivial when it contains a partial/empty/failed answer AND (a crash/restart OR a call that had "
        "to wait for a session). draw groups: (width, count, bytes read from the scripted crypto/rand.Reader, coordinates requested): "
        "the model must consume exactly these bytes and produce exactly this set; widths 1..600. distinct = distinct Coq case term."),
    trusted_base=[
        "model Light/Sampling.v hand-written after share/availability/light/{availability.go,sample.go,options.go}, libs/utils/sessions.go, "
        "share/availability/window.go (as a boolean input) and go-datastore/autobatch (Get/Put/Flush/threshold); tied by the correspondence "
        "harness harness/share/availability/light/zz_verif_c03_test.go whose observations are re-computed by the model inside Coq (vm_compute) on every run",
        "crypto/rand.Int (Go standard library) is modelled (bit length, byte count, mask, rejection loop), not verified; under the same correspondence "
        "through a scripted crypto/rand.Reader. Unpredictability and uniformity of the real reader are outside the model; chi-square reported as a test",
        "the order in which coordinates leave the Go map in selectRandomSamples is unspecified: the model takes it as an input (any permutation); "
        "because of it the ORDER of coordinates (not the set, not the verdicts) in the generated cases differs between two runs with the same seed",
        "the harness mocks: shwap.Getter (scripted, blocks until answered), context (controllable Done/Err/Deadline), datastore "
        "(in-memory map shared by the instances of a scenario; an instance that crashed can no longer write), headers (fake row/column roots; "
        "SharesAvailable never verifies them); scheduling is controlled by the getter gate and observed through goroutine states "
        "(runtime.Stack: calls parked in Sessions.StartSession) - no sleeps decide an outcome",
        "Go runtime semantics of sync.Map, channels and select are modelled at the granularity of whole operations (LoadOrStore, close, Delete, "
        "receive-or-ctx.Done); dsLk makes datastore accesses atomic",
        "not modelled: Prune (it runs for headers outside the window, for which SharesAvailable short-circuits), datastore I/O errors and JSON "
        "corruption (the call returns the error before any state change), SampleAmount >= 2^63, two different heights carrying the same data root "
        "(pending_stable assumes width and height are functions of the root: hypothesis ev_chain)",
        "'retrieved with a valid proof': light availability never calls Sample.Verify; avail_sound is relative to 'returned non-empty by the getter' "
        "and C03_served_verified states the hypothesis the getter (C06) must supply; the consequence of shrex GetSamples returning an unverified "
        "non-empty sample is demonstrated in the evidence (c06_unverified_sample_consequence)",
    ],
)

SPEC = dict(
    id="C03",
    props_file="Props/C03.v",
    harness=[dict(pkg="share/availability/light", test="TestVerifC03", timeout=900, timeout_thorough=3000)],
    allowed_axioms=[],
    level_text=(
        "Machine-checked theorems (Coq, no axioms) over an executable model of light availability sampling at interleaving granularity "
        "(every SharesAvailable call advances one shared-state access at a time: session LoadOrStore / wait / Get + load-or-draw / persist / "
        "close / Delete; getter answers, context aborts, crash and restart are events of the environment, and so are FAULTS OF THE DATASTORE the "
        "result is persisted in: the Get of the previous result failing with an error other than ErrNotFound - I/O error, or a context-aware "
        "datastore seeing a cancelled/expired context - and the Put/Flush of storeResult failing, at the eager persist of a fresh draw and at the "
        "persist after a getter answer, at each point where autobatch can fail: before the write buffer is emptied / at Commit / in a second "
        "flush), for ALL histories and schedules: "
        "avail_sound (success => a duplicate-free in-square set of >= min(count, w*w) coordinates, each returned non-empty by the getter at its "
        "own position for this root), served_genuine/served_verified (what 'returned non-empty' means; 'verified' is the hypothesis the getter, "
        "C06, must supply), session_mutex (one call per height inside its session), requests_are_pending / pending_step / pending_stable "
        "(the persisted set never changes, a coordinate leaves 'remaining' only through a non-empty answer at its position, every request asks "
        "for exactly the persisted remaining list - across retries, concurrent calls, crash and restart), draw_ok (every byte stream of "
        "crypto/rand yields exactly min(count, w*w) distinct in-square coordinates) and draw_reaches_every_cell (no cell of the square is "
        "excluded by construction); load_fault_inert (a call whose load fails returns that error, never 'available', and changes nothing: not the "
        "durable result, not the write buffer, no coordinate, no other call; nothing is drawn), store_fault_safe / store_fault_verdict (a failed "
        "store leaves every persisted result exactly as it was or - only the second flush failed - as answered by the failing call's own answer; it "
        "never turns a pending coordinate into a sampled one, never changes the set; the call returns an error) and rerequest_exactly_pending (after "
        "ANY history incl. datastore faults a later call asks for a durable list that is part of the first draw's pending coordinates; with the "
        "Getter contract the set is unchanged and every pending coordinate not asked for again was handed back non-empty for this root). "
        "The model follows the REPAIRED code (branches fix-c03-1, fix-c03-2, fix-c03-3); for the code before the repairs the "
        "pending_stable_original_*_refuted witnesses and pending_stable_keepbuf_refuted (fix-c03-3: a failed flush left the draw readable in the "
        "autobatch buffer but not durable; retry requests it, crash, next call redraws) are proved and replayed on the real code. The harness probes "
        "on the real code whether the tree has fix-c03-3 and ties it to the matching model variant (the theorems are about the repaired one). The model is "
        "re-validated on every run against the real ShareAvailability driven through ~700 generated concurrent histories (scripted getter, "
        "scripted crypto/rand.Reader, scripted datastore faults, crash/restart over a shared datastore) plus ~1000 draws. Partial: unpredictability/uniformity of "
        "crypto/rand is outside any model (the draw stream is an input; a chi-square statistic over real draws is reported); validity of a "
        "non-empty sample is the getter's obligation (C06)."),
    rule=(
        "hist groups: one case = one whole history of the real code: 1-3 headers (widths 1..32 incl. non powers of two, rarely empty / outside "
        "the window), SampleAmount 0..area+3, write-batch 0..2 or 2048, 1-4 concurrent calls, 5-17 scheduled ops out of {call (6% with a "
        "cancelled context), getter answer (all / random subset / none served / nil / empty slice / one missing / SHORTER / LONGER than requested, "
        "x error none|other|deadline|canceled), abort of a waiting call (canceled|deadline), crash (no Close), restart (Close), 6% with a "
        "changed SampleAmount}; datastore faults: 13% of the calls and 14% of the answers arm the scripted datastore to fail the 1st/2nd "
        "Get | Batch() | batch.Put | Commit issued for that call with an I/O error; 25% of the histories run on a context-aware datastore "
        "(every operation with a done context fails with ctx.Err(): pre-cancelled callers, and 'cancel' ops that end the context of a call "
        "inside the getter); what failed is observed from the datastore's operation log (load | store x SfEarly/SfCommit/SfSecond x "
        "other/canceled/deadline) and is part of the case; 11 fixed histories (5 of the earlier defects, 6 with datastore faults); observed per op: blocked | coordinates handed to the getter | verdict class, and the durable JSON of every root "
        "whenever it changed. L3 oracle (no model): success only when every coordinate of the first draw was served; a call whose load failed "
        "returned an error, never reached the getter, and the durable bytes of its root are unchanged; a call whose store failed returned an error; "
        "the coordinates handed to the getter are the never-served ones of the first draw (after a failed store: plus possibly served-but-unrecorded "
        "ones of that draw); persisted available+remaining is the first draw and 'available' only holds served coordinates. A history is non-trivial when it contains a partial/empty/failed answer AND (a crash/restart OR a call that had "
        "to wait for a session). draw groups: (width, count, bytes read from the scripted crypto/rand.Reader, coordinates requested): "
        "the model must consume exactly these bytes and produce exactly this set; widths 1..600. distinct = distinct Coq case term."),
    trusted_base=[
        "model Light/Sampling.v hand-written after share/availability/light/{availability.go,sample.go,options.go}, libs/utils/sessions.go, "
        "share/availability/window.go (as a boolean input) and go-datastore/autobatch (Get/Put/Flush/threshold, and what a Flush that fails "
        "at Batch()/batch.Put, at Commit, or the second time leaves in buffer and datastore); tied by the correspondence "
        "harness harness/share/availability/light/zz_verif_c03_test.go whose observations are re-computed by the model inside Coq (vm_compute) on every run",
        "crypto/rand.Int (Go standard library) is modelled (bit length, byte count, mask, rejection loop), not verified; under the same correspondence "
        "through a scripted crypto/rand.Reader. Unpredictability and uniformity of the real reader are outside the model; chi-square reported as a test",
        "the order in which coordinates leave the Go map in selectRandomSamples is unspecified: the model takes it as an input (any permutation); "
        "because of it the ORDER of coordinates (not the set, not the verdicts) in the generated cases differs between two runs with the same seed",
        "the harness mocks: shwap.Getter (scripted, blocks until answered), context (controllable Done/Err/Deadline), datastore "
        "(in-memory map shared by the instances of a scenario behind a scripted wrapper: an instance that crashed can no longer write; an armed "
        "child operation fails with an I/O error; in context-aware scenarios every operation with a done context fails; a failed Commit writes "
        "NOTHING - partial commits of a multi-key batch and 'written but reported failed' commits are not produced), headers (fake row/column roots; "
        "SharesAvailable never verifies them); scheduling is controlled by the getter gate and observed through goroutine states "
        "(runtime.Stack: calls parked in Sessions.StartSession) - no sleeps decide an outcome",
        "Go runtime semantics of sync.Map, channels and select are modelled at the granularity of whole operations (LoadOrStore, close, Delete, "
        "receive-or-ctx.Done); dsLk makes datastore accesses atomic",
        "not modelled: Prune (it runs for headers outside the window, for which SharesAvailable short-circuits; with fix-c03-3 a failed store "
        "also drops a buffered, not yet flushed Delete of Prune: the pruned result then stays as garbage), JSON corruption of a stored result "
        "(the call returns the error before any state change), a datastore that loses or alters data it acknowledged, SampleAmount >= 2^63, two different heights carrying the same data root "
        "(pending_stable assumes width and height are functions of the root: hypothesis ev_chain)",
        "'retrieved with a valid proof': light availability never calls Sample.Verify; avail_sound is relative to 'returned non-empty by the getter' "
        "and C03_served_verified states the hypothesis the getter (C06) must supply; the consequence of shrex GetSamples returning an unverified "
        "non-empty sample is demonstrated in the evidence (c06_unverified_sample_consequence)",
    ],
)

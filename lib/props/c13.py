import importlib.util, os
_s = importlib.util.spec_from_file_location("c04spec", os.path.join(os.path.dirname(os.path.abspath(__file__)), "c04.py"))
_m = importlib.util.module_from_spec(_s); _s.loader.exec_module(_m)

SPEC = dict(
    id="C13",
    props_file="Props/C13.v",
    harness=[dict(pkg="das", test="TestVerifC13", timeout=900, timeout_thorough=3000, overlay_tags=["c04"])],
    allowed_axioms=[],
    level_text=("Machine-checked theorems (Coq) over the same executable coordinator model as C04, for every reachable state, sampling range, "
                "concurrency limit and back-off table: concurrency bounds, CatchUpDone iff nothing queued/in flight/failed, attempt counts "
                "never decrease unless a success is reported, no worker ends without reporting and jobs leave only by delivery, and progress: "
                "a variant function that every 'good' event (successful sample, delivery, effective wake-up, back-off expiry) strictly "
                "decreases, with a good event enabled in every reachable running state that is not done. The model follows the repaired code "
                "(fix-c04-1 + fix-c13-1..3); each of the three C13 statements is proved false of the code before its fix (_refuted) and "
                "that history is replayed on the implementation. 'Statistics agree with what was sampled' is the C04 pair (coverage, "
                "sampled-chain head) plus the per-event correspondence of the full statistics record. Liveness is partial in the usual sense: "
                "fairness (good events keep happening, the runtime schedules goroutines) is a hypothesis, the harness drains every history to "
                "check it on the implementation."),
    rule=_m.SPEC["rule"] + " For C13 a history is also non-trivial under the same rule; the oracles reported are: worker count above either limit, "
         "CatchUpDone differing from (no workers, no failed, catch-up head >= network head), attempt count decreasing without a reported "
         "success, a worker goroutine ending without a result while the DASer runs, a job vanishing, no progress in the drain phase, "
         "WaitCatchUp blocking although done.",
    trusted_base=_m._TB,
)

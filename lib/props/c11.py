SPEC = dict(
    id="C11",
    props_file="Props/C11.v",
    harness=[dict(pkg="blob", test="TestVerifC11", timeout=900, timeout_thorough=3000)],
    allowed_axioms=[],
    level_text=("Machine-checked theorems (Coq) over an executable transcription of blob.Service.retrieve / getBlobs / Get and blob/parser.go "
                "(nested loops over the namespace rows, parser state, padding skipping, sequence length, index arithmetic): for EVERY square width, "
                "start position, list of blobs (1 byte .. any number of rows, share versions 0 and 1) and arbitrary padding runs, listing the namespace "
                "returns exactly the blobs in order with content, signer, version and the extended-square index of the first share; fetching by "
                "commitment returns the first blob with that commitment iff one exists, else 'not found'; absent namespaces give 'not found'; "
                "byte-identical blobs are each returned; and for EVERY getter answer (well-formed or not) the result is independent of how the shares "
                "are cut into rows. The model is re-validated on every run against the real blob.Service over squares built by the real go-square "
                "builder and hand-placed layouts, incl. malformed getter answers. Partial: the commitment hash is opaque (a free injective "
                "constructor); go-square's share format is modelled, not verified."),
    rule=("one case = one (block, namespace): the namespace rows the real getter handed to the service, abstracted to share records, with the "
          "observed answers of GetAll and of Get for every present commitment (<=4) and 5 absent ones (blob of another namespace, same content "
          "re-labelled, fresh blob, random bytes, empty). Blocks: real go-square builder (square 2..32, subtree-root thresholds 64/8/2/1, 1..9 "
          "namespaces, 1..3 blobs per tx, 25% byte-identical duplicates, 35% share version 1, sizes 1 byte / capacity boundaries / up to 4 rows, "
          "plain txs), namespaces spanning MORE THAN 16 ROWS of a 32-wide square (the share getter fans out over the rows "
          "of a namespace): real-builder blocks with one blob of 18..26 rows in share version 0 and in version 1, and with 4..7 blobs of one "
          "namespace (one byte-identical pair) totalling 18..23 rows, and a hand-placed square with a namespace of exactly 16 rows (one blob "
          "or two around a padding run) followed by one of exactly 17 rows (thorough: 12 of each and a 64-wide square with a blob of 18..40 "
          "rows); histogram ns_rows_spanned and the ns_feature keys 'namespace-rows>16' / 'blob-rows>16' show the coverage; "
          "hand-placed layouts (arbitrary padding runs incl. leading ones, any start offset, square 1..16), and malformed getter "
          "answers (12 mutations). Non-trivial: the namespace holds >=2 blobs, or padding shares, or a blob spanning rows, or is absent but inside "
          "a row's range (absence proof), or the answer is malformed; distinct = distinct Coq case term. L3 compares GetAll/Get with the builder's "
          "own record (blobs in square order, start index from the PFB) incl. the share found at the reported index."),
    trusted_base=[
        "model Blob/Parser.v hand-written after blob/service.go (retrieve, getBlobs, Get) and blob/parser.go; tied by harness/blob/zz_verif_c11_test.go: "
        "the real blob.Service over an in-memory getter (share/eds NamespaceData over the real extended square), observations re-computed by the model inside Coq (vm_compute) on every run",
        "go-square share format (IsPadding, IsSequenceStart, SequenceLen, Version, GetSigner, SparseSharesNeeded, parseSparseShares, NewBlob) is modelled, not verified; "
        "its constants and behaviour are under the same correspondence; compact-share namespaces (tx, PFB) and share version 2 are outside the quantifier",
        "commitments are opaque: inclusion.CreateCommitment is a free injective constructor over (namespace, version, signer, length, share contents); SHA-256/NMT not modelled here",
        "share contents are abstracted to ids (equal bytes <-> equal id) by the harness; for malformed answers the last share of a blob is identified by the bytes the real parser keeps",
        "the getter (share/eds.NamespaceData, nmt proofs) and the square builder are used as generators of real layouts, not verified; "
        "header = DAH + height only (no signatures); GetAll over several namespaces (goroutine fan-out) is covered by the L3 oracle and the model's get_all_many only",
        "Go int is modelled as unbounded Z / N",
    ],
)

SPEC = dict(
    id="C10",
    props_file="Props/C10.v",
    harness=[dict(pkg="share/shwap/p2p/bitswap", test="TestVerifC10", timeout=900, timeout_thorough=3000)],
    allowed_axioms=[],
    rule=("group cid: for every block type, identifiers at field boundaries and random ones -> the real Block.CID() bytes; honest CIDs "
          "and hostile byte strings (bit flips in header and identifier, other version, codec / multihash code of another block type, "
          "length byte +-1 with and without a matching digest, cut, extended, trailing byte, non-minimal varints, CIDv0, zero height, "
          "random) -> real cid.Cast + extractFromCID and EmptyBlock. group hasher: a registry of 1-3 real Blocks (pending or already "
          "populated) of real squares (ODS width 1,2,4 every sample / row / row-namespace incl. absent-in-range / single-namespace range "
          "identifier; width 8 sampled) and a sequence of bodies fed to the real registered hash function: what Blockstore.Get serves, "
          "the same identifier served from another square, another entry's body, a body for an identifier nobody asked for, the "
          "requested CID around another identifier's container, the identifier bytes under another type's codec / multihash, mutated / "
          "extended / non-minimal inner CID, cut, bit flips in envelope and container, empty, empty container, random bytes, the honest "
          "body under another type's hash function, the honest body again; observed per body accept/reject + digest and per block the "
          "container held at the end. Container bytes are classified independently (decode + Verify against the entry's roots). "
          "Non-trivial = a case with at least one hostile body / a parser input that is accepted or structurally derived from a valid "
          "CID; distinct = distinct Coq term. Concurrent fetches (L3): two Fetch calls of one CID over an in-process exchange, same "
          "roots / different roots / a hostile body overtaking the honest one, for all four block types."),
    level_text=("Machine-checked theorems (Coq): identifier <-> CID is a bijection (round trip through go-cid's parser model incl. varint "
                "minimality, canonical parsing, injectivity within and across block types, with the C18 identifier codec underneath); for "
                "EVERY registry, body and sequence of bodies and an ABSTRACT decode/verify: an accepted body names a registered request, "
                "carries exactly its identifier and a container that verifies against that request's roots, and the request then holds "
                "that container (or the earlier verified one); a rejected body changes nothing; other requests, identifiers and roots are "
                "never touched; what the serving side builds for a valid identifier is accepted by a pending request given that honest "
                "containers verify (C01/C05); duplicates of a fetch apply the same check and cannot fail on an accepted body under the "
                "same roots. The model is replayed against the real hasher / Blockstore / CID code on ~2000 cases per run inside Coq. "
                "Partial: the protobuf envelope and container codecs are abstract (classified by the harness with the real decoders); the "
                "interleavings of the real bitswap client are represented by an in-process exchange with explicit check/publish steps, not "
                "explored; data-race freedom of the registry is the Go runtime's (sync.Map + per-entry mutex) and not modelled."),
    trusted_base=[
        "models Shwap/Cid.v (go-cid Cast incl. CIDv0 special case, go-varint minimality and 9-byte limit, go-multihash reader, validateCID/extractFromCID, block_registry specs) and Shwap/Bitswap.v (hasher.write, the four UnmarshalFn, duplicate path of fetch, Blockstore.Get) hand-written; tied by harness/share/shwap/p2p/bitswap/zz_verif_c10_test.go whose observations are re-computed inside Coq on every run",
        "identifier codec: Shwap/Ids.v (C18), under its own correspondence",
        "verification and container decoding abstract in the theorems; serve_accept assumes that the container the accessor produces verifies (completeness of C01/C05) and that Marshal/Unmarshal round-trips (C18 oracle)",
        "mocked: the bitswap exchange for the concurrent-fetch scenarios (in-process: check = Prefix.Sum with the registered hash function, publish = hand the body to every session wanting its CID); the schedule 'hostile body checked after, published before the honest one' is constructed, not found by exploration",
        "Go int as unbounded Z: the harness keeps indices within the 16-bit wire format of the identifiers",
    ],
)

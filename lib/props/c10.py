SPEC = dict(
    id="C10",
    props_file="Props/C10.v",
    harness=[dict(pkg="share/shwap/p2p/bitswap", test="TestVerifC10", timeout=900, timeout_thorough=3000)],
    allowed_axioms=[],
    rule=("group cid: for every block type, identifiers at field boundaries and random ones -> the real Block.CID() bytes; honest CIDs "
          "and hostile byte strings (bit flips in header and identifier, other version, codec / multihash code of another block type, "
          "length byte +-1 with and without a matching digest, cut, extended, trailing byte, non-minimal varints, CIDv0, zero height, "
          "random) -> real cid.Cast + extractFromCID and EmptyBlock. group hasher: a registry of 1-3 real Blocks (pending or already "
          "populated) of real squares (ODS width 1,2,4 every sample / row / row-namespace incl. absent-in-range / single-namespace range "
          "identifier; width 8 sampled) and a sequence of bodies fed to the real registered hash function: what Blockstore.Get serves, "
          "the same identifier served from another square, another entry's body, a body for an identifier nobody asked for, the "
          "requested CID around another identifier's container, the identifier bytes under another type's codec / multihash, mutated / "
          "extended / non-minimal inner CID, cut, bit flips in envelope and container, empty, empty container, random bytes, the honest "
          "body under another type's hash function, the honest body again; observed per body accept/reject + digest and per block the "
          "container held at the end. Container bytes are classified independently (decode + Verify against the entry's roots). "
          "Non-trivial = a case with at least one hostile body / a parser input that is accepted or structurally derived from a valid "
          "CID; distinct = distinct Coq term. Concurrent fetches (L3): two Fetch calls of one CID over an in-process exchange, same "
          "roots / different roots / a hostile body overtaking the honest one, for all four block types. "
          "group conc: 2-3 real Fetch calls of ONE CID (all four block types, same / different roots), each in its own goroutine and "
          "parked on channels at the points where it touches shared state (inside Block.UnmarshalFn(root) = right before the "
          "registration, GetBlocks, NotifyNewBlocks), driven through a schedule of explicit steps enter / reg / sub / check body / "
          "publish / deliver / recv / finish / cancel: scripted windows (both fetches inside the registration loop before either has "
          "registered, in both orders; late subscription; split check/publish; three fetches; sequential; duplicate; cancelled "
          "original; a second copy of the block decoded during an earlier fetch and published later; re-publication by a duplicate "
          "after the original returned) and random interleavings; observed after every step: which Blocks are populated, accept / "
          "reject, whose entry the registry holds, and nil / error per Fetch. Non-trivial = at least two fetches. L3 there: a Fetch "
          "that returned nil with an empty Block or with data not committed by ITS roots; a live registry entry replaced or removed "
          "by another fetch; the honest body rejected while the fetch that registered the CID waits for it; panic; registry leak. "
          "group serve: Blockstore.Get over EVERY representation a node serves from - in-memory eds.Rsmt2D, a real store.Store with "
          "ODS+Q4 files and the recent cache disabled (lower-half rows are handed out as parity halves), the same with Q4 removed, "
          "store.CachedStore over the files, a store serving from its recent cache - for every row / sample (all four quadrants) / "
          "row-namespace / range identifier of the ODS width 1, 2, 4 squares (width 8: every row, the rest sampled), fed to the hasher "
          "of a pending request and the yielded data compared with the square (L3: honest-rejected / served-wrong-data / "
          "serve-refused per representation, block type and half); for rows the half the accessor hands out and the side the served "
          "container is labelled with are compared with the model; non-trivial = a parity half."),
    level_text=("Machine-checked theorems (Coq): identifier <-> CID is a bijection (round trip through go-cid's parser model incl. varint "
                "minimality, canonical parsing, injectivity within and across block types, with the C18 identifier codec underneath); for "
                "EVERY registry, body and sequence of bodies and an ABSTRACT decode/verify: an accepted body names a registered request, "
                "carries exactly its identifier and a container that verifies against that request's roots, and the request then holds "
                "that container (or the earlier verified one); a rejected body changes nothing; other requests, identifiers and roots are "
                "never touched; what the serving side builds for a valid identifier is accepted by a pending request given that honest "
                "containers verify (C01/C05); duplicates of a fetch apply the same check and cannot fail on an accepted body under the "
                "same roots. Concurrent fetches of one identifier: a step model of ANY number of fetches (registration as one atomic "
                "load-or-store or, as the 'before' witness of a seeded change, Load ... Store; subscription; bodies decoded by the hasher "
                "and published to the sessions at any later time; re-publication by NotifyNewBlocks; duplicate path; return with the "
                "deferred clean-up; cancellation) - for EVERY interleaving a Fetch that returns nil holds a populated Block verified "
                "against its own roots (C10_conc_fetch_sound, the code with fix-c10-3), no Block ever holds an unverified container, the "
                "atomic registration keeps the registry entry with the one in-flight fetch that registered it and the honest body for it "
                "is accepted (C10_conc_registry_owner / _pending_served); the code before fix-c10-3 is safe for every interleaving of fetches that overlap (C10_conc_fetch_sound_overlap); refuted with vm_compute witnesses: the two-step registration "
                "(C10_conc_twostep_refuted / _displaces) and the code before fix-c10-3, where a self-registered fetch trusts the hasher "
                "blindly (C10_conc_trust_refuted: stale publication, late NotifyNewBlocks) - both witnesses are replayed on the real "
                "Fetch. Serving a row from either half an accessor may hand out verifies and yields the row (C10_serve_row_any_half), "
                "the flag dropped does not. The model is replayed against the real hasher / Blockstore / CID / Fetch code on ~2400 cases "
                "per run inside Coq. "
                "Partial: the protobuf envelope and container codecs are abstract (classified by the harness with the real decoders); "
                "representation-independence of what the accessors return (files, Q4, caches, proofs cache) is C05's theorem - here the "
                "row side labelling is modelled and the rest is covered by L3 over all representations; the real bitswap client is "
                "represented by an in-process exchange with boxo's publication rule (sessions that want the CID at publication time, once "
                "per session), its interleavings are forced by the harness at the granularity of the model's steps, not at instruction "
                "level; data-race freedom of the registry is the Go runtime's (sync.Map + per-entry mutex) and not modelled; liveness "
                "(a duplicate whose original was cancelled waits until its own context ends) is not claimed."),
    trusted_base=[
        "models Shwap/Cid.v (go-cid Cast incl. CIDv0 special case, go-varint minimality and 9-byte limit, go-multihash reader, validateCID/extractFromCID, block_registry specs) and Shwap/Bitswap.v (hasher.write, the four UnmarshalFn, duplicate path of fetch, Blockstore.Get, Section Conc: the step model of concurrent fetches of one CID, Section ServeRow: AxisHalf.ToRow / Row.Shares) hand-written; tied by harness/share/shwap/p2p/bitswap/zz_verif_c10_{test,conc_test,serve_test}.go whose observations are re-computed inside Coq on every run",
        "concurrent fetches: the exchange is an in-process hub written after boxo bitswap/client (receiveBlocksFrom / NotifyNewBlocks: publish to the sessions that want the CID at that moment, a session receives a CID once, the channel closes when everything wanted was delivered or the context ends); a decoded body and its publication are separate steps because boxo decodes in the network layer and publishes later; steps finer than the park points (e.g. between NotifyNewBlocks and the duplicate path) exist in the model only",
        "serving: the erasure code in C10_serve_row_any_half is abstract (recover (parity l) = l); Row.Verify is taken as equality of the reconstructed row with the committed row (root injectivity, Base/Sym); which half each representation hands out is observed from the real accessors on every run (rep_parity) - that they return the stored data is C05",
        "identifier codec: Shwap/Ids.v (C18), under its own correspondence",
        "verification and container decoding abstract in the theorems; serve_accept assumes that the container the accessor produces verifies (completeness of C01/C05) and that Marshal/Unmarshal round-trips (C18 oracle)",
        "mocked: the bitswap exchange for the concurrent-fetch scenarios (in-process: check = Prefix.Sum with the registered hash function, publish = hand the body to every session wanting its CID); the schedule 'hostile body checked after, published before the honest one' is constructed, not found by exploration",
        "Go int as unbounded Z: the harness keeps indices within the 16-bit wire format of the identifiers",
    ],
)

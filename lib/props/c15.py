SPEC = dict(
    id="C15",
    props_file="Props/C15.v",
    harness=[dict(pkg="core", test="TestVerifC15", timeout=1200, timeout_thorough=3000)],
    allowed_axioms=[],
    level_text=("Machine-checked theorems (Coq) over an executable model of the bridge node's three ingest paths - the Listener "
                "(dedup by store, fetch from the announcing endpoint, historic drop, sync query, chain-id panic, storeEDS, broadcasts), "
                "Exchange.GetByHeight, Exchange.Get (header by hash: the served block is kept only when its header hash is the requested one) "
                "and full.ShareAvailability.SharesAvailable (window gate, empty block, already-stored shortcut, getter "
                "error mapping) - over a store that never rebinds a height. Proved by invariant induction over EVERY history of operations "
                "with every failure pattern (failures are oracle values): published once, stored DAH = published header's DAH, everything "
                "stored has a published or given header, window / Q4 policy, failed operations change nothing (a by-hash request answered "
                "with a block of another hash is one: C15_hash_mismatch_leaves_nothing), every obtained in-window "
                "block ends up stored and published; on one chain every successfully given header is stored with its DAH. The model is "
                "re-validated on every run against the real Listener + MultiSource + Exchange + BlockFetcher + ShareAvailability + store on "
                "~200 histories (~4000 operations) with real signed blocks and squares; all four operation kinds (core, avail, xchg, xhash) "
                "are in the Coq model and the L2 cases - nothing is L3-only."),
    rule=("a history = 3..8 heights with their own squares (random transactions, real PayForBlobs transactions, empty blocks), block times "
          "a minute old, availability.StorageWindow + 48h old, or (30% of the in-window blocks) at the EDGE: 30 minutes inside "
          "availability.StorageWindow (the constant is read from the code under test; an edge block is in-window for every ingest path; "
          "the time is taken when the block is built, inside the operation that uses it, so the 30 min margin covers milliseconds), 8% inconsistent data hashes, 5% unbuildable squares; 1..4 endpoints announcing with gaps, immediate "
          "duplicates, replays of old heights, shuffled order, merged at random; per announcement: fetch failure 15%, status failure 10%, "
          "syncing 25%, store failure 10% (a non-empty directory at the square's file path), wrong chain 1%, previous block served 2%; "
          "interleaved availability checks (getter: square, not found, deadline, cancelled, byzantine, byzantine+deadline, "
          "byzantine+not found, other; store failure), exchange requests by height and header requests BY HASH (Exchange.Get over the "
          "scripted BlockByHash / Commit / ValidatorSet client: the requested block 60%, a block with another hash 40% - another block "
          "of the history, or that height with the square of another height -, fetch failure 12%, commit query failure 8%, store "
          "failure 10%, wrong chain 2%) on the same store; two deterministic histories (pruned, archival) run every ingest path on edge "
          "blocks incl. a mismatching by-hash answer before the announcement of that height; pruned and archival nodes. 75% of the "
          "histories call handleNewBlockEvent directly, 25% go through Listener.Start and the real subscription fan-in. A history is "
          "non-trivial when it has at least two operations; distinct = distinct Coq case term."),
    trusted_base=[
        "model Core/Listener.v hand-written after core/listener.go, core/eds.go, core/exchange.go, share/availability/full/availability.go "
        "and the observable behaviour of store.put; tied by the correspondence harness harness/core/zz_verif_c15_test.go whose observed "
        "per-operation outcomes, final store (height, DAH, has Q4), broadcasts and notifications are re-computed by the model inside Coq",
        "mocked: consensus endpoints (scripted leaves of the REAL MultiSource), the gRPC BlockAPI client (BlockByHeight, BlockByHash, Commit, "
        "ValidatorSet) under the REAL BlockFetcher / Exchange (GetByHeight and Get; no p2p fallback exchange configured), the shwap getter, header and hash broadcasters (capturing); real: Listener, MultiSource, Exchange, BlockFetcher block "
        "reassembly, ShareAvailability, store on a temp dir, da.ConstructEDS, header.MakeExtendedHeader, signed blocks",
        "block time vs window is one oracle value per block: generated times are a minute old, StorageWindow + 48h old, or 30 minutes inside "
        "StorageWindow (never closer to the boundary: the code reads the clock up to three times per block, all within one operation); L3 "
        "additionally demands that an availability check never refuses such a header as outside the window and that the parity quadrant is "
        "kept for it; store.HasByHeight failures are modelled but cannot be provoked on the real store",
        "squares and headers are identified by their DAH hash (interned atoms); that the getter returns the square committed by the header "
        "is the getter's contract (C06) - the scripted getter is honest on success",
        "theorems about publication assume endpoints answer a request for height h with the block of height h (well_served); the harness "
        "also scripts endpoints serving the previous block and only compares model and implementation on those histories",
        "one header per height (on_chain) is assumed for 'given header is stored with its DAH': SharesAvailable returns success for any "
        "header whose height is already in the store without comparing data hashes",
    ],
)

SPEC = dict(
    id="C15",
    props_file="Props/C15.v",
    harness=[dict(pkg="core", test="TestVerifC15", timeout=1200, timeout_thorough=3000)],
    allowed_axioms=[],
    level_text=("Machine-checked theorems (Coq) over an executable model of the bridge node's three ingest paths - the Listener "
                "(dedup by store, fetch from the announcing endpoint, historic drop, sync query, chain-id panic, storeEDS, broadcasts), "
                "Exchange.GetByHeight and full.ShareAvailability.SharesAvailable (window gate, empty block, already-stored shortcut, getter "
                "error mapping) - over a store that never rebinds a height. Proved by invariant induction over EVERY history of operations "
                "with every failure pattern (failures are oracle values): published once, stored DAH = published header's DAH, everything "
                "stored has a published or given header, window / Q4 policy, failed operations change nothing, every obtained in-window "
                "block ends up stored and published; on one chain every successfully given header is stored with its DAH. The model is "
                "re-validated on every run against the real Listener + MultiSource + Exchange + BlockFetcher + ShareAvailability + store on "
                "~200 histories (~4000 operations) with real signed blocks and squares."),
    rule=("a history = 3..8 heights with their own squares (random transactions, real PayForBlobs transactions, empty blocks), block times "
          "a minute old or 9 days old, 8% inconsistent data hashes, 5% unbuildable squares; 1..4 endpoints announcing with gaps, immediate "
          "duplicates, replays of old heights, shuffled order, merged at random; per announcement: fetch failure 15%, status failure 10%, "
          "syncing 25%, store failure 10% (a non-empty directory at the square's file path), wrong chain 1%, previous block served 2%; "
          "interleaved availability checks (getter: square, not found, deadline, cancelled, byzantine, byzantine+deadline, "
          "byzantine+not found, other; store failure) and exchange requests on the same store; pruned and archival nodes. 75% of the "
          "histories call handleNewBlockEvent directly, 25% go through Listener.Start and the real subscription fan-in. A history is "
          "non-trivial when it has at least two operations; distinct = distinct Coq case term."),
    trusted_base=[
        "model Core/Listener.v hand-written after core/listener.go, core/eds.go, core/exchange.go, share/availability/full/availability.go "
        "and the observable behaviour of store.put; tied by the correspondence harness harness/core/zz_verif_c15_test.go whose observed "
        "per-operation outcomes, final store (height, DAH, has Q4), broadcasts and notifications are re-computed by the model inside Coq",
        "mocked: consensus endpoints (scripted leaves of the REAL MultiSource), the gRPC BlockAPI client under the REAL BlockFetcher / "
        "Exchange, the shwap getter, header and hash broadcasters (capturing); real: Listener, MultiSource, Exchange, BlockFetcher block "
        "reassembly, ShareAvailability, store on a temp dir, da.ConstructEDS, header.MakeExtendedHeader, signed blocks",
        "block time vs window is one oracle value per block: generated times are a minute or nine days old, never near the window boundary "
        "(the code reads the clock three times per block); store.HasByHeight failures are modelled but cannot be provoked on the real store",
        "squares and headers are identified by their DAH hash (interned atoms); that the getter returns the square committed by the header "
        "is the getter's contract (C06) - the scripted getter is honest on success",
        "theorems about publication assume endpoints answer a request for height h with the block of height h (well_served); the harness "
        "also scripts endpoints serving the previous block and only compares model and implementation on those histories",
        "one header per height (on_chain) is assumed for 'given header is stored with its DAH': SharesAvailable returns success for any "
        "header whose height is already in the store without comparing data hashes",
    ],
)

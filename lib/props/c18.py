SPEC = dict(
    id="C18",
    props_file="Props/C18.v",
    harness=[dict(pkg="share/shwap", test="TestVerifC18", timeout=600, timeout_thorough=2400)],
    allowed_axioms=[],
    level_text=("Machine-checked theorems (Coq) over an executable model of every shwap identifier codec: round trip for all heights, indices and "
                "square sizes up to the protocol maximum, position-inside-square, wrong-length rejection, canonical decoding, encoder injectivity "
                "(no silent truncation). The model is re-validated against the real constructors/decoders on ~16k boundary and random cases per run; "
                "containers are covered by an implementation round-trip oracle only (partial: their protobuf/JSON byte format is not modelled)."),
    rule=("constructor cases: every id kind x heights {0,1,2^16,2^32-1,2^63,2^64-1,..} x square sizes {0,1,..,2*MaxSquareSize} x "
          "index boundary values (negative, 0, size-1, size, 2^16-1, 2^16, 2^32-1, 2^32) + random valid ids up to the protocol maximum; "
          "decoder cases: honest encodings, each field at its extremes, wrong lengths, all namespace classes, random bytes. "
          "A case is non-trivial when the implementation accepted the input or rejected a right-length input / a constructor call; "
          "distinct = distinct Coq case term. Containers (sample,row,row-namespace-data,range) from real squares are round-tripped "
          "through protobuf, stream and JSON by the implementation oracle (L3) only."),
    trusted_base=[
        "model Shwap/Ids.v hand-written after share/shwap/*_id.go; tied by the correspondence harness harness/share/shwap/zz_verif_c18_test.go (real constructors, MarshalBinary, XxxFromBinary, ReadFrom) whose observations are re-computed by the model inside Coq (vm_compute) on every run",
        "go-square Namespace validation (29 bytes, version 0/255, 18-zero prefix, parity/tail-padding exclusion) is modelled, not verified; under the same correspondence",
        "container codecs (protobuf/JSON of Sample, Row, RowNamespaceData, RangeNamespaceData) are NOT in the Coq model: covered by the implementation round-trip oracle only",
        "Go int is modelled as unbounded Z: harness keeps every integer argument within int64 and every size <= 2^31",
    ],
)

SPEC = dict(
    id="C18",
    props_file="Props/C18.v",
    harness=[dict(pkg="share/shwap", test="TestVerifC18", timeout=600, timeout_thorough=2400),
             dict(pkg="share/shwap", test="TestVerifC18Containers", timeout=600, timeout_thorough=2400)],
    allowed_axioms=[],
    level_text=("Machine-checked theorems (Coq) over an executable model of every shwap identifier codec: round trip for all heights, indices and "
                "square sizes up to the protocol maximum, position-inside-square, wrong-length rejection, canonical decoding, encoder injectivity "
                "(no silent truncation). The model is re-validated against the real constructors/decoders on ~16k boundary and random cases per run. "
                "Containers (Sample, Row, RowNamespaceData, NamespaceData, RangeNamespaceData): byte-level executable model of the protobuf form "
                "(gogo-proto varints, tags, wire types, unknown-field/group skipping, merge rules, ToProto/FromProto incl. nil/empty rules) and of the "
                "length-delimited stream form (serde framing, 1 MiB limit, EOF rules, row-sequence framing of namespace/range data) with theorems: "
                "round trip up to the normalisation the Go code itself performs (stated exactly), decoder totality, decoded values well formed "
                "(512-byte shares, no empty range row), wrong wire type refused, truncated frames refused, encoder injectivity; re-validated "
                "byte-for-byte against the real Marshal/WriteTo and Unmarshal+FromProto/ReadFrom on ~2k encoder/decoder cases per run. "
                "Partial: the JSON form of containers is covered by the implementation round-trip oracle only."),
    rule=("reused receivers: every stream fed to a ReadFrom is also decoded into a receiver that already holds an earlier successfully decoded response of the same kind (the longest and the latest seen so far); outcome and value must equal those of a fresh receiver; constructor cases: every id kind x heights {0,1,2^16,2^32-1,2^63,2^64-1,..} x square sizes {0,1,..,2*MaxSquareSize} x "
          "index boundary values (negative, 0, size-1, size, 2^16-1, 2^16, 2^32-1, 2^32) + random valid ids up to the protocol maximum; "
          "decoder cases: honest encodings, each field at its extremes, wrong lengths, all namespace classes, random bytes. "
          "A case is non-trivial when the implementation accepted the input or rejected a right-length input / a constructor call; "
          "distinct = distinct Coq case term. Containers: encoder cases = synthetic values of every kind (shares of 512 equal bytes; proofs with 0-3 nodes, "
          "with/without leaf hash, Start/End incl. negative and 2^62-scale values, nil proofs; sides/axes inside and outside their enums; 0-4 rows) "
          "and values built by the real constructors from a real square, each through protobuf and stream form, model bytes == real bytes; "
          "decoder cases = those encodings, hand-assembled adversarial messages (unknown fields of every wire type, nested groups, duplicated "
          "fields, wrong wire types, over-long/10-byte varints, field-number wrap, share lengths != 512, empty range rows, negative/oversized "
          "lengths), frame corner cases, truncations/bit flips/insertions at structural offsets, random bytes; observed class value|error|panic "
          "and the decoded value must equal the model's. Non-trivial = encoder case, accepted input, or rejected structured input. "
          "JSON forms of containers from real squares are round-tripped by the implementation oracle (L3) only."),
    trusted_base=[
        "model Shwap/Ids.v hand-written after share/shwap/*_id.go; tied by the correspondence harness harness/share/shwap/zz_verif_c18_test.go (real constructors, MarshalBinary, XxxFromBinary, ReadFrom) whose observations are re-computed by the model inside Coq (vm_compute) on every run",
        "go-square Namespace validation (29 bytes, version 0/255, 18-zero prefix, parity/tail-padding exclusion) is modelled, not verified; under the same correspondence",
        "container codecs: models Base/Varint.v, Shwap/Wire.v, Shwap/Containers.v hand-written after share/shwap/{sample,row,row_namespace_data,namespace_data,range_namespace_data,share}.go, the generated share/shwap/pb/shwap.pb.go and nmt/pb/proof.pb.go (gogo-proto), nmt.ProtoToProof and go-libp2p-messenger/serde; tied byte-for-byte by harness/share/shwap/zz_verif_c18_containers_test.go (real ToProto+Marshal / WriteTo output compared with the model's bytes; real Unmarshal+XxxFromProto / ReadFrom verdict and decoded value compared with the model's) on every run",
        "container model identifies Go nil and empty slices (no modelled code distinguishes them observably); RangeNamespaceData.ReadFrom is modelled for a fresh (zero-value) receiver only (reuse of a receiver is C06's concern); Unmarshal is modelled as tokenise-then-interpret, equivalent for the value|error verdict; encodings are assumed shorter than 2^63 bytes (hypothesis `small`)",
        "JSON form of containers (Sample/Row MarshalJSON/UnmarshalJSON) is NOT in the Coq model: covered by the implementation round-trip oracle only; libshare.NewShare is modelled as the 512-byte length check it performs",
        "Go int is modelled as unbounded Z: harness keeps every integer argument within int64 and every size <= 2^31",
    ],
)

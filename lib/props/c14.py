SPEC = dict(
    id="C14",
    props_file="Props/C14.v",
    harness=[dict(pkg="pruner", test="TestVerifC14", timeout=600, timeout_thorough=2400)],
    allowed_axioms=[],
    level_text="",
    rule="",
    trusted_base=[],
)

SPEC = dict(
    id="C14",
    props_file="Props/C14.v",
    harness=[dict(pkg="pruner", test="TestVerifC14", timeout=600, timeout_thorough=2400),
             dict(pkg="share/availability/full", test="TestVerifC14Full", timeout=600, timeout_thorough=1200),
             dict(pkg="share/availability/light", test="TestVerifC14Light", timeout=600, timeout_thorough=1800)],
    allowed_axioms=[],
    level_text=("Machine-checked theorems (Coq, no axioms) over an executable model of the pruner: findPruneableHeaders (estimate from the "
                "configured block time, extension loop, cut), the prune cycle (lastPruned, retryFailed, batch loop with maxHeadersPerLoop, "
                "checkpoint update in memory and on disk), on-delete hook, restart, crash and reset - for EVERY header chain (any times), "
                "window, block time, batch limit >= 2, failure pattern and event history: nothing newer than head time - window is handed "
                "to Prune by a cycle or a retry (a block exactly one window old counts as outside); the checkpoint never moves backwards "
                "except by the explicit reset and a graceful restart is transparent; every cycle terminates (refuted for the code before "
                "fix-c14-1: a fully failing full batch spins forever); after a cycle every block after the starting point older than the "
                "cutoff by more than one block time is pruned or in the failed set, and failed heights are retried by every cycle. "
                "The model is re-validated on every run against the real pruner.Service (Start/prune/pruneOnHeaderDelete/"
                "ResetCheckpoint/Stop, real checkpoint persistence) on ~2000 generated histories. Partial: the on-delete hook prunes "
                "whatever the header store deletes (its safety is the store's obligation); the global completeness theorem covers "
                "histories without header deletion, the per-cycle theorem covers any state, including a header-store tail that overtook the "
                "checkpoint (with fix-c14-2 the block at the new tail is pruned too; before it that block was skipped for good); the light node's "
                "Pruner.Prune is modelled (Pruner/Light.v: delete every sample the sampling result lists, then the result) and proved, for "
                "every pattern of DeleteBlock faults and every retry schedule: reported pruned => no sample block and no sampling result left; "
                "a failed call keeps the sampling result (the only index of the remaining blocks), adds nothing, and the service hands the height "
                "to Prune on every cycle until a call succeeds; the first fault-free call removes everything; the 'log and continue' variant is "
                "refuted (success reported with an unindexed block left for good). Tied on every run to the real light ShareAvailability + real "
                "bitswap getter + real pruner.Service with a fault-injecting blockstore. The archival/pruned store effect of the FULL node's "
                "Pruner.Prune itself (archival: only the parity quadrant goes and every sample is still served and verifies; pruned and "
                "archival-then-pruned: the block goes; idempotent; repeatable: from every partial-removal state a crash, a failed step or an interrupted put can "
                "leave on disk, the next Prune removes what is left or returns an error) is checked by an implementation oracle on the real store only, not modelled."),
    rule=("one case = one history on the real Service: header chain of 1..50 heights (tail 1, small or large) with regular, faster, slower or "
          "irregular block times (equal timestamps, gaps; 10% non-monotone), window placed so the cutoff falls inside the chain (+-1, +-block "
          "time) or covering nothing / everything / zero, batch limit 2..8 (5%: 512), failure script per height and attempt (none, transient, "
          "k times, permanent, runs of consecutive failing heights at least a batch long, everything fails, everything fails then heals), "
          "3..13 events of cycle / head advance / on-delete hook (tail or arbitrary height, optionally with a cycle running inside its Prune "
          "call) / tail removal / graceful restart / crash / reset. Observed after every event: heights handed to Prune with outcome (retry "
          "block compared as a set, batches in order), in-memory and persisted checkpoint (height, failed set). Non-trivial = at least one "
          "Prune call and (a failure or a restart/crash); distinct = distinct Coq case term. "
          "Full (TestVerifC14Full, L3 only): 12 stored blocks pruned twice in archival / pruned / archival-then-pruned mode; then, each on a store of its own, "
          "for pruned and archival mode, with and without reopening the store before the call: a stored block (PutODSQ4 or PutODS) in every state a partial "
          "removal or an interrupted put leaves on disk (complete; height link gone; link + ODS gone, Q4 left; Q4 gone; link + Q4 gone; everything gone; "
          "Q4 removal failing once = the Q4 path is a non-empty directory, healed before the retry, with and without the link) is handed to the real Prune: "
          "a nil verdict must leave no blocks/<hash>.ods, blocks/<hash>.q4, heights/<h>.ods (archival: no Q4; a complete ODS + link stays and every sample "
          "is served), an injected failure must be reported, the retry after it and a repeated call must succeed and leave the same "
          "(sigs full-prune-leaves-files, full-prune-hides-failure, full-prune-partial-error, full-prune-retry-error). "
          "Light (TestVerifC14Light): one scenario = 2..5 blocks (ODS 1/2/4 or empty, 1..12 samples, 20% sampled only partly) sampled by the real light "
          "availability through the real bitswap getter, then a head one window ahead; 5 cycles, each a new pruner.Service (Start = one cycle, awaited on "
          "the header store's Tail call + the checkpoint mutex, Stop), per script a new ShareAvailability after the cycle; datastore wired as the node does "
          "(contextds: deletes ride the service's write batch) or plain; DeleteBlock faults per height: none / some once / first once / last once / all "
          "once / transient for 1..3 attempts / one sample permanently / all permanently; every kind once in a directed scenario for both wirings. One L2 "
          "case = one Prune call (stored samples + index before, fault pattern, verdict, stored samples + index after the cycle); non-trivial = a fault in "
          "the pattern or a retry. L3 after every cycle: nil verdict leaves nothing; error verdict is in the persisted failed set with the sampling "
          "result kept; a height handed over and not failed has nothing left; old-enough heights are handed over; in-window heights untouched; failed "
          "heights retried every cycle; after the faults end everything is gone after exactly one more attempt."),
    trusted_base=[
        "model Pruner/Find.v, Pruner/Cycle.v hand-written after pruner/find.go, pruner/service.go, pruner/checkpoint.go (with fix-c14-1 and fix-c14-2); tied by "
        "harness/pruner/zz_verif_c14_test.go, which drives the real pruner.Service and whose observations are re-computed by the model inside Coq "
        "(vm_compute) on every run",
        "the harness mocks: header store (consecutive heights, Head/Tail/GetByHeight/GetRangeByHeight with go-header semantics, OnDelete keeps "
        "the newest handler), Pruner (scripted outcome per height and attempt), datastore = in-memory MapDatastore; prune() is invoked "
        "synchronously, the cycle run by Start's goroutine is awaited on events (Tail call + mutex), not on time",
        "time is modelled as integers (ns offsets); Go's time.Duration saturation and uint64 wrap-around are not modelled (the harness keeps all "
        "times within +-10^13 ns and the checkpoint inside the store)",
        "context cancellation inside a cycle, datastore write errors, and metrics are not modelled; Prune's effect on the EDS store "
        "(full availability) is outside this model (implementation oracle only)",
        "model Pruner/Light.v hand-written after share/availability/light/availability.go Prune: state per height = which listed samples are stored + "
        "whether the sampling result exists; faults = DeleteBlock errors other than not-found, by call number; tied by "
        "harness/share/availability/light/zz_verif_c14_light_test.go. Mocked there: the bitswap wire (an in-process exchange reads the real serving "
        "bitswap.Blockstore over the squares and hands each body to the registered multihash, as the client does), the header store, the datastore "
        "(in-memory, mutex-wrapped, optionally contextds-wrapped as in nodebuilder), DeleteBlock faults injected above the real blockstore. Not covered: "
        "faults of the sampling-result Get/Delete, a failing Commit of the service's write batch (findings/C14-batch-commit.md: observed on the "
        "unchanged tree, the checkpoint advances although no delete became durable), crash without Close (the sampling-result deletion sits in the "
        "autobatch buffer), sample coordinates (drawn by crypto/rand; the fault patterns are by position, so a seed replays the same pattern on "
        "different coordinates)",
        "go-header's store deletion protocol (sequential or parallel on-delete calls) is environment: hook calls for arbitrary heights are "
        "covered by the correspondence and the safety/monotonicity theorems, completeness is stated for histories without deletion",
    ],
)

SPEC = dict(
    id="C06",
    props_file="Props/C06.v",
    harness=[dict(pkg="share/shwap/p2p/shrex/shrex_getter", test="TestVerifC06", timeout=900, timeout_thorough=3000)],
    allowed_axioms=[],
    rule=("a case = one Get call of the real shrex getter (GetSamples with 1-3 coordinates, GetRow, GetEDS, GetNamespaceData, "
          "GetRangeNamespaceData), of the real bitswap getter over an in-process exchange that runs the real multihash verifier, or of the "
          "real cascade, against scripted peers: per attempt one of {honest (real shrex.Server over a real store), the same request "
          "answered from another square (real server over a second store), an honest answer to neighbouring coordinates / row / "
          "namespace / range, a payload cut at a message boundary or inside a message, extended (extra row, a range running on into the "
          "next row, trailing bytes), a flipped byte, OK with no payload, random bytes, NOT_FOUND, INTERNAL, an unknown status, a reset, "
          "an orderly close without status, a rate-limit reset, silence until the per-attempt timeout, silence until the caller's context "
          "ends}; sequences from a grammar (0-4 faults then honest / a correct answer from a crafted peer / the deadline, sometimes "
          "followed by behaviours nobody must see), blacklisting on and off, context already expired; squares of ODS width 2,4,4,8 with "
          "several namespaces, one spanning two rows, optional tail padding. Every payload is classified by decoding and verifying it "
          "in a fresh container; observed: returned container (identified among the payloads sent), error class (nil / not-found / "
          "context), requests issued, peers blocked. Non-trivial = at least one faulty behaviour or an expired context; distinct = "
          "distinct Coq term."),
    level_text=("Machine-checked theorems (Coq) over an executable model of the getters' retry logic, for EVERY sequence of peer behaviours, "
                "every deadline point, every container codec and an ABSTRACT verification predicate: every non-empty element of every "
                "returned value (also a partial result next to an error) verifies for the request at its position (shrex, bitswap, "
                "cascade); an answer that verifies in a fresh container is accepted after any prefix of bad answers; all-NOT_FOUND maps to "
                "ErrNotFound and never to success or a corruption error; with a deadline the call ends with a verified result or a context "
                "error after at most one request per peer; a peer is reported for blacklisting only for a payload that failed to decode or "
                "verify. Instantiated with the model of Sample.Verify: returned samples carry the committed share. The model is replayed "
                "against the real Client+Getter over a libp2p mocknet, the real bitswap hasher and the real cascade on several hundred "
                "fault sequences per run, inside Coq. Partial: libp2p streams are mocknet streams; which interleaving of the concurrent "
                "per-sample requests the Go scheduler picks is covered by quantifying over all per-slot scripts, not explored; panics and "
                "hangs are the oracle's (L3) verdict, not a theorem."),
    trusted_base=[
        "model Getter/Retry.v hand-written after shrex_getter/shrex.go (executeRequest, Get*), shrex/client.go (status mapping), bitswap/getter.go + block_fetch.go (populate inside the verifying UnmarshalFn), getters/cascade.go; tied by the correspondence harness harness/share/shwap/p2p/shrex/shrex_getter/zz_verif_c06_*.go whose observations are re-computed by the model inside Coq (vm_compute) on every run",
        "verification is abstract in the theorems (any predicate); the corollary C06_samples_are_committed uses the C01 model of Sample.Verify (symbolic hashing, see C01)",
        "container decoding is modelled as a codec (zero value, ReadFrom as a function of the previous content, IsEmpty); the byte-level protobuf is not modelled: the harness decodes every scripted payload with the real ReadFrom into a fresh container to obtain its class",
        "peer manager: modelled only as 'each attempt gets some peer and reports Noop/Cooldown/Blacklist'; the harness uses the real peers.Manager with a one-hour cooldown; pool internals are C17's",
        "mocked: libp2p network (mocknet; stream error codes are injected at the client host because mocknet drops them), the caller's context (an event-driven context that ends when a scripted peer says so; per-attempt timeouts are real 400 ms timers, cases disturbed by machine load are re-run), the bitswap exchange (in-process: computes the CID of every delivered body with the registered multihash, i.e. the real hasher, and forwards wanted blocks)",
        "block stores: the bitswap getter is run with both block stores the node types wire in (nodebuilder/share: a blockstore over a datastore for light nodes; the read-only bitswap.Blockstore over the EDS store wrapped with metrics for bridge nodes, here over a store that does not hold the block); the oracle reports any panic",
        "schedules: each GetSamples slot gets an arbitrary script of its own (a sibling's failure appears as a Deadline in the slot's script); the Go scheduler's choice among them is not enumerated",
    ],
)

import json, os, re

SPEC = dict(
    id="C19",
    props_file="Props/C19.v",
    translators=["perms"],
    harness=[dict(pkg="api", test="TestVerifC19", timeout=900, timeout_thorough=2400),
             dict(pkg="nodebuilder/node", test="TestVerifC19Keys", timeout=300, timeout_thorough=600)],
    allowed_axioms=[],
    level_text=("Machine-checked theorems (Coq) over a table that a translator regenerates from the source on every run: every field of every "
                "registered module's API.Internal (name, raw `perm` tag, signature), every exported method of the wrapper structs with the field "
                "it forwards to, the registration list, the client's module map, the permission sets and the sets api/rpc/server.go hands to the "
                "permission proxy. Proved for that complete finite table and for ALL tokens, times, credentials (the 8 classes plus any signed "
                "permission list) and requested names: the reachability matrix (reached iff authentication is off or the declared permission is "
                "a member of the credential's list), no-token => public only, unverifiable tokens => 401 for anything, every method tagged and "
                "classified by a reviewed sensitivity policy, sensitive / TxResponse methods need write or admin, no served method bypasses the "
                "proxy. The dispatch semantics (go-jsonrpc auth.Handler / PermissionedProxy, jwt verification) are hand-modelled and re-validated "
                "exhaustively on every run: every served method x 24 credentials x 4 server configurations over HTTP and websocket on a real "
                "rpc.Server built by the node's own constructor and registration list (partial: cryptographic strength of HS256 and the module "
                "implementations behind the mocks are outside the model)."),
    rule=("key scenario (L3 only, harness nodebuilder/node): the real jwtSignerAndVerifier over a file-system and an in-memory keystore, first start and two restarts: tokens of the node's signer / of the persisted secret are accepted, tokens signed with any other key (all-zero, random, one bit flipped, prefix, one byte longer) are refused, restarts agree; temporal scenario (per authenticated server configuration): one admin token minted with a 2 s lifetime is used while valid on one method of each declared permission level and used AGAIN after its expiry (the verdict on a token must not be remembered); exhaustive: every method the running server serves (cross-checked in Coq against the generated table, both directions) x every "
          "credential (none, public, read, read+write, admin, expired, other key, garbage; plus TTL-valid, admin-only, write-only, no-public, "
          "empty and unknown permission lists, missing Bearer prefix, ?token= form transport, forged payload, alg=none, other HMAC algorithm, "
          "truncated, signed-but-undecodable claims) x {auth, auth+CORS, auth+metrics, auth disabled}; websocket for subscriptions and, on the "
          "main configuration, for everything; names that are not methods (unknown method / module, lower-cased, dotted) must be not-found or 401. "
          "A case is non-trivial when authentication is enabled (a permission decision is actually taken); distinct = distinct Coq case term. "
          "Call order is shuffled by the seed."),
    trusted_base=[
        "translator /verif/translators/perms (go/ast): reads RegisterService calls, API structs, wrapper methods, client module map, perms/permissions.go, "
        "the shape of RegisterService/newHandlerStack/verifyAuth; cross-checked each run by the coverage cases (what the real server serves == the table) "
        "and by every call outcome being recomputed from the table",
        "model Rpc/Perms.v of go-jsonrpc v0.10.2 auth.Handler + auth.PermissionedProxy + handler dispatch and of libs/authtoken.ExtractSignedPermissions is "
        "hand-written (dependency code is modelled, not verified); tied by the exhaustive call matrix on the real server",
        "tokens are modelled by four facts (well-formed, signature verifies under the node's key and algorithm, expiry, Allow list): HS256/JWT "
        "unforgeability is assumed, exercised only by the forged/alg-none/other-key/other-algorithm/truncated samples",
        "module implementations are gomock objects (a module without a mock falls back to its API wrapper with recording fields): what a method does "
        "after it is reached is out of scope; with authentication disabled the node registers the module implementation itself, whose extra "
        "exported methods (if any) are not in the table (the mock artifact EXPECT is ignored)",
        "sensitivity policy (Rpc/Perms.v policy) is a reviewed classification: signature rules first (TxResponse, TxConfig, SubmitOptions, "
        "auth.Permission, peer./multiaddr types), p2p.* sensitive by default, benign reads listed one by one; state.AccountAddress is classified "
        "benign (on-chain account address, not the node's network identity)",
        "rate limiting, TLS and connection limits of api/rpc are not part of the model",
    ],
)


def extra(ctx):
    """Policy oracle (L3 for the last sentence of the property): the classification lives in Coq only; print it and
    confront it with who actually reached what on the real server."""
    out = dict(problems=[], violations=[], coverage={})
    sh, TH, BUILD = ctx["sh"], ctx["TH"], ctx["BUILD"]
    src = ("From Coq Require Import String.\nFrom CN Require Import Rpc.Current.\nOpen Scope string_scope.\n"
           "Set Printing Depth 10000000.\nSet Printing Width 10000000.\nEval vm_compute in policy_dump.\n")
    d = os.path.join(ctx["out"], "policy")
    os.makedirs(d, exist_ok=True)
    open(os.path.join(d, "policy_dump.v"), "w").write(src)
    rc, o = sh(["coqc", "-Q", TH, "CN", "-w", "-all", "policy_dump.v"], cwd=d, timeout=600)
    m = re.search(r'=\s*"(.*?)"\s*:\s*string', o, re.S)
    if rc != 0 or not m:
        out["problems"].append(dict(layer="L1", what="sensitivity policy could not be evaluated (Rpc/Current.v does not build)", detail=o[-1500:]))
        return out
    policy = {}
    for ent in re.sub(r"\s+", "", m.group(1)).split(";"):
        if not ent:
            continue
        name, cls = ent.split("=")
        policy[name] = (cls.rstrip("!"), cls.endswith("!"))
    hist = {}
    for cls, _ in policy.values():
        hist[cls] = hist.get(cls, 0) + 1
    out["coverage"]["policy_classes"] = hist
    out["coverage"]["methods_needing_write"] = sum(1 for _, s in policy.values() if s)
    rp = os.path.join(ctx["out"], "TestVerifC19", "result.json")
    if not os.path.exists(rp):
        return out
    ex = json.load(open(rp)).get("extra", {})
    reached, allow = ex.get("c19_reached_by", {}), ex.get("c19_cred_allow", {})
    checked = 0
    for meth, (cls, sens) in sorted(policy.items()):
        if not sens or cls == "unclassified":  # an unclassified method is a broken obligation (L1), not a failing input
            continue
        for cred in reached.get(meth, []):
            checked += 1
            a = allow.get(cred) or []
            if "write" in a or "admin" in a:
                continue
            mo, na = meth.split(".", 1)
            out["violations"].append(dict(
                sig="sensitive-reachable/%s/%s" % (meth, cred),
                desc="%s is classified %s (needs write or admin) but ran for credential %r whose permissions are %s, authentication enabled" % (meth, cls, cred, a),
                replay=dict(server="auth", auth_enabled=True, cred=dict(name=cred), wire="http", module=mo, method=na)))
    out["coverage"]["policy_reach_pairs_checked"] = checked
    return out

SPEC = dict(
    id="C02",
    props_file="Props/C02.v",
    harness=[dict(pkg="share/shwap", test="TestVerifC02", overlay_tags=["c01"], timeout=900, timeout_thorough=3000)],
    allowed_axioms=[],
    rule=("squares as in C01; per square up to 10 (thorough 40) namespaces covering the classes present-in-one-row, spanning rows, filling "
          "rows, absent-inside-a-row's-range, absent-outside-every-range, reserved; honest NamespaceData and every RowNamespaceData, plus "
          "forgeries: rows dropped/duplicated/reordered, empty response, data of another namespace or square, rows reused for other rows, "
          "first/last share dropped WITH a genuine inclusion proof of the narrower range, a single share of many, padded with a neighbour, "
          "shares reordered/duplicated/mutated/removed, absence claimed for a present namespace (absence proofs built from neighbouring leaves), "
          "absence turned inclusion, absence with another leaf / short leaf, claimed range moved with nodes kept or trimmed, nodes dropped or "
          "their namespace bounds / hash mutated, empty and nil proofs, rows outside the namespace's range. Non-trivial = every case."),
    level_text=("Machine-checked theorems (Coq): for every well-formed committed square, every data namespace and EVERY response value, if the "
                "model of NamespaceData.Verify accepts then the response flattens to exactly all shares of the namespace in block order and has "
                "exactly one complete entry per row whose [min,max] covers the namespace; an absence proof verifies only for a row without shares "
                "of the namespace. Proved through a covering lemma for the NMT verifier (no bound on the claimed range is needed) and the "
                "min/max invariant of well-formed trees. Model re-validated against the real verifiers on honest and forged responses each run."),
    trusted_base=[
        "SHA-256 symbolic/injective as in C01; same NMT and shwap models and the same correspondence mechanism (harness zz_verif_c02_test.go + C01 helper files)",
        "hypothesis `valid (row_root i)` (every inner digest is what HashNode computes, which a namespace-ordered row gives) is evaluated (validb) on every row root of every generated square by the harness tree cases",
        "namespaces are numbers (29-byte big-endian): byte-lexicographic order = numeric order",
    ],
)

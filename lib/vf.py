#!/usr/bin/env python3
"""Driver library of the /verif machinery (see DESIGN.md section 1).

One check = L1 (Coq build of the property's theorem cone, Print Assumptions, grep gate)
          + L2 (tie: translators regenerate Gen/*.v from /repo; harness runs the real Go code and the model's
                executable definitions on the same cases inside Coq and diffs)
          + L3 (property oracle on the implementation; source of concrete replays).
"""
import fcntl, glob, hashlib, importlib.util, json, os, re, shutil, subprocess, sys, time
from concurrent.futures import ThreadPoolExecutor

VERIF = os.path.dirname(os.path.dirname(os.path.abspath(__file__)))
REPO = os.environ.get("VERIF_REPO", "/repo")
COQ = os.path.join(VERIF, "coq")
TH = os.path.join(COQ, "theories")
BUILD = os.environ.get("VERIF_BUILD") or os.path.join(VERIF, ".build")
GO = "go1.26.8"
GOENV = dict(GOFLAGS="-mod=readonly", GOPROXY="off", GOSUMDB="off", GOTOOLCHAIN="local", CGO_ENABLED="1")

STD_AXIOMS_OK = {
    # axioms declared by Coq's standard library that a check may list in its spec under allowed_axioms
    "functional_extensionality_dep", "proof_irrelevance", "classic", "JMeq_eq", "Eqdep.Eq_rect_eq.eq_rect_eq",
    "propositional_extensionality", "constructive_indefinite_description", "constructive_definite_description",
}

THEOREM_RE = re.compile(r"^\s*(?:#\[[^\]]*\]\s*)?(?:Local\s+|Global\s+|Program\s+)?(Theorem|Lemma|Corollary|Example|Fact|Proposition|Remark)\s+([A-Za-z0-9_']+)", re.M)
GATE_RE = re.compile(r"\b(Admitted|admit|Axiom|Axioms|Parameter|Parameters|Conjecture|Conjectures|Admit Obligations|Unset Guard Checking|Unset Positivity Checking|Unset Universe Checking|bypass_check|type-in-type|impredicative-set|native_compute)\b")
REQ_RE = re.compile(r"From\s+CN\s+Require\s+(?:Import\s+|Export\s+)?((?:[A-Za-z_]\w*(?:\.[A-Za-z_]\w*)*\s*)+)\.(?=\s)", re.S)


def sh(cmd, cwd=None, env=None, timeout=None, input=None):
    e = dict(os.environ)
    if env:
        e.update(env)
    try:
        p = subprocess.run(cmd, cwd=cwd, env=e, timeout=timeout, input=input, stdout=subprocess.PIPE,
                           stderr=subprocess.STDOUT, text=True, errors="replace")
        return p.returncode, p.stdout
    except subprocess.TimeoutExpired as ex:
        out = ex.stdout if isinstance(ex.stdout, str) else (ex.stdout or b"").decode("utf8", "replace")
        return 124, (out or "") + "\n[timeout after %ss]" % timeout


class Lock:
    def __init__(self, name):
        # one lock for the whole /verif tree whatever VERIF_BUILD says: the Coq sources and Gen/ files are shared
        d = os.path.join(VERIF, ".build")
        os.makedirs(d, exist_ok=True)
        self.path = os.path.join(d, name + ".lock")

    def __enter__(self):
        self.f = open(self.path, "w")
        fcntl.flock(self.f, fcntl.LOCK_EX)
        return self

    def __exit__(self, *a):
        fcntl.flock(self.f, fcntl.LOCK_UN)
        self.f.close()


def write_if_changed(path, content):
    try:
        if open(path).read() == content:
            return False
    except FileNotFoundError:
        pass
    os.makedirs(os.path.dirname(path), exist_ok=True)
    with open(path + ".tmp", "w") as f:
        f.write(content)
    os.replace(path + ".tmp", path)
    return True


# ----------------------------------------------------------------------------------------------- specs

def load_spec(pid):
    path = os.path.join(VERIF, "lib", "props", pid.lower() + ".py")
    if not os.path.exists(path):
        raise SystemExit("no spec for %s (%s)" % (pid, path))
    spec = importlib.util.spec_from_file_location("prop_" + pid, path)
    m = importlib.util.module_from_spec(spec)
    spec.loader.exec_module(m)
    s = dict(m.SPEC)
    s.setdefault("id", pid)
    s.setdefault("props_file", "Props/%s.v" % pid)
    s.setdefault("translators", [])
    s.setdefault("harness", [])
    s.setdefault("allowed_axioms", [])
    s.setdefault("trusted_base", [])
    s.setdefault("rule", "")
    s["_module"] = m
    return s


def all_specs():
    out = []
    for p in sorted(glob.glob(os.path.join(VERIF, "lib", "props", "c*.py"))):
        out.append(os.path.basename(p)[:-3].upper())
    return out


# ----------------------------------------------------------------------------------------------- translators

def run_translators(names, log):
    """Each translator is a Go program /verif/translators/<name>/main.go (stdlib only) run as
    `go run . -repo /repo -out <Gen dir>`; it must write files only when their content changes."""
    ok = True
    os.makedirs(os.path.join(TH, "Gen"), exist_ok=True)
    for n in names:
        d = os.path.join(VERIF, "translators", n)
        tmp = os.path.join(BUILD, "gen_" + n)
        shutil.rmtree(tmp, ignore_errors=True)
        os.makedirs(tmp)
        env = dict(GOENV)
        rc, out = sh([GO, "run", ".", "-repo", REPO, "-out", tmp], cwd=d, env=env, timeout=600)
        log.append("translator %s rc=%d\n%s" % (n, rc, out[-4000:]))
        if rc != 0:
            ok = False
            continue
        for f in os.listdir(tmp):
            write_if_changed(os.path.join(TH, "Gen", f), open(os.path.join(tmp, f)).read())
    return ok


# ----------------------------------------------------------------------------------------------- Coq

def coq_files():
    fs = []
    for root, _, files in os.walk(TH):
        for f in files:
            if f.endswith(".v"):
                fs.append(os.path.relpath(os.path.join(root, f), COQ))
    return sorted(fs)


def coq_make(log, targets=None, timeout=3000):
    """Full .vo build (never -vos). make -k so that an unrelated broken file does not hide the rest."""
    proj = "-Q theories CN\n-arg -w -arg -notation-overridden,-deprecated-hint-without-locality,-deprecated-instance-without-locality,-ambiguous-paths,-deprecated-syntactic-definition\n" + "\n".join(coq_files()) + "\n"
    changed = write_if_changed(os.path.join(COQ, "_CoqProject"), proj)
    if changed or not os.path.exists(os.path.join(COQ, "Makefile")):
        rc, out = sh(["coq_makefile", "-f", "_CoqProject", "-o", "Makefile"], cwd=COQ, timeout=120)
        log.append("coq_makefile rc=%d %s" % (rc, out[-2000:]))
        if rc != 0:
            return False
    cmd = ["make", "-k", "-j16"] + (targets or [])
    rc, out = sh(cmd, cwd=COQ, timeout=timeout)
    log.append("$ (cd coq && %s) rc=%d\n%s" % (" ".join(cmd), rc, out[-12000:]))
    return rc == 0


def cone(props_rel):
    """Files (relative to theories/) in the Require-cone of a Props file, via `From CN Require Import A.B C.D.`"""
    seen, todo = [], [props_rel]
    while todo:
        f = todo.pop()
        if f in seen:
            continue
        seen.append(f)
        p = os.path.join(TH, f)
        if not os.path.exists(p):
            continue
        src = strip_comments(open(p).read())
        for m in REQ_RE.finditer(src + "\n"):
            for mod in m.group(1).split():
                todo.append(mod.strip(".").replace(".", "/") + ".v")
    return seen


def strip_comments(s):
    out, depth, i = [], 0, 0
    while i < len(s):
        if s.startswith("(*", i):
            depth += 1
            i += 2
        elif s.startswith("*)", i) and depth > 0:
            depth -= 1
            i += 2
        else:
            if depth == 0:
                out.append(s[i])
            i += 1
    return "".join(out)


def analyse_cone(props_rel):
    files = cone(props_rel)
    info = dict(files=files, obligations=0, discharged=0, missing=[], gate=[], refuted=[], theorems=[])
    for f in files:
        p = os.path.join(TH, f)
        if not os.path.exists(p):
            info["missing"].append(f + " (source missing)")
            continue
        src = strip_comments(open(p).read())
        names = [m.group(2) for m in THEOREM_RE.finditer(src)]
        vo = p[:-2] + ".vo"
        built = os.path.exists(vo) and os.path.getmtime(vo) >= os.path.getmtime(p)
        if built:
            # a .vo older than the .vo of something it requires is stale (its rebuild failed)
            for m in REQ_RE.finditer(src + "\n"):
                for mod in m.group(1).split():
                    dvo = os.path.join(TH, mod.strip(".").replace(".", "/") + ".vo")
                    if not os.path.exists(dvo) or os.path.getmtime(dvo) > os.path.getmtime(vo) + 1e-6:
                        built = False
        info["obligations"] += len(names)
        if built:
            info["discharged"] += len(names)
        else:
            info["missing"].append(f)
        info["refuted"] += [n for n in names if n.endswith("_refuted")]
        if f.startswith("Props/"):
            info["theorems"] += names
        for m in GATE_RE.finditer(src):
            info["gate"].append("%s: %s" % (f, m.group(1)))
    return info


def print_assumptions(props_rel, log):
    """Recompile the Props file alone and parse every `Print Assumptions` answer."""
    rc, out = sh(["coqc", "-Q", "theories", "CN", "-w", "-all", os.path.join("theories", props_rel)], cwd=COQ, timeout=1200)
    log.append("$ coqc %s rc=%d\n%s" % (props_rel, rc, out[-6000:]))
    closed = out.count("Closed under the global context")
    axioms = []
    for blk in re.findall(r"Axioms:\n((?:.+\n?)+?)(?:\n|\Z)", out):
        for line in blk.splitlines():
            m = re.match(r"^([A-Za-z_][\w.']*)\s*:", line)
            if m:
                axioms.append(m.group(1))
    return rc == 0, closed, sorted(set(axioms))


def coqchk(props_rel, log):
    """coqchk -silent -o on the property module: independent re-check of the .vo files of its whole dependency cone."""
    mod = "CN." + props_rel[:-2].replace("/", ".")
    t = time.time()
    rc, out = sh(["coqchk", "-silent", "-o", "-Q", "theories", "CN", mod], cwd=COQ, timeout=3000)
    log.append("$ coqchk -silent -o -Q theories CN %s rc=%d %.1fs\n%s" % (mod, rc, time.time() - t, out[-3000:]))
    axioms = []
    m = re.search(r"\* Axioms:(.*?)\n\s*\n\* Constants/Inductives relying on type-in-type:(.*?)\n\s*\n\* Constants/Inductives relying on unsafe \(co\)fixpoints:(.*?)\n\s*\n\* Inductives whose positivity is assumed:(.*?)(?:\n\s*\n|\Z)", out, re.S)
    clean = False
    if m:
        ax = m.group(1).strip()
        if ax != "<none>":
            axioms = [x.strip() for x in ax.split("\n") if x.strip()]
        clean = all(m.group(i).strip() == "<none>" for i in (2, 3, 4))
    return dict(ok=(rc == 0 and m is not None and clean), axioms=axioms, s=round(time.time() - t, 1), tail=out[-1500:])


def coq_eval_shard(path):
    t = time.time()
    d = os.path.dirname(path)
    rc, out = sh(["coqc", "-noglob", "-Q", TH, "CN", "-w", "-all", os.path.basename(path)], cwd=d, timeout=3000)
    flat = re.sub(r"\s+", " ", out)
    m = re.search(r"mism = (\[.*?\])\s*:", flat)
    if rc != 0 or not m:
        return dict(path=path, ok=False, error=out[-3000:], idx=[], s=time.time() - t)
    body = m.group(1).strip()[1:-1].strip()
    try:
        idx = [int(re.sub(r"%\w+", "", x).strip()) for x in body.split(";")] if body else []
    except ValueError:
        return dict(path=path, ok=False, error="cannot parse mismatch list (import BinNat / NArith so that N prints as a numeral): " + body[:300], idx=[], s=time.time() - t)
    return dict(path=path, ok=True, idx=idx, s=time.time() - t)


# ----------------------------------------------------------------------------------------------- Go harness

def overlay_for(pid, extra_tags=()):
    """Every file /verif/harness/<rel> whose basename starts with zz_verif_<pid>_ / zz_verif_shared_ (or lives in
    harness/zzverif) is mapped to /repo/<rel>."""
    rep = {}
    hroot = os.path.join(VERIF, "harness")
    tags = [pid.lower()] + [t.lower() for t in extra_tags] + ["shared"]
    for root, _, files in os.walk(hroot):
        rel = os.path.relpath(root, hroot)
        for f in files:
            if not f.endswith(".go"):
                continue
            if rel == "zzverif" or any(f.startswith("zz_verif_%s_" % t) or f.startswith("zz_verif_%s." % t) for t in tags):
                rep[os.path.join(REPO, rel, f)] = os.path.join(root, f)
    os.makedirs(BUILD, exist_ok=True)
    path = os.path.join(BUILD, "overlay_%s.json" % pid)
    with open(path, "w") as f:
        json.dump({"Replace": rep}, f, indent=1)
    return path, rep


def build_harness(pid, h, log):
    ov, rep = overlay_for(pid, h.get("overlay_tags", ()))
    binp = os.path.join(BUILD, "bin", "%s_%s.test" % (pid, h["pkg"].replace("/", "_")))
    os.makedirs(os.path.dirname(binp), exist_ok=True)
    cmd = [GO, "test", "-c", "-trimpath", "-tags", "verif", "-vet=off", "-overlay", ov, "-o", binp]
    if h.get("race"):
        cmd.append("-race")
    cmd.append("./" + h["pkg"])
    t = time.time()
    rc, out = sh(cmd, cwd=REPO, env=GOENV, timeout=3000)
    log.append("$ (cd %s && %s) rc=%d %.1fs\n%s" % (REPO, " ".join(cmd), rc, time.time() - t, out[-6000:]))
    return rc == 0, binp, out


def run_harness(pid, h, binp, out_dir, seed, tier, replay, log):
    env = dict(GOENV)
    env.update(VERIF_OUT=out_dir, VERIF_SEED=str(seed), VERIF_TIER=tier, VERIF_REPO=REPO, VERIF_DIR=VERIF)
    if replay:
        env["VERIF_REPLAY"] = replay
    env.update(h.get("env", {}))
    to = h.get("timeout_thorough", 3000) if tier == "thorough" else h.get("timeout", 600)
    cmd = [binp, "-test.run", "^%s$" % h["test"], "-test.v", "-test.timeout", "%ds" % to, "-test.count", "1"]
    t = time.time()
    rc, out = sh(cmd, cwd=os.path.join(REPO, h["pkg"]), env=env, timeout=to + 60)
    log.append("$ %s rc=%d %.1fs\n%s" % (" ".join(cmd), rc, time.time() - t, out[-8000:]))
    return rc, out


# ----------------------------------------------------------------------------------------------- known findings

def known_findings():
    known, fixed = {}, []
    p = os.path.join(VERIF, "KNOWN_FINDINGS.txt")
    if os.path.exists(p):
        for line in open(p):
            line = line.strip()
            m = re.match(r"^known:\s+property=(\S+)\s+sig=(\S+)\s*(.*)$", line)
            if m:
                known[(m.group(1), m.group(2))] = m.group(3)
            elif line.startswith("fixed:"):
                fixed.append(line)
    return known, fixed


# ----------------------------------------------------------------------------------------------- the check

def run_check(pid, tier="quick", seed=None, replay=None):
    t0 = time.time()
    spec = load_spec(pid)
    if seed is None:
        seed = int(os.environ.get("VERIF_SEED", "1") or 1)
    log, problems, printed = [], [], []
    out_dir = os.path.join(BUILD, "out", "%s-%s" % (pid, tier))
    shutil.rmtree(out_dir, ignore_errors=True)
    os.makedirs(out_dir)
    replay_dir = os.path.join(VERIF, "out", "replays")
    os.makedirs(replay_dir, exist_ok=True)

    # ---- L1 + translators (serialised across concurrently running checks)
    with Lock("coq"):
        tr_ok = run_translators(spec["translators"], log)
        if not tr_ok:
            problems.append(dict(layer="L2-translator", what="translator failed: " + ",".join(spec["translators"])))
        make_ok = coq_make(log, targets=[os.path.join("theories", spec["props_file"][:-2] + ".vo")])
        ci = analyse_cone(spec["props_file"])
        pa_ok, closed, axioms = print_assumptions(spec["props_file"], log)
    if ci["missing"]:
        problems.append(dict(layer="L1", what="theorem files in the cone of %s did not compile: %s" % (spec["props_file"], ", ".join(ci["missing"]))))
    if not pa_ok and not ci["missing"]:
        problems.append(dict(layer="L1", what="%s did not compile" % spec["props_file"]))
    if ci["gate"]:
        problems.append(dict(layer="L1", what="forbidden construct: " + "; ".join(ci["gate"][:8])))
    bad_ax = [a for a in axioms if a.split(".")[-1] not in spec["allowed_axioms"] or a.split(".")[-1] not in {x.split(".")[-1] for x in STD_AXIOMS_OK}]
    if bad_ax:
        problems.append(dict(layer="L1", what="Print Assumptions lists axioms outside the declared base: " + ", ".join(bad_ax)))
    if pa_ok and closed + len(axioms) == 0:
        problems.append(dict(layer="L1", what="no Print Assumptions output under the property theorems"))
    # thorough tier: the compiled theorem cone is re-checked by Coq's independent checker, which also lists the axioms of
    # everything loaded
    chk = None
    if tier == "thorough" and not ci["missing"] and os.environ.get("VERIF_NO_COQCHK") != "1":
        chk = coqchk(spec["props_file"], log)
        if not chk["ok"]:
            problems.append(dict(layer="L1", what="coqchk does not accept the compiled cone of %s" % spec["props_file"], detail=chk["tail"]))
        bad = [a for a in chk["axioms"] if a.split(".")[-1] not in spec["allowed_axioms"]]
        if bad:
            problems.append(dict(layer="L1", what="coqchk lists axioms outside the declared base: " + ", ".join(bad)))

    # ---- L2/L3: harnesses
    results, evals, shard_reports = [], 0, []
    for h in spec["harness"]:
        ok, binp, bout = build_harness(pid, h, log)
        if not ok:
            problems.append(dict(layer="L2-build", what="correspondence harness %s:%s no longer builds against the working tree" % (h["pkg"], h["test"]), detail=bout[-1500:]))
            continue
        hout = os.path.join(out_dir, h["pkg"].replace("/", "_") + "." + h["test"])
        os.makedirs(hout)
        rc, out = run_harness(pid, h, binp, hout, seed, tier, replay, log)
        rp = os.path.join(hout, "result.json")
        if not os.path.exists(rp):
            problems.append(dict(layer="L2-run", what="harness %s produced no result (rc=%d)" % (h["test"], rc), detail=out[-1500:]))
            continue
        res = json.load(open(rp))
        res["_dir"] = hout
        res["_rc"] = rc
        results.append(res)
        if rc != 0:
            problems.append(dict(layer="L2-run", what="harness %s exited rc=%d" % (h["test"], rc), detail=out[-1500:]))

    # ---- L2: evaluate the model on the same cases inside Coq
    shards = []
    for res in results:
        for g, gi in res["groups"].items():
            for s in (gi.get("shards") or []):
                shards.append((res, g, os.path.join(res["_dir"], s)))
    mism_total, mism_cases = 0, []
    # the case files import model modules that need not be in the cone of the Props file: build them first
    need = set()
    for res in results:
        heads = sorted(glob.glob(os.path.join(res["_dir"], "defs_*.v")))
        for g, gi in res["groups"].items():
            heads += [os.path.join(res["_dir"], x) for x in (gi.get("shards") or [])[:1]]
        for hf in heads:
            try:
                src = strip_comments(open(hf).read(200000))
            except OSError:
                continue
            for m in REQ_RE.finditer(src + "\n"):
                for mod in m.group(1).split():
                    need.add(os.path.join("theories", mod.strip(".").replace(".", "/") + ".vo"))
    need = sorted(t for t in need if os.path.exists(os.path.join(COQ, t[:-1])))
    if need:
        with Lock("coq"):
            coq_make(log, targets=need)
        for t in need:
            if not os.path.exists(os.path.join(COQ, t)):
                problems.append(dict(layer="L2-eval", what="model module %s needed by the case files does not compile" % t))
    # shared definition files written by a harness (defs_*.v) are compiled first, in name order
    for res in results:
        for dv in sorted(glob.glob(os.path.join(res["_dir"], "defs_*.v"))):
            rc, out = sh(["coqc", "-Q", TH, "CN", "-w", "-all", os.path.basename(dv)], cwd=res["_dir"], timeout=1800)
            log.append("$ coqc %s rc=%d\n%s" % (os.path.basename(dv), rc, out[-3000:]))
            if rc != 0:
                problems.append(dict(layer="L2-eval", what="definitions file %s of the harness does not compile" % os.path.basename(dv), detail=out[-1500:]))
    if shards:
        with ThreadPoolExecutor(max_workers=int(os.environ.get("VERIF_JOBS", "12"))) as ex:
            reps = list(ex.map(lambda x: coq_eval_shard(x[2]), shards))
        for (res, g, path), rep in zip(shards, reps):
            shard_reports.append(dict(shard=os.path.basename(path), ok=rep["ok"], mismatches=len(rep["idx"]), s=round(rep["s"], 2)))
            if not rep["ok"]:
                problems.append(dict(layer="L2-eval", what="model evaluation of %s failed" % os.path.basename(path), detail=rep["error"][-1500:]))
                continue
            if rep["idx"]:
                k = int(re.search(r"_(\d+)\.v$", path).group(1))
                lines = open(os.path.join(res["_dir"], "cases_%s.jsonl" % g)).read().splitlines()
                for i in rep["idx"]:
                    gi_ = k * 400 + i
                    mism_total += 1
                    if len(mism_cases) < 5:
                        try:
                            mism_cases.append(dict(group=g, index=gi_, case=json.loads(lines[gi_])))
                        except Exception:
                            mism_cases.append(dict(group=g, index=gi_))
    if mism_total:
        problems.append(dict(layer="L2", what="model and implementation disagree on %d case(s)" % mism_total, cases=mism_cases))

    # ---- optional property-specific python hook (e.g. strace-based effect capture)
    hook = getattr(spec["_module"], "extra", None)
    hook_cov = {}
    if hook:
        hr = hook(dict(spec=spec, tier=tier, seed=seed, out=out_dir, log=log, sh=sh, GO=GO, GOENV=GOENV, REPO=REPO, VERIF=VERIF, BUILD=BUILD, TH=TH))
        problems += hr.get("problems", [])
        hook_cov = hr.get("coverage", {})
        for v in hr.get("violations", []):
            results.append(dict(l3_violations=[v], evaluations=0, distinct_nontrivial=0, samples=[], input_distribution={}, groups={}, extra={}))

    # ---- verdict
    known, fixed = known_findings()
    violations, known_hit = [], []
    for res in results:
        for v in res.get("l3_violations", []):
            key = (pid, v["sig"])
            if key in known:
                if v["sig"] not in [k["sig"] for k in known_hit]:
                    known_hit.append(dict(sig=v["sig"], desc=v["desc"]))
                    printed.append("KNOWN-FINDING: property=%s %s: %s" % (pid, v["sig"], known[key] or v["desc"]))
            else:
                violations.append(v)
    nviol = 0
    seen_sig = set()
    for v in violations:
        if v["sig"] in seen_sig:
            continue
        seen_sig.add(v["sig"])
        nviol += 1
        rp = os.path.join(replay_dir, "%s-%s-%d.json" % (pid, re.sub(r"[^A-Za-z0-9_.-]", "_", v["sig"])[:80], seed))
        json.dump(dict(property=pid, kind="failing-input", sig=v["sig"], desc=v["desc"], seed=seed, tier=tier, replay=v["replay"],
                       command="./check %s --tier %s --seed %d --replay %s" % (pid, tier, seed, rp)), open(rp, "w"), indent=1)
        printed.append("VIOLATION property=%s replay=%s" % (pid, rp))
    if problems and not violations:
        nviol += 1
        rp = os.path.join(replay_dir, "%s-broken-%d.json" % (pid, seed))
        json.dump(dict(property=pid, kind="no-failing-input-found", seed=seed, tier=tier,
                       broken=problems, note="the theorem(s) or correspondence named above no longer check; the search over the implementation found no failing input"), open(rp, "w"), indent=1)
        printed.append("VIOLATION property=%s replay=%s no-failing-input-found" % (pid, rp))

    # ---- evidence
    evaluations = sum(r.get("evaluations", 0) for r in results)
    dn = sum(r.get("distinct_nontrivial", 0) for r in results)
    samples = []
    for r in results:
        samples += r.get("samples", [])[:6]
    if not samples:
        samples = [dict(obligation=n) for n in ci["theorems"][:6]]
    dist = {}
    for r in results:
        for k, v in r.get("input_distribution", {}).items():
            dist.setdefault(k, {}).update(v)
    extra = {}
    for r in results:
        extra.update(r.get("extra", {}))
    cov = dict(
        obligations=ci["obligations"], discharged=ci["discharged"],
        checker_cmd="cd /verif/coq && coq_makefile -f _CoqProject -o Makefile && make -k -j16   # full .vo build; then coqc theories/%s (Print Assumptions) and coqc on every cases_*.v shard" % spec["props_file"],
        trusted_base=["Coq 8.16.1 kernel incl. vm_compute (no native_compute)", "axioms reported by Print Assumptions this run: " + (", ".join(axioms) if axioms else "none (Closed under the global context x%d)" % closed)] + spec["trusted_base"],
        property_theorems=ci["theorems"], refuted_theorems=ci["refuted"], cone_files=ci["files"],
        evaluations=evaluations, distinct_nontrivial=dn, rule=spec["rule"], samples=samples[:12],
        traces_validated_against_impl=evaluations, input_distribution=dist,
        model_impl_agree=(mism_total == 0 and not any(p["layer"].startswith("L2") for p in problems)),
        model_impl_disagreements=mism_total, shards=shard_reports, known_findings_hit=known_hit,
        problems=[dict(layer=p["layer"], what=p["what"]) for p in problems],
    )
    if chk is not None:
        cov["coqchk"] = dict(cmd="coqchk -silent -o -Q theories CN CN.%s" % spec["props_file"][:-2].replace("/", "."), accepted=chk["ok"], axioms=chk["axioms"], s=chk["s"])
    cov.update(extra)
    cov.update(hook_cov)
    ev = dict(property_id=pid, tier=tier, seed=int(seed), level="proof", coverage=cov,
              assumptions=spec["trusted_base"], wall_s=round(time.time() - t0, 2), violations=nviol)
    # evidence of runs against another checkout (VERIF_REPO=..., used for seeded changes) must not replace the evidence of /repo
    evdir = os.environ.get("VERIF_EVIDENCE_DIR") or (os.path.join(VERIF, "evidence") if REPO == "/repo" else os.path.join(BUILD, "evidence-other"))
    os.makedirs(evdir, exist_ok=True)
    json.dump(ev, open(os.path.join(evdir, pid + ".json"), "w"), indent=1, sort_keys=True)
    with open(os.path.join(out_dir, "log.txt"), "w") as f:
        f.write("\n\n".join(log))
    for line in printed:
        print(line)
    print("%s tier=%s seed=%s: obligations=%d discharged=%d cases=%d nontrivial=%d disagreements=%d known=%d violations=%d (%.1fs) log=%s" % (
        pid, tier, seed, ci["obligations"], ci["discharged"], evaluations, dn, mism_total, len(known_hit), nviol, time.time() - t0, os.path.join(out_dir, "log.txt")))
    if problems:
        for p in problems:
            print("  problem[%s]: %s" % (p["layer"], p["what"]))
    return 1 if nviol else 0

#!/usr/bin/env python3
"""Validate a candidate seeded change and run the property's quick check against it.

usage: lib/seedval.py <PROP> <srcdir> [--name NAME] [--pkg DIR] [--run REGEX] [--props C01,C02] [--keep]

<srcdir> holds patch.diff, demo_test.go (or demo/*.go), meta.json as delivered by an independent sub-agent.
Steps, all in a scratch worktree of /repo's HEAD (removed afterwards):
  1. demo on the unchanged tree must PASS; 2. patch must apply; the touched packages must still build and their existing tests PASS;
  3. demo with the patch must FAIL; 4. ./check <PROP> (quick) against the patched worktree: records whether a VIOLATION was printed.
The candidate is copied to /verif/seeded/<NAME>/ with meta.json extended by what was run here.
"""
import argparse, json, os, re, shutil, subprocess, sys, time

VERIF = os.path.dirname(os.path.dirname(os.path.abspath(__file__)))
GOENV = dict(GOFLAGS="-mod=mod", GOPROXY="off", GOSUMDB="off", GOTOOLCHAIN="local")


def sh(cmd, cwd=None, env=None, timeout=3600):
    e = dict(os.environ)
    e.update(env or {})
    try:
        p = subprocess.run(cmd, cwd=cwd, env=e, stdout=subprocess.PIPE, stderr=subprocess.STDOUT, text=True, errors="replace", timeout=timeout)
        return p.returncode, p.stdout
    except subprocess.TimeoutExpired as ex:
        return 124, (ex.stdout or b"").decode("utf8", "replace") if isinstance(ex.stdout, bytes) else (ex.stdout or "")


def main():
    ap = argparse.ArgumentParser()
    ap.add_argument("prop")
    ap.add_argument("src")
    ap.add_argument("--name")
    ap.add_argument("--pkg")
    ap.add_argument("--run")
    ap.add_argument("--props")
    ap.add_argument("--keep", action="store_true")
    ap.add_argument("--skip-existing-tests", action="store_true")
    a = ap.parse_args()
    src = os.path.abspath(a.src)
    meta = json.load(open(os.path.join(src, "meta.json")))
    name = a.name or "%s-%s" % (a.prop, os.path.basename(src.rstrip("/")))
    demo = os.path.join(src, "demo_test.go")
    demo_src = open(demo).read()
    pkg = a.pkg
    if not pkg:
        m = re.search(r"(?:copied to|directory|package dir\w*|place in|goes in)[^\n]*?((?:\./)?[a-z][\w/]+)", demo_src.split("\n", 3)[0] + "\n" + demo_src.split("\n", 3)[1])
        cmdline = meta.get("demo_cmd", "") if isinstance(meta.get("demo_cmd"), str) else " ".join(meta.get("demo_cmd", []))
        m2 = re.search(r"\./([\w/.-]+?)/?(?:\s|$)", cmdline)
        pkg = (m2.group(1) if m2 else (m.group(1) if m else None))
    run = a.run
    if not run:
        cmdline = meta.get("demo_cmd", "") if isinstance(meta.get("demo_cmd"), str) else " ".join(meta.get("demo_cmd", []))
        m = re.search(r"-run[ =]+'?\"?([^'\"\s]+)", cmdline)
        run = m.group(1) if m else "."
    if not pkg:
        sys.exit("cannot determine demo package; pass --pkg")
    pkg = pkg.strip("./")
    wt = "/tmp/seedval/%s" % name
    sh(["git", "-C", "/repo", "worktree", "remove", "--force", wt])
    shutil.rmtree(wt, ignore_errors=True)
    os.makedirs("/tmp/seedval", exist_ok=True)
    rc, out = sh(["git", "-C", "/repo", "worktree", "add", "--detach", wt, "HEAD"])
    assert rc == 0, out
    val = dict(repo_head=sh(["git", "-C", "/repo", "rev-parse", "--short", "HEAD"])[1].strip(), demo_pkg=pkg, demo_run=run)
    try:
        demo_dst = os.path.join(wt, pkg, "zz_seeded_demo_test.go")
        shutil.copy(demo, demo_dst)
        extra = []
        for f in os.listdir(src):
            if f.endswith(".go") and f != "demo_test.go":
                shutil.copy(os.path.join(src, f), os.path.join(wt, pkg, f))
                extra.append(f)
        democmd = ["go1.26.8", "test", "-count=1", "-vet=off", "-run", run, "./" + pkg]
        t = time.time()
        rc0, out0 = sh(democmd, cwd=wt, env=GOENV)
        val["demo_without_change"] = dict(cmd=" ".join(democmd), exit=rc0, passed=(rc0 == 0), tail=out0[-600:], s=round(time.time() - t, 1))
        rc, out = sh(["git", "apply", os.path.join(src, "patch.diff")], cwd=wt)
        val["patch_applies"] = (rc == 0)
        if rc != 0:
            val["apply_output"] = out[-800:]
        else:
            files = [l[6:].strip() for l in open(os.path.join(src, "patch.diff")) if l.startswith("+++ b/")]
            val["touched_files"] = files
            t = time.time()
            rc1, out1 = sh(democmd, cwd=wt, env=GOENV)
            val["demo_with_change"] = dict(exit=rc1, failed=(rc1 != 0), tail=out1[-1200:], s=round(time.time() - t, 1))
            os.remove(demo_dst)
            for f in extra:
                os.remove(os.path.join(wt, pkg, f))
            if not a.skip_existing_tests:
                pkgs = sorted({"./" + os.path.dirname(f) for f in files if f.endswith(".go")})
                t = time.time()
                cmd = ["go1.26.8", "test", "-count=1", "-vet=off"] + pkgs
                rc2, out2 = sh(cmd, cwd=wt, env=GOENV, timeout=3000)
                val["existing_tests"] = dict(cmd=" ".join(cmd), exit=rc2, passed=(rc2 == 0), tail=out2[-800:], s=round(time.time() - t, 1))
            checks = {}
            for p in (a.props.split(",") if a.props else [a.prop]):
                t = time.time()
                env = dict(VERIF_REPO=wt, VERIF_BUILD=os.path.join(VERIF, ".build", os.environ.get("SEEDVAL_BUILD", "seeded")))
                rc3, out3 = sh([os.path.join(VERIF, "check"), p], cwd=VERIF, env=env, timeout=3000)
                lines = [l for l in out3.splitlines() if l.startswith("VIOLATION") or l.startswith("KNOWN") or l.startswith("  problem") or l.startswith(p + " tier")]
                viol = [l for l in lines if l.startswith("VIOLATION")]
                replays = []
                for l in viol:
                    m = re.search(r"replay=(\S+)", l)
                    if m and os.path.exists(m.group(1)):
                        try:
                            d = json.load(open(m.group(1)))
                            replays.append(dict(file=os.path.basename(m.group(1)), kind=d.get("kind"), sig=d.get("sig"), desc=(d.get("desc") or "")[:400],
                                                broken=[b.get("what") for b in d.get("broken", [])][:4]))
                        except Exception:
                            pass
                checks[p] = dict(exit=rc3, caught=(rc3 == 1 and bool(viol)), lines=lines[:14], replays=replays[:6], wall_s=round(time.time() - t, 1))
                print(name, p, "CAUGHT" if checks[p]["caught"] else "MISSED", "|", "; ".join(lines[:4])[:400])
            val["checks"] = checks
    finally:
        if not a.keep:
            sh(["git", "-C", "/repo", "worktree", "remove", "--force", wt])
            shutil.rmtree(wt, ignore_errors=True)
    ok = val.get("patch_applies") and val["demo_without_change"]["passed"] and val.get("demo_with_change", {}).get("failed") and (a.skip_existing_tests or val.get("existing_tests", {}).get("passed"))
    val["confirmed"] = bool(ok)
    print(name, "confirmed" if ok else "NOT CONFIRMED", json.dumps({k: (v if not isinstance(v, dict) else {kk: vv for kk, vv in v.items() if kk in ("passed", "failed", "exit")}) for k, v in val.items() if k != "checks"})[:600])
    dst = os.path.join(VERIF, "seeded", name)
    os.makedirs(dst, exist_ok=True)
    shutil.copy(os.path.join(src, "patch.diff"), os.path.join(dst, "patch.diff"))
    shutil.copy(demo, os.path.join(dst, "demo_test.go"))
    for f in os.listdir(src):
        if f.endswith(".go") and f != "demo_test.go":
            shutil.copy(os.path.join(src, f), os.path.join(dst, f))
    meta_out = dict(property=a.prop, name=name, source="independent sub-agent given only the property text and a scratch worktree", agent_meta=meta, validation=val)
    json.dump(meta_out, open(os.path.join(dst, "meta.json"), "w"), indent=1)


if __name__ == "__main__":
    main()

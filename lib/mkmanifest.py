#!/usr/bin/env python3
"""Regenerates /verif/MANIFEST.json from lib/props/*.py (run after adding or changing a spec)."""
import json, os, sys
sys.path.insert(0, os.path.dirname(os.path.abspath(__file__)))
import vf

ALL = ["C%02d" % i for i in range(1, 21)]
PENDING = "machinery for this property is not built yet in this development round (planned in DESIGN.md section 4); nothing is claimed for it"

def main():
    # only properties the lead has accepted (lib/ready.txt) are claimed; other spec files may be work in progress
    ready = [l.strip() for l in open(os.path.join(vf.VERIF, "lib", "ready.txt")) if l.strip() and not l.startswith("#")]
    specs = {p: vf.load_spec(p) for p in vf.all_specs() if p in ready}
    checks = []
    for p in ALL:
        if p not in specs or specs[p].get("disabled"):
            continue
        s = specs[p]
        checks.append(dict(
            property_id=p,
            quick_cmd="./check %s --tier quick" % p,
            thorough_cmd="./check %s --tier thorough" % p,
            evidence_file="/verif/evidence/%s.json" % p,
            replay_cmd_template="./check %s --replay {path}" % p,
            engine="coq-proof+correspondence",
            level_claimed=dict(category="proof", text=s.get("level_text", ""), design_ref=s.get("design_ref", "DESIGN.md section 4, " + p)),
            level_note=s.get("level_note", "; ".join(s["trusted_base"])),
            technique=s.get("technique", "Coq (8.16.1) theorems over an executable Gallina model; model tied to /repo by a correspondence harness evaluated with vm_compute on every run"),
        ))
    na = [dict(property_id=p, reason=(specs[p].get("disabled") if p in specs else PENDING)) for p in ALL if p not in [c["property_id"] for c in checks]]
    m = dict(
        version=1,
        setup_cmd="./check --setup",
        hooks=dict(guard="verif", enable="go1.26.8 test -c -tags verif -overlay <generated overlay.json> (harness files live in /verif/harness and are injected at build time; /repo carries no hook code)",
                   baseline_off_cmd="cd /repo && GOFLAGS=-mod=mod GOPROXY=off GOSUMDB=off GOTOOLCHAIN=local go1.26.8 test -json -vet=off -count=1 -timeout 25m ./...",
                   source_commits=[], add_only=True),
        engines=[dict(name="coq-proof+correspondence", path="/verif/check", serves_properties=[c["property_id"] for c in checks],
                      kind_free_text="Coq 8.16.1 proofs (full .vo build) + Go correspondence harness injected with -overlay + in-kernel vm_compute evaluation of the model on the harness cases")],
        checks=checks,
        not_applicable=na,
        notes="See DESIGN.md. KNOWN_FINDINGS.txt lists recorded genuine defects (known:) and repaired ones (fixed:).",
    )
    json.dump(m, open(os.path.join(vf.VERIF, "MANIFEST.json"), "w"), indent=1)
    print("MANIFEST.json: %d checks, %d not claimed" % (len(checks), len(na)))

if __name__ == "__main__":
    main()

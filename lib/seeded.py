#!/usr/bin/env python3
"""Run the quick check of each seeded change (/verif/seeded/<name>/patch.diff + meta.json) against a scratch worktree of
/repo with the change applied, and record whether a VIOLATION was reported.   usage: lib/seeded.py [name ...]"""
import json, os, subprocess, sys, shutil, time
VERIF = os.path.dirname(os.path.dirname(os.path.abspath(__file__)))
def sh(cmd, **kw):
    return subprocess.run(cmd, stdout=subprocess.PIPE, stderr=subprocess.STDOUT, text=True, **kw)
def main():
    names = sys.argv[1:] or sorted(os.listdir(os.path.join(VERIF, "seeded")))
    for name in names:
        d = os.path.join(VERIF, "seeded", name)
        if not os.path.exists(os.path.join(d, "patch.diff")):
            continue
        meta = json.load(open(os.path.join(d, "meta.json")))
        props = meta["property"] if isinstance(meta["property"], list) else [meta["property"]]
        wt = "/tmp/seeded-wt-%s" % name
        sh(["git", "-C", "/repo", "worktree", "remove", "--force", wt])
        shutil.rmtree(wt, ignore_errors=True)
        r = sh(["git", "-C", "/repo", "worktree", "add", "--detach", wt, "HEAD"])
        r = sh(["git", "-C", wt, "apply", os.path.join(d, "patch.diff")])
        res = dict(name=name, applied=(r.returncode == 0), apply_output=r.stdout[-500:], checks={})
        if r.returncode == 0:
            for p in props:
                t = time.time()
                env = dict(os.environ, VERIF_REPO=wt, VERIF_BUILD=os.path.join(VERIF, ".build", "seeded"))
                c = sh([os.path.join(VERIF, "check"), p], cwd=VERIF, env=env)
                lines = [l for l in c.stdout.splitlines() if l.startswith("VIOLATION") or l.startswith("  problem") or l.startswith(p + " tier")]
                res["checks"][p] = dict(exit=c.returncode, caught=(c.returncode == 1 and any(l.startswith("VIOLATION") for l in lines)),
                                        lines=lines[:12], wall_s=round(time.time() - t, 1))
                print(name, p, "CAUGHT" if res["checks"][p]["caught"] else "MISSED", lines[:3])
        sh(["git", "-C", "/repo", "worktree", "remove", "--force", wt])
        json.dump(res, open(os.path.join(d, "result.json"), "w"), indent=1)
if __name__ == "__main__":
    main()

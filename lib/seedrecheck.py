#!/usr/bin/env python3
"""Re-run the quick check(s) of an already recorded seeded change (/verif/seeded/<name>) after the machinery was strengthened and
record the outcome in its meta.json.   usage: lib/seedrecheck.py <name> [--props C01,C02] [--note "..."]"""
import argparse, json, os, re, shutil, subprocess, sys, time
VERIF = os.path.dirname(os.path.dirname(os.path.abspath(__file__)))
def sh(cmd, **kw):
    p = subprocess.run(cmd, stdout=subprocess.PIPE, stderr=subprocess.STDOUT, text=True, errors="replace", **kw)
    return p.returncode, p.stdout
def main():
    ap = argparse.ArgumentParser(); ap.add_argument("name"); ap.add_argument("--props"); ap.add_argument("--note", default="")
    a = ap.parse_args()
    d = os.path.join(VERIF, "seeded", a.name)
    meta = json.load(open(os.path.join(d, "meta.json")))
    props = a.props.split(",") if a.props else [meta["property"]]
    wt = "/tmp/seedval/re-%s" % a.name
    sh(["git", "-C", "/repo", "worktree", "remove", "--force", wt]); shutil.rmtree(wt, ignore_errors=True); os.makedirs("/tmp/seedval", exist_ok=True)
    rc, out = sh(["git", "-C", "/repo", "worktree", "add", "--detach", wt, "HEAD"]); assert rc == 0, out
    res = {}
    try:
        rc, out = sh(["git", "apply", os.path.join(d, "patch.diff")], cwd=wt); assert rc == 0, out
        for p in props:
            t = time.time()
            env = dict(os.environ, VERIF_REPO=wt, VERIF_BUILD=os.path.join(VERIF, ".build", "seeded-re"))
            rc, out = sh([os.path.join(VERIF, "check"), p], cwd=VERIF, env=env)
            lines = [l for l in out.splitlines() if l.startswith("VIOLATION") or l.startswith("  problem") or l.startswith(p + " tier")]
            sigs = []
            for l in lines:
                m = re.search(r"replay=(\S+)", l)
                if m and os.path.exists(m.group(1)):
                    try:
                        j = json.load(open(m.group(1))); sigs.append(j.get("sig") or "no-failing-input-found")
                    except Exception: pass
            res[p] = dict(exit=rc, caught=(rc == 1 and any(l.startswith("VIOLATION") for l in lines)), sigs=sigs[:4], lines=lines[:8], wall_s=round(time.time() - t, 1))
            print(a.name, p, "CAUGHT" if res[p]["caught"] else "MISSED", sigs[:3])
    finally:
        sh(["git", "-C", "/repo", "worktree", "remove", "--force", wt]); shutil.rmtree(wt, ignore_errors=True)
    meta["recheck"] = dict(verif_commit=sh(["git", "-C", VERIF, "rev-parse", "--short", "HEAD"])[1].strip(), checks=res)
    cs = ["%s: %s" % (p, ("caught (" + ", ".join(r["sigs"][:2]) + ")") if r["caught"] else "still missed") for p, r in res.items()]
    meta["after_strengthening"] = (a.note + " " if a.note else "") + "; ".join(cs)
    json.dump(meta, open(os.path.join(d, "meta.json"), "w"), indent=1)
if __name__ == "__main__":
    main()

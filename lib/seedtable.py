#!/usr/bin/env python3
"""Prints the markdown table of seeded changes (/verif/seeded/*/meta.json) for DESIGN.md."""
import json, os, glob, re
VERIF = os.path.dirname(os.path.dirname(os.path.abspath(__file__)))
rows = []
for m in sorted(glob.glob(os.path.join(VERIF, "seeded", "*", "meta.json"))):
    d = json.load(open(m))
    v = d.get("validation", {})
    am = d.get("agent_meta", {})
    summ = re.sub(r"\s+", " ", str(am.get("summary", "")))[:230]
    needs = re.sub(r"\s+", " ", str(am.get("needs", "")))[:170]
    caught = []
    for p, c in (v.get("checks") or {}).items():
        if c.get("caught"):
            sigs = [r.get("sig") or ("(L1/L2 only: " + "; ".join((r.get("broken") or [])[:1])[:70] + ")") for r in c.get("replays", [])][:2]
            caught.append("%s: %s" % (p, ", ".join(s for s in sigs if s) or "VIOLATION"))
        else:
            caught.append("%s: **missed** at seeding time" % p)
    note = d.get("after_strengthening", "")
    rows.append("| %s | %s | %s | %s | %s |" % (d["name"], summ.replace("|", "/"), needs.replace("|", "/"), "<br>".join(caught).replace("|", "/"), note.replace("|", "/")))
print("| change | what it does | needs to manifest | quick check at seeding time | after strengthening |")
print("|---|---|---|---|---|")
print("\n".join(rows))

(** Finite maps with [N] keys as association lists (newest binding first, at most one binding per key after [mset]).
    Executable under [vm_compute]; the lemmas below are all the state-machine proofs of Light/ need. *)
From Coq Require Import List NArith Bool Lia.
Import ListNotations.

Section Map.
  Context {V : Type}.
  Definition map := list (N * V).

  Fixpoint mget (k : N) (m : map) : option V :=
    match m with
    | [] => None
    | (k', v) :: m' => if N.eqb k k' then Some v else mget k m'
    end.

  Definition mdel (k : N) (m : map) : map := filter (fun kv => negb (N.eqb k (fst kv))) m.
  Definition mset (k : N) (v : V) (m : map) : map := (k, v) :: mdel k m.

  (** [mflush buf disk]: write every binding of [buf] into [disk] (autobatch.Flush) *)
  Definition mflush (buf disk : map) : map := fold_right (fun kv d => mset (fst kv) (snd kv) d) disk buf.

  Lemma mget_mdel_eq k m : mget k (mdel k m) = None.
  Proof.
    induction m as [|[k' v] m IH]; simpl; [reflexivity|].
    destruct (N.eqb k k') eqn:E; simpl; [exact IH|]. rewrite E. exact IH.
  Qed.

  Lemma mget_mdel_ne k k' m : k <> k' -> mget k (mdel k' m) = mget k m.
  Proof.
    intros Hne. induction m as [|[k2 v] m IH]; simpl; [reflexivity|].
    destruct (N.eqb k' k2) eqn:E; simpl.
    - apply N.eqb_eq in E. subst k2. destruct (N.eqb k k') eqn:E2; [apply N.eqb_eq in E2; congruence|exact IH].
    - destruct (N.eqb k k2); [reflexivity|exact IH].
  Qed.

  Lemma mget_mset_eq k v m : mget k (mset k v m) = Some v.
  Proof. unfold mset. simpl. rewrite N.eqb_refl. reflexivity. Qed.

  Lemma mget_mset_ne k k' v m : k <> k' -> mget k (mset k' v m) = mget k m.
  Proof.
    intros Hne. unfold mset. simpl. destruct (N.eqb k k') eqn:E; [apply N.eqb_eq in E; congruence|].
    apply mget_mdel_ne, Hne.
  Qed.

  Lemma mget_mset k k' v m : mget k (mset k' v m) = if N.eqb k k' then Some v else mget k m.
  Proof.
    destruct (N.eqb k k') eqn:E.
    - apply N.eqb_eq in E. subst. apply mget_mset_eq.
    - apply mget_mset_ne. intro H. subst. rewrite N.eqb_refl in E. discriminate.
  Qed.

  Lemma mget_mdel k k' m : mget k (mdel k' m) = if N.eqb k k' then None else mget k m.
  Proof.
    destruct (N.eqb k k') eqn:E.
    - apply N.eqb_eq in E. subst. apply mget_mdel_eq.
    - apply mget_mdel_ne. intro H. subst. rewrite N.eqb_refl in E. discriminate.
  Qed.

  Lemma mget_mflush k buf disk :
    mget k (mflush buf disk) = match mget k buf with Some v => Some v | None => mget k disk end.
  Proof.
    induction buf as [|[k' v] buf IH]; [reflexivity|].
    change (mflush ((k', v) :: buf) disk) with (mset k' v (mflush buf disk)).
    rewrite mget_mset. simpl. destruct (N.eqb k k'); [reflexivity|exact IH].
  Qed.

  Lemma mget_In k v m : mget k m = Some v -> In (k, v) m.
  Proof.
    induction m as [|[k' v'] m IH]; simpl; [discriminate|].
    destruct (N.eqb k k') eqn:E; intros H.
    - apply N.eqb_eq in E. inversion H. subst. left. reflexivity.
    - right. apply IH, H.
  Qed.
End Map.
Arguments map : clear implicits.
Arguments mset {V} k v m : simpl never.
Arguments mdel {V} k m : simpl never.
Arguments mflush {V} buf disk : simpl never.

(** C03 — sessions (libs/utils/sessions.go) at interleaving granularity: per height at most one call is between its
    successful [LoadOrStore] and its [Delete]; and, built on it, stability of the pending coordinates for the repaired code. *)
From Coq Require Import List ZArith NArith Bool Lia Permutation.
From CN Require Import Light.Map Light.Sampling Light.DrawProofs Light.SamplingProofs.
Import ListNotations.
Open Scope Z_scope.
Opaque mset mdel mflush.

(** the channel a call owns while it is inside its session *)
Definition owner_chan (ts : tstate) : option N :=
  match ts with
  | TLoad c | TStore c _ | TReq c _ | TRel c _ | TDel c _ => Some c
  | _ => None
  end.

Definition inside (ts : tstate) : Prop := owner_chan ts <> None.

Record MInv (s : state) : Prop := mkMInv {
  m_own : forall t h ts c, mget t (s_thr s) = Some (h, ts) -> owner_chan ts = Some c -> mget (hh h) (s_sess s) = Some c;
  m_excl : forall t1 t2 h1 h2 ts1 ts2,
      mget t1 (s_thr s) = Some (h1, ts1) -> mget t2 (s_thr s) = Some (h2, ts2) ->
      inside ts1 -> inside ts2 -> hh h1 = hh h2 -> t1 = t2
}.

Lemma MInv_init count : MInv (init count).
Proof. constructor; simpl; intros; discriminate. Qed.

(** a call changes its own state, keeping (or giving up) ownership; the session map is untouched *)
Lemma MInv_update s s' t h ts ts' :
  MInv s -> mget t (s_thr s) = Some (h, ts) ->
  s_sess s' = s_sess s -> s_thr s' = mset t (h, ts') (s_thr s) ->
  (owner_chan ts' = None \/ owner_chan ts' = owner_chan ts) -> MInv s'.
Proof.
  intros [Ha Hb] Ht Es Et Ho. constructor; rewrite ?Es, ?Et.
  - intros t0 h0 ts0 c. rewrite mget_mset. destruct (N.eqb_spec t0 t) as [->|Hn].
    + intros E Hc. inversion E; subst. destruct Ho as [Ho|Ho]; [congruence|]. rewrite Ho in Hc. eapply Ha; eauto.
    + apply Ha.
  - assert (Hin : forall t0 h0 ts0, mget t0 (mset t (h, ts') (s_thr s)) = Some (h0, ts0) -> inside ts0 ->
                    exists ts1, mget t0 (s_thr s) = Some (h0, ts1) /\ inside ts1).
    { intros t0 h0 ts0. rewrite mget_mset. destruct (N.eqb_spec t0 t) as [->|Hn].
      - intros E Hi. inversion E; subst. exists ts. split; [exact Ht|]. unfold inside in *. destruct Ho as [Ho|Ho]; congruence.
      - intros E Hi. exists ts0. auto. }
    intros t1 t2 h1 h2 ts1 ts2 E1 E2 I1 I2 Hh.
    destruct (Hin _ _ _ E1 I1) as [x1 [A1 B1]]. destruct (Hin _ _ _ E2 I2) as [x2 [A2 B2]]. eapply Hb; eauto.
Qed.

Lemma MInv_same s s' : s_sess s' = s_sess s -> s_thr s' = s_thr s -> MInv s -> MInv s'.
Proof. intros E1 E2 [Ha Hb]. constructor; rewrite ?E1, ?E2; auto. Qed.

Lemma MInv_spawn s s' t h :
  MInv s -> mget t (s_thr s) = None -> s_sess s' = s_sess s -> s_thr s' = mset t (h, TInit) (s_thr s) -> MInv s'.
Proof.
  intros [Ha Hb] Ht Es Et. constructor; rewrite ?Es, ?Et.
  - intros t0 h0 ts0 c. rewrite mget_mset. destruct (N.eqb_spec t0 t) as [->|Hn]; [intros E; inversion E; subst; discriminate|apply Ha].
  - intros t1 t2 h1 h2 ts1 ts2. rewrite !mget_mset.
    destruct (N.eqb_spec t1 t) as [->|N1]; [intros E; inversion E; subst; intros _ I1; exfalso; apply I1; reflexivity|].
    destruct (N.eqb_spec t2 t) as [->|N2]; [intros _ E; inversion E; subst; intros _ I2; exfalso; apply I2; reflexivity|].
    apply Hb.
Qed.

(** LoadOrStore found no entry: the call becomes the owner of a fresh channel *)
Lemma MInv_acquire s s' t h c :
  MInv s -> mget t (s_thr s) = Some (h, TAcq) -> mget (hh h) (s_sess s) = None ->
  s_sess s' = mset (hh h) c (s_sess s) -> s_thr s' = mset t (h, TLoad c) (s_thr s) -> MInv s'.
Proof.
  intros [Ha Hb] Ht Hs Es Et.
  assert (Hno : forall t0 h0 ts0, mget t0 (s_thr s) = Some (h0, ts0) -> inside ts0 -> hh h0 <> hh h).
  { intros t0 h0 ts0 E I Hh. unfold inside in I. destruct (owner_chan ts0) as [c0|] eqn:Eo; [|congruence].
    pose proof (Ha _ _ _ _ E Eo) as H. rewrite Hh, Hs in H. discriminate. }
  constructor; rewrite ?Es, ?Et.
  - intros t0 h0 ts0 c0. rewrite mget_mset. destruct (N.eqb_spec t0 t) as [->|Hn].
    + intros E Hc. inversion E; subst. simpl in Hc. inversion Hc; subst. apply mget_mset_eq.
    + intros E Hc. rewrite mget_mset_ne; [eapply Ha; eauto|]. eapply Hno; eauto. unfold inside. congruence.
  - intros t1 t2 h1 h2 ts1 ts2. rewrite !mget_mset.
    destruct (N.eqb_spec t1 t) as [->|N1]; destruct (N.eqb_spec t2 t) as [->|N2]; auto.
    + intros E1 E2 _ I2 Hh. inversion E1; subst. exfalso. eapply Hno; eauto.
    + intros E1 E2 I1 _ Hh. inversion E2; subst. exfalso. eapply Hno; eauto.
    + apply Hb.
Qed.

(** Delete: the owner leaves, the entry of its height goes away *)
Lemma MInv_release s s' t h c v :
  MInv s -> mget t (s_thr s) = Some (h, TDel c v) ->
  s_sess s' = mdel (hh h) (s_sess s) -> s_thr s' = mset t (h, TDone v) (s_thr s) -> MInv s'.
Proof.
  intros [Ha Hb] Ht Es Et. constructor; rewrite ?Es, ?Et.
  - intros t0 h0 ts0 c0. rewrite mget_mset. destruct (N.eqb_spec t0 t) as [->|Hn].
    + intros E Hc. inversion E; subst. discriminate.
    + intros E Hc. rewrite mget_mdel_ne; [eapply Ha; eauto|].
      intros Hh. apply Hn. apply (Hb t0 t h0 h ts0 (TDel c v) E Ht); [unfold inside; congruence|unfold inside; simpl; congruence|exact Hh].
  - intros t1 t2 h1 h2 ts1 ts2. rewrite !mget_mset.
    destruct (N.eqb_spec t1 t) as [->|N1]; [intros E; inversion E; subst; intros _ I1; exfalso; apply I1; reflexivity|].
    destruct (N.eqb_spec t2 t) as [->|N2]; [intros _ E; inversion E; subst; intros _ I2; exfalso; apply I2; reflexivity|].
    apply Hb.
Qed.

Lemma thr_set_thr s t x : s_thr (set_thr s t x) = mset t x (s_thr s).
Proof. reflexivity. Qed.
Lemma sess_set_thr s t x : s_sess (set_thr s t x) = s_sess s.
Proof. reflexivity. Qed.

Lemma view_set_thr s t x k : view (set_thr s t x) k = view s k.
Proof. reflexivity. Qed.
Lemma view_add_served s l k : view (add_served s l) k = view s k.
Proof. reflexivity. Qed.

Lemma owner_after_load c res : owner_chan (after_load c res) = Some c.
Proof. unfold after_load. destruct (r_rem res); reflexivity. Qed.

Lemma MInv_step cf s e : MInv s -> MInv (fstep cf s e).
Proof.
  intros Hm. destruct e; simpl.
  - destruct (mget t (s_thr s)) eqn:Et; [exact Hm|]. eapply MInv_spawn; [exact Hm|exact Et|reflexivity|reflexivity].
  - destruct (mget t (s_thr s)) as [[h ts]|] eqn:Et; [|exact Hm].
    destruct ts; simpl.
    + destruct (hempty h); [|destruct (negb (hwin h))]; (eapply MInv_update; [exact Hm|exact Et|reflexivity|reflexivity|left; reflexivity]).
    + destruct (mget (hh h) (s_sess s)) eqn:Es.
      * eapply MInv_update; [exact Hm|exact Et|reflexivity|reflexivity|left; reflexivity].
      * eapply MInv_acquire; [exact Hm|exact Et|exact Es|reflexivity|reflexivity].
    + destruct (nmem c (s_closed s)); [|exact Hm]. eapply MInv_update; [exact Hm|exact Et|reflexivity|reflexivity|left; reflexivity].
    + destruct (view s (hr h)) as [res|].
      * destruct (total_ok _ _ _); (eapply MInv_update; [exact Hm|exact Et|reflexivity|reflexivity|right]); [apply owner_after_load|reflexivity].
      * destruct (draw _ _ _ _); [|exact Hm].
        destruct (c_persist_draw cf); (eapply MInv_update; [exact Hm|exact Et|reflexivity|reflexivity|right]); [reflexivity|apply owner_after_load].
    + destruct (ds_put_fields cf s (hr h) res) as [_ [F2 [_ [F4 _]]]].
      eapply MInv_update; [exact Hm|exact Et|rewrite sess_set_thr; exact F4|rewrite thr_set_thr, F2; reflexivity|right; apply owner_after_load].
    + exact Hm.
    + eapply MInv_update; [exact Hm|exact Et|reflexivity|reflexivity|right; reflexivity].
    + eapply MInv_release; [exact Hm|exact Et|reflexivity|reflexivity].
    + exact Hm.
  - destruct (mget t (s_thr s)) as [[h ts]|] eqn:Et; [|exact Hm]. destruct ts; try exact Hm.
    unfold step_resp. destruct (rs_slots r); [|destruct (Nat.ltb _ _)].
    + eapply MInv_update; [exact Hm|exact Et|reflexivity|reflexivity|right; reflexivity].
    + eapply MInv_update; [exact Hm|exact Et|reflexivity|reflexivity|right; reflexivity].
    + match goal with |- MInv (set_thr (ds_put ?cf ?s0 ?k ?v) _ _) => destruct (ds_put_fields cf s0 k v) as [_ [F2 [_ [F4 _]]]] end.
      eapply MInv_update; [exact Hm|exact Et|rewrite sess_set_thr; exact F4|rewrite thr_set_thr, F2; reflexivity|right; reflexivity].
  - destruct (mget t (s_thr s)) as [[h ts]|] eqn:Et; [|exact Hm]. destruct ts; try exact Hm.
    eapply MInv_update; [exact Hm|exact Et|reflexivity|reflexivity|left; reflexivity].
  - constructor; simpl; intros; discriminate.
  - constructor; simpl; intros; discriminate.
  - destruct (mget t (s_thr s)) as [[h ts]|] eqn:Et; [|exact Hm]. destruct ts; try exact Hm.
    destruct (buffered s (hr h)); [exact Hm|].
    eapply MInv_update; [exact Hm|exact Et|reflexivity|reflexivity|right; reflexivity].
  - destruct (mget t (s_thr s)) as [[h ts]|] eqn:Et; [|exact Hm]. destruct ts; try exact Hm.
    destruct (ds_put_fail_fields cf s (hr h) res o) as [_ [F2 [_ [F4 _]]]].
    eapply MInv_update; [exact Hm|exact Et|rewrite sess_set_thr; exact F4|rewrite thr_set_thr, F2; reflexivity|right; reflexivity].
  - destruct (mget t (s_thr s)) as [[h ts]|] eqn:Et; [|exact Hm]. destruct ts; try exact Hm.
    unfold step_resp_fail. destruct (rs_slots r); [|destruct (Nat.ltb _ _)].
    + eapply MInv_update; [exact Hm|exact Et|reflexivity|reflexivity|right; reflexivity].
    + eapply MInv_update; [exact Hm|exact Et|reflexivity|reflexivity|right; reflexivity].
    + match goal with |- MInv (set_thr (ds_put_fail ?cf ?s0 ?k ?v ?o) _ _) => destruct (ds_put_fail_fields cf s0 k v o) as [_ [F2 [_ [F4 _]]]] end.
      eapply MInv_update; [exact Hm|exact Et|rewrite sess_set_thr; exact F4|rewrite thr_set_thr, F2; reflexivity|right; reflexivity].
Qed.

Lemma MInv_run cf es : forall s, MInv s -> MInv (frun cf s es).
Proof. induction es as [|e es IH]; intros s H; [exact H|]. simpl. apply IH, MInv_step, H. Qed.

(** session_mutex: in every reachable state, two calls for the same height are never both inside their session
    (between the successful LoadOrStore and the Delete) — in particular never both inside the getter. *)
Theorem session_mutex cf count es t1 t2 h1 h2 ts1 ts2 :
  let s := frun cf (init count) es in
  mget t1 (s_thr s) = Some (h1, ts1) -> mget t2 (s_thr s) = Some (h2, ts2) ->
  inside ts1 -> inside ts2 -> hh h1 = hh h2 -> t1 = t2.
Proof. intros s. eapply (m_excl s). apply MInv_run, MInv_init. Qed.

(** * Stability of the pending coordinates (repaired code: draw persisted before the first request, every write flushed,
      a failed write dropped from the write buffer) *)

Definition repaired (cf : cfg) : Prop := c_persist_draw cf = true /\ c_flush cf = true /\ c_drop cf = true.

(** headers form a chain: square width and height are functions of the data root *)
Definition ev_chain (wf : N -> Z) (hf : N -> N) (e : fev) : Prop :=
  ev_wf wf e /\ match e with FCall _ h => hh h = hf (hr h) | _ => True end.

Record PInv (hf : N -> N) (s : state) : Prop := mkPInv {
  p_mutex : MInv s;
  p_buf : s_buf s = [];
  p_thr : forall t h ts, mget t (s_thr s) = Some (h, ts) ->
            hh h = hf (hr h) /\
            match ts with
            | TReq _ res => view s (hr h) = Some res
            | TStore _ res => view s (hr h) = None
            | _ => True
            end
}.

Lemma PInv_init hf count : PInv hf (init count).
Proof. constructor; [apply MInv_init|reflexivity|simpl; intros; discriminate]. Qed.

Lemma ds_put_buf cf s k v : c_flush cf = true -> s_buf (ds_put cf s k v) = [].
Proof. intros H. unfold ds_put. rewrite H. reflexivity. Qed.

Definition needs_view (ts : tstate) : bool := match ts with TReq _ _ | TStore _ _ => true | _ => false end.

(** a call moves on without writing: everybody else keeps its facts *)
Lemma PInv_update hf s s' t h ts ts' :
  PInv hf s -> MInv s' -> mget t (s_thr s) = Some (h, ts) ->
  s_buf s' = s_buf s -> s_disk s' = s_disk s -> s_thr s' = mset t (h, ts') (s_thr s) ->
  match ts' with TReq _ res => view s (hr h) = Some res | TStore _ res => view s (hr h) = None | _ => True end ->
  PInv hf s'.
Proof.
  intros [Pm Pb Pt] Hm Ht Eb Ed Et Hts.
  assert (Ev : forall k, view s' k = view s k) by (intros k; unfold view; rewrite Eb, Ed; reflexivity).
  constructor; [exact Hm|rewrite Eb; exact Pb|].
  intros t0 h0 ts0. rewrite Et, mget_mset. destruct (N.eqb_spec t0 t) as [->|Hn].
  - intros E. inversion E; subst. split; [apply (Pt _ _ _ Ht)|]. destruct ts0; auto; rewrite Ev; exact Hts.
  - intros E. destruct (Pt _ _ _ E) as [A B]. split; [exact A|]. destruct ts0; auto; rewrite Ev; exact B.
Qed.

(** a call inside its session writes the result of its root: nobody else looks at that root *)
Lemma PInv_write_gen hf s s1 t h ts ts' v :
  PInv hf s -> mget t (s_thr s) = Some (h, ts) -> inside ts ->
  (forall k, view s1 k = if N.eqb k (hr h) then Some v else view s k) -> s_buf s1 = [] -> s_thr s1 = s_thr s ->
  MInv (set_thr s1 t (h, ts')) ->
  match ts' with TReq _ res => res = v | TStore _ _ => False | _ => True end ->
  PInv hf (set_thr s1 t (h, ts')).
Proof.
  intros [Pm Pb Pt] Ht Hin Ev1 Eb1 Eth Hm Hts.
  assert (Ev : forall k, view (set_thr s1 t (h, ts')) k = if N.eqb k (hr h) then Some v else view s k) by (intros k; apply Ev1).
  constructor; [exact Hm|exact Eb1|].
  intros t0 h0 ts0. simpl. rewrite Eth, mget_mset. destruct (N.eqb_spec t0 t) as [->|Hn].
  - intros E. inversion E; subst. split; [apply (Pt _ _ _ Ht)|].
    destruct ts0; auto; rewrite Ev, N.eqb_refl; [contradiction|congruence].
  - intros E. destruct (Pt _ _ _ E) as [A B]. split; [exact A|].
    assert (Hk : needs_view ts0 = true -> hr h0 <> hr h).
    { intros Hnv Hr. apply Hn. eapply (m_excl s Pm); eauto.
      - unfold inside. destruct ts0; simpl in *; congruence.
      - rewrite A, Hr. symmetry. apply (Pt _ _ _ Ht). }
    destruct ts0; auto; rewrite Ev; (destruct (N.eqb_spec (hr h0) (hr h)) as [Hr|_]; [exfalso; apply Hk; [reflexivity|exact Hr]|exact B]).
Qed.

Lemma PInv_write hf cf s s0 t h ts ts' v :
  repaired cf -> PInv hf s -> mget t (s_thr s) = Some (h, ts) -> inside ts ->
  s_disk s0 = s_disk s -> s_buf s0 = s_buf s -> s_thr s0 = s_thr s -> s_sess s0 = s_sess s ->
  MInv (set_thr (ds_put cf s0 (hr h) v) t (h, ts')) ->
  match ts' with TReq _ res => res = v | TStore _ _ => False | _ => True end ->
  PInv hf (set_thr (ds_put cf s0 (hr h) v) t (h, ts')).
Proof.
  intros [Rp [Rf Rd]] Hp Ht Hin Ed Eb Eth Es Hm Hts.
  destruct (ds_put_fields cf s0 (hr h) v) as [_ [F2 _]].
  eapply PInv_write_gen; [exact Hp|exact Ht|exact Hin| | | |exact Hm|exact Hts].
  - intros k. rewrite view_ds_put. unfold view. rewrite Ed, Eb. reflexivity.
  - apply ds_put_buf, Rf.
  - rewrite F2. exact Eth.
Qed.

(** a failing write (fix-c03-3: nothing stays in the buffer): either nothing was written at all, or — only the second flush
    failed — everything was *)
Lemma PInv_write_fail hf cf s s0 t h ts v o e c :
  repaired cf -> PInv hf s -> mget t (s_thr s) = Some (h, ts) -> inside ts ->
  s_disk s0 = s_disk s -> s_buf s0 = s_buf s -> s_thr s0 = s_thr s -> s_sess s0 = s_sess s ->
  MInv (set_thr (ds_put_fail cf s0 (hr h) v o) t (h, TRel c (fault_verdict e))) ->
  PInv hf (set_thr (ds_put_fail cf s0 (hr h) v o) t (h, TRel c (fault_verdict e))).
Proof.
  intros [Rp [Rf Rd]] Hp Ht Hin Ed Eb Eth Es Hm.
  destruct (ds_put_fail_fields cf s0 (hr h) v o) as [_ [F2 _]].
  assert (Hsec : o = SfSecond \/ o <> SfSecond) by (destruct o; auto; right; discriminate).
  destruct Hsec as [->|Ho].
  - eapply PInv_write_gen; [exact Hp|exact Ht|exact Hin| | | |exact Hm|exact I].
    + intros k. rewrite view_ds_put_fail_second. unfold view. rewrite Ed, Eb. reflexivity.
    + apply ds_put_fail_drop_buf, Rd.
    + rewrite F2. exact Eth.
  - eapply PInv_update; [exact Hp|exact Hm|exact Ht| | | | ].
    + simpl. rewrite (ds_put_fail_drop_buf _ _ _ _ _ Rd). symmetry. apply (p_buf _ _ Hp).
    + simpl. rewrite (ds_put_fail_drop_disk _ _ _ _ _ Rd Ho). exact Ed.
    + simpl. rewrite F2, Eth. reflexivity.
    + exact I.
Qed.

Lemma PInv_step wf hf cf s e :
  repaired cf -> ev_chain wf hf e -> PInv hf s -> PInv hf (fstep cf s e).
Proof.
  intros Hr [_ He] Hp. pose proof (MInv_step cf s e (p_mutex _ _ Hp)) as Hm.
  pose proof Hr as [Rp [Rf Rd]]. destruct e; simpl in *.
  - destruct (mget t (s_thr s)) eqn:Et; [exact Hp|].
    destruct Hp as [Pm Pb Pt]. constructor; [exact Hm|exact Pb|].
    intros t0 h0 ts0. simpl. rewrite mget_mset. destruct (N.eqb_spec t0 t) as [->|Hn].
    + intros E. inversion E; subst. auto.
    + apply Pt.
  - destruct (mget t (s_thr s)) as [[h ts]|] eqn:Et; [|exact Hp].
    destruct ts; simpl in *.
    + destruct (hempty h); [|destruct (negb (hwin h))]; (eapply PInv_update; [exact Hp|exact Hm|exact Et|reflexivity..|exact I]).
    + destruct (mget (hh h) (s_sess s)); (eapply PInv_update; [exact Hp|exact Hm|exact Et|reflexivity..|exact I]).
    + destruct (nmem c (s_closed s)); [|exact Hp]. eapply PInv_update; [exact Hp|exact Hm|exact Et|reflexivity..|exact I].
    + destruct (view s (hr h)) as [res|] eqn:Ev.
      * destruct (total_ok _ _ _); (eapply PInv_update; [exact Hp|exact Hm|exact Et|reflexivity..|]); [|exact I].
        unfold after_load. destruct (r_rem res); [exact I|exact Ev].
      * destruct (draw _ _ _ _); [|exact Hp]. rewrite Rp in *.
        eapply PInv_update; [exact Hp|exact Hm|exact Et|reflexivity..|exact Ev].
    + eapply (PInv_write hf cf s s t h (TStore c res)); [exact Hr|exact Hp|exact Et|unfold inside; simpl; congruence|reflexivity..|exact Hm|].
      unfold after_load. destruct (r_rem res); auto.
    + exact Hp.
    + eapply PInv_update; [exact Hp|exact Hm|exact Et|reflexivity..|exact I].
    + eapply PInv_update; [exact Hp|exact Hm|exact Et|reflexivity..|exact I].
    + exact Hp.
  - destruct (mget t (s_thr s)) as [[h ts]|] eqn:Et; [|exact Hp]. destruct ts; try exact Hp.
    unfold step_resp in *. destruct (rs_slots r); [|destruct (Nat.ltb _ _)].
    + eapply PInv_update; [exact Hp|exact Hm|exact Et|reflexivity..|exact I].
    + eapply PInv_update; [exact Hp|exact Hm|exact Et|reflexivity..|exact I].
    + eapply (PInv_write hf cf s (add_served s _) t h (TReq c res)); [exact Hr|exact Hp|exact Et|unfold inside; simpl; congruence|reflexivity..|exact Hm|exact I].
  - destruct (mget t (s_thr s)) as [[h ts]|] eqn:Et; [|exact Hp]. destruct ts; try exact Hp.
    eapply PInv_update; [exact Hp|exact Hm|exact Et|reflexivity..|exact I].
  - constructor; [exact Hm|reflexivity|simpl; intros; discriminate].
  - constructor; [exact Hm|reflexivity|simpl; intros; discriminate].
  - destruct (mget t (s_thr s)) as [[h ts]|] eqn:Et; [|exact Hp]. destruct ts; try exact Hp.
    destruct (buffered s (hr h)); [exact Hp|].
    eapply PInv_update; [exact Hp|exact Hm|exact Et|reflexivity..|exact I].
  - destruct (mget t (s_thr s)) as [[h ts]|] eqn:Et; [|exact Hp]. destruct ts; try exact Hp.
    eapply (PInv_write_fail hf cf s s t h (TStore c res)); [exact Hr|exact Hp|exact Et|unfold inside; simpl; congruence|reflexivity..|exact Hm].
  - destruct (mget t (s_thr s)) as [[h ts]|] eqn:Et; [|exact Hp]. destruct ts; try exact Hp.
    unfold step_resp_fail in *. destruct (rs_slots r); [|destruct (Nat.ltb _ _)].
    + eapply PInv_update; [exact Hp|exact Hm|exact Et|reflexivity..|exact I].
    + eapply PInv_update; [exact Hp|exact Hm|exact Et|reflexivity..|exact I].
    + eapply (PInv_write_fail hf cf s (add_served s _) t h (TReq c res)); [exact Hr|exact Hp|exact Et|unfold inside; simpl; congruence|reflexivity..|exact Hm].
Qed.

Lemma PInv_run wf hf cf es : repaired cf -> forall s, Forall (ev_chain wf hf) es -> PInv hf s -> PInv hf (frun cf s es).
Proof.
  intros Hr. induction es as [|e es IH]; intros s Hf Hp; [exact Hp|].
  inversion Hf; subst. simpl. apply IH; [assumption|]. eapply PInv_step; eauto.
Qed.

(** requests_are_pending: whenever a call is inside the getter, the coordinates it asked for are exactly the persisted
    remaining coordinates of its root — same coordinates, same order (retries, concurrent calls, after a restart). *)
Theorem requests_are_pending wf hf cf count es t h c res :
  repaired cf -> Forall (ev_chain wf hf) es ->
  mget t (s_thr (frun cf (init count) es)) = Some (h, TReq c res) ->
  view (frun cf (init count) es) (hr h) = Some res /\ mget (hr h) (s_disk (frun cf (init count) es)) = Some res.
Proof.
  intros Hr Hf Ht. pose proof (PInv_run wf hf cf es Hr _ Hf (PInv_init hf count)) as Hp.
  destruct (p_thr _ _ Hp _ _ _ Ht) as [_ Hv]. split; [exact Hv|].
  unfold view in Hv. rewrite (p_buf _ _ Hp) in Hv. exact Hv.
Qed.

(** what one answer does to a stored result: the positional split of the remaining coordinates *)
Definition answered (res : result) (sl : list slot) : result :=
  mkres (r_avail res ++ fst (split_resp (r_rem res) sl)) (snd (split_resp (r_rem res) sl)).

(** pending_step: a persisted result never disappears and never changes — not by failed, empty, cancelled or over-long
    answers, not by calls for other roots, not by crash or restart — except through an answer to a request for exactly its
    remaining coordinates, which moves the coordinates at non-empty positions to [available] and keeps the others. *)
Lemma pending_step wf hf cf s e r res :
  repaired cf -> ev_chain wf hf e -> PInv hf s ->
  view s r = Some res ->
  view (fstep cf s e) r = Some res \/
  exists t resp h c, resp_of e = Some (t, resp) /\ mget t (s_thr s) = Some (h, TReq c res) /\ hr h = r /\
                     rs_slots resp <> [] /\ (length (rs_slots resp) <= length (r_rem res))%nat /\
                     view (fstep cf s e) r = Some (answered res (rs_slots resp)).
Proof.
  intros [Rp [Rf Rd]] He Hp Hv. pose proof (p_buf _ _ Hp) as Hb.
  destruct e; simpl.
  - left. destruct (mget t (s_thr s)); exact Hv.
  - destruct (mget t (s_thr s)) as [[h ts]|] eqn:Et; [|left; exact Hv].
    destruct ts; simpl; try (left; exact Hv).
    + left. destruct (hempty h); [|destruct (negb (hwin h))]; exact Hv.
    + left. destruct (mget (hh h) (s_sess s)); exact Hv.
    + left. destruct (nmem c (s_closed s)); exact Hv.
    + left. destruct (view s (hr h)); [destruct (total_ok _ _ _); exact Hv|].
      destruct (draw _ _ _ _); [destruct (c_persist_draw cf)|]; exact Hv.
    + left. destruct (p_thr _ _ Hp _ _ _ Et) as [_ Hn].
      change (view (ds_put cf s (hr h) res0) r = Some res). rewrite view_ds_put.
      destruct (N.eqb_spec r (hr h)) as [->|_]; [congruence|exact Hv].
  - destruct (mget t (s_thr s)) as [[h ts]|] eqn:Et; [|left; exact Hv].
    destruct ts; try (left; exact Hv).
    destruct (p_thr _ _ Hp _ _ _ Et) as [_ Hreq].
    unfold step_resp. destruct (rs_slots r0) as [|x sl'] eqn:Esl; [left; exact Hv|].
    destruct (Nat.ltb _ _) eqn:El; [left; exact Hv|].
    apply Nat.ltb_ge in El.
    rewrite view_set_thr, view_ds_put, view_add_served.
    destruct (N.eqb_spec r (hr h)) as [->|_]; [|left; exact Hv].
    right. exists t, r0, h, c. rewrite Hv in Hreq. inversion Hreq; subst res0.
    rewrite Esl. repeat split; auto. discriminate.
  - left. destruct (mget t (s_thr s)) as [[h ts]|]; [|exact Hv]. destruct ts; exact Hv.
  - left. unfold view in *. simpl. rewrite Hb in Hv. exact Hv.
  - left. unfold view in *. simpl. rewrite mget_mflush. rewrite Hb in *. exact Hv.
  - (* FLoadFail *) left. destruct (mget t (s_thr s)) as [[h ts]|]; [|exact Hv]. destruct ts; try exact Hv.
    destruct (buffered s (hr h)); exact Hv.
  - (* FStoreFail: the root of a call that still has to persist its draw has no result yet *)
    left. destruct (mget t (s_thr s)) as [[h ts]|] eqn:Et; [|exact Hv]. destruct ts; try exact Hv.
    destruct (p_thr _ _ Hp _ _ _ Et) as [_ Hn]. rewrite view_set_thr.
    assert (Hsec : o = SfSecond \/ o <> SfSecond) by (destruct o; auto; right; discriminate).
    destruct Hsec as [->|Ho].
    + rewrite view_ds_put_fail_second. destruct (N.eqb_spec r (hr h)) as [->|_]; [congruence|exact Hv].
    + rewrite view_ds_put_fail_nothing; auto.
  - (* FRespFail *) destruct (mget t (s_thr s)) as [[h ts]|] eqn:Et; [|left; exact Hv].
    destruct ts; try (left; exact Hv).
    destruct (p_thr _ _ Hp _ _ _ Et) as [_ Hreq].
    unfold step_resp_fail. destruct (rs_slots r0) as [|x sl'] eqn:Esl; [left; exact Hv|].
    destruct (Nat.ltb _ _) eqn:El; [left; exact Hv|].
    apply Nat.ltb_ge in El. rewrite view_set_thr.
    assert (Hsec : o = SfSecond \/ o <> SfSecond) by (destruct o; auto; right; discriminate).
    destruct Hsec as [->|Ho].
    + rewrite view_ds_put_fail_second, view_add_served.
      destruct (N.eqb_spec r (hr h)) as [->|_]; [|left; exact Hv].
      right. exists t, r0, h, c. rewrite Hv in Hreq. inversion Hreq; subst res0.
      rewrite Esl. repeat split; auto. discriminate.
    + left. rewrite view_ds_put_fail_nothing; auto.
Qed.

(** how a stored result may evolve *)
Definition evolves (res0 res : result) : Prop :=
  incl (r_rem res) (r_rem res0) /\ incl (r_avail res0) (r_avail res) /\
  (forall c, In c (r_avail res) -> In c (r_avail res0) \/ In c (r_rem res0)).

Lemma evolves_refl res : evolves res res.
Proof. repeat split; auto using incl_refl. Qed.

Lemma evolves_trans a b c : evolves a b -> evolves b c -> evolves a c.
Proof.
  intros [A1 [A2 A3]] [B1 [B2 B3]]. repeat split.
  - eapply incl_tran; eauto.
  - eapply incl_tran; eauto.
  - intros x Hx. destruct (B3 x Hx) as [H|H]; [apply A3, H|right; apply A1, H].
Qed.

Lemma evolves_answered res sl : evolves res (answered res sl).
Proof.
  unfold answered. repeat split; simpl.
  - intros c Hc. apply (split_resp_incl sl). right. exact Hc.
  - intros c Hc. apply in_or_app. left. exact Hc.
  - intros c Hc. apply in_app_or in Hc. destruct Hc as [Hc|Hc]; [left; exact Hc|right]. apply (split_resp_incl sl). left. exact Hc.
Qed.

(** a requested coordinate (position below the length of the answer) that is no longer pending after the answer was answered
    non-empty at its own position *)
Lemma answered_leaves res sl c :
  In c (firstn (length sl) (r_rem res)) -> ~ In c (r_rem (answered res sl)) ->
  exists i b, nth_error (r_rem res) i = Some c /\ nth_error sl i = Some (SFull b).
Proof.
  intros Hin Hout. apply split_resp_avail_pos. simpl in Hout.
  assert (Hp : In c (fst (split_resp (r_rem res) sl) ++ snd (split_resp (r_rem res) sl))).
  { eapply Permutation_in; [apply Permutation_sym, split_resp_perm|]. exact Hin. }
  apply in_app_or in Hp. tauto.
Qed.

(** and a coordinate that became available through the answer was answered non-empty at its own position *)
Lemma answered_arrives res sl c :
  In c (r_avail (answered res sl)) -> In c (r_avail res) \/
  exists i b, nth_error (r_rem res) i = Some c /\ nth_error sl i = Some (SFull b).
Proof.
  simpl. intros H. apply in_app_or in H. destruct H as [H|H]; [left; exact H|right]. apply split_resp_avail_pos, H.
Qed.

Fixpoint contract_run (cf : cfg) (s : state) (es : list fev) : Prop :=
  match es with
  | [] => True
  | e :: es' => answer_in_contract s e /\ contract_run cf (fstep cf s e) es'
  end.

(** pending_stable: from the moment a result for root [r] is persisted, at every later point of every history (retries,
    concurrent calls for the same and other heights, crash, restart) a result for [r] is persisted; its pending coordinates
    only shrink, its sampled coordinates only grow, both stay inside the original set; and when the getter keeps its
    contract the set available ∪ remaining is constant. *)
Theorem pending_stable wf hf cf count es1 es2 r res0 :
  repaired cf -> Forall (ev_chain wf hf) (es1 ++ es2) ->
  view (frun cf (init count) es1) r = Some res0 ->
  exists res, view (frun cf (init count) (es1 ++ es2)) r = Some res /\ evolves res0 res /\
              (contract_run cf (frun cf (init count) es1) es2 ->
               Permutation (r_avail res ++ r_rem res) (r_avail res0 ++ r_rem res0)).
Proof.
  intros Hr Hf. apply Forall_app in Hf. destruct Hf as [Hf1 Hf2].
  pose proof (PInv_run wf hf cf es1 Hr _ Hf1 (PInv_init hf count)) as Hp.
  rewrite frun_app. generalize dependent (frun cf (init count) es1). clear Hf1 es1.
  revert res0. induction es2 as [|e es IH]; intros res0 s Hp Hv.
  - exists res0. split; [exact Hv|]. split; [apply evolves_refl|]. intros _. apply Permutation_refl.
  - inversion Hf2 as [|? ? He Hes]; subst. simpl.
    pose proof (PInv_step wf hf cf s e Hr He Hp) as Hp'.
    destruct (pending_step wf hf cf s e r res0 Hr He Hp Hv) as [Hsame|[t [resp [h [c [Ee [Et [Ehr [Hne [Hle Hv']]]]]]]]]].
    + destruct (IH Hes res0 _ Hp' Hsame) as [res [A [B C]]]. exists res. split; [exact A|]. split; [exact B|]. intros [_ Hc]. apply C, Hc.
    + destruct (IH Hes _ _ Hp' Hv') as [res [A [B C]]]. exists res. split; [exact A|]. split.
      * eapply evolves_trans; [apply evolves_answered|exact B].
      * intros [Hc0 Hc]. eapply Permutation_trans; [apply C, Hc|].
        unfold answer_in_contract in Hc0. rewrite Ee in Hc0. destruct (Hc0 _ _ _ Et) as [Hz|Hl]; [destruct (rs_slots resp); [congruence|discriminate]|].
        unfold answered. simpl. rewrite <- app_assoc. apply Permutation_app_head.
        eapply Permutation_trans; [apply split_resp_perm|]. rewrite Hl, firstn_all. apply Permutation_refl.
Qed.

(** * Datastore faults: what a failed store can and cannot do (repaired code) *)

Definition is_store_fault (e : fev) : Prop :=
  match e with FStoreFail _ _ _ | FRespFail _ _ _ _ => True | _ => False end.

Lemma ev_chain_wf wf hf es : Forall (ev_chain wf hf) es -> Forall (ev_wf wf) es.
Proof. apply Forall_impl. intros e [H _]. exact H. Qed.

(** a root without a result keeps having none through a failed store, unless the failing call is the one that persists its
    own fresh draw and only the second flush failed (then exactly that draw is durable) *)
Lemma fresh_step_fault hf cf s e r :
  repaired cf -> PInv hf s -> is_store_fault e -> view s r = None ->
  view (fstep cf s e) r = None \/
  exists t o e0 h c res, e = FStoreFail t o e0 /\ mget t (s_thr s) = Some (h, TStore c res) /\ hr h = r /\
                         view (fstep cf s e) r = Some res.
Proof.
  intros [Rp [Rf Rd]] Hp Hf Hv. pose proof (p_buf _ _ Hp) as Hb.
  assert (Hsec : forall o, o = SfSecond \/ o <> SfSecond) by (intros o; destruct o; auto; right; discriminate).
  destruct e; try contradiction; simpl.
  - destruct (mget t (s_thr s)) as [[h ts]|] eqn:Et; [|left; exact Hv]. destruct ts; try (left; exact Hv).
    rewrite view_set_thr. destruct (Hsec o) as [->|Ho].
    + rewrite view_ds_put_fail_second. destruct (N.eqb_spec r (hr h)) as [->|_]; [|left; exact Hv].
      right. exists t, SfSecond, e, h, c, res. repeat split; auto.
    + left. rewrite view_ds_put_fail_nothing; auto.
  - left. destruct (mget t (s_thr s)) as [[h ts]|] eqn:Et; [|exact Hv]. destruct ts; try exact Hv.
    destruct (p_thr _ _ Hp _ _ _ Et) as [_ Hreq].
    unfold step_resp_fail. destruct (rs_slots r0); [exact Hv|]. destruct (Nat.ltb _ _); [exact Hv|].
    rewrite view_set_thr. destruct (Hsec o) as [->|Ho].
    + rewrite view_ds_put_fail_second, view_add_served. destruct (N.eqb_spec r (hr h)) as [->|_]; [congruence|exact Hv].
    + rewrite view_ds_put_fail_nothing; auto.
Qed.

(** store_fault_safe: one failed store ([FStoreFail]: the eager persist of a fresh draw; [FRespFail]: the persist after a
    getter answer), anywhere in any history. For every root:
    - a persisted result stays exactly as it is, or — the failing call had asked for exactly its remaining coordinates and
      only the second flush failed — becomes [answered] by that call's answer (coordinates move to "available" only through
      a non-empty slot at their own position, [answer_positional]); no coordinate is added to or removed from the set;
    - a root without a result gets none, or gets exactly the draw the failing call was about to persist. *)
Theorem store_fault_safe wf hf cf count es e r :
  repaired cf -> Forall (ev_chain wf hf) (es ++ [e]) -> is_store_fault e ->
  let s := frun cf (init count) es in
  match view s r with
  | Some res =>
    view (fstep cf s e) r = Some res \/
    exists t resp h c, resp_of e = Some (t, resp) /\ mget t (s_thr s) = Some (h, TReq c res) /\ hr h = r /\
                       rs_slots resp <> [] /\ (length (rs_slots resp) <= length (r_rem res))%nat /\
                       view (fstep cf s e) r = Some (answered res (rs_slots resp))
  | None =>
    view (fstep cf s e) r = None \/
    exists t o e0 h c res, e = FStoreFail t o e0 /\ mget t (s_thr s) = Some (h, TStore c res) /\ hr h = r /\
                           view (fstep cf s e) r = Some res
  end.
Proof.
  intros Hr Hf Hsf s. apply Forall_app in Hf. destruct Hf as [Hf He]. inversion He; subst.
  pose proof (PInv_run wf hf cf es Hr _ Hf (PInv_init hf count)) as Hp. fold s in Hp.
  destruct (view s r) as [res|] eqn:Ev.
  - eapply pending_step; eauto.
  - eapply fresh_step_fault; eauto.
Qed.

(** the call that hit the failing store returns that error — never "available" *)
Theorem store_fault_verdict cf s e t h c v :
  is_store_fault e -> mget t (s_thr (fstep cf s e)) = Some (h, TRel c v) -> mget t (s_thr s) <> Some (h, TRel c v) -> v <> VOk.
Proof.
  intros Hf H' Hne Ev. subst v. destruct e; try contradiction; simpl in H'.
  - destruct (mget t0 (s_thr s)) as [[h0 ts]|] eqn:E0; [|contradiction]. destruct ts; try contradiction.
    simpl in H'. rewrite mget_mset, (proj1 (proj2 (ds_put_fail_fields _ _ _ _ _))) in H'. destruct (N.eqb t t0); [|contradiction].
    inversion H'. eapply fault_verdict_not_ok; eauto.
  - destruct (mget t0 (s_thr s)) as [[h0 ts]|] eqn:E0; [|contradiction]. destruct ts; try contradiction.
    unfold step_resp_fail in H'.
    destruct (rs_slots r); [|destruct (Nat.ltb _ _)]; simpl in H'; rewrite mget_mset in H';
      rewrite ?(proj1 (proj2 (ds_put_fail_fields _ _ _ _ _))) in H'; simpl in H';
      (destruct (N.eqb t t0); [|contradiction]); inversion H'.
    eapply fault_verdict_not_ok; eauto.
Qed.

(** rerequest_exactly_pending: a result [res0] for root [r] is persisted (from the first draw on); ANY history follows —
    failed loads, failed stores, failed / partial / cancelled answers, concurrent calls, crash, restart. Whenever a call for
    [r] is then inside the getter, what it asked for ([r_rem res]) is durable, is a part of the pending coordinates of [res0],
    nothing that was sampled before got lost or added from outside the set, and — the getter keeping its contract — the set
    is the same and every coordinate of [res0]'s pending list that is NOT asked for again is recorded as sampled and was
    handed back non-empty by the getter for this root. *)
Theorem rerequest_exactly_pending wf hf cf count es1 es2 r res0 t h c res :
  repaired cf -> 0 <= count -> Forall (ev_chain wf hf) (es1 ++ es2) ->
  view (frun cf (init count) es1) r = Some res0 ->
  let s := frun cf (init count) (es1 ++ es2) in
  mget t (s_thr s) = Some (h, TReq c res) -> hr h = r ->
  mget r (s_disk s) = Some res /\ evolves res0 res /\
  (contract_run cf (frun cf (init count) es1) es2 ->
   Permutation (r_avail res ++ r_rem res) (r_avail res0 ++ r_rem res0) /\
   forall x, In x (r_rem res0) -> In x (r_rem res) \/ (In x (r_avail res) /\ exists b, In (r, x, b) (s_served s))).
Proof.
  intros Hr Hc Hf Hv s Ht Ehr.
  destruct (pending_stable wf hf cf count es1 es2 r res0 Hr Hf Hv) as [res' [A [B C]]]. fold s in A.
  destruct (requests_are_pending wf hf cf count (es1 ++ es2) t h c res Hr Hf Ht) as [V D]. fold s in V, D.
  rewrite Ehr in V, D. rewrite V in A. inversion A; subst res'.
  split; [exact D|]. split; [exact B|]. intros Hcr. specialize (C Hcr). split; [exact C|].
  intros x Hx.
  assert (Hin : In x (r_avail res ++ r_rem res)).
  { eapply Permutation_in; [apply Permutation_sym, C|]. apply in_or_app. right. exact Hx. }
  apply in_app_or in Hin. destruct Hin as [Hin|Hin]; [right|left; exact Hin].
  split; [exact Hin|].
  pose proof (SInv_run wf cf (es1 ++ es2) _ (ev_chain_wf _ _ _ Hf) (SInv_init wf count Hc)) as Hs. fold s in Hs.
  destruct (view_good _ _ _ _ Hs V) as [_ [_ G]]. apply G, Hin.
Qed.

(** * What the repairs repaired: the code before them loses pending coordinates *)

Definition hx : hdr := mkhdr 7 1 8 false true.

(** before fix-c03-3 ([keepbuf_cfg]): the eager persist of the first draw fails before the write buffer is emptied (Batch()
    of the datastore returns an I/O error): the call returns the error, but the draw stays in the write buffer, where the
    retry finds it and asks the getter for it (the coordinates are out, and they are NOT durable); the getter hands back
    nothing; the process dies without Close; the next call draws a different set. *)
Example pending_stable_keepbuf_refuted :
  exists es1 es2 h c1 c2 res1 res2,
    mget 2%N (s_thr (frun keepbuf_cfg (init 2) es1)) = Some (h, TReq c1 res1) /\
    mget (hr h) (s_disk (frun keepbuf_cfg (init 2) es1)) = None /\
    mget 3%N (s_thr (frun keepbuf_cfg (init 2) (es1 ++ es2))) = Some (h, TReq c2 res2) /\
    s_served (frun keepbuf_cfg (init 2) (es1 ++ es2)) = [] /\ r_rem res1 <> r_rem res2.
Proof.
  exists [FCall 1 hx; FStep 1 [] []; FStep 1 [] []; FStep 1 [1; 2; 3; 4] []; FStoreFail 1 SfEarly EOther; FStep 1 [] []; FStep 1 [] [];
          FCall 2 hx; FStep 2 [] []; FStep 2 [] []; FStep 2 [] []],
         [FResp 2 (mkresp [] EOther); FStep 2 [] []; FStep 2 [] []; FCrash 2;
          FCall 3 hx; FStep 3 [] []; FStep 3 [] []; FStep 3 [5; 6; 7; 0] []; FStep 3 [] []],
         hx, 1%N, 2%N, (mkres [] [(1, 2); (3, 4)]), (mkres [] [(5, 6); (7, 0)]).
  vm_compute. repeat split; discriminate.
Qed.

(** * What the earlier two repairs repaired: the code before them ([orig_cfg]) loses pending coordinates *)

(** partial answer, crash (no Close), fresh instance: the buffered result is gone, the retry draws new coordinates *)
Example pending_stable_original_crash_refuted :
  exists es1 es2 res0,
    view (frun orig_cfg (init 4) es1) 1%N = Some res0 /\ r_rem res0 <> [] /\
    view (frun orig_cfg (init 4) (es1 ++ es2)) 1%N = None.
Proof.
  exists [FCall 1 hx; FStep 1 [] []; FStep 1 [] []; FStep 1 [1; 2; 3; 4; 5; 6; 7; 0] []; FResp 1 (mkresp [F; E; F; E] EDeadline);
          FStep 1 [] []; FStep 1 [] []],
         [FCrash 4], (mkres [(1, 2); (5, 6)] [(3, 4); (7, 0)]).
  vm_compute. repeat split; discriminate.
Qed.

(** the getter hands back nothing: nothing was stored, the retry asks for different coordinates *)
Example pending_stable_original_empty_answer_refuted :
  exists es h c1 c2 res1 res2,
    mget 1%N (s_thr (frun orig_cfg (init 2) (firstn 4 es))) = Some (h, TReq c1 res1) /\
    mget 2%N (s_thr (frun orig_cfg (init 2) es)) = Some (h, TReq c2 res2) /\
    s_served (frun orig_cfg (init 2) es) = [] /\ r_rem res1 <> r_rem res2.
Proof.
  exists [FCall 1 hx; FStep 1 [] []; FStep 1 [] []; FStep 1 [1; 2; 3; 4] []; FResp 1 (mkresp [] EOther); FStep 1 [] []; FStep 1 [] [];
          FCall 2 hx; FStep 2 [] []; FStep 2 [] []; FStep 2 [5; 6; 7; 0] []],
         hx, 0%N, 1%N, (mkres [] [(1, 2); (3, 4)]), (mkres [] [(5, 6); (7, 0)]).
  vm_compute. repeat split; discriminate.
Qed.

(** the same two histories on the repaired code keep the coordinates *)
Example pending_stable_nonvacuous :
  let es1 := [FCall 1 hx; FStep 1 [] []; FStep 1 [] []; FStep 1 [1; 2; 3; 4; 5; 6; 7; 0] []; FStep 1 [] []; FResp 1 (mkresp [F; E; F; E] EDeadline);
              FStep 1 [] []; FStep 1 [] []] in
  let es2 := [FCrash 4; FCall 1 hx; FStep 1 [] []; FStep 1 [] []; FStep 1 [9; 9; 9; 9] []] in
  view (frun fixed_cfg (init 4) es1) 1%N = Some (mkres [(1, 2); (5, 6)] [(3, 4); (7, 0)]) /\
  mget 1%N (s_thr (frun fixed_cfg (init 4) (es1 ++ es2))) = Some (hx, TReq 1%N (mkres [(1, 2); (5, 6)] [(3, 4); (7, 0)])) /\
  Forall (ev_chain (fun _ => 8) (fun _ => 7%N)) (es1 ++ es2) /\ contract_run fixed_cfg (frun fixed_cfg (init 4) es1) es2.
Proof. vm_compute. repeat split; repeat constructor; intros; try discriminate; try (right; congruence). Qed.

(** a history with datastore faults on the repaired code: partial answer (2 of 4 pending); a retry whose load fails with a
    cancelled context (returns context.Canceled, nothing changes); a retry that is served everything but whose persist
    fails with an I/O error (returns the error; the two coordinates are NOT recorded as sampled); crash; the next call asks
    for exactly the two pending coordinates of the first draw *)
Definition es_faults1 : list fev :=
  [FCall 1 hx; FStep 1 [] []; FStep 1 [] []; FStep 1 [1; 2; 3; 4; 5; 6; 7; 0] []; FStep 1 [] []; FResp 1 (mkresp [F; E; F; E] EDeadline);
   FStep 1 [] []; FStep 1 [] []].
Definition es_faults2 : list fev :=
  [FCall 2 hx; FStep 2 [] []; FStep 2 [] []; FLoadFail 2 ECanceled; FStep 2 [] []; FStep 2 [] [];
   FCall 3 hx; FStep 3 [] []; FStep 3 [] []; FStep 3 [] []; FRespFail 3 (mkresp [F; F] ENone) SfEarly EOther; FStep 3 [] []; FStep 3 [] [];
   FCrash 4; FCall 4 hx; FStep 4 [] []; FStep 4 [] []; FStep 4 [9; 9; 9; 9] []].

Example pending_stable_faults_nonvacuous :
  let res0 := mkres [(1, 2); (5, 6)] [(3, 4); (7, 0)] in
  view (frun fixed_cfg (init 4) es_faults1) 1%N = Some res0 /\
  mget 2%N (s_thr (frun fixed_cfg (init 4) (es_faults1 ++ firstn 6 es_faults2))) = Some (hx, TDone VCanceled) /\
  mget 3%N (s_thr (frun fixed_cfg (init 4) (es_faults1 ++ firstn 13 es_faults2))) = Some (hx, TDone VErr) /\
  view (frun fixed_cfg (init 4) (es_faults1 ++ firstn 13 es_faults2)) 1%N = Some res0 /\
  mget 4%N (s_thr (frun fixed_cfg (init 4) (es_faults1 ++ es_faults2))) = Some (hx, TReq 3%N res0) /\
  repaired fixed_cfg /\
  Forall (ev_chain (fun _ => 8) (fun _ => 7%N)) (es_faults1 ++ es_faults2) /\
  contract_run fixed_cfg (frun fixed_cfg (init 4) es_faults1) es_faults2 /\
  is_store_fault (nth 10 es_faults2 (FCrash 0)).
Proof.
  vm_compute. repeat split; try discriminate; try (repeat constructor; intros; try discriminate; fail);
    intros ? ? ? Hx; inversion Hx; subst; right; reflexivity.
Qed.

(** * non-vacuity of the soundness and mutual-exclusion theorems *)
Definition es_first : list fev :=
  [FCall 1 hx; FStep 1 [] []; FStep 1 [] []; FStep 1 [1; 2; 3; 4; 5; 6; 7; 0] []; FStep 1 [] []].

Example avail_sound_nonvacuous :
  let s := frun fixed_cfg (init 4) es_first in
  let e := FResp 1 (mkresp [F; F; F; F] EOther) in
  Forall (ev_wf (fun _ => 8)) (es_first ++ [e]) /\ answer_in_contract s e /\
  mget 1%N (s_thr (fstep fixed_cfg s e)) = Some (hx, TRel 0%N VOk) /\ mget 1%N (s_thr s) <> Some (hx, TRel 0%N VOk) /\
  view (fstep fixed_cfg s e) 1%N = Some (mkres [(1, 2); (3, 4); (5, 6); (7, 0)] []).
Proof.
  vm_compute. split; [repeat constructor|]. split; [intros h c res E; inversion E; right; reflexivity|]. split; [reflexivity|]. split; [discriminate|reflexivity].
Qed.

(** without the Getter contract the statement is false: a SHORTER slice with only non-empty slots drops the coordinates
    beyond its length and the call succeeds with 2 of the 4 samples (no getter of the repository returns such a slice) *)
Example avail_sound_needs_contract :
  let s := frun fixed_cfg (init 4) es_first in
  let e := FResp 1 (mkresp [F; F] ENone) in
  mget 1%N (s_thr (fstep fixed_cfg s e)) = Some (hx, TRel 0%N VOk) /\
  view (fstep fixed_cfg s e) 1%N = Some (mkres [(1, 2); (3, 4)] []) /\ ~ answer_in_contract s e.
Proof.
  vm_compute. repeat split. intros H. destruct (H hx 0%N (mkres [] [(1, 2); (3, 4); (5, 6); (7, 0)]) eq_refl); discriminate.
Qed.

(** two calls for one height: the first is inside the getter, the second is parked on the first one's channel *)
Example session_mutex_nonvacuous :
  let s := frun fixed_cfg (init 4) (es_first ++ [FCall 2 hx; FStep 2 [] []; FStep 2 [] []; FStep 2 [] []]) in
  mget 1%N (s_thr s) = Some (hx, TReq 0%N (mkres [] [(1, 2); (3, 4); (5, 6); (7, 0)])) /\
  mget 2%N (s_thr s) = Some (hx, TWait 0%N) /\ mget 7%N (s_sess s) = Some 0%N.
Proof. vm_compute. repeat split. Qed.

Corollary pending_step_run wf hf cf count es e r res :
  repaired cf -> Forall (ev_chain wf hf) (es ++ [e]) ->
  let s := frun cf (init count) es in
  view s r = Some res ->
  view (fstep cf s e) r = Some res \/
  exists t resp h c, resp_of e = Some (t, resp) /\ mget t (s_thr s) = Some (h, TReq c res) /\ hr h = r /\
                     rs_slots resp <> [] /\ (length (rs_slots resp) <= length (r_rem res))%nat /\
                     view (fstep cf s e) r = Some (answered res (rs_slots resp)).
Proof.
  intros Hr Hf s Hv. apply Forall_app in Hf. destruct Hf as [Hf He]. inversion He; subst.
  eapply pending_step; eauto. eapply PInv_run; eauto. apply PInv_init.
Qed.

Corollary answer_positional res sl c :
  (In c (firstn (length sl) (r_rem res)) -> ~ In c (r_rem (answered res sl)) ->
     exists i b, nth_error (r_rem res) i = Some c /\ nth_error sl i = Some (SFull b)) /\
  (In c (r_avail (answered res sl)) -> In c (r_avail res) \/
     exists i b, nth_error (r_rem res) i = Some c /\ nth_error sl i = Some (SFull b)) /\
  (In c (r_rem (answered res sl)) -> exists i, nth_error (r_rem res) i = Some c /\ nth_error sl i = Some SEmpty).
Proof.
  split; [apply answered_leaves|]. split; [apply answered_arrives|]. apply split_resp_failed_pos.
Qed.

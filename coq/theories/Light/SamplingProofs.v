(** C03 — soundness of the availability verdict over every interleaved history (any code variant, any write-batch size):
    whatever is persisted, and whatever a running call holds, is a duplicate-free set of in-square coordinates whose
    "available" part was served non-empty, at its own position, for this very root. *)
From Coq Require Import List ZArith NArith Bool Lia Permutation.
From CN Require Import Light.Map Light.Sampling Light.DrawProofs.
Import ListNotations.
Open Scope Z_scope.
Opaque mset mdel mflush.

(** events are well-formed w.r.t. a chain: the square width is a function of the data root; sample amounts are unsigned *)
Definition ev_wf (wf : N -> Z) (e : fev) : Prop :=
  match e with
  | FCall _ h => hw h = wf (hr h)
  | FCrash n | FRestart n => 0 <= n
  | _ => True
  end.

Definition good (sv : list (N * coord * bool)) (w : Z) (r : N) (res : result) : Prop :=
  NoDup (r_avail res ++ r_rem res) /\ Forall (in_square w) (r_avail res ++ r_rem res) /\
  forall c, In c (r_avail res) -> exists b, In (r, c, b) sv.

Definition thr_ok (wf : N -> Z) (sv : list (N * coord * bool)) (cnt : Z) (h : hdr) (ts : tstate) : Prop :=
  hw h = wf (hr h) /\
  match ts with
  | TStore _ res | TReq _ res => good sv (wf (hr h)) (hr h) res /\ total_ok cnt (hw h) res = true
  | _ => True
  end.

Record SInv (wf : N -> Z) (s : state) : Prop := mkSInv {
  inv_count : 0 <= s_count s;
  inv_disk : forall r res, mget r (s_disk s) = Some res -> good (s_served s) (wf r) r res;
  inv_buf : forall r res, mget r (s_buf s) = Some res -> good (s_served s) (wf r) r res;
  inv_thr : forall t h ts, mget t (s_thr s) = Some (h, ts) -> thr_ok wf (s_served s) (s_count s) h ts
}.

Lemma good_mono sv sv' w r res : incl sv sv' -> good sv w r res -> good sv' w r res.
Proof.
  intros Hi [H1 [H2 H3]]. repeat split; auto. intros c Hc. destruct (H3 c Hc) as [b Hb]. exists b. apply Hi, Hb.
Qed.

Lemma thr_ok_mono wf sv sv' cnt h ts : incl sv sv' -> thr_ok wf sv cnt h ts -> thr_ok wf sv' cnt h ts.
Proof.
  intros Hi [H1 H2]. split; [exact H1|]. destruct ts; auto; destruct H2; split; auto; eapply good_mono; eauto.
Qed.

Lemma SInv_init wf count : 0 <= count -> SInv wf (init count).
Proof. intros H. constructor; simpl; [exact H| | |]; intros; discriminate. Qed.

Lemma SInv_same wf s s' :
  s_count s' = s_count s -> s_disk s' = s_disk s -> s_buf s' = s_buf s -> s_thr s' = s_thr s -> s_served s' = s_served s ->
  SInv wf s -> SInv wf s'.
Proof. intros E1 E2 E3 E4 E5 [H1 H2 H3 H4]. constructor; rewrite ?E1, ?E2, ?E3, ?E4, ?E5; auto. Qed.

Lemma SInv_set_thr wf s t h ts :
  SInv wf s -> thr_ok wf (s_served s) (s_count s) h ts -> SInv wf (set_thr s t (h, ts)).
Proof.
  intros [H1 H2 H3 H4] Hok. constructor; simpl; auto.
  intros t' h' ts'. rewrite mget_mset. destruct (N.eqb t' t); [intros E; inversion E; subst; exact Hok|apply H4].
Qed.

Lemma SInv_flush wf s : SInv wf s -> SInv wf (ds_flush s).
Proof.
  intros [H1 H2 H3 H4]. constructor; simpl; auto; [|intros; discriminate].
  intros r res. rewrite mget_mflush. destruct (mget r (s_buf s)) eqn:E; [intros E'; inversion E'; subst; eauto|apply H2].
Qed.

Lemma SInv_ds_put wf cf s k v :
  SInv wf s -> good (s_served s) (wf k) k v -> SInv wf (ds_put cf s k v).
Proof.
  intros Hs Hg. unfold ds_put.
  assert (H1 : SInv wf (set_store s (s_disk s) (mset k v (s_buf s)))).
  { destruct Hs as [H1 H2 H3 H4]. constructor; simpl; auto.
    intros r res. rewrite mget_mset. destruct (N.eqb_spec r k); [intros E; inversion E; subst; exact Hg|apply H3]. }
  set (s1 := set_store s (s_disk s) (mset k v (s_buf s))) in *.
  assert (H2 : SInv wf (if (c_batch cf <? length (s_buf s1))%nat then ds_flush s1 else s1)).
  { destruct (Nat.ltb _ _); [apply SInv_flush|]; exact H1. }
  destruct (c_flush cf); [apply SInv_flush|]; exact H2.
Qed.

(** ds_put touches nothing but the two stores *)
Lemma ds_put_fields cf s k v :
  s_count (ds_put cf s k v) = s_count s /\ s_thr (ds_put cf s k v) = s_thr s /\ s_served (ds_put cf s k v) = s_served s /\
  s_sess (ds_put cf s k v) = s_sess s /\ s_closed (ds_put cf s k v) = s_closed s /\ s_next (ds_put cf s k v) = s_next s.
Proof.
  unfold ds_put. destruct (c_flush cf); destruct (Nat.ltb _ _); simpl; auto 10.
Qed.

Lemma view_ds_put cf s k v r : view (ds_put cf s k v) r = if N.eqb r k then Some v else view s r.
Proof.
  unfold ds_put, view.
  destruct (c_flush cf); destruct (Nat.ltb _ _); simpl; rewrite ?mget_mflush; simpl; rewrite ?mget_mflush; simpl;
    rewrite ?mget_mset; destruct (N.eqb r k); reflexivity.
Qed.

(** a failing write: still nothing but the two stores; whatever it leaves behind was good before or is the new (good) entry *)
Lemma ds_put_fail_fields cf s k v o :
  s_count (ds_put_fail cf s k v o) = s_count s /\ s_thr (ds_put_fail cf s k v o) = s_thr s /\
  s_served (ds_put_fail cf s k v o) = s_served s /\ s_sess (ds_put_fail cf s k v o) = s_sess s /\
  s_closed (ds_put_fail cf s k v o) = s_closed s /\ s_next (ds_put_fail cf s k v o) = s_next s.
Proof.
  unfold ds_put_fail. destruct (c_drop cf); destruct o; simpl; auto 10.
Qed.

Lemma SInv_drop_buf wf s : SInv wf s -> SInv wf (set_store s (s_disk s) []).
Proof. intros [H1 H2 H3 H4]. constructor; simpl; auto. intros; discriminate. Qed.

Lemma SInv_ds_put_fail wf cf s k v o :
  SInv wf s -> good (s_served s) (wf k) k v -> SInv wf (ds_put_fail cf s k v o).
Proof.
  intros Hs Hg. unfold ds_put_fail.
  assert (H1 : SInv wf (set_store s (s_disk s) (mset k v (s_buf s)))).
  { destruct Hs as [H1 H2 H3 H4]. constructor; simpl; auto.
    intros r res. rewrite mget_mset. destruct (N.eqb_spec r k); [intros E; inversion E; subst; exact Hg|apply H3]. }
  set (s1 := set_store s (s_disk s) (mset k v (s_buf s))) in *.
  assert (H2 : SInv wf (match o with SfEarly => s1 | SfCommit => set_store s1 (s_disk s1) [] | SfSecond => ds_flush s1 end)).
  { destruct o; [exact H1|apply SInv_drop_buf, H1|apply SInv_flush, H1]. }
  destruct (c_drop cf); [apply SInv_drop_buf|]; exact H2.
Qed.

(** fix-c03-3: after a failed write the buffer is empty; the entry is durable exactly when only the second flush failed *)
Lemma ds_put_fail_drop_buf cf s k v o : c_drop cf = true -> s_buf (ds_put_fail cf s k v o) = [].
Proof. intros H. unfold ds_put_fail. rewrite H. reflexivity. Qed.

Lemma ds_put_fail_drop_disk cf s k v o :
  c_drop cf = true -> o <> SfSecond -> s_disk (ds_put_fail cf s k v o) = s_disk s.
Proof. intros H Ho. unfold ds_put_fail. rewrite H. destruct o; try reflexivity. congruence. Qed.

Lemma view_ds_put_fail_second cf s k v r :
  view (ds_put_fail cf s k v SfSecond) r = if N.eqb r k then Some v else view s r.
Proof.
  unfold ds_put_fail, view. destruct (c_drop cf); simpl; rewrite mget_mflush, mget_mset; destruct (N.eqb r k); reflexivity.
Qed.

Lemma view_ds_put_fail_nothing cf s k v o r :
  c_drop cf = true -> o <> SfSecond -> s_buf s = [] -> view (ds_put_fail cf s k v o) r = view s r.
Proof.
  intros Hd Ho Hb. unfold view. rewrite (ds_put_fail_drop_buf _ _ _ _ _ Hd), (ds_put_fail_drop_disk _ _ _ _ _ Hd Ho), Hb. reflexivity.
Qed.

Lemma fault_verdict_not_ok e : fault_verdict e <> VOk.
Proof. destruct e; discriminate. Qed.

Lemma SInv_add_served wf s l : SInv wf s -> SInv wf (add_served s l).
Proof.
  intros [H1 H2 H3 H4]. assert (Hi : incl (s_served s) (l ++ s_served s)) by (intros x Hx; apply in_or_app; auto).
  constructor; simpl; auto; intros.
  - eapply good_mono; eauto.
  - eapply good_mono; eauto.
  - eapply thr_ok_mono; eauto.
Qed.

Lemma thr_ok_after_load wf sv cnt h c res :
  hw h = wf (hr h) -> good sv (wf (hr h)) (hr h) res -> total_ok cnt (hw h) res = true -> thr_ok wf sv cnt h (after_load c res).
Proof. intros H1 H2 H3. split; [exact H1|]. unfold after_load. destruct (r_rem res); simpl; auto. Qed.

Lemma view_good wf s r res : SInv wf s -> view s r = Some res -> good (s_served s) (wf r) r res.
Proof.
  intros [H1 H2 H3 H4]. unfold view. destruct (mget r (s_buf s)) eqn:E; [intros E'; inversion E'; subst; eauto|apply H2].
Qed.

Lemma fresh_good sv w r cs : NoDup cs -> Forall (in_square w) cs -> good sv w r (mkres [] cs).
Proof. intros H1 H2. repeat split; simpl; auto. tauto. Qed.

Lemma fresh_total_ok count w cs : 0 <= count -> Z.of_nat (length cs) = Z.min count (w * w) -> total_ok count w (mkres [] cs) = true.
Proof.
  intros Hc H. unfold total_ok. simpl. rewrite Nat.add_0_r. apply orb_true_iff. rewrite !Z.eqb_eq. lia.
Qed.

(** the result written after an answer is good again *)
Lemma resp_good sv w r res sl :
  good sv w r res ->
  good (served_of r (r_rem res) sl ++ sv) w r
       (mkres (r_avail res ++ fst (split_resp (r_rem res) sl)) (snd (split_resp (r_rem res) sl))).
Proof.
  intros [Hnd [Hsq Hsv]]. unfold good. simpl.
  pose proof (split_resp_perm sl (r_rem res)) as Hp.
  set (a := fst (split_resp (r_rem res) sl)) in *. set (f := snd (split_resp (r_rem res) sl)) in *.
  assert (Hin : forall c, In c (a ++ f) -> In c (r_rem res)).
  { intros c Hc. apply (split_resp_incl sl). apply in_app_or in Hc. exact Hc. }
  repeat split.
  - rewrite <- app_assoc. apply NoDup_app_iff in Hnd. destruct Hnd as [N1 [N2 N3]]. apply NoDup_app_iff. repeat split.
    + exact N1.
    + eapply Permutation_NoDup; [apply Permutation_sym, Hp|]. apply NoDup_firstn, N2.
    + intros x Hx Hx'. exact (N3 x Hx (Hin x Hx')).
  - rewrite <- app_assoc. rewrite Forall_forall in *. intros x Hx. apply Hsq. apply in_app_or in Hx. apply in_or_app.
    destruct Hx as [Hx|Hx]; [left; exact Hx|right; apply Hin, Hx].
  - intros c Hc. apply in_app_or in Hc. destruct Hc as [Hc|Hc].
    + destruct (Hsv c Hc) as [b Hb]. exists b. apply in_or_app. right. exact Hb.
    + destruct (served_of_avail sl (r_rem res) r c Hc) as [b Hb]. exists b. apply in_or_app. left. exact Hb.
Qed.

Lemma SInv_step_thread wf cf s t h ts bs order :
  SInv wf s -> mget t (s_thr s) = Some (h, ts) -> SInv wf (step_thread cf s t h ts bs order).
Proof.
  intros Hs Ht. pose proof (inv_thr _ _ Hs _ _ _ Ht) as [Hw Hts].
  assert (Htriv : forall ts', match ts' with TStore _ _ | TReq _ _ => False | _ => True end ->
                              thr_ok wf (s_served s) (s_count s) h ts').
  { intros ts' H. split; [exact Hw|]. destruct ts'; auto; contradiction. }
  destruct ts; simpl.
  - (* TInit *) destruct (hempty h); [|destruct (negb (hwin h))]; (apply SInv_set_thr; [exact Hs|apply Htriv; exact I]).
  - (* TAcq *) destruct (mget (hh h) (s_sess s)).
    + apply SInv_set_thr; [exact Hs|apply Htriv; exact I].
    + apply SInv_set_thr; [eapply SInv_same; [..|exact Hs]; reflexivity|apply Htriv; exact I].
  - (* TWait *) destruct (nmem c (s_closed s)); [apply SInv_set_thr; [exact Hs|apply Htriv; exact I]|exact Hs].
  - (* TLoad *) destruct (view s (hr h)) as [res|] eqn:Ev.
    + destruct (total_ok (s_count s) (hw h) res) eqn:Et.
      * apply SInv_set_thr; [exact Hs|]. apply thr_ok_after_load; auto. eapply view_good; eauto.
      * apply SInv_set_thr; [exact Hs|apply Htriv; exact I].
    + destruct (draw (hw h) (s_count s) bs order) as [cs|] eqn:Ed; [|exact Hs].
      apply draw_ok in Ed; [|apply (inv_count _ _ Hs)]. destruct Ed as [D1 [D2 D3]].
      assert (Hg : good (s_served s) (wf (hr h)) (hr h) (mkres [] cs)) by (apply fresh_good; [exact D1|rewrite <- Hw; exact D2]).
      assert (Hto : total_ok (s_count s) (hw h) (mkres [] cs) = true) by (apply fresh_total_ok; [apply (inv_count _ _ Hs)|exact D3]).
      destruct (c_persist_draw cf); (apply SInv_set_thr; [exact Hs|]).
      * split; [exact Hw|]. split; assumption.
      * apply thr_ok_after_load; auto.
  - (* TStore *) destruct Hts as [Hg Hto].
    destruct (ds_put_fields cf s (hr h) res) as [E1 [E2 [E3 _]]].
    apply SInv_set_thr; [apply SInv_ds_put; auto|]. rewrite E1, E3. apply thr_ok_after_load; auto.
  - (* TReq *) exact Hs.
  - (* TRel *) apply SInv_set_thr; [eapply SInv_same; [..|exact Hs]; reflexivity|apply Htriv; exact I].
  - (* TDel *) apply SInv_set_thr; [eapply SInv_same; [..|exact Hs]; reflexivity|apply Htriv; exact I].
  - (* TDone *) exact Hs.
Qed.

Lemma SInv_step_resp wf cf s t h c res r :
  SInv wf s -> mget t (s_thr s) = Some (h, TReq c res) -> SInv wf (step_resp cf s t h c res r).
Proof.
  intros Hs Ht. pose proof (inv_thr _ _ Hs _ _ _ Ht) as [Hw [Hg Hto]].
  unfold step_resp. destruct (rs_slots r) as [|x sl'] eqn:Esl.
  - apply SInv_set_thr; [exact Hs|split; [exact Hw|exact I]].
  - destruct (Nat.ltb _ _).
    + apply SInv_set_thr; [exact Hs|split; [exact Hw|exact I]].
    + set (sl := x :: sl') in *.
      set (res' := mkres (r_avail res ++ fst (split_resp (r_rem res) sl)) (snd (split_resp (r_rem res) sl))).
      pose proof (resp_good (s_served s) (wf (hr h)) (hr h) res sl Hg) as Hg'. fold res' in Hg'.
      apply SInv_set_thr; [|split; [exact Hw|exact I]].
      apply SInv_ds_put; [apply SInv_add_served, Hs|exact Hg'].
Qed.

Lemma SInv_step_resp_fail wf cf s t h c res r o e :
  SInv wf s -> mget t (s_thr s) = Some (h, TReq c res) -> SInv wf (step_resp_fail cf s t h c res r o e).
Proof.
  intros Hs Ht. pose proof (inv_thr _ _ Hs _ _ _ Ht) as [Hw [Hg Hto]].
  unfold step_resp_fail. destruct (rs_slots r) as [|x sl'] eqn:Esl.
  - apply SInv_set_thr; [exact Hs|split; [exact Hw|exact I]].
  - destruct (Nat.ltb _ _).
    + apply SInv_set_thr; [exact Hs|split; [exact Hw|exact I]].
    + set (sl := x :: sl') in *.
      set (res' := mkres (r_avail res ++ fst (split_resp (r_rem res) sl)) (snd (split_resp (r_rem res) sl))).
      pose proof (resp_good (s_served s) (wf (hr h)) (hr h) res sl Hg) as Hg'. fold res' in Hg'.
      apply SInv_set_thr; [|split; [exact Hw|exact I]].
      apply SInv_ds_put_fail; [apply SInv_add_served, Hs|exact Hg'].
Qed.

Lemma SInv_step wf cf s e : ev_wf wf e -> SInv wf s -> SInv wf (fstep cf s e).
Proof.
  intros He Hs. destruct e; simpl in *.
  - destruct (mget t (s_thr s)); [exact Hs|]. apply SInv_set_thr; [exact Hs|split; [exact He|exact I]].
  - destruct (mget t (s_thr s)) as [[h ts]|] eqn:Et; [|exact Hs]. apply SInv_step_thread; auto.
  - destruct (mget t (s_thr s)) as [[h ts]|] eqn:Et; [|exact Hs]. destruct ts; try exact Hs. apply SInv_step_resp; auto.
  - destruct (mget t (s_thr s)) as [[h ts]|] eqn:Et; [|exact Hs]. destruct ts; try exact Hs.
    pose proof (inv_thr _ _ Hs _ _ _ Et) as [Hw _]. apply SInv_set_thr; [exact Hs|split; [exact Hw|exact I]].
  - destruct Hs as [H1 H2 H3 H4]. constructor; simpl; auto; intros; discriminate.
  - apply SInv_flush in Hs. destruct Hs as [H1 H2 H3 H4]. constructor; simpl; auto; intros; discriminate.
  - (* FLoadFail *) destruct (mget t (s_thr s)) as [[h ts]|] eqn:Et; [|exact Hs]. destruct ts; try exact Hs.
    destruct (buffered s (hr h)); [exact Hs|].
    pose proof (inv_thr _ _ Hs _ _ _ Et) as [Hw _]. apply SInv_set_thr; [exact Hs|split; [exact Hw|exact I]].
  - (* FStoreFail *) destruct (mget t (s_thr s)) as [[h ts]|] eqn:Et; [|exact Hs]. destruct ts; try exact Hs.
    pose proof (inv_thr _ _ Hs _ _ _ Et) as [Hw [Hg Hto]].
    apply SInv_set_thr; [apply SInv_ds_put_fail; auto|split; [exact Hw|exact I]].
  - (* FRespFail *) destruct (mget t (s_thr s)) as [[h ts]|] eqn:Et; [|exact Hs]. destruct ts; try exact Hs.
    apply SInv_step_resp_fail; auto.
Qed.

Lemma frun_app cf s es es' : frun cf s (es ++ es') = frun cf (frun cf s es) es'.
Proof. unfold frun. apply fold_left_app. Qed.

Lemma frun_snoc cf s es e : frun cf s (es ++ [e]) = fstep cf (frun cf s es) e.
Proof. rewrite frun_app. reflexivity. Qed.

Lemma SInv_run wf cf es : forall s, Forall (ev_wf wf) es -> SInv wf s -> SInv wf (frun cf s es).
Proof.
  induction es as [|e es IH]; intros s Hf Hs; [exact Hs|].
  inversion Hf; subst. simpl. apply IH; [assumption|]. apply SInv_step; assumption.
Qed.

(** * avail_sound *)

(** the getter kept the contract of shwap.Getter for the answer [e] (same length as the request, or nothing at all) *)
(** the getter answer an event carries (whether or not the persist after it fails) *)
Definition resp_of (e : fev) : option (N * response) :=
  match e with FResp t r | FRespFail t r _ _ => Some (t, r) | _ => None end.

Definition answer_in_contract (s : state) (e : fev) : Prop :=
  match resp_of e with
  | Some (t, r) => forall h c res, mget t (s_thr s) = Some (h, TReq c res) ->
                   length (rs_slots r) = 0%nat \/ length (rs_slots r) = length (r_rem res)
  | None => True
  end.

Definition sampled_set (s : state) (h : hdr) (av : list coord) : Prop :=
  NoDup av /\ Forall (in_square (hw h)) av /\
  Z.of_nat (length av) >= Z.min (s_count s) (hw h * hw h) /\
  forall c, In c av -> exists b, In (hr h, c, b) (s_served s).

Lemma total_ok_complete cnt w res :
  total_ok cnt w res = true -> r_rem res = [] -> Z.of_nat (length (r_avail res)) >= Z.min cnt (w * w).
Proof.
  unfold total_ok. intros H E. rewrite E in H. simpl in H. apply orb_true_iff in H. rewrite !Z.eqb_eq in H. lia.
Qed.

Lemma good_complete sv w r res : good sv w r res -> r_rem res = [] ->
  NoDup (r_avail res) /\ Forall (in_square w) (r_avail res) /\ forall c, In c (r_avail res) -> exists b, In (r, c, b) sv.
Proof. intros [H1 [H2 H3]] E. rewrite E, app_nil_r in *. auto. Qed.

Lemma after_load_ok c res c' : after_load c res = TRel c' VOk -> r_rem res = [].
Proof. unfold after_load. destruct (r_rem res); [reflexivity|discriminate]. Qed.

(** At the step at which a call's verdict becomes "available" (it is about to close its session with nil), the result it
    judged on is complete, duplicate-free, inside the square, at least min(count, area) large, and every coordinate of it
    was handed back non-empty by the getter, at its own position, in some answer for this root (log [s_served], see
    [served_genuine]); with the repaired code that result is also what the datastore holds. *)
Lemma avail_sound_step wf cf s e t h c :
  SInv wf s -> ev_wf wf e -> answer_in_contract s e ->
  mget t (s_thr (fstep cf s e)) = Some (h, TRel c VOk) -> mget t (s_thr s) <> Some (h, TRel c VOk) ->
  exists av, sampled_set (fstep cf s e) h av /\
             (c_persist_draw cf = true -> view (fstep cf s e) (hr h) = Some (mkres av [])).
Proof.
  intros Hs He Hc H' Hne.
  destruct e; simpl in *.
  - (* FCall *) destruct (mget t0 (s_thr s)) eqn:E0; [contradiction|]. simpl in H'. rewrite mget_mset in H'.
    destruct (N.eqb t t0); [discriminate|contradiction].
  - (* FStep *) destruct (mget t0 (s_thr s)) as [[h0 ts]|] eqn:E0; [|contradiction].
    destruct (N.eqb_spec t t0) as [->|Hn].
    2:{ exfalso. apply Hne. rewrite <- H'. clear - Hn.
        destruct ts; simpl; repeat (match goal with |- context [if ?b then _ else _] => destruct b | |- context [match ?x with _ => _ end] => destruct x end; simpl);
          rewrite ?mget_mset; try (destruct (N.eqb_spec t t0); [contradiction|]); try reflexivity;
          rewrite ?(proj1 (proj2 (ds_put_fields _ _ _ _))); reflexivity. }
    pose proof (inv_thr _ _ Hs _ _ _ E0) as [Hw Hts].
    destruct ts; simpl in H' |- *.
    + destruct (hempty h0); [|destruct (negb (hwin h0))]; simpl in H'; rewrite mget_mset_eq in H'; discriminate.
    + destruct (mget (hh h0) (s_sess s)); simpl in H'; rewrite mget_mset_eq in H'; discriminate.
    + destruct (nmem c0 (s_closed s)); [simpl in H'; rewrite mget_mset_eq in H'; discriminate|rewrite E0 in H'; inversion H'].
    + (* TLoad *) destruct (view s (hr h0)) as [res|] eqn:Ev.
      * destruct (total_ok (s_count s) (hw h0) res) eqn:Et; simpl in H' |- *; rewrite mget_mset_eq in H'; [|discriminate].
        inversion H' as [[Eh Ea]]. subst h0. apply after_load_ok in Ea.
        pose proof (view_good _ _ _ _ Hs Ev) as Hg. destruct (good_complete _ _ _ _ Hg Ea) as [G1 [G2 G3]].
        exists (r_avail res). split.
        -- repeat split; simpl; auto; [rewrite Hw; exact G2|]. eapply total_ok_complete; eauto.
        -- intros _. unfold view in *. simpl. rewrite Ev. destruct res; simpl in *; subst; reflexivity.
      * destruct (draw (hw h0) (s_count s) bs order) as [cs|] eqn:Ed; [|rewrite E0 in H'; inversion H'].
        destruct (c_persist_draw cf) eqn:Ep; simpl in H' |- *; rewrite mget_mset_eq in H'; [discriminate|].
        inversion H' as [[Eh Ea]]. subst h0. apply after_load_ok in Ea. simpl in Ea. subst cs.
        exists []. split; [|discriminate].
        apply draw_ok in Ed; [|apply (inv_count _ _ Hs)]. destruct Ed as [_ [_ D3]]. simpl in D3.
        repeat split; simpl; [constructor|constructor|lia|tauto].
    + (* TStore *) destruct Hts as [Hg Hto]. simpl in H'. rewrite mget_mset_eq in H'. inversion H' as [[Eh Ea]]. subst h0.
      apply after_load_ok in Ea. destruct (good_complete _ _ _ _ Hg Ea) as [G1 [G2 G3]].
      destruct (ds_put_fields cf s (hr h) res) as [F1 [F2 [F3 _]]].
      exists (r_avail res). split.
      * repeat split; simpl; rewrite ?F1, ?F3; auto; [rewrite Hw; exact G2|]. eapply total_ok_complete; eauto.
      * intros _. unfold view. simpl. change (view (ds_put cf s (hr h) res) (hr h) = Some (mkres (r_avail res) [])).
        rewrite view_ds_put, N.eqb_refl. destruct res; simpl in *; subst; reflexivity.
    + rewrite E0 in H'. inversion H'.
    + simpl in H'. rewrite mget_mset_eq in H'. discriminate.
    + simpl in H'. rewrite mget_mset_eq in H'. discriminate.
    + rewrite E0 in H'. inversion H'.
  - (* FResp *) destruct (mget t0 (s_thr s)) as [[h0 ts]|] eqn:E0; [|contradiction].
    destruct ts; try contradiction.
    destruct (N.eqb_spec t t0) as [->|Hn].
    2:{ exfalso. apply Hne. rewrite <- H'. unfold step_resp.
        destruct (rs_slots r); [|destruct (Nat.ltb _ _)]; simpl; rewrite mget_mset_ne; auto.
        rewrite (proj1 (proj2 (ds_put_fields _ _ _ _))). reflexivity. }
    pose proof (inv_thr _ _ Hs _ _ _ E0) as [Hw [Hg Hto]].
    unfold answer_in_contract in Hc. simpl in Hc. specialize (Hc _ _ _ E0).
    unfold step_resp in *. destruct (rs_slots r) as [|x sl'] eqn:Esl.
    + simpl in H'. rewrite mget_mset_eq in H'. discriminate.
    + remember (x :: sl') as sl eqn:Hsl.
      destruct (Nat.ltb _ _) eqn:El; [simpl in H'; rewrite mget_mset_eq in H'; discriminate|].
      simpl in H'. rewrite mget_mset_eq in H'. inversion H' as [[Eh Ec Ev]]. subst h0.
      destruct (is_canceled (rs_err r)); [discriminate|].
      destruct (snd (split_resp (r_rem res) sl)) as [|? ?] eqn:Ef; [|discriminate].
      destruct Hc as [Hc|Hc]; [rewrite Hsl in Hc; discriminate|].
      pose proof (resp_good (s_served s) (wf (hr h)) (hr h) res sl Hg) as Hg'. rewrite Ef in Hg'.
      destruct (good_complete _ _ _ _ Hg' eq_refl) as [G1 [G2 G3]]. simpl in G1, G2, G3.
      pose proof (split_resp_length sl (r_rem res)) as Hlen. rewrite Ef in Hlen. simpl in Hlen.
      set (res' := mkres (r_avail res ++ fst (split_resp (r_rem res) sl)) []).
      destruct (ds_put_fields cf (add_served s (served_of (hr h) (r_rem res) sl)) (hr h) res') as [F1 [F2 [F3 _]]].
      exists (r_avail res ++ fst (split_resp (r_rem res) sl)). split.
      * repeat split; simpl; rewrite ?F1, ?F3; simpl; auto; [rewrite Hw; exact G2|].
        unfold total_ok in Hto. apply orb_true_iff in Hto. rewrite !Z.eqb_eq in Hto. rewrite app_length. lia.
      * intros _. change (view (ds_put cf (add_served s (served_of (hr h) (r_rem res) sl)) (hr h) res') (hr h) = Some res').
        rewrite view_ds_put, N.eqb_refl. reflexivity.
  - (* FAbort *) destruct (mget t0 (s_thr s)) as [[h0 ts]|] eqn:E0; [|contradiction].
    destruct ts; try contradiction. simpl in H'. rewrite mget_mset in H'.
    destruct (N.eqb t t0); [discriminate|contradiction].
  - discriminate.
  - discriminate.
  - (* FLoadFail: the verdict is an error *) destruct (mget t0 (s_thr s)) as [[h0 ts]|] eqn:E0; [|contradiction].
    destruct ts; try contradiction. destruct (buffered s (hr h0)); [contradiction|].
    simpl in H'. rewrite mget_mset in H'. destruct (N.eqb t t0); [|contradiction].
    inversion H' as [[Eh Ec Ev]]. exfalso. eapply fault_verdict_not_ok; eauto.
  - (* FStoreFail *) destruct (mget t0 (s_thr s)) as [[h0 ts]|] eqn:E0; [|contradiction].
    destruct ts; try contradiction.
    simpl in H'. rewrite mget_mset, (proj1 (proj2 (ds_put_fail_fields _ _ _ _ _))) in H'. destruct (N.eqb t t0); [|contradiction].
    inversion H' as [[Eh Ec Ev]]. exfalso. eapply fault_verdict_not_ok; eauto.
  - (* FRespFail *) destruct (mget t0 (s_thr s)) as [[h0 ts]|] eqn:E0; [|contradiction].
    destruct ts; try contradiction. unfold step_resp_fail in H'.
    destruct (rs_slots r); [|destruct (Nat.ltb _ _)]; simpl in H'; rewrite mget_mset in H';
      rewrite ?(proj1 (proj2 (ds_put_fail_fields _ _ _ _ _))) in H'; simpl in H';
      (destruct (N.eqb t t0); [|contradiction]); inversion H' as [[Eh Ec Ev]].
    exfalso. eapply fault_verdict_not_ok; eauto.
Qed.

Theorem avail_sound wf cf count es e t h c :
  0 <= count -> Forall (ev_wf wf) (es ++ [e]) ->
  let s := frun cf (init count) es in
  answer_in_contract s e ->
  mget t (s_thr (fstep cf s e)) = Some (h, TRel c VOk) -> mget t (s_thr s) <> Some (h, TRel c VOk) ->
  exists av, sampled_set (fstep cf s e) h av /\
             (c_persist_draw cf = true -> view (fstep cf s e) (hr h) = Some (mkres av [])).
Proof.
  intros Hc Hf s Ha. apply Forall_app in Hf. destruct Hf as [Hf He]. inversion He; subst.
  eapply avail_sound_step; eauto. apply SInv_run; [exact Hf|apply SInv_init, Hc].
Qed.

(** * a failed load
    load_fault_inert: when the [Get] of the previous result fails (any error class: I/O, context cancelled or expired) the
    call goes to its return with that error — never "available" — and NOTHING else changes: not the durable datastore, not
    the write buffer, not the served log, not the sessions, not any other call. In particular nothing is drawn. (A result
    that sits in the write buffer is answered by autobatch without touching the datastore: then there is no such failure.) *)
Theorem load_fault_inert cf s t e :
  let s' := fstep cf s (FLoadFail t e) in
  s_disk s' = s_disk s /\ s_buf s' = s_buf s /\ s_served s' = s_served s /\ s_sess s' = s_sess s /\
  s_closed s' = s_closed s /\ s_count s' = s_count s /\
  (forall t', t' <> t -> mget t' (s_thr s') = mget t' (s_thr s)) /\
  (mget t (s_thr s') = mget t (s_thr s) \/
   exists h c, mget t (s_thr s) = Some (h, TLoad c) /\ buffered s (hr h) = false /\
               mget t (s_thr s') = Some (h, TRel c (fault_verdict e)) /\ fault_verdict e <> VOk).
Proof.
  simpl. destruct (mget t (s_thr s)) as [[h ts]|] eqn:Et; [|repeat split; auto].
  destruct ts; try (repeat split; auto; fail).
  destruct (buffered s (hr h)) eqn:Eb; [repeat split; auto|].
  repeat split; simpl; auto.
  - intros t' Hn. apply mget_mset_ne, Hn.
  - right. exists h, c. repeat split; auto; [apply mget_mset_eq|apply fault_verdict_not_ok].
Qed.

(** * what the log [s_served] means: every entry is a non-empty slot of a real answer, at the position of that coordinate
      in the request of a call for that root *)
Lemma served_step cf s e :
  s_served (fstep cf s e) = s_served s \/
  exists t r h c res, resp_of e = Some (t, r) /\ mget t (s_thr s) = Some (h, TReq c res) /\
                      s_served (fstep cf s e) = served_of (hr h) (r_rem res) (rs_slots r) ++ s_served s.
Proof.
  destruct e; simpl.
  - left. destruct (mget t (s_thr s)); reflexivity.
  - left. destruct (mget t (s_thr s)) as [[h ts]|]; [|reflexivity].
    destruct ts; simpl; repeat (match goal with |- context [if ?b then _ else _] => destruct b | |- context [match ?x with _ => _ end] => destruct x end; simpl);
      try reflexivity; apply (proj1 (proj2 (proj2 (ds_put_fields _ _ _ _)))).
  - destruct (mget t (s_thr s)) as [[h ts]|] eqn:E; [|left; reflexivity]. destruct ts; try (left; reflexivity).
    unfold step_resp. destruct (rs_slots r) eqn:Esl; [left; reflexivity|]. destruct (Nat.ltb _ _); [left; reflexivity|].
    right. exists t, r, h, c, res. repeat split; auto. simpl. rewrite Esl.
    rewrite (proj1 (proj2 (proj2 (ds_put_fields _ _ _ _)))). reflexivity.
  - left. destruct (mget t (s_thr s)) as [[h ts]|]; [|reflexivity]. destruct ts; reflexivity.
  - left. reflexivity.
  - left. reflexivity.
  - left. destruct (mget t (s_thr s)) as [[h ts]|]; [|reflexivity]. destruct ts; try reflexivity.
    destruct (buffered s (hr h)); reflexivity.
  - left. destruct (mget t (s_thr s)) as [[h ts]|]; [|reflexivity]. destruct ts; try reflexivity.
    simpl. apply (proj1 (proj2 (proj2 (ds_put_fail_fields _ _ _ _ _)))).
  - destruct (mget t (s_thr s)) as [[h ts]|] eqn:E; [|left; reflexivity]. destruct ts; try (left; reflexivity).
    unfold step_resp_fail. destruct (rs_slots r) eqn:Esl; [left; reflexivity|]. destruct (Nat.ltb _ _); [left; reflexivity|].
    right. exists t, r, h, c, res. repeat split; auto. simpl. rewrite Esl.
    rewrite (proj1 (proj2 (proj2 (ds_put_fail_fields _ _ _ _ _)))). reflexivity.
Qed.

Theorem served_genuine cf s0 es r c b :
  s_served s0 = [] -> In (r, c, b) (s_served (frun cf s0 es)) ->
  exists es1 e t resp es2 h ch res i,
    es = es1 ++ e :: es2 /\ resp_of e = Some (t, resp) /\
    mget t (s_thr (frun cf s0 es1)) = Some (h, TReq ch res) /\ hr h = r /\
    nth_error (r_rem res) i = Some c /\ nth_error (rs_slots resp) i = Some (SFull b).
Proof.
  intros H0. induction es as [|e es IH] using rev_ind; intros Hin.
  - simpl in Hin. rewrite H0 in Hin. contradiction.
  - rewrite frun_snoc in Hin. destruct (served_step cf (frun cf s0 es) e) as [E|[t [resp [h [ch [res [Ee [Et E]]]]]]]].
    + rewrite E in Hin. destruct (IH Hin) as [es1 [e1 [t [resp [es2 [h [ch [res [i [A [A' [B [C [D F]]]]]]]]]]]]]].
      exists es1, e1, t, resp, (es2 ++ [e]), h, ch, res, i. repeat split; auto. rewrite A, <- app_assoc. reflexivity.
    + rewrite E in Hin. apply in_app_or in Hin. destruct Hin as [Hin|Hin].
      * apply served_of_In in Hin. destruct Hin as [c' [b' [i [Ex [N1 N2]]]]]. inversion Ex; subst.
        exists es, e, t, resp, [], h, ch, res, i. repeat split; auto.
      * destruct (IH Hin) as [es1 [e1 [t' [resp' [es2 [h' [ch' [res' [i [A [A' [B [C [D F]]]]]]]]]]]]]].
        exists es1, e1, t', resp', (es2 ++ [e]), h', ch', res', i. repeat split; auto. rewrite A, <- app_assoc. reflexivity.
Qed.

(** what C06 must supply: if every non-empty slot a getter ever hands back is a verified sample, everything counted is verified *)
Definition answer_verified (e : fev) : Prop :=
  match resp_of e with Some (_, r) => forall b, In (SFull b) (rs_slots r) -> b = true | None => True end.

Theorem served_verified cf s0 es r c b :
  s_served s0 = [] -> Forall answer_verified es -> In (r, c, b) (s_served (frun cf s0 es)) -> b = true.
Proof.
  intros H0 Hv Hin. destruct (served_genuine cf s0 es r c b H0 Hin) as [es1 [e [t [resp [es2 [h [ch [res [i [A [A' [_ [_ [_ F]]]]]]]]]]]]]].
  subst es. apply Forall_app in Hv. destruct Hv as [_ Hv]. inversion Hv as [|? ? Hr _]; subst. unfold answer_verified in Hr.
  rewrite A' in Hr. apply Hr. eapply nth_error_In, F.
Qed.

Corollary served_genuine_init cf count es r c b :
  In (r, c, b) (s_served (frun cf (init count) es)) ->
  exists es1 e t resp es2 h ch res i,
    es = es1 ++ e :: es2 /\ resp_of e = Some (t, resp) /\
    mget t (s_thr (frun cf (init count) es1)) = Some (h, TReq ch res) /\ hr h = r /\
    nth_error (r_rem res) i = Some c /\ nth_error (rs_slots resp) i = Some (SFull b).
Proof. apply served_genuine. reflexivity. Qed.

Corollary served_verified_init cf count es r c b :
  Forall answer_verified es -> In (r, c, b) (s_served (frun cf (init count) es)) -> b = true.
Proof. apply served_verified. reflexivity. Qed.

(** C03 — proofs about the pure parts of Light/Sampling.v: coordinate lists, crypto/rand.Int, selectRandomSamples,
    the positional loop over a getter answer. *)
From Coq Require Import List ZArith NArith Bool Lia Permutation.
From CN Require Import Light.Map Light.Sampling.
Import ListNotations.
Open Scope Z_scope.

(** * coordinates *)
Lemma coord_eqb_eq a b : coord_eqb a b = true <-> a = b.
Proof.
  destruct a as [a1 a2], b as [b1 b2]. unfold coord_eqb. simpl. rewrite andb_true_iff, !Z.eqb_eq.
  split; [intros [-> ->]; reflexivity|intros H; inversion H; auto].
Qed.

Lemma cmem_In c l : cmem c l = true <-> In c l.
Proof.
  unfold cmem. rewrite existsb_exists. split.
  - intros [x [Hin He]]. apply coord_eqb_eq in He. subst. exact Hin.
  - intros H. exists c. split; [exact H|apply coord_eqb_eq; reflexivity].
Qed.

Lemma cmem_false c l : cmem c l = false <-> ~ In c l.
Proof. rewrite <- cmem_In. destruct (cmem c l); split; congruence. Qed.

Lemma nodupb_NoDup l : nodupb l = true -> NoDup l.
Proof.
  induction l as [|c l IH]; simpl; intros H; [constructor|].
  apply andb_true_iff in H. destruct H as [H1 H2]. constructor; [|apply IH, H2].
  apply cmem_false. destruct (cmem c l); [discriminate|reflexivity].
Qed.

Lemma same_set_spec a b : same_set a b = true -> length a = length b /\ incl a b /\ incl b a.
Proof.
  unfold same_set. rewrite !andb_true_iff, Nat.eqb_eq, !forallb_forall.
  intros [[Hl Hab] Hba]. repeat split; [exact Hl| |]; intros c Hc; apply cmem_In; auto.
Qed.

Lemma NoDup_app_iff {A} (l1 l2 : list A) :
  NoDup (l1 ++ l2) <-> NoDup l1 /\ NoDup l2 /\ (forall x, In x l1 -> ~ In x l2).
Proof.
  induction l1 as [|a l1 IH]; simpl.
  - split; [intros H; repeat split; [constructor|exact H|tauto]|tauto].
  - split.
    + intros H. inversion H as [|? ? Hn Hd]; subst. apply IH in Hd. destruct Hd as [H1 [H2 H3]].
      repeat split; [constructor; [intro; apply Hn, in_or_app; auto|exact H1]|exact H2|].
      intros x [->|Hx]; [intro; apply Hn, in_or_app; auto|apply H3, Hx].
    + intros [H1 [H2 H3]]. inversion H1 as [|? ? Hn Hd]; subst. constructor.
      * intro Hin. apply in_app_or in Hin. destruct Hin as [Hin|Hin]; [tauto|exact (H3 a (or_introl eq_refl) Hin)].
      * apply IH. repeat split; auto.
Qed.

Lemma In_firstn {A} (x : A) n l : In x (firstn n l) -> In x l.
Proof. intros H. rewrite <- (firstn_skipn n l). apply in_or_app. left. exact H. Qed.

Lemma NoDup_firstn {A} n (l : list A) : NoDup l -> NoDup (firstn n l).
Proof.
  intros H. rewrite <- (firstn_skipn n l) in H. apply NoDup_app_iff in H. tauto.
Qed.

(** * crypto/rand.Int: whatever the stream, an accepted value lies in [0, m) *)
Lemma be_val_nonneg bs : forall acc, 0 <= acc -> 0 <= be_val acc bs.
Proof.
  induction bs as [|x bs IH]; simpl; intros acc Ha; [exact Ha|].
  apply IH. pose proof (Z.mod_pos_bound x 256 ltac:(lia)). lia.
Qed.

Lemma rand_loop_range fuel m k b bs n rest :
  0 < b -> rand_loop fuel m k b bs = Some (n, rest) -> 0 <= n < m.
Proof.
  intros Hb. revert bs. induction fuel as [|f IH]; simpl; intros bs H; [discriminate|].
  destruct (firstn k bs) as [|x xs]; [discriminate|].
  destruct (Nat.ltb _ k); [discriminate|].
  destruct (Z.ltb _ m) eqn:E.
  - inversion H; subst. apply Z.ltb_lt in E. split; [|exact E].
    apply be_val_nonneg. apply Z.mod_pos_bound. apply Z.pow_pos_nonneg; lia.
  - eapply IH, H.
Qed.

Lemma rand_int_range m bs n rest : rand_int m bs = Some (n, rest) -> 0 <= n < m.
Proof.
  unfold rand_int. destruct (Z.leb_spec m 0) as [|Hm]; [discriminate|].
  destruct (Z.eqb_spec (bitlen (m - 1)) 0) as [|Hbl].
  - intros H. inversion H; subst. lia.
  - apply rand_loop_range.
    destruct (Z.eqb_spec (bitlen (m - 1) mod 8) 0); [lia|].
    pose proof (Z.mod_pos_bound (bitlen (m - 1)) 8 ltac:(lia)). lia.
Qed.

(** * selectRandomSamples *)
Lemma select_loop_ok fuel w target : 0 <= target -> forall acc bs cs rest,
  NoDup acc -> Forall (in_square w) acc -> Z.of_nat (length acc) <= target ->
  select_loop fuel w target acc bs = Some (cs, rest) ->
  NoDup cs /\ Forall (in_square w) cs /\ Z.of_nat (length cs) = target.
Proof.
  intros Ht. induction fuel as [|f IH]; intros acc bs cs rest Hnd Hsq Hlen H.
  - simpl in H. destruct (Z.leb_spec target (Z.of_nat (length acc))); [|discriminate].
    inversion H; subst. repeat split; auto. lia.
  - simpl in H. destruct (Z.leb_spec target (Z.of_nat (length acc))) as [Hle|Hgt].
    + inversion H; subst. repeat split; auto. lia.
    + destruct (rand_int w bs) as [[r bs1]|] eqn:E1; [|discriminate].
      destruct (rand_int w bs1) as [[c bs2]|] eqn:E2; [|discriminate].
      apply rand_int_range in E1. apply rand_int_range in E2.
      destruct (cmem (r, c) acc) eqn:Em.
      * eapply IH; eauto.
      * eapply IH; [| | |exact H].
        -- apply NoDup_app_iff. repeat split; [exact Hnd|constructor; [simpl; tauto|constructor]|].
           intros x Hx [<-|[]]. apply cmem_false in Em. tauto.
        -- apply Forall_app. split; [exact Hsq|]. constructor; [|constructor]. split; simpl; lia.
        -- rewrite app_length. simpl. lia.
Qed.

(** draw_ok: for EVERY byte stream, the first set has exactly min(count, w*w) distinct coordinates inside the square *)
Lemma select_ok w count bs cs rest :
  0 <= count -> select_random_samples w count bs = Some (cs, rest) ->
  NoDup cs /\ Forall (in_square w) cs /\ Z.of_nat (length cs) = Z.min count (w * w).
Proof.
  intros Hc H. unfold select_random_samples in H.
  eapply select_loop_ok in H; [exact H| |constructor|constructor|simpl]; pose proof (Z.square_nonneg w); lia.
Qed.

Lemma draw_ok w count bs order cs :
  0 <= count -> draw w count bs order = Some cs ->
  NoDup cs /\ Forall (in_square w) cs /\ Z.of_nat (length cs) = Z.min count (w * w).
Proof.
  intros Hc H. unfold draw in H. destruct (select_random_samples w count bs) as [[cs0 rest]|] eqn:E; [|discriminate].
  apply select_ok in E; [|exact Hc]. destruct E as [Hnd [Hsq Hlen]].
  destruct (same_set order cs0 && nodupb order) eqn:Eo; inversion H; subst; [|auto].
  apply andb_true_iff in Eo. destruct Eo as [Hs Hn]. apply same_set_spec in Hs. destruct Hs as [Hl [Hi _]].
  repeat split; [apply nodupb_NoDup, Hn| |lia].
  rewrite Forall_forall in *. intros x Hx. apply Hsq, Hi, Hx.
Qed.

(** a concrete stream (w = 6 is not a power of two: the rejection loop of rand.Int runs; a duplicate candidate is skipped) *)
Example draw_nonvacuous :
  select_random_samples 6 3 [7; 5; 1; 5; 1; 2; 6; 5; 1; 3; 9] = Some ([(5, 1); (2, 5); (1, 3)], [9]) /\
  select_random_samples 2 16 [1; 1; 0; 1; 1; 1; 1; 0; 0; 0] = Some ([(1, 1); (0, 1); (1, 0); (0, 0)], []).
Proof. split; vm_compute; reflexivity. Qed.

(** * the positional loop *)
Lemma split_resp_perm : forall sl idxs,
  Permutation (fst (split_resp idxs sl) ++ snd (split_resp idxs sl)) (firstn (length sl) idxs).
Proof.
  induction sl as [|x sl IH]; intros idxs; simpl; [apply perm_nil|].
  destruct idxs as [|c idxs]; [destruct x; apply perm_nil|].
  specialize (IH idxs). destruct x; destruct (split_resp idxs sl) as [a f]; simpl in *.
  - apply Permutation_sym. apply Permutation_cons_app. apply Permutation_sym. exact IH.
  - apply perm_skip. exact IH.
Qed.

Lemma split_resp_length sl idxs :
  (length (fst (split_resp idxs sl)) + length (snd (split_resp idxs sl)) = Nat.min (length sl) (length idxs))%nat.
Proof.
  pose proof (Permutation_length (split_resp_perm sl idxs)) as H. rewrite app_length, firstn_length in H. exact H.
Qed.

Lemma split_resp_incl sl idxs c :
  In c (fst (split_resp idxs sl)) \/ In c (snd (split_resp idxs sl)) -> In c idxs.
Proof.
  intros H. eapply In_firstn. eapply Permutation_in; [apply split_resp_perm|]. apply in_or_app. exact H.
Qed.

(** a coordinate counts as sampled only through a non-empty answer at its own position *)
Lemma split_resp_avail_pos : forall sl idxs c,
  In c (fst (split_resp idxs sl)) -> exists i b, nth_error idxs i = Some c /\ nth_error sl i = Some (SFull b).
Proof.
  induction sl as [|x sl IH]; intros idxs c; simpl; [tauto|].
  destruct idxs as [|c0 idxs]; [destruct x; simpl; tauto|].
  destruct x; destruct (split_resp idxs sl) as [a f] eqn:E; simpl; intros H.
  - specialize (IH idxs c). rewrite E in IH. destruct (IH H) as [i [b [H1 H2]]]. exists (S i), b. auto.
  - destruct H as [->|H].
    + exists 0%nat, verified. auto.
    + specialize (IH idxs c). rewrite E in IH. destruct (IH H) as [i [b [H1 H2]]]. exists (S i), b. auto.
Qed.

(** and stays pending through an empty answer at its own position *)
Lemma split_resp_failed_pos : forall sl idxs c,
  In c (snd (split_resp idxs sl)) -> exists i, nth_error idxs i = Some c /\ nth_error sl i = Some SEmpty.
Proof.
  induction sl as [|x sl IH]; intros idxs c; simpl; [tauto|].
  destruct idxs as [|c0 idxs]; [destruct x; simpl; tauto|].
  destruct x; destruct (split_resp idxs sl) as [a f] eqn:E; simpl; intros H.
  - destruct H as [->|H].
    + exists 0%nat. auto.
    + specialize (IH idxs c). rewrite E in IH. destruct (IH H) as [i [H1 H2]]. exists (S i). auto.
  - specialize (IH idxs c). rewrite E in IH. destruct (IH H) as [i [H1 H2]]. exists (S i). auto.
Qed.

Lemma served_of_In : forall sl idxs r x,
  In x (served_of r idxs sl) ->
  exists c b i, x = (r, c, b) /\ nth_error idxs i = Some c /\ nth_error sl i = Some (SFull b).
Proof.
  induction sl as [|y sl IH]; intros idxs r x; simpl; [tauto|].
  destruct y; destruct idxs as [|c0 idxs]; simpl; try tauto.
  - intros H. destruct (IH _ _ _ H) as [c [b [i [H1 [H2 H3]]]]]. exists c, b, (S i). auto.
  - intros [<-|H].
    + exists c0, verified, 0%nat. auto.
    + destruct (IH _ _ _ H) as [c [b [i [H1 [H2 H3]]]]]. exists c, b, (S i). auto.
Qed.

Lemma served_of_avail : forall sl idxs r c,
  In c (fst (split_resp idxs sl)) -> exists b, In (r, c, b) (served_of r idxs sl).
Proof.
  induction sl as [|y sl IH]; intros idxs r c; simpl; [tauto|].
  destruct idxs as [|c0 idxs]; [destruct y; simpl; tauto|].
  destruct y; destruct (split_resp idxs sl) as [a f] eqn:E; simpl; intros H.
  - specialize (IH idxs r c). rewrite E in IH. exact (IH H).
  - destruct H as [->|H]; [exists verified; left; reflexivity|].
    specialize (IH idxs r c). rewrite E in IH. destruct (IH H) as [b Hb]. exists b. right. exact Hb.
Qed.

(** * "from the whole extended square": every cell can be drawn — for every in-range value there is a byte string that
      crypto/rand.Int turns into exactly that value *)
Fixpoint enc (k : nat) (n : Z) : list Z :=
  match k with O => [] | S k' => (n / 256 ^ Z.of_nat k') mod 256 :: enc k' n end.

Lemma enc_length k n : length (enc k n) = k.
Proof. induction k; simpl; auto. Qed.

Lemma be_val_enc k : forall acc n, be_val acc (enc k n) = acc * 256 ^ Z.of_nat k + n mod 256 ^ Z.of_nat k.
Proof.
  induction k as [|k IH]; intros acc n.
  - simpl. rewrite Z.mod_1_r. lia.
  - cbn [enc be_val]. rewrite IH. rewrite Z.mod_mod by lia.
    replace (256 ^ Z.of_nat (S k)) with (256 ^ Z.of_nat k * 256) by (rewrite Nat2Z.inj_succ, Z.pow_succ_r by lia; lia).
    rewrite (Z.rem_mul_r n (256 ^ Z.of_nat k) 256) by (try apply Z.pow_nonzero; lia). lia.
Qed.

Lemma rand_loop_reaches fuel m k b n rest :
  0 <= n < m -> 0 < b <= 8 -> n < 2 ^ b * 256 ^ Z.of_nat k ->
  rand_loop (S fuel) m (S k) b (enc (S k) n ++ rest) = Some (n, rest).
Proof.
  intros Hn Hb Hlt. cbn [rand_loop].
  assert (Hf : firstn (S k) (enc (S k) n ++ rest) = enc (S k) n).
  { rewrite firstn_app, enc_length, Nat.sub_diag, firstn_O, app_nil_r. rewrite <- (enc_length (S k) n) at 1. apply firstn_all. }
  assert (Hs : skipn (S k) (enc (S k) n ++ rest) = rest).
  { rewrite skipn_app, enc_length, Nat.sub_diag. rewrite <- (enc_length (S k) n) at 1. rewrite skipn_all. reflexivity. }
  rewrite Hf, Hs. cbn [enc]. 
  change (length ((n / 256 ^ Z.of_nat k) mod 256 :: enc k n)) with (S (length (enc k n))). rewrite enc_length, Nat.ltb_irrefl.
  assert (Hp : 0 < 256 ^ Z.of_nat k) by (apply Z.pow_pos_nonneg; lia).
  assert (Hq : 0 <= n / 256 ^ Z.of_nat k < 2 ^ b).
  { split; [apply Z.div_pos; lia|]. apply Z.div_lt_upper_bound; lia. }
  assert (H256 : 2 ^ b <= 256) by (change 256 with (2 ^ 8); apply Z.pow_le_mono_r; lia).
  rewrite !(Z.mod_small (n / 256 ^ Z.of_nat k) 256) by lia. rewrite (Z.mod_small _ (2 ^ b)) by lia.
  rewrite be_val_enc.
  replace (n / 256 ^ Z.of_nat k * 256 ^ Z.of_nat k + n mod 256 ^ Z.of_nat k) with n
    by (rewrite (Z.div_mod n (256 ^ Z.of_nat k)) at 1 by lia; lia).
  destruct (Z.ltb_spec n m); [reflexivity|lia].
Qed.

Lemma rand_int_reaches m n : 0 <= n < m -> exists pre, forall rest, rand_int m (pre ++ rest) = Some (n, rest).
Proof.
  intros Hn. unfold rand_int. destruct (Z.leb_spec m 0); [lia|].
  unfold bitlen. destruct (Z.leb_spec (m - 1) 0) as [Hm|Hm].
  - exists []. intros rest. simpl. assert (n = 0) by lia. subst. reflexivity.
  - set (bl := Z.log2 (m - 1) + 1).
    assert (Hbl : 0 < bl) by (unfold bl; pose proof (Z.log2_nonneg (m - 1)); lia).
    assert (Hpow : m - 1 < 2 ^ bl) by (unfold bl; apply Z.log2_spec; lia).
    destruct (Z.eqb_spec bl 0); [lia|].
    set (b := if bl mod 8 =? 0 then 8 else bl mod 8).
    assert (Hk : exists k, Z.to_nat ((bl + 7) / 8) = S k /\ bl = 8 * Z.of_nat k + b /\ 0 < b <= 8).
    { pose proof (Z.div_mod bl 8 ltac:(lia)) as Hdm. pose proof (Z.mod_pos_bound bl 8 ltac:(lia)) as Hmb.
      unfold b. destruct (Z.eqb_spec (bl mod 8) 0) as [E|E].
      - exists (Z.to_nat (bl / 8 - 1)). assert ((bl + 7) / 8 = bl / 8) as ->.
        { symmetry. apply Z.div_unique with (r := 7); lia. }
        assert (1 <= bl / 8) by lia. split; [lia|]. split; [rewrite Z2Nat.id by lia; lia|lia].
      - exists (Z.to_nat (bl / 8)). assert ((bl + 7) / 8 = bl / 8 + 1) as ->.
        { symmetry. apply Z.div_unique with (r := bl mod 8 - 1); lia. }
        assert (0 <= bl / 8) by (apply Z.div_pos; lia). split; [lia|]. split; [rewrite Z2Nat.id by lia; lia|lia]. }
    destruct Hk as [k [Ek [Ebl Hb]]]. exists (enc (S k) n). intros rest. rewrite Ek.
    rewrite app_length. cbn [plus]. rewrite enc_length. simpl plus.
    apply rand_loop_reaches; [lia|exact Hb|].
    replace (2 ^ b * 256 ^ Z.of_nat k) with (2 ^ bl); [lia|].
    rewrite Ebl. change 256 with (2 ^ 8). rewrite <- Z.pow_mul_r, <- Z.pow_add_r by lia. f_equal. lia.
Qed.

(** every cell of the square can be drawn — no coordinate is excluded by construction: for each cell there is a stream
    prefix after which, however the stream continues, the drawn set contains that cell *)
Theorem draw_reaches_every_cell w count r c :
  1 <= count -> 0 <= r < w -> 0 <= c < w ->
  exists pre, forall more cs rest, select_random_samples w count (pre ++ more) = Some (cs, rest) -> In (r, c) cs.
Proof.
  intros Hc Hr Hcc. destruct (rand_int_reaches w r Hr) as [p1 H1]. destruct (rand_int_reaches w c Hcc) as [p2 H2].
  exists (p1 ++ p2). intros more cs rest E.
  unfold select_random_samples in E. cbn [select_loop] in E.
  assert (Ht : 1 <= Z.min count (w * w)) by nia.
  destruct (Z.leb_spec (Z.min count (w * w)) (Z.of_nat (@length coord []))) as [Hle|_]; [simpl in Hle; lia|].
  rewrite <- app_assoc in E. rewrite H1, H2 in E. simpl cmem in E. cbn iota in E. simpl app in E.
  revert E. generalize (length (p1 ++ p2 ++ more)). intros f E.
  assert (Hin : forall fuel acc bs, In (r, c) acc -> select_loop fuel w (Z.min count (w * w)) acc bs = Some (cs, rest) -> In (r, c) cs).
  { induction fuel as [|fu IH]; intros acc bs Hi Hs; simpl in Hs.
    - destruct (Z.leb _ _); [inversion Hs; subst; exact Hi|discriminate].
    - destruct (Z.leb _ _); [inversion Hs; subst; exact Hi|].
      destruct (rand_int w bs) as [[r1 b1]|]; [|discriminate]. destruct (rand_int w b1) as [[c1 b2]|]; [|discriminate].
      eapply IH; [|exact Hs]. destruct (cmem (r1, c1) acc); [exact Hi|apply in_or_app; left; exact Hi]. }
  eapply Hin; [|exact E]. left. reflexivity.
Qed.

Example draw_reaches_nonvacuous :
  select_random_samples 6 2 ([5] ++ [3] ++ [0; 0]) = Some ([(5, 3); (0, 0)], []).
Proof. vm_compute. reflexivity. Qed.

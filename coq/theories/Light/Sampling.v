(** C03 — executable model of light availability sampling.

    Transcribes share/availability/light/{availability.go,sample.go}, libs/utils/sessions.go and the part of
    go-datastore/autobatch the code relies on, at the granularity where the property lives:

    - one call of [SharesAvailable] is a *thread* that advances through the shared-state accesses of the Go code
      one at a time ([TInit] shortcuts, [TAcq] = [sync.Map.LoadOrStore], [TWait] = blocked on the session channel,
      [TLoad] = datastore [Get] + load-or-draw, [TStore] = persisting a fresh draw, [TReq] = [GetSamples] outstanding,
      [TRel] = [close(chan)], [TDel] = [sync.Map.Delete]); events of different threads interleave arbitrarily;
    - the getter is the environment: an [FResp] event carries what it handed back (any slice, any error class);
    - the random source is an input: the byte stream consumed by [crypto/rand.Int]; the iteration order of the Go map the
      coordinates are collected from is an input as well ([order]);
    - persistence = autobatch buffer over the durable datastore; [FCrash] loses the buffer, [FRestart] = [Close] (flush)
      followed by a fresh instance; both abandon all running calls and sessions.

    - the datastore can FAIL: [FLoadFail] = the [Get] of the previous result returns an error other than ErrNotFound (an I/O
      error, or a context-aware datastore looking at a context that is already done); [FStoreFail] / [FRespFail] = the
      [Put]/[Flush] of [storeResult] fails at the eager persist of a fresh draw / at the persist after a getter answer, at one
      of the points where autobatch can fail ([sfail]); every one of them makes the call return that error.

    [cfg] selects the code variant: [fixed_cfg] is the repaired code (branches fix-c03-1, fix-c03-2, fix-c03-3) that /verif
    follows; [keepbuf_cfg] is the code before fix-c03-3 (a failed write stays in the write buffer), [orig_cfg] the code before
    all repairs; both are only used to document what the repairs repaired (and to tie a tree that lacks fix-c03-3).

    No proofs here (SamplingProofs.v, SessionProofs.v). The harness
    harness/share/availability/light/zz_verif_c03_test.go drives the real code; [mismatches] diffs. *)
From Coq Require Import List ZArith NArith Bool Lia.
From CN Require Import Light.Map.
Import ListNotations.
Open Scope Z_scope.

(** * Coordinates and sampling results *)
Definition coord := (Z * Z)%type.
Definition coord_eqb (a b : coord) : bool := (fst a =? fst b) && (snd a =? snd b).
Definition cmem (c : coord) (l : list coord) : bool := existsb (coord_eqb c) l.
Fixpoint nodupb (l : list coord) : bool :=
  match l with [] => true | c :: l' => negb (cmem c l') && nodupb l' end.

(** [SamplingResult] as marshalled under key sampling_result/<root> *)
Record result := mkres { r_avail : list coord; r_rem : list coord }.

Definition in_square (w : Z) (c : coord) : Prop := 0 <= fst c < w /\ 0 <= snd c < w.

(** * crypto/rand.Int(reader, max) over an explicit byte stream (bytes are taken mod 256) *)
Definition bitlen (x : Z) : Z := if x <=? 0 then 0 else Z.log2 x + 1.

Fixpoint be_val (acc : Z) (bs : list Z) : Z :=
  match bs with [] => acc | x :: r => be_val (acc * 256 + x mod 256) r end.

(** the retry loop: read [k] bytes, mask the first to [b] bits, accept a candidate below [m] *)
Fixpoint rand_loop (fuel : nat) (m : Z) (k : nat) (b : Z) (bs : list Z) : option (Z * list Z) :=
  match fuel with
  | O => None
  | S f =>
    match firstn k bs with
    | [] => None
    | x :: xs =>
      if (length (x :: xs) <? k)%nat then None
      else let n := be_val ((x mod 256) mod 2 ^ b) xs in
           if n <? m then Some (n, skipn k bs) else rand_loop f m k b (skipn k bs)
    end
  end.

Definition rand_int (m : Z) (bs : list Z) : option (Z * list Z) :=
  if m <=? 0 then None
  else let bl := bitlen (m - 1) in
       if bl =? 0 then Some (0, bs)
       else let k := Z.to_nat ((bl + 7) / 8) in
            let b := if bl mod 8 =? 0 then 8 else bl mod 8 in
            rand_loop (S (length bs)) m k b bs.

(** * sample.go: selectRandomSamples — draw (row, col) until [target] distinct coordinates are collected *)
Fixpoint select_loop (fuel : nat) (w target : Z) (acc : list coord) (bs : list Z) : option (list coord * list Z) :=
  if target <=? Z.of_nat (length acc) then Some (acc, bs)
  else match fuel with
       | O => None
       | S f =>
         match rand_int w bs with
         | None => None
         | Some (r, bs1) =>
           match rand_int w bs1 with
           | None => None
           | Some (c, bs2) => select_loop f w target (if cmem (r, c) acc then acc else acc ++ [(r, c)]) bs2
           end
         end
       end.

(** NewSamplingResult: the count is capped by the square area; result = (coordinates in first-occurrence order, rest of stream) *)
Definition select_random_samples (w count : Z) (bs : list Z) : option (list coord * list Z) :=
  select_loop (S (length bs)) w (Z.min count (w * w)) [] bs.

Definition same_set (a b : list coord) : bool :=
  (length a =? length b)%nat && forallb (fun c => cmem c b) a && forallb (fun c => cmem c a) b.

(** the coordinates leave a Go map: their order is any permutation; [order] is that permutation when it is one *)
Definition draw (w count : Z) (bs : list Z) (order : list coord) : option (list coord) :=
  match select_random_samples w count bs with
  | None => None
  | Some (cs, _) => Some (if same_set order cs && nodupb order then order else cs)
  end.

(** * Calls, getter answers, verdicts *)
Record hdr := mkhdr { hh : N; hr : N; hw : Z; hempty : bool; hwin : bool }.
  (* height, data root (datastore key), len(RowRoots), root is the empty square, header time inside the sampling window *)

Inductive errclass := ENone | ECanceled | EDeadline | EOther.
Inductive verdict := VOk | VNotAvailable | VCanceled | VDeadline | VOutside | VErr | VPanic.
  (* nil, share.ErrNotAvailable, context.Canceled, context.DeadlineExceeded, ErrOutsideSamplingWindow, any other error, panic *)

(** one slot of the slice returned by GetSamples: empty (Proof == nil) or non-empty; [verified] is ghost — the model of
    the light package cannot see it (it never calls Verify); it is what the getter (C06) has to guarantee *)
Inductive slot := SEmpty | SFull (verified : bool).
Record response := mkresp { rs_slots : list slot; rs_err : errclass }.

Definition is_canceled (e : errclass) : bool := match e with ECanceled => true | _ => false end.
(** StartSession returns ctx.Err() of the waiting call *)
Definition abort_verdict (e : errclass) : verdict := match e with EDeadline => VDeadline | _ => VCanceled end.

(** the positional loop of availability.go over the returned slice: (newly available, failed) *)
Fixpoint split_resp (idxs : list coord) (sl : list slot) {struct sl} : list coord * list coord :=
  match sl, idxs with
  | [], _ => ([], [])
  | _ :: _, [] => ([], [])
  | SEmpty :: sl', c :: idxs' => let (a, f) := split_resp idxs' sl' in (a, c :: f)
  | SFull _ :: sl', c :: idxs' => let (a, f) := split_resp idxs' sl' in (c :: a, f)
  end.

(** ghost: the non-empty positional answers of one response, as (root, coordinate, verified) *)
Fixpoint served_of (r : N) (idxs : list coord) (sl : list slot) {struct sl} : list (N * coord * bool) :=
  match sl, idxs with
  | SEmpty :: sl', _ :: idxs' => served_of r idxs' sl'
  | SFull ok :: sl', c :: idxs' => (r, c, ok) :: served_of r idxs' sl'
  | _, _ => []
  end.

Inductive tstate :=
| TInit | TAcq | TWait (c : N) | TLoad (c : N) | TStore (c : N) (res : result) | TReq (c : N) (res : result)
| TRel (c : N) (v : verdict) | TDel (c : N) (v : verdict) | TDone (v : verdict).

(** * State *)
Record cfg := mkcfg { c_persist_draw : bool; c_flush : bool; c_batch : nat; c_drop : bool }.
  (* fix-c03-1: the draw is persisted before it is requested; fix-c03-2: every write is flushed; write-batch size;
     fix-c03-3: a failed write is dropped from the write buffer *)
Definition fixed_cfg : cfg := mkcfg true true 2048 true.
Definition keepbuf_cfg : cfg := mkcfg true true 2048 false.
Definition orig_cfg : cfg := mkcfg false false 2048 false.

Record state := mkst {
  s_count : Z;                          (* params.SampleAmount of the running instance *)
  s_disk : map result;                  (* durable datastore, key = root *)
  s_buf : map result;                   (* autobatch buffer of the running instance *)
  s_sess : map N;                       (* Sessions.active: height -> channel *)
  s_closed : list N;                    (* closed channels *)
  s_next : N;                           (* next fresh channel *)
  s_thr : map (hdr * tstate);           (* running calls *)
  s_served : list (N * coord * bool)    (* ghost log: every non-empty positional answer so far *)
}.

Definition init (count : Z) : state := mkst count [] [] [] [] 0%N [] [].

Definition set_thr (s : state) (t : N) (x : hdr * tstate) : state :=
  mkst (s_count s) (s_disk s) (s_buf s) (s_sess s) (s_closed s) (s_next s) (mset t x (s_thr s)) (s_served s).
Definition set_store (s : state) (d b : map result) : state :=
  mkst (s_count s) d b (s_sess s) (s_closed s) (s_next s) (s_thr s) (s_served s).
Definition set_sess (s : state) (ss : map N) (nx : N) : state :=
  mkst (s_count s) (s_disk s) (s_buf s) ss (s_closed s) nx (s_thr s) (s_served s).
Definition set_closed (s : state) (cl : list N) : state :=
  mkst (s_count s) (s_disk s) (s_buf s) (s_sess s) cl (s_next s) (s_thr s) (s_served s).
Definition add_served (s : state) (l : list (N * coord * bool)) : state :=
  mkst (s_count s) (s_disk s) (s_buf s) (s_sess s) (s_closed s) (s_next s) (s_thr s) (l ++ s_served s).

(** autobatch: Get reads the buffer first; Put buffers and flushes above the threshold; the repaired code flushes after every Put *)
Definition view (s : state) (k : N) : option result :=
  match mget k (s_buf s) with Some v => Some v | None => mget k (s_disk s) end.
Definition ds_flush (s : state) : state := set_store s (mflush (s_buf s) (s_disk s)) [].
Definition ds_put (cf : cfg) (s : state) (k : N) (v : result) : state :=
  let s1 := set_store s (s_disk s) (mset k v (s_buf s)) in
  let s2 := if (c_batch cf <? length (s_buf s1))%nat then ds_flush s1 else s1 in
  if c_flush cf then ds_flush s2 else s2.

(** * Datastore faults.
    [storeResult] = autobatch [Put] (buffer the entry; above the threshold: [Flush]) followed by an explicit [Flush];
    [Flush] = child.Batch(), one batch.Put per buffered entry, buffer := empty, batch.Commit(). Where it can fail:
    - [SfEarly]: in the first flush that runs, before the buffer is emptied (Batch() or a batch.Put fails): nothing becomes
      durable, the buffer keeps everything incl. the new entry;
    - [SfCommit]: in the first flush that runs, at Commit: nothing becomes durable (a failed commit writes nothing), the
      buffer is already empty — the new entry and whatever else was buffered is gone;
    - [SfSecond]: the first flush went through, a second one (explicit Flush after a threshold flush; over an empty buffer)
      fails: everything is durable, the call still returns the error.
    With fix-c03-3 ([c_drop]) the write buffer is emptied after any failed write. *)
Inductive sfail := SfEarly | SfCommit | SfSecond.

Definition ds_put_fail (cf : cfg) (s : state) (k : N) (v : result) (o : sfail) : state :=
  let s1 := set_store s (s_disk s) (mset k v (s_buf s)) in
  let s2 := match o with
            | SfEarly => s1
            | SfCommit => set_store s1 (s_disk s1) []
            | SfSecond => ds_flush s1
            end in
  if c_drop cf then set_store s2 (s_disk s2) [] else s2.

(** autobatch.Get answers from the buffer without touching the child datastore: such a load cannot fail *)
Definition buffered (s : state) (k : N) : bool := match mget k (s_buf s) with Some _ => true | None => false end.

(** the error of the datastore is what the call returns (wrapped with %w by storeResult) *)
Definition fault_verdict (e : errclass) : verdict :=
  match e with ECanceled => VCanceled | EDeadline => VDeadline | _ => VErr end.

Definition total_ok (count w : Z) (res : result) : bool :=
  let t := Z.of_nat (length (r_rem res) + length (r_avail res)) in (t =? count) || (t =? w * w).

Definition after_load (c : N) (res : result) : tstate :=
  match r_rem res with [] => TRel c VOk | _ :: _ => TReq c res end.

Definition nmem (c : N) (l : list N) : bool := existsb (N.eqb c) l.

(** one shared-state access of call [t] *)
Definition step_thread (cf : cfg) (s : state) (t : N) (h : hdr) (ts : tstate) (bs : list Z) (order : list coord) : state :=
  match ts with
  | TInit => if hempty h then set_thr s t (h, TDone VOk)
             else if negb (hwin h) then set_thr s t (h, TDone VOutside)
             else set_thr s t (h, TAcq)
  | TAcq => match mget (hh h) (s_sess s) with
            | Some c => set_thr s t (h, TWait c)
            | None => let c := s_next s in set_thr (set_sess s (mset (hh h) c (s_sess s)) (N.succ c)) t (h, TLoad c)
            end
  | TWait c => if nmem c (s_closed s) then set_thr s t (h, TAcq) else s
  | TLoad c =>
    match view s (hr h) with
    | None => match draw (hw h) (s_count s) bs order with
              | None => s
              | Some cs => let res := mkres [] cs in
                           if c_persist_draw cf then set_thr s t (h, TStore c res) else set_thr s t (h, after_load c res)
              end
    | Some res => if total_ok (s_count s) (hw h) res then set_thr s t (h, after_load c res)
                  else set_thr s t (h, TRel c VErr)
    end
  | TStore c res => set_thr (ds_put cf s (hr h) res) t (h, after_load c res)
  | TReq _ _ => s
  | TRel c v => set_thr (set_closed s (c :: s_closed s)) t (h, TDel c v)
  | TDel c v => set_thr (set_sess s (mdel (hh h) (s_sess s)) (s_next s)) t (h, TDone v)
  | TDone _ => s
  end.

(** GetSamples returned [r] to call [t] which had requested [r_rem res] *)
Definition step_resp (cf : cfg) (s : state) (t : N) (h : hdr) (c : N) (res : result) (r : response) : state :=
  match rs_slots r with
  | [] => set_thr s t (h, TRel c VNotAvailable)
  | _ :: _ =>
    if (length (r_rem res) <? length (rs_slots r))%nat then set_thr s t (h, TRel c VPanic)
    else let af := split_resp (r_rem res) (rs_slots r) in
         let res' := mkres (r_avail res ++ fst af) (snd af) in
         let s1 := ds_put cf (add_served s (served_of (hr h) (r_rem res) (rs_slots r))) (hr h) res' in
         let v := if is_canceled (rs_err r) then VCanceled
                  else match snd af with [] => VOk | _ :: _ => VNotAvailable end in
         set_thr s1 t (h, TRel c v)
  end.

(** the same, but [storeResult] fails ([o]) with an error of class [e]: that error is the verdict *)
Definition step_resp_fail (cf : cfg) (s : state) (t : N) (h : hdr) (c : N) (res : result) (r : response)
           (o : sfail) (e : errclass) : state :=
  match rs_slots r with
  | [] => set_thr s t (h, TRel c VNotAvailable)
  | _ :: _ =>
    if (length (r_rem res) <? length (rs_slots r))%nat then set_thr s t (h, TRel c VPanic)
    else let af := split_resp (r_rem res) (rs_slots r) in
         let res' := mkres (r_avail res ++ fst af) (snd af) in
         let s1 := ds_put_fail cf (add_served s (served_of (hr h) (r_rem res) (rs_slots r))) (hr h) res' o in
         set_thr s1 t (h, TRel c (fault_verdict e))
  end.

Inductive fev :=
| FCall (t : N) (h : hdr)
| FStep (t : N) (bs : list Z) (order : list coord)
| FResp (t : N) (r : response)
| FAbort (t : N) (e : errclass)
| FCrash (count : Z)
| FRestart (count : Z)
| FLoadFail (t : N) (e : errclass)                            (* ds.Get of the previous result fails (not ErrNotFound) *)
| FStoreFail (t : N) (o : sfail) (e : errclass)               (* the eager persist of a fresh draw fails *)
| FRespFail (t : N) (r : response) (o : sfail) (e : errclass). (* the getter answers, the persist of the new result fails *)

Definition new_instance (s : state) (count : Z) : state :=
  mkst count (s_disk s) [] [] (s_closed s) (s_next s) [] (s_served s).

Definition fstep (cf : cfg) (s : state) (e : fev) : state :=
  match e with
  | FCall t h => match mget t (s_thr s) with None => set_thr s t (h, TInit) | Some _ => s end
  | FStep t bs order => match mget t (s_thr s) with Some (h, ts) => step_thread cf s t h ts bs order | None => s end
  | FResp t r => match mget t (s_thr s) with Some (h, TReq c res) => step_resp cf s t h c res r | _ => s end
  | FAbort t e => match mget t (s_thr s) with Some (h, TWait _) => set_thr s t (h, TDone (abort_verdict e)) | _ => s end
  | FCrash n => new_instance s n
  | FRestart n => new_instance (ds_flush s) n
  | FLoadFail t e => match mget t (s_thr s) with
                     | Some (h, TLoad c) => if buffered s (hr h) then s else set_thr s t (h, TRel c (fault_verdict e))
                     | _ => s
                     end
  | FStoreFail t o e => match mget t (s_thr s) with
                        | Some (h, TStore c res) => set_thr (ds_put_fail cf s (hr h) res o) t (h, TRel c (fault_verdict e))
                        | _ => s
                        end
  | FRespFail t r o e => match mget t (s_thr s) with Some (h, TReq c res) => step_resp_fail cf s t h c res r o e | _ => s end
  end.

Definition frun (cf : cfg) (s : state) (es : list fev) : state := fold_left (fstep cf) es s.

(** * Coarse events = what the harness can schedule and observe on the real code *)
Inductive obs := OBlocked | OInGetter (cs : list coord) | OReturned (v : verdict) | OAny.

(** the datastore fault observed while a coarse event ran (at most one: the call returns with it): the load, or the store
    ([order] = the order in which a fresh draw left the Go map, read back from the datastore when the draw survived) *)
Inductive cfault := CfLoad (e : errclass) | CfStore (o : sfail) (e : errclass) (order : list coord).

Inductive cev :=
| CCall (t : N) (hi : nat) (bs : list Z) (o : obs)    (* start the call for header number [hi], let it run until it blocks or returns *)
| CWake (t : N) (bs : list Z) (o : obs)               (* a call that waited for the session got it and ran on *)
| CResp (t : N) (r : response) (o : obs)              (* the getter answers call [t], which then runs to its end *)
| CCallF (t : N) (hi : nat) (bs : list Z) (fl : cfault) (o : obs)   (* the same three, with a datastore fault on the way *)
| CWakeF (t : N) (bs : list Z) (fl : cfault) (o : obs)
| CRespF (t : N) (r : response) (fl : cfault) (o : obs)
| CAbort (t : N) (e : errclass) (o : obs)             (* the context of a waiting call is done *)
| CCrash (count : Z)
| CRestart (count : Z)
| CPersist (r : N) (p : option result).               (* observed durable content under sampling_result/<root> *)

Definition settled (s : state) (t : N) : bool :=
  match mget t (s_thr s) with
  | None => true
  | Some (_, TReq _ _) | Some (_, TDone _) => true
  | Some (_, TWait c) => negb (nmem c (s_closed s))
  | Some _ => false
  end.

Fixpoint advance (cf : cfg) (fuel : nat) (s : state) (t : N) (bs : list Z) (order : list coord) : state :=
  match fuel with
  | O => s
  | S f => if settled s t then s else advance cf f (fstep cf s (FStep t bs order)) t bs order
  end.

(** the event with which call [t] moves on when datastore fault [fl] is scheduled for it *)
Definition fault_event (s : state) (t : N) (bs : list Z) (order : list coord) (fl : cfault) : fev :=
  match mget t (s_thr s), fl with
  | Some (h, TLoad _), CfLoad e => if buffered s (hr h) then FStep t bs order else FLoadFail t e
  | Some (_, TLoad _), CfStore _ _ ord => FStep t bs ord
  | Some (_, TStore _ _), CfStore o e _ => FStoreFail t o e
  | _, _ => FStep t bs order
  end.

Fixpoint advance_f (cf : cfg) (fuel : nat) (s : state) (t : N) (bs : list Z) (order : list coord) (fl : cfault) : state :=
  match fuel with
  | O => s
  | S f => if settled s t then s else advance_f cf f (fstep cf s (fault_event s t bs order fl)) t bs order fl
  end.

Definition status (s : state) (t : N) : obs :=
  match mget t (s_thr s) with
  | Some (_, TReq _ res) => OInGetter (r_rem res)
  | Some (_, TDone v) => OReturned v
  | Some (_, TWait _) => OBlocked
  | _ => OAny
  end.

Definition errclass_eqb (a b : errclass) : bool :=
  match a, b with ENone, ENone | ECanceled, ECanceled | EDeadline, EDeadline | EOther, EOther => true | _, _ => false end.
Definition verdict_eqb (a b : verdict) : bool :=
  match a, b with
  | VOk, VOk | VNotAvailable, VNotAvailable | VCanceled, VCanceled | VDeadline, VDeadline | VOutside, VOutside
  | VErr, VErr | VPanic, VPanic => true
  | _, _ => false
  end.
Fixpoint coords_eqb (a b : list coord) : bool :=
  match a, b with
  | [], [] => true
  | x :: a', y :: b' => coord_eqb x y && coords_eqb a' b'
  | _, _ => false
  end.
Definition result_eqb (a b : result) : bool := coords_eqb (r_avail a) (r_avail b) && coords_eqb (r_rem a) (r_rem b).

(** [obs_match actual expected] *)
Definition obs_match (a e : obs) : bool :=
  match e, a with
  | OAny, _ => true
  | OBlocked, OBlocked => true
  | OInGetter x, OInGetter y => coords_eqb x y
  | OReturned x, OReturned y => verdict_eqb x y
  | _, _ => false
  end.

Definition order_of (o : obs) : list coord := match o with OInGetter cs => cs | _ => [] end.

Definition cstep (cf : cfg) (hs : list hdr) (s : state) (e : cev) : state * bool :=
  match e with
  | CCall t hi bs o =>
    match nth_error hs hi with
    | None => (s, false)
    | Some h => let s' := advance cf 12 (fstep cf s (FCall t h)) t bs (order_of o) in (s', obs_match (status s' t) o)
    end
  | CWake t bs o => let s' := advance cf 12 s t bs (order_of o) in (s', obs_match (status s' t) o)
  | CResp t r o => let s' := advance cf 12 (fstep cf s (FResp t r)) t [] [] in (s', obs_match (status s' t) o)
  | CCallF t hi bs fl o =>
    match nth_error hs hi with
    | None => (s, false)
    | Some h => let s' := advance_f cf 12 (fstep cf s (FCall t h)) t bs (order_of o) fl in (s', obs_match (status s' t) o)
    end
  | CWakeF t bs fl o => let s' := advance_f cf 12 s t bs (order_of o) fl in (s', obs_match (status s' t) o)
  | CRespF t r fl o =>
    let e := match fl with CfStore so se _ => FRespFail t r so se | CfLoad _ => FResp t r end in
    let s' := advance cf 12 (fstep cf s e) t [] [] in (s', obs_match (status s' t) o)
  | CAbort t e o => let s' := fstep cf s (FAbort t e) in (s', obs_match (status s' t) o)
  | CCrash n => (fstep cf s (FCrash n), true)
  | CRestart n => (fstep cf s (FRestart n), true)
  | CPersist r p => (s, match mget r (s_disk s), p with
                        | None, None => true
                        | Some a, Some b => result_eqb a b
                        | _, _ => false
                        end)
  end.

Fixpoint crun (cf : cfg) (hs : list hdr) (s : state) (es : list cev) : bool :=
  match es with
  | [] => true
  | e :: es' => let (s', ok) := cstep cf hs s e in ok && crun cf hs s' es'
  end.

(** one correspondence case: write-batch size of the instance, whether the tree under test drops a failed write from the
    write buffer (fix-c03-3; probed by the harness on the real code), initial sample count, the headers, observed history *)
Definition case := (nat * bool * Z * list hdr * list cev)%type.
Definition agree (c : case) : bool :=
  match c with (batch, drop, count, hs, es) => crun (mkcfg true true batch drop) hs (init count) es end.

(** short names for the generated case files (Coq spends its time parsing them) *)
Definition F : slot := SFull true.
Definition U : slot := SFull false.
Definition E : slot := SEmpty.

Fixpoint mism_from {A} (f : A -> bool) (n : N) (cs : list A) : list N :=
  match cs with
  | [] => []
  | c :: cs' => if f c then mism_from f (N.succ n) cs' else n :: mism_from f (N.succ n) cs'
  end.
Definition mismatches (cs : list case) : list N := mism_from agree 0%N cs.

(** draw correspondence: (w, count, bytes consumed from the scripted crypto/rand.Reader, coordinates the code requested) —
    the model must consume exactly those bytes and draw exactly that set *)
Definition draw_case := (Z * Z * list Z * list coord)%type.
Definition agree_draw (c : draw_case) : bool :=
  match c with
  | (w, count, bs, got) =>
    match select_random_samples w count bs with
    | Some (cs, []) => same_set got cs && nodupb got
    | _ => false
    end
  end.
Definition draw_mismatches (cs : list draw_case) : list N := mism_from agree_draw 0%N cs.

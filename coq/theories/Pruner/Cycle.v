(** C14 — executable model of the prune cycle (pruner/service.go prune, retryFailed, pruneOnHeaderDelete;
    pruner/checkpoint.go lastPruned, updateCheckpoint, resetCheckpoint, load/store) as a labelled transition system
    over the header store of Find.v.  No proofs here (see CycleProofs.v).

    [adv = true] is the code with the fix "the checkpoint advances past every header of the batch, failed ones are
    recorded in the failed set" (branch fix-c14-1); [adv = false] is the code before the fix, where lastPrunedHeader
    only follows successful prunes (kept to state the refuted termination theorem).
    The model also follows fix-c14-2 (stacked on fix-c14-1): when the header store's tail has moved past the checkpoint,
    the checkpoint is put right below the tail and the search hands the tail header back too (see [last_pruned], Find.v
    [prepend]); before it the block at the new tail was skipped for good. *)
From Coq Require Import List ZArith Bool.
From CN Require Import Pruner.Find.
Import ListNotations.
Open Scope Z_scope.

(** * Checkpoint, attempt counters, failure oracle *)
Record cp := mkCp { lp : Z; failed : list Z }.     (* LastPrunedHeight, FailedHeaders (kept as an ascending list) *)

Definition att : Type := list (Z * nat).           (* how often Prune has been called for a height so far *)
Fixpoint att_get (a : att) (h : Z) : nat :=
  match a with [] => O | (k, n) :: r => if k =? h then n else att_get r h end.
Fixpoint att_incr (a : att) (h : Z) : att :=
  match a with
  | [] => [(h, 1%nat)]
  | (k, n) :: r => if k =? h then (k, S n) :: r else (k, n) :: att_incr r h
  end.

(** the environment: does the n-th call Pruner.Prune(h) fail?  Any pattern: none, some, all, transient. *)
Definition oracle : Type := Z -> nat -> bool.

Inductive origin := ORetry | OBatch | OHook.
Record call := mkCall { c_org : origin; c_h : Z; c_t : Z; c_cut : Z; c_ok : bool }.
(* header (height, time) handed to Prune; c_cut = head time - window at that moment; c_ok = Prune returned nil *)

Definition prune1 (F : oracle) (a : att) (h : Z) : bool * att := (negb (F h (att_get a h)), att_incr a h).

(** ascending lists as sets *)
Fixpoint ins (x : Z) (l : list Z) : list Z :=
  match l with
  | [] => [x]
  | y :: r => if x <? y then x :: l else if x =? y then l else y :: ins x r
  end.
Definition rem (x : Z) (l : list Z) : list Z := filter (fun y => negb (y =? x)) l.
Definition mem_z (x : Z) (l : list Z) : bool := existsb (Z.eqb x) l.
Definition union (l add : list Z) : list Z := fold_left (fun acc x => ins x acc) add l.

Record world := mkW { w_st : store; w_mem : cp; w_disk : cp; w_att : att }.
(* header store, in-memory checkpoint, persisted checkpoint, attempt counters *)

Definition cut_of (c : cfg) (st : store) : Z :=
  match head_of st with Some hd => snd hd - window c | None => 0 end.

(** checkpoint.go lastPruned(): the header the cycle starts after.  When the store's tail has moved past the checkpoint the
    checkpoint is put right below the tail (the block at the tail is not pruned yet, fix-c14-2) *)
Definition last_pruned (st : store) (m : cp) : option (hdr * cp) :=
  match tail_of st with
  | None => None
  | Some tl =>
    if fst tl <? lp m
    then match get st (lp m) with Some x => Some (x, m) | None => None end
    else Some (tl, mkCp (if lp m <? fst tl then fst tl - 1 else lp m) (filter (fun h => fst tl <=? h) (failed m)))
  end.

(** retryFailed: every failed height whose header is still in the store is handed to Prune again *)
Fixpoint retry (F : oracle) (st : store) (cut : Z) (fs : list Z) (a : att) : list Z * att * list call :=
  match fs with
  | [] => ([], a, [])
  | h :: r =>
    match get st h with
    | None => let '(keep, a', cs) := retry F st cut r a in (h :: keep, a', cs)
    | Some x =>
      let '(ok, a1) := prune1 F a h in
      let '(keep, a', cs) := retry F st cut r a1 in
      ((if ok then keep else h :: keep), a', mkCall ORetry h (snd x) cut ok :: cs)
    end
  end.

(** one batch: Prune every header; returns failed heights, counters, calls, last successfully pruned header *)
Fixpoint batch (F : oracle) (cut : Z) (hs : list hdr) (a : att) (lastok : option hdr)
  : list Z * att * list call * option hdr :=
  match hs with
  | [] => ([], a, [], lastok)
  | x :: r =>
    let '(ok, a1) := prune1 F a (fst x) in
    let '(fl, a', cs, lo) := batch F cut r a1 (if ok then Some x else lastok) in
    ((if ok then fl else fst x :: fl), a', mkCall OBatch (fst x) (snd x) cut ok :: cs, lo)
  end.

(** the for-loop of prune(): find, prune the batch, updateCheckpoint (memory and disk), repeat while batches are full *)
Fixpoint loop (adv : bool) (F : oracle) (c : cfg) (fuel : nat) (st : store) (lph : hdr) (m d : cp) (a : att)
         (acc : list call) : res (cp * cp * att * list call) :=
  match fuel with
  | O => OutOfFuel
  | S f =>
    match find c st (lp m) lph with
    | OutOfFuel => OutOfFuel
    | Err => Ok (m, d, a, acc)
    | Ok [] => Ok (m, d, a, acc)
    | Ok hs =>
      let '(fl, a', cs, lo) := batch F (cut_of c st) hs a None in
      let lph' := if adv then last hs lph else match lo with Some x => x | None => lph end in
      let m' := mkCp (fst lph') (union (failed m) fl) in
      if Z.of_nat (length hs) <? maxh c then Ok (m', m', a', acc ++ cs)
      else loop adv F c f st lph' m' m' a' (acc ++ cs)
    end
  end.

Definition loop_fuel (st : store) : nat := S (S (length (s_times st))).

(** prune(): one cycle *)
Definition cycle_gen (adv : bool) (F : oracle) (c : cfg) (fuel : nat) (w : world) : res (world * list call) :=
  let st := w_st w in
  match last_pruned st (w_mem w) with
  | None => Ok (w, [])
  | Some (lph, m1) =>
    let '(fs, a1, cs1) := retry F st (cut_of c st) (failed m1) (w_att w) in
    match loop adv F c fuel st lph (mkCp (lp m1) fs) (w_disk w) a1 cs1 with
    | Ok (m, d, a, cs) => Ok (mkW st m d a, cs)
    | Err => Err
    | OutOfFuel => OutOfFuel
    end
  end.

Definition cycle (F : oracle) (c : cfg) (w : world) : res (world * list call) :=
  cycle_gen true F c (loop_fuel (w_st w)) w.

(** * Events *)
Inductive event :=
| ECycle                           (* prune() *)
| EAppend (ts : list Z)            (* the header store's head advances by these block times *)
| EDelete (h : Z) (inner : bool)   (* pruneOnHeaderDelete(h); [inner]: a whole cycle runs while its Prune call is executing
                                      (the hook does not hold the mutex there) *)
| EDrop                            (* the header store removes its tail header *)
| ERestart                         (* Stop (persists the checkpoint), new Service on the same datastore, Start (loads it and
                                      runs a cycle) *)
| ECrash                           (* the same without the Stop: in-memory changes that were not persisted are lost *)
| EReset.                          (* ResetCheckpoint (archival -> pruned conversion) *)

Definition set_mem (w : world) (m : cp) : world := mkW (w_st w) m (w_disk w) (w_att w).

Definition exec (F : oracle) (c : cfg) (w : world) (e : event) : res (world * list call) :=
  match e with
  | ECycle => cycle F c w
  | EAppend ts => Ok (mkW (mkStore (s_tail (w_st w)) (s_times (w_st w) ++ ts)) (w_mem w) (w_disk w) (w_att w), [])
  | EDrop =>
    match s_times (w_st w) with
    | _ :: (_ :: _) as r => Ok (mkW (mkStore (s_tail (w_st w) + 1) r) (w_mem w) (w_disk w) (w_att w), [])
    | _ => Ok (w, [])
    end
  | ERestart => cycle F c (mkW (w_st w) (w_mem w) (w_mem w) (w_att w))
  | ECrash => cycle F c (mkW (w_st w) (w_disk w) (w_disk w) (w_att w))
  | EReset =>
    match tail_of (w_st w) with
    | None => Ok (w, [])
    | Some tl => let m := mkCp (fst tl) [] in Ok (mkW (w_st w) m m (w_att w), [])
    end
  | EDelete h inner =>
    let m := w_mem w in
    let m1 := mkCp (lp m) (rem h (failed m)) in
    if h <=? lp m1 then Ok (set_mem w m1, [])
    else match get (w_st w) h with
         | None => Ok (set_mem w m1, [])
         | Some x =>
           let '(ok, a1) := prune1 F (w_att w) h in
           let c0 := mkCall OHook h (snd x) (cut_of c (w_st w)) ok in
           let w1 := mkW (w_st w) m1 (w_disk w) a1 in
           match (if inner then cycle F c w1 else Ok (w1, [])) with
           | Ok (w2, cs) =>
             let w3 := if ok && negb (h <=? lp (w_mem w2)) then set_mem w2 (mkCp h (failed (w_mem w2))) else w2 in
             Ok (w3, c0 :: cs)
           | Err => Err
           | OutOfFuel => OutOfFuel
           end
         end
  end.

(** state after NewService + loadCheckpoint on an empty datastore (resetCheckpoint): the checkpoint is the store's tail.
    The cycle that Start runs right away is the first [ECycle] of a history. *)
Definition init (st : store) : world :=
  let m := mkCp (s_tail st) [] in mkW st m m [].

(** total step function (the [OutOfFuel]/[Err] branches are shown unreachable in CycleProofs.v) and the trace of calls *)
Definition step (F : oracle) (c : cfg) (wt : world * list call) (e : event) : world * list call :=
  match exec F c (fst wt) e with
  | Ok (w', cs) => (w', snd wt ++ cs)
  | _ => wt
  end.

(** * Correspondence cases: one case = one history on the real pruner.Service *)
Definition table : Type := list (Z * (list bool * bool)).
Fixpoint tbl_get (t : table) (h : Z) : option (list bool * bool) :=
  match t with [] => None | (k, v) :: r => if k =? h then Some v else tbl_get r h end.
Definition tbl_oracle (t : table) (dflt : bool) : oracle :=
  fun h n => match tbl_get t h with Some (l, d) => nth n l d | None => dflt end.

(* observed after one event: calls (height, ok) in call order; memory checkpoint; persisted checkpoint *)
Definition obs : Type := (list (Z * bool) * (Z * list Z) * (Z * list Z))%type.
Definition case : Type := (cfg * store * table * bool * list (event * obs))%type.

Fixpoint isort (l : list (Z * bool)) : list (Z * bool) :=
  match l with
  | [] => []
  | x :: r => (fix insert (y : Z * bool) (s : list (Z * bool)) :=
                 match s with
                 | [] => [y]
                 | z :: s' => if fst y <=? fst z then y :: s else z :: insert y s'
                 end) x (isort r)
  end.

Definition pair_eqb (x y : Z * bool) : bool := (fst x =? fst y) && Bool.eqb (snd x) (snd y).
Fixpoint list_eqb {A} (eqb : A -> A -> bool) (x y : list A) : bool :=
  match x, y with
  | [], [] => true
  | a :: x', b :: y' => eqb a b && list_eqb eqb x' y'
  | _, _ => false
  end.
Definition cp_eqb (m : cp) (o : Z * list Z) : bool := (lp m =? fst o) && list_eqb Z.eqb (failed m) (snd o).

Definition is_retry (x : call) : bool := match c_org x with ORetry => true | _ => false end.
Definition is_hook (x : call) : bool := match c_org x with OHook => true | _ => false end.
Definition proj (x : call) : Z * bool := (c_h x, c_ok x).

Fixpoint take_while {A} (p : A -> bool) (l : list A) : list A :=
  match l with [] => [] | x :: r => if p x then x :: take_while p r else [] end.

(** calls of a cycle: the retry block is compared as a set (Go iterates a map), the batches in order *)
Definition calls_cycle_eqb (ms : list call) (os : list (Z * bool)) : bool :=
  let k := length (take_while is_retry ms) in
  list_eqb pair_eqb (isort (map proj (firstn k ms))) (isort (firstn k os)) &&
  list_eqb pair_eqb (map proj (skipn k ms)) (skipn k os).
Definition calls_eqb (ms : list call) (os : list (Z * bool)) : bool :=
  match ms, os with
  | m0 :: ms', o0 :: os' => if is_hook m0 then pair_eqb (proj m0) o0 && calls_cycle_eqb ms' os' else calls_cycle_eqb ms os
  | _, _ => calls_cycle_eqb ms os
  end.

Fixpoint replay (F : oracle) (c : cfg) (w : world) (es : list (event * obs)) : bool :=
  match es with
  | [] => true
  | (e, (ocalls, omem, odisk)) :: r =>
    match exec F c w e with
    | Ok (w', cs) => calls_eqb cs ocalls && cp_eqb (w_mem w') omem && cp_eqb (w_disk w') odisk && replay F c w' r
    | _ => false
    end
  end.

Definition agree (x : case) : bool :=
  let '(c, st, t, dflt, es) := x in replay (tbl_oracle t dflt) c (init st) es.

Fixpoint mism_from (n : N) (cs : list case) : list N :=
  match cs with
  | [] => []
  | x :: r => if agree x then mism_from (N.succ n) r else n :: mism_from (N.succ n) r
  end.
Definition mismatches (cs : list case) : list N := mism_from 0%N cs.

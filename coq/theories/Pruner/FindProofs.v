(** C14 — facts about findPruneableHeaders (model Find.v), for every store, window, block time and batch limit. *)
From Coq Require Import List ZArith Bool Lia.
From CN Require Import Pruner.Find.
Import ListNotations.
Open Scope Z_scope.

(** * the store *)
Definition in_store (st : store) (x : hdr) : Prop := get st (fst x) = Some x.

Lemma get_some st h x : get st h = Some x ->
  fst x = h /\ s_tail st <= h <= s_headH st /\ nth_error (s_times st) (Z.to_nat (h - s_tail st)) = Some (snd x).
Proof.
  unfold get. destruct (andb _ _) eqn:E; [|discriminate].
  apply andb_true_iff in E. destruct E as [E1 E2]. apply Z.leb_le in E1. apply Z.leb_le in E2.
  destruct (nth_error _ _) eqn:N; [|discriminate]. intros H; inversion H; subst. simpl. auto.
Qed.

Lemma get_fst st h x : get st h = Some x -> fst x = h.
Proof. intros H. apply get_some in H. tauto. Qed.

Lemma get_in_store st h x : get st h = Some x -> in_store st x.
Proof. intros H. unfold in_store. rewrite (get_fst _ _ _ H). exact H. Qed.

Lemma get_range_h st h x : get st h = Some x -> s_tail st <= h <= s_headH st.
Proof. intros H. apply get_some in H. tauto. Qed.

Lemma get_inside st h : s_tail st <= h <= s_headH st -> exists x, get st h = Some x.
Proof.
  intros Hh. unfold get.
  assert (E : (s_tail st <=? h) && (h <=? s_headH st) = true).
  { apply andb_true_iff. split; apply Z.leb_le; lia. }
  rewrite E. destruct (nth_error (s_times st) (Z.to_nat (h - s_tail st))) eqn:N; [eauto|].
  apply nth_error_None in N. unfold s_headH, s_len in Hh. lia.
Qed.

Lemma head_of_some st hd : head_of st = Some hd -> in_store st hd /\ fst hd = s_headH st.
Proof.
  unfold head_of. destruct (s_times st) eqn:E; [discriminate|]. intros H.
  split; [eapply get_in_store; eauto | eapply get_fst; eauto].
Qed.

Lemma tail_of_some st tl : tail_of st = Some tl -> in_store st tl /\ fst tl = s_tail st.
Proof.
  unfold tail_of. destruct (s_times st) eqn:E; [discriminate|]. intros H.
  split; [eapply get_in_store; eauto | eapply get_fst; eauto].
Qed.

Lemma head_of_nonempty st x : in_store st x -> exists hd, head_of st = Some hd.
Proof.
  intros H. apply get_range_h in H. unfold head_of.
  destruct (s_times st) eqn:E.
  - unfold s_headH, s_len in H. rewrite E in H. simpl in H. lia.
  - apply get_inside. unfold s_headH, s_len in *. rewrite E in *. simpl length in *. lia.
Qed.

(** consecutive heights *)
Fixpoint zseq (a : Z) (n : nat) : list Z := match n with O => [] | S n' => a :: zseq (a + 1) n' end.

Lemma zseq_length a n : length (zseq a n) = n.
Proof. revert a. induction n; simpl; intros; [reflexivity|]. now rewrite IHn. Qed.

Lemma zseq_app a n m : zseq a (n + m) = zseq a n ++ zseq (a + Z.of_nat n) m.
Proof.
  revert a. induction n; intros a; simpl.
  - f_equal. lia.
  - f_equal. rewrite IHn. f_equal. f_equal. lia.
Qed.

Lemma zseq_in a n h : In h (zseq a n) <-> a <= h < a + Z.of_nat n.
Proof.
  revert a. induction n; intros a; simpl.
  - lia.
  - rewrite IHn. lia.
Qed.

Lemma zseq_firstn a n k : firstn k (zseq a n) = zseq a (Nat.min k n).
Proof.
  revert a k. induction n; intros a k; simpl.
  - rewrite firstn_nil. now rewrite Nat.min_0_r.
  - destruct k; simpl; [reflexivity|]. now rewrite IHn.
Qed.

(** a list of store headers with consecutive heights starting at [a] *)
Definition consec (st : store) (a : Z) (hs : list hdr) : Prop :=
  map fst hs = zseq a (length hs) /\ Forall (in_store st) hs.

Lemma consec_nil st a : consec st a [].
Proof. split; [reflexivity|constructor]. Qed.

Lemma consec_cons st a x r : in_store st x -> fst x = a -> consec st (a + 1) r -> consec st a (x :: r).
Proof.
  intros Hx Ha [H1 H2]. split; simpl; [now rewrite Ha, H1 | now constructor].
Qed.

Lemma consec_cons_inv st a x r : consec st a (x :: r) -> in_store st x /\ fst x = a /\ consec st (a + 1) r.
Proof.
  intros [H1 H2]. simpl in H1. inversion H1. inversion H2; subst. repeat split; auto.
Qed.

Lemma consec_snoc st a hs x :
  consec st a hs -> in_store st x -> fst x = a + Z.of_nat (length hs) -> consec st a (hs ++ [x]).
Proof.
  intros [H1 H2] Hx Hf. split.
  - rewrite map_app, app_length, zseq_app. rewrite <- H1. simpl. now rewrite Hf.
  - apply Forall_app. split; [assumption|]. now constructor.
Qed.

Lemma in_firstn {A} (x : A) k l : In x (firstn k l) -> In x l.
Proof.
  revert k. induction l as [|y r IH]; intros k; [now rewrite firstn_nil|].
  destruct k; simpl; [tauto|]. intros [H|H]; [now left|right; eauto].
Qed.

Lemma consec_firstn st a hs k : consec st a hs -> consec st a (firstn k hs).
Proof.
  intros [H1 H2]. split.
  - rewrite <- firstn_map, H1, zseq_firstn, firstn_length. reflexivity.
  - apply Forall_forall. intros x Hx. rewrite Forall_forall in H2. apply H2. eapply in_firstn; eauto.
Qed.

Lemma consec_in st a hs x : consec st a hs -> In x hs -> in_store st x /\ a <= fst x < a + Z.of_nat (length hs).
Proof.
  intros [H1 H2] Hx. split; [rewrite Forall_forall in H2; auto|].
  apply zseq_in. rewrite <- H1. now apply in_map.
Qed.

Lemma consec_last st a hs d : consec st a hs -> hs <> [] -> fst (last hs d) = a + Z.of_nat (length hs) - 1.
Proof.
  revert a. induction hs as [|x r IH]; intros a Hc Hne; [congruence|].
  apply consec_cons_inv in Hc. destruct Hc as (Hx & Ha & Hr).
  destruct r as [|y r'].
  - simpl. lia.
  - change (last (x :: y :: r') d) with (last (y :: r') d). rewrite (IH (a + 1)); [|assumption|discriminate].
    simpl length. lia.
Qed.

Lemma consec_covers st a hs h : consec st a hs -> a <= h < a + Z.of_nat (length hs) -> exists x, In x hs /\ fst x = h.
Proof.
  intros [H1 _] Hh. apply zseq_in in Hh. rewrite <- H1 in Hh. apply in_map_iff in Hh.
  destruct Hh as (x & E & I). eauto.
Qed.

(** * get_seq / get_range *)
Lemma get_seq_consec st a n hs : get_seq st a n = Some hs -> consec st a hs /\ length hs = n.
Proof.
  revert a hs. induction n; intros a hs; simpl.
  - intros H; inversion H; subst. split; [apply consec_nil|reflexivity].
  - destruct (get st a) eqn:G; [|discriminate]. destruct (get_seq st (a + 1) n) eqn:S; [|discriminate].
    intros H; inversion H; subst. destruct (IHn _ _ S) as [C L]. split.
    + apply consec_cons; [eapply get_in_store; eauto | eapply get_fst; eauto | assumption].
    + simpl. now rewrite L.
Qed.

Lemma get_seq_total st a n : s_tail st <= a -> a + Z.of_nat n - 1 <= s_headH st -> exists hs, get_seq st a n = Some hs.
Proof.
  revert a. induction n; intros a H1 H2; simpl; [eauto|].
  destruct (get_inside st a) as [x Hx]; [lia|]. rewrite Hx.
  destruct (IHn (a + 1)) as [r Hr]; [lia|lia|]. rewrite Hr. eauto.
Qed.

(** * take_le *)
Lemma take_le_le cut hs : Forall (fun x => snd x <= cut) (take_le cut hs).
Proof.
  induction hs as [|x r IH]; simpl; [constructor|].
  destruct (cut <? snd x) eqn:E; [constructor|]. apply Z.ltb_ge in E. now constructor.
Qed.

Lemma take_le_prefix cut hs : exists k, take_le cut hs = firstn k hs.
Proof.
  induction hs as [|x r [k IH]]; simpl.
  - exists O. reflexivity.
  - destruct (cut <? snd x); [exists O; reflexivity|]. exists (S k). simpl. now rewrite IH.
Qed.

Lemma take_le_stop cut hs : (length (take_le cut hs) < length hs)%nat ->
  exists x, nth_error hs (length (take_le cut hs)) = Some x /\ cut < snd x.
Proof.
  induction hs as [|x r IH]; simpl; [lia|].
  destruct (cut <? snd x) eqn:E.
  - intros _. exists x. simpl. apply Z.ltb_lt in E. auto.
  - simpl. intros H. apply IH. lia.
Qed.

Lemma take_le_all cut hs : Forall (fun x => snd x <= cut) hs -> take_le cut hs = hs.
Proof.
  induction 1 as [|x r Hx _ IH]; simpl; [reflexivity|].
  destruct (cut <? snd x) eqn:E; [apply Z.ltb_lt in E; lia|]. now rewrite IH.
Qed.

(** * the extension loop *)
Lemma last_cons_default {A} (r : list A) : forall x d, last (x :: r) d = last r x.
Proof.
  induction r as [|y r IH]; intros x d; [reflexivity|].
  change (last (x :: y :: r) d) with (last (y :: r) d). rewrite (IH y d), (IH y x). reflexivity.
Qed.

Lemma last_opt_some {A} (l : list A) d : l <> [] -> last_opt l = Some (last l d).
Proof.
  destruct l as [|x r]; [congruence|]. intros _. simpl last_opt. now rewrite last_cons_default.
Qed.

Lemma last_opt_none {A} (l : list A) : last_opt l = None -> l = [].
Proof. destruct l; [reflexivity|discriminate]. Qed.

Lemma last_opt_snoc {A} (l : list A) x : last_opt (l ++ [x]) = Some x.
Proof.
  rewrite (last_opt_some _ x); [now rewrite last_last|]. destruct l; discriminate.
Qed.

(** never out of fuel when the fuel exceeds the number of headers above the last one; the result keeps consecutiveness *)
Lemma extend_ok c st cut : forall fuel hs a,
  consec st a hs -> hs <> [] ->
  (Z.to_nat (s_headH st - (a + Z.of_nat (length hs) - 1)) < fuel)%nat ->
  extend fuel c st cut hs <> OutOfFuel.
Proof.
  induction fuel as [|f IH]; intros hs a Hc Hne Hf; [lia|].
  simpl. destruct (maxh c <? Z.of_nat (length hs)); [discriminate|].
  rewrite (last_opt_some _ (0, 0) Hne).
  destruct (cut <? snd (last hs (0, 0))); [discriminate|].
  destruct (get st (fst (last hs (0, 0)) + 1)) as [nx|] eqn:G; [|discriminate].
  pose proof (consec_last _ _ _ (0, 0) Hc Hne) as HL.
  pose proof (get_range_h _ _ _ G) as HR. pose proof (get_fst _ _ _ G) as HF.
  apply (IH _ a).
  - apply consec_snoc; [assumption|eapply get_in_store; eauto|lia].
  - destruct hs; discriminate.
  - rewrite app_length. simpl. lia.
Qed.

Lemma extend_consec c st cut : forall fuel hs a r,
  consec st a hs -> extend fuel c st cut hs = Ok r -> consec st a r.
Proof.
  induction fuel as [|f IH]; intros hs a r Hc; [discriminate|].
  simpl. destruct (maxh c <? Z.of_nat (length hs)).
  - intros H; inversion H; subst. now apply consec_firstn.
  - destruct (last_opt hs) as [l|] eqn:L; [|discriminate].
    destruct (cut <? snd l); [intros H; inversion H; subst; assumption|].
    destruct (get st (fst l + 1)) as [nx|] eqn:G; [|discriminate].
    apply IH. assert (hs <> []) by (intro; subst; discriminate).
    rewrite (last_opt_some _ (0, 0)) in L by assumption. inversion L; subst.
    pose proof (consec_last _ _ _ (0, 0) Hc H) as HL.
    apply consec_snoc; [assumption|eapply get_in_store; eauto|]. rewrite (get_fst _ _ _ G). lia.
Qed.

(** what the extension loop guarantees about its result: either it is cut at the batch limit, or its last header is newer
    than the cutoff *)
Lemma extend_result c st cut : forall fuel hs r,
  0 <= maxh c -> extend fuel c st cut hs = Ok r ->
  Z.of_nat (length r) = maxh c \/ (exists l, last_opt r = Some l /\ cut < snd l).
Proof.
  induction fuel as [|f IH]; intros hs r Hm; [discriminate|].
  simpl. destruct (maxh c <? Z.of_nat (length hs)) eqn:E.
  - intros H; inversion H; subst. left. apply Z.ltb_lt in E. rewrite firstn_length. lia.
  - destruct (last_opt hs) as [l|] eqn:L; [|discriminate].
    destruct (cut <? snd l) eqn:C.
    + intros H; inversion H; subst. right. exists l. apply Z.ltb_lt in C. auto.
    + destruct (get st (fst l + 1)); [|discriminate]. apply IH. assumption.
Qed.

Lemma extend_length c st cut : forall fuel hs r,
  0 <= maxh c -> extend fuel c st cut hs = Ok r -> Z.of_nat (length r) <= maxh c.
Proof.
  induction fuel as [|f IH]; intros hs r Hm; [discriminate|].
  simpl. destruct (maxh c <? Z.of_nat (length hs)) eqn:E.
  - intros H; inversion H; subst. rewrite firstn_length. lia.
  - destruct (last_opt hs) as [l|] eqn:L; [|discriminate].
    destruct (cut <? snd l) eqn:C.
    + intros H; inversion H; subst. apply Z.ltb_ge in E. assumption.
    + destruct (get st (fst l + 1)); [|discriminate]. apply IH. assumption.
Qed.

(** with a positive window the head is newer than the cutoff, so the loop never runs past the head *)
Lemma extend_no_err c st cut hd : forall fuel hs a,
  head_of st = Some hd -> cut < snd hd ->
  consec st a hs -> hs <> [] -> extend fuel c st cut hs <> Err.
Proof.
  induction fuel as [|f IH]; intros hs a Hh Hc Hcs Hne; [discriminate|].
  simpl. destruct (maxh c <? Z.of_nat (length hs)); [discriminate|].
  rewrite (last_opt_some _ (0, 0) Hne).
  destruct (cut <? snd (last hs (0, 0))) eqn:C; [discriminate|]. apply Z.ltb_ge in C.
  assert (HL : In (last hs (0, 0)) hs).
  { destruct hs as [|x r]; [congruence|]. rewrite (app_removelast_last (0, 0) Hne) at 2. apply in_or_app. right. now left. }
  destruct (consec_in _ _ _ _ Hcs HL) as [HI _].
  destruct (head_of_some _ _ Hh) as [HdI HdF].
  assert (fst (last hs (0, 0)) <> s_headH st).
  { intros E. unfold in_store in HI, HdI. rewrite E, <- HdF, HdI in HI. inversion HI as [E2]. rewrite <- E2 in C. lia. }
  pose proof (get_range_h _ _ _ HI) as HR.
  destruct (get_inside st (fst (last hs (0, 0)) + 1)) as [nx G]; [lia|]. rewrite G.
  pose proof (consec_last _ _ _ (0, 0) Hcs Hne) as HLh.
  apply (IH _ a); auto.
  - apply consec_snoc; [assumption|eapply get_in_store; eauto|]. rewrite (get_fst _ _ _ G). lia.
  - destruct hs; discriminate.
Qed.

(** * findPruneableHeaders *)
Definition first_h (ck : Z) (lp : hdr) : Z := if prepend ck lp then fst lp else fst lp + 1.

Lemma start_consec st ck lp hs0 :
  in_store st lp -> consec st (fst lp + 1) hs0 -> consec st (first_h ck lp) (if prepend ck lp then lp :: hs0 else hs0).
Proof.
  intros Hlp C0. unfold first_h. destruct (prepend ck lp); [|assumption].
  apply consec_cons; [assumption|reflexivity|assumption].
Qed.

Lemma start_nonempty ck lp (hs0 : list hdr) : hs0 <> [] -> (if prepend ck lp then lp :: hs0 else hs0) <> [].
Proof. intros H. destruct (prepend ck lp); [discriminate|assumption]. Qed.

Lemma first_h_range ck lp : fst lp <= first_h ck lp <= fst lp + 1.
Proof. unfold first_h. destruct (prepend ck lp); lia. Qed.

Lemma est_le_head c lp cut headH : est_cutoff c lp cut headH <= headH \/ est_cutoff c lp cut headH <= fst lp.
Proof.
  unfold est_cutoff.
  destruct (headH <? fst lp + (cut - snd lp) ÷ btime c) eqn:E1;
  [apply Z.ltb_lt in E1|apply Z.ltb_ge in E1];
  match goal with |- context [if ?b then _ else _] => destruct b eqn:E2 end;
  try apply Z.ltb_lt in E2; try apply Z.ltb_ge in E2; lia.
Qed.

Lemma est_le_max c lp cut headH : 0 <= maxh c -> est_cutoff c lp cut headH - fst lp <= maxh c.
Proof.
  intros Hm. unfold est_cutoff.
  match goal with |- context [if maxh c <? ?e then _ else _] => destruct (maxh c <? e) eqn:E2 end;
  [apply Z.ltb_lt in E2|apply Z.ltb_ge in E2]; lia.
Qed.

(** the shape of every result: store headers of consecutive heights right after lastPruned (from lastPruned itself at
    height 1), none newer than the cutoff, at most the batch limit *)
Lemma find_shape c st ck lp hd hs :
  in_store st lp -> head_of st = Some hd -> find c st ck lp = Ok hs ->
  consec st (first_h ck lp) hs /\ Forall (fun x => snd x <= snd hd - window c) hs.
Proof.
  intros Hlp Hh. unfold find. rewrite Hh.
  destruct (negb (snd lp <? snd hd - window c)); [intros H; inversion H; split; [apply consec_nil|constructor]|].
  destruct (est_cutoff c lp (snd hd - window c) (fst hd) <=? fst lp); [intros H; inversion H; split; [apply consec_nil|constructor]|].
  unfold get_range.
  destruct (est_cutoff c lp (snd hd - window c) (fst hd) + 1 <=? fst lp + 1); [discriminate|].
  destruct (get_seq st (fst lp + 1) _) as [hs0|] eqn:G; [|discriminate].
  destruct (get_seq_consec _ _ _ _ G) as [C0 _].
  destruct (extend _ c st _ _) as [r| |] eqn:E; try discriminate.
  intros H; inversion H; subst. split; [|apply take_le_le].
  pose proof (start_consec st ck lp hs0 Hlp C0) as C1.
  pose proof (extend_consec _ _ _ _ _ _ _ C1 E) as C2.
  destruct (take_le_prefix (snd hd - window c) r) as [k ->]. now apply consec_firstn.
Qed.

Lemma find_length c st ck lp hs : 0 <= maxh c -> find c st ck lp = Ok hs -> Z.of_nat (length hs) <= maxh c.
Proof.
  intros Hm. unfold find. destruct (head_of st) as [hd|]; [|discriminate].
  destruct (negb _); [intros H; inversion H; simpl; lia|].
  destruct (_ <=? fst lp); [intros H; inversion H; simpl; lia|].
  destruct (get_range _ _ _); [|discriminate].
  destruct (extend _ c st _ _) as [r| |] eqn:E; try discriminate.
  intros H; inversion H; subst. pose proof (extend_length _ _ _ _ _ _ Hm E).
  destruct (take_le_prefix (snd hd - window c) r) as [k ->]. rewrite firstn_length. lia.
Qed.

(** the search itself always terminates *)
Lemma find_no_oof c st ck lp : in_store st lp -> find c st ck lp <> OutOfFuel.
Proof.
  intros Hlp. unfold find. destruct (head_of st) as [hd|] eqn:Hh; [|discriminate].
  destruct (negb _); [discriminate|].
  destruct (_ <=? fst lp) eqn:E0; [discriminate|]. apply Z.leb_gt in E0.
  unfold get_range. destruct (_ <=? fst lp + 1); [discriminate|].
  destruct (get_seq st (fst lp + 1) _) as [hs0|] eqn:G; [|discriminate].
  destruct (get_seq_consec _ _ _ _ G) as [C0 L0].
  pose proof (start_consec st ck lp hs0 Hlp C0) as C1.
  assert (Hne : (if prepend ck lp then lp :: hs0 else hs0) <> []).
  { apply start_nonempty. intros ->. simpl in L0. lia. }
  pose proof (extend_ok c st (snd hd - window c) (find_fuel st) _ _ C1 Hne) as X.
  destruct (extend _ c st _ _) eqn:E; try discriminate. exfalso. apply X; [|reflexivity].
  pose proof (get_range_h _ _ _ Hlp) as HR. unfold first_h, find_fuel. unfold s_headH, s_len in *.
  destruct (prepend ck lp); simpl length; lia.
Qed.

(** with a positive window and a last-pruned header of the store the search does not fail *)
Lemma find_no_err c st ck lp : 0 < window c -> in_store st lp -> find c st ck lp <> Err.
Proof.
  intros Hw Hlp. unfold find.
  destruct (head_of_nonempty _ _ Hlp) as [hd Hh]. rewrite Hh.
  destruct (negb _); [discriminate|].
  destruct (_ <=? fst lp) eqn:E0; [discriminate|]. apply Z.leb_gt in E0.
  destruct (head_of_some _ _ Hh) as [HdI HdF].
  pose proof (get_range_h _ _ _ Hlp) as HR.
  destruct (est_le_head c lp (snd hd - window c) (fst hd)) as [HE|HE]; [|lia].
  unfold get_range. destruct (_ <=? fst lp + 1) eqn:E1; [apply Z.leb_le in E1; lia|].
  destruct (get_seq_total st (fst lp + 1) (Z.to_nat (est_cutoff c lp (snd hd - window c) (fst hd) + 1 - (fst lp + 1)))) as [hs0 G]; [lia|lia|].
  rewrite G. destruct (get_seq_consec _ _ _ _ G) as [C0 L0].
  pose proof (start_consec st ck lp hs0 Hlp C0) as C1.
  assert (Hne : (if prepend ck lp then lp :: hs0 else hs0) <> []).
  { apply start_nonempty. intros ->. simpl in L0. lia. }
  pose proof (extend_no_err c st (snd hd - window c) hd (find_fuel st) _ _ Hh ltac:(lia) C1 Hne) as X.
  destruct (extend _ c st _ _); try discriminate. congruence.
Qed.

(** times never decrease with the height *)
Definition sorted_st (st : store) : Prop :=
  forall x y, in_store st x -> in_store st y -> fst x <= fst y -> snd x <= snd y.

Lemma in_store_inj st x y : in_store st x -> in_store st y -> fst x = fst y -> x = y.
Proof. unfold in_store. intros Hx Hy E. rewrite E in Hx. congruence. Qed.

(** completeness: when the batch is not full, no header above it is older than the cutoff by more than one block time.
    [upto] is the last height dealt with: the end of the batch, or - when nothing was found - the height before the first
    candidate (lastPruned itself, or the one before it when lastPruned is a candidate too) *)
Definition upto (ck : Z) (lp : hdr) (hs : list hdr) : Z :=
  match hs with [] => first_h ck lp - 1 | _ => fst (last hs lp) end.

Lemma find_complete c st ck lp hd hs :
  sorted_st st -> 0 < window c -> 0 < btime c -> 1 <= maxh c ->
  in_store st lp -> head_of st = Some hd -> find c st ck lp = Ok hs ->
  Z.of_nat (length hs) < maxh c ->
  forall x, in_store st x -> upto ck lp hs < fst x -> snd hd - window c <= snd x + btime c.
Proof.
  intros Hs Hw Hb Hm Hlp Hh Hf Hlen x Hx Hgt.
  pose proof (first_h_range ck lp) as FR.
  pose proof (find_shape _ _ _ _ _ _ Hlp Hh Hf) as [Csh _].
  revert Hf. unfold find. rewrite Hh. set (cut := snd hd - window c) in *.
  destruct (snd lp <? cut) eqn:E0; cbn [negb].
  2:{ intros H; inversion H; subst. unfold upto in Hgt. apply Z.ltb_ge in E0.
      pose proof (Hs lp x Hlp Hx ltac:(lia)). lia. }
  apply Z.ltb_lt in E0.
  destruct (est_cutoff c lp cut (fst hd) <=? fst lp) eqn:E1.
  { intros H; inversion H; subst. unfold upto in Hgt. apply Z.leb_le in E1.
    destruct (head_of_some _ _ Hh) as [HdI HdF]. pose proof (get_range_h _ _ _ Hx) as HRx.
    pose proof (Hs lp x Hlp Hx ltac:(lia)).
    assert (Hhead : fst hd <= fst lp -> False).
    { intros Hle. pose proof (get_range_h _ _ _ Hlp). assert (hd = lp) by (apply (in_store_inj st); auto; lia). subst hd. unfold cut in E0. lia. }
    unfold est_cutoff in E1.
    destruct (fst hd <? fst lp + (cut - snd lp) ÷ btime c) eqn:E2;
    [apply Z.ltb_lt in E2|apply Z.ltb_ge in E2].
    - destruct (maxh c <? fst hd - fst lp) eqn:E3; [apply Z.ltb_lt in E3|apply Z.ltb_ge in E3]; lia.
    - destruct (maxh c <? fst lp + (cut - snd lp) ÷ btime c - fst lp) eqn:E3;
      [apply Z.ltb_lt in E3|apply Z.ltb_ge in E3]; [lia|].
      assert (Q : (cut - snd lp) ÷ btime c <= 0) by lia.
      assert (cut - snd lp < btime c).
      { destruct (Z_lt_ge_dec (cut - snd lp) (btime c)); [assumption|].
        assert (1 <= (cut - snd lp) ÷ btime c); [|lia].
        rewrite Z.quot_div_nonneg by lia. apply Z.div_le_lower_bound; lia. }
      lia. }
  destruct (get_range _ _ _) as [hs0|] eqn:G; [|discriminate].
  match goal with |- context [extend ?f c st cut ?l] => destruct (extend f c st cut l) as [r| |] eqn:E end; try discriminate.
  intros H; inversion H as [Hhs]. clear H.
  assert (C1 : consec st (first_h ck lp) (if prepend ck lp then lp :: hs0 else hs0)).
  { unfold get_range in G. destruct (_ <=? fst lp + 1); [discriminate|].
    destruct (get_seq_consec _ _ _ _ G) as [C0 L0]. now apply start_consec. }
  pose proof (extend_consec _ _ _ _ _ _ _ C1 E) as C2.
  assert (Hshort : (length (take_le cut r) < length r)%nat).
  { assert (Hm0 : 0 <= maxh c) by lia.
    destruct (extend_result _ _ _ _ _ _ Hm0 E) as [HL|[l [HL Hc]]].
    - rewrite Hhs. lia.
    - destruct (Nat.lt_ge_cases (length (take_le cut r)) (length r)) as [|Hge]; [assumption|exfalso].
      destruct (take_le_prefix cut r) as [k Hk].
      assert (take_le cut r = r).
      { rewrite Hk in *. rewrite firstn_length in Hge. rewrite firstn_all2; [reflexivity|lia]. }
      pose proof (take_le_le cut r) as HF. rewrite H in HF.
      assert (r <> []) by (intro; subst; discriminate).
      rewrite (last_opt_some _ (0, 0)) in HL by assumption. inversion HL; subst.
      rewrite Forall_forall in HF. specialize (HF (last r (0, 0))).
      assert (In (last r (0, 0)) r).
      { rewrite (app_removelast_last (0, 0) H0) at 2. apply in_or_app. right. now left. }
      specialize (HF H1). lia. }
  destruct (take_le_stop cut r Hshort) as (y & Hy & Hcy).
  rewrite Hhs in *.
  (* y is the store header right after the batch *)
  assert (HyI : In y r) by (eapply nth_error_In; eauto).
  destruct (consec_in _ _ _ _ C2 HyI) as [HyS _].
  assert (HyH : fst y = first_h ck lp + Z.of_nat (length hs)).
  { destruct C2 as [M _]. assert (nth_error (map fst r) (length hs) = Some (fst y)) by (now apply map_nth_error).
    rewrite M in H. clear - H Hshort. revert H Hshort. generalize (first_h ck lp) as a. generalize (length hs) as n.
    generalize (length r) as m. induction m; intros n a H Hs; [lia|].
    destruct n; simpl in *; [inversion H; lia|]. apply IHm in H; lia. }
  destruct hs as [|h0 hr].
  - simpl in HyH. unfold upto, first_h in *. destruct (prepend ck lp).
    + assert (y = lp) by (apply (in_store_inj st); auto; lia). subst. lia.
    + pose proof (Hs y x HyS Hx ltac:(lia)). lia.
  - assert (Hne : h0 :: hr <> []) by discriminate.
    pose proof (consec_last _ _ _ lp Csh Hne) as HL. unfold upto in Hgt.
    pose proof (Hs y x HyS Hx ltac:(lia)). lia.
Qed.

(** C14 — proofs about the prune cycle (model Cycle.v): termination, safety (nothing inside the window is handed to
    Prune), checkpoint monotonicity and persistence, completeness (everything old enough is pruned or recorded). *)
From Coq Require Import List ZArith Bool Lia Sorted.
From CN Require Import Base.Lts Pruner.Find Pruner.FindProofs Pruner.Cycle.
Import ListNotations.
Open Scope Z_scope.

Ltac splits := repeat match goal with |- _ /\ _ => split end.

(** * sets as lists *)
Lemma ins_in x y l : In y (ins x l) <-> y = x \/ In y l.
Proof.
  induction l as [|z r IH]; simpl; [intuition|].
  destruct (x <? z); simpl; [intuition|].
  destruct (x =? z) eqn:E; simpl.
  - apply Z.eqb_eq in E. subst. intuition.
  - rewrite IH. intuition.
Qed.

Lemma union_in y add : forall l, In y (union l add) <-> In y l \/ In y add.
Proof.
  unfold union. induction add as [|a r IH]; intros l; simpl; [intuition|].
  rewrite IH, ins_in. intuition.
Qed.

Lemma rem_in x y l : In y (rem x l) <-> In y l /\ y <> x.
Proof.
  unfold rem. rewrite filter_In. rewrite negb_true_iff, Z.eqb_neq. reflexivity.
Qed.

(** * one retry pass *)
Definition done (tr : list call) (h : Z) : Prop := exists k, In k tr /\ c_h k = h /\ c_ok k = true.

Lemma done_app_l tr tr' h : done tr h -> done (tr ++ tr') h.
Proof. intros (k & I & E). exists k. split; [apply in_or_app; now left|assumption]. Qed.
Lemma done_app_r tr tr' h : done tr' h -> done (tr ++ tr') h.
Proof. intros (k & I & E). exists k. split; [apply in_or_app; now right|assumption]. Qed.

Definition call_ok (st : store) (cut : Z) (o : origin) (k : call) : Prop :=
  c_org k = o /\ get st (c_h k) = Some (c_h k, c_t k) /\ c_cut k = cut.

Lemma retry_spec F st cut : forall fs a keep a' cs,
  retry F st cut fs a = (keep, a', cs) ->
  Forall (fun k => call_ok st cut ORetry k /\ In (c_h k) fs) cs /\
  incl keep fs /\
  (forall h, In h fs -> In h keep \/ done cs h) /\
  (forall h, In h fs -> get st h <> None -> exists k, In k cs /\ c_h k = h).
Proof.
  induction fs as [|h r IH]; intros a keep a' cs; simpl.
  - intros H; inversion H; subst. repeat split; try constructor; intros; try contradiction. intros ? [].
  - destruct (get st h) as [x|] eqn:G.
    + unfold prune1. remember (negb (F h (att_get a h))) as ok eqn:P.
      destruct (retry F st cut r (att_incr a h)) as [[keep1 a2] cs1] eqn:R.
      intros H; inversion H; subst keep a' cs. clear H. destruct (IH _ _ _ _ R) as (I1 & I2 & I3 & I4).
      pose proof (get_fst _ _ _ G) as HF.
      repeat split.
      * constructor.
        -- simpl. split; [|now left]. unfold call_ok. simpl. repeat split. rewrite G. destruct x; simpl in *; subst; reflexivity.
        -- eapply Forall_impl; [|exact I1]. simpl. intros k [K1 K2]. split; [assumption|now right].
      * destruct ok; intros y Hy; [right; now apply I2|].
        destruct Hy as [->|Hy]; [now left|right; now apply I2].
      * intros y [->|Hy].
        -- destruct ok; [right|left; now left].
           eexists. split; [now left|]. simpl. auto.
        -- destruct (I3 _ Hy) as [K|(k & K1 & K2)].
           ++ left. destruct ok; [assumption|now right].
           ++ right. exists k. split; [now right|assumption].
      * intros y [->|Hy] Hn.
        -- eexists. split; [now left|reflexivity].
        -- destruct (I4 _ Hy Hn) as (k & K1 & K2). exists k. split; [now right|assumption].
    + destruct (retry F st cut r a) as [[keep1 a2] cs1] eqn:R.
      intros H; inversion H; subst. destruct (IH _ _ _ _ R) as (I1 & I2 & I3 & I4).
      repeat split.
      * eapply Forall_impl; [|exact I1]. simpl. intros k [K1 K2]. split; [assumption|now right].
      * intros y [->|Hy]; [now left|right; now apply I2].
      * intros y [->|Hy]; [left; now left|]. destruct (I3 _ Hy); [left; now right|now right].
      * intros y [->|Hy] Hn; [congruence|]. apply I4; assumption.
Qed.

(** * one batch *)
Lemma batch_spec F cut : forall hs a lo fl a' cs lo',
  batch F cut hs a lo = (fl, a', cs, lo') ->
  map (fun k => (c_h k, c_t k)) cs = hs /\
  Forall (fun k => c_org k = OBatch /\ c_cut k = cut) cs /\
  (forall h, In h fl -> In h (map fst hs)) /\
  (forall x, In x hs -> In (fst x) fl \/ done cs (fst x)) /\
  (lo' = lo \/ exists x, In x hs /\ lo' = Some x).
Proof.
  induction hs as [|x r IH]; intros a lo fl a' cs lo'; simpl.
  - intros H; inversion H; subst. repeat split; try constructor; try tauto.
  - unfold prune1. remember (negb (F (fst x) (att_get a (fst x)))) as ok eqn:P.
    destruct (batch F cut r (att_incr a (fst x)) (if ok then Some x else lo)) as [[[fl1 a2] cs1] lo1] eqn:B.
    intros H; inversion H; subst fl a' cs lo'. clear H. destruct (IH _ _ _ _ _ _ B) as (I1 & I2 & I3 & I4 & I5).
    repeat split.
    + simpl. rewrite I1. destruct x; reflexivity.
    + constructor; [simpl; auto|assumption].
    + intros h Hh. simpl. destruct ok; [right; now apply I3|]. destruct Hh as [<-|Hh]; [now left|right; now apply I3].
    + intros y [<-|Hy].
      * destruct ok; [right|left; now left]. eexists. split; [now left|]. simpl; auto.
      * destruct (I4 _ Hy) as [K|(k & K1 & K2)].
        -- left. destruct ok; [assumption|now right].
        -- right. exists k. split; [now right|assumption].
    + destruct I5 as [->|(y & Y1 & Y2)].
      * destruct ok; [right; exists x; split; [now left|reflexivity]|now left].
      * right. exists y. split; [now right|assumption].
Qed.

(** * the loop: a proof rule for the repaired code ([adv = true]) *)
Section LoopRule.
  Variables (F : oracle) (c : cfg) (st : store).
  Variable P : hdr -> cp -> cp -> att -> list call -> Prop.   (* invariant of the loop *)
  Variable Q : Z -> Prop.                                     (* what is known of the final checkpoint height when the loop exits *)

  Hypothesis Hstep : forall lph m d a acc hs fl a' cs lo,
    P lph m d a acc -> find c st (lp m) lph = Ok hs -> hs <> [] ->
    batch F (cut_of c st) hs a None = (fl, a', cs, lo) ->
    let m' := mkCp (fst (last hs lph)) (union (failed m) fl) in
    P (last hs lph) m' m' a' (acc ++ cs).
  Hypothesis Hexit_err : forall lph m d a acc, P lph m d a acc -> find c st (lp m) lph = Err -> Q (lp m).
  Hypothesis Hexit_nil : forall lph m d a acc, P lph m d a acc -> find c st (lp m) lph = Ok [] -> Q (lp m).
  Hypothesis Hexit_short : forall lph m d a acc hs,
    P lph m d a acc -> find c st (lp m) lph = Ok hs -> hs <> [] -> Z.of_nat (length hs) < maxh c -> Q (fst (last hs lph)).

  Lemma loop_rule : forall fuel lph m d a acc m1 d1 a1 acc1,
    P lph m d a acc -> loop true F c fuel st lph m d a acc = Ok (m1, d1, a1, acc1) ->
    exists lph1, P lph1 m1 d1 a1 acc1 /\ Q (lp m1).
  Proof.
    induction fuel as [|f IH]; intros lph m d a acc m1 d1 a1 acc1 HP; [discriminate|].
    simpl. destruct (find c st (lp m) lph) as [hs| |] eqn:Fd; try discriminate.
    - destruct hs as [|x r] eqn:Ehs.
      + intros H; inversion H; subst. exists lph. split; [assumption|eapply Hexit_nil; eauto].
      + rewrite <- Ehs in *. assert (Hne : hs <> []) by (subst; discriminate).
        destruct (batch F (cut_of c st) hs a None) as [[[fl a'] cs] lo] eqn:B.
        pose proof (Hstep _ _ _ _ _ _ _ _ _ _ HP Fd Hne B) as HP'. cbv zeta in HP'.
        destruct (Z.of_nat (length hs) <? maxh c) eqn:L.
        * intros H; inversion H; subst m1 d1 a1 acc1. exists (last hs lph). split; [assumption|].
          apply Z.ltb_lt in L. eapply Hexit_short; eauto.
        * intros H. eapply IH; [|exact H]. exact HP'.
    - intros H; inversion H; subst. exists lph. split; [assumption|eapply Hexit_err; eauto].
  Qed.
End LoopRule.

(** * termination *)
Lemma find_last_gt c st ck lph hs hd :
  in_store st lph -> head_of st = Some hd -> find c st ck lph = Ok hs ->
  2 <= Z.of_nat (length hs) -> in_store st (last hs lph) /\ fst lph < fst (last hs lph).
Proof.
  intros Hl Hh Hf Hlen. destruct (find_shape _ _ _ _ _ _ Hl Hh Hf) as [C _].
  assert (Hne : hs <> []) by (intros ->; simpl in Hlen; lia).
  split.
  - destruct C as [_ Fa]. rewrite Forall_forall in Fa. apply Fa.
    rewrite (app_removelast_last lph Hne) at 2. apply in_or_app. right. now left.
  - rewrite (consec_last _ _ _ lph C Hne). pose proof (first_h_range ck lph). lia.
Qed.

Lemma find_last_ge c st ck lph hs hd :
  in_store st lph -> head_of st = Some hd -> find c st ck lph = Ok hs ->
  in_store st (last hs lph) /\ fst lph <= fst (last hs lph).
Proof.
  intros Hl Hh Hf. destruct (find_shape _ _ _ _ _ _ Hl Hh Hf) as [C _].
  destruct hs as [|x r]; [simpl; split; [assumption|lia]|].
  assert (Hne : x :: r <> []) by discriminate.
  split.
  - destruct C as [_ Fa]. rewrite Forall_forall in Fa. apply Fa.
    rewrite (app_removelast_last lph Hne) at 2. apply in_or_app. right. now left.
  - rewrite (consec_last _ _ _ lph C Hne). pose proof (first_h_range ck lph). simpl length. lia.
Qed.

Lemma loop_terminates F c st : 2 <= maxh c -> forall fuel lph m d a acc,
  in_store st lph -> (Z.to_nat (s_headH st - fst lph) < fuel)%nat ->
  exists r, loop true F c fuel st lph m d a acc = Ok r.
Proof.
  intros Hm. induction fuel as [|f IH]; intros lph m d a acc Hl Hf; [lia|].
  simpl. pose proof (find_no_oof c st (lp m) lph Hl) as Hno.
  destruct (find c st (lp m) lph) as [hs| |] eqn:Fd; [|eauto|congruence].
  destruct hs as [|x r] eqn:Ehs; [eauto|]. rewrite <- Ehs in *.
  destruct (batch F (cut_of c st) hs a None) as [[[fl a'] cs] lo].
  destruct (Z.of_nat (length hs) <? maxh c) eqn:L; [eauto|]. apply Z.ltb_ge in L.
  destruct (head_of_nonempty _ _ Hl) as [hd Hh].
  destruct (find_last_gt _ _ _ _ _ _ Hl Hh Fd ltac:(lia)) as [Hin Hgt].
  apply IH; [assumption|]. pose proof (get_range_h _ _ _ Hin). lia.
Qed.

Lemma last_pruned_spec st m lph m1 :
  last_pruned st m = Some (lph, m1) ->
  in_store st lph /\ fst lph - 1 <= lp m1 <= fst lph /\ lp m <= lp m1 /\ incl (failed m1) (failed m) /\
  (s_tail st < lp m -> m1 = m /\ lp m = fst lph) /\
  (lp m <= s_tail st -> fst lph = s_tail st /\ lp m1 = (if lp m <? s_tail st then s_tail st - 1 else s_tail st) /\
                        failed m1 = filter (fun h => s_tail st <=? h) (failed m)).
Proof.
  unfold last_pruned. destruct (tail_of st) as [tl|] eqn:T; [|discriminate].
  destruct (tail_of_some _ _ T) as [TI TF].
  destruct (fst tl <? lp m) eqn:E; [apply Z.ltb_lt in E|apply Z.ltb_ge in E].
  - destruct (get st (lp m)) as [x|] eqn:G; [|discriminate]. intros H; inversion H; subst.
    pose proof (get_fst _ _ _ G) as GF.
    split; [eapply get_in_store; eauto|]. split; [lia|]. split; [lia|]. split; [apply incl_refl|].
    split; [auto|intros; lia].
  - intros H; inversion H; subst. simpl.
    split; [assumption|]. rewrite TF in *.
    destruct (lp m <? s_tail st) eqn:E2; [apply Z.ltb_lt in E2|apply Z.ltb_ge in E2];
    (split; [lia|]); (split; [lia|]);
    (split; [intros h Hh; apply filter_In in Hh; tauto|]); (split; [intros; lia|]); intros _; repeat split; auto; lia.
Qed.

Theorem cycle_total F c w : 2 <= maxh c -> exists w' cs, cycle F c w = Ok (w', cs).
Proof.
  intros Hm. unfold cycle, cycle_gen.
  destruct (last_pruned (w_st w) (w_mem w)) as [[lph m1]|] eqn:LP; [|eauto].
  destruct (last_pruned_spec _ _ _ _ LP) as (Hin & _).
  destruct (retry F (w_st w) (cut_of c (w_st w)) (failed m1) (w_att w)) as [[fs a1] cs1].
  destruct (loop_terminates F c (w_st w) Hm (loop_fuel (w_st w)) lph (mkCp (lp m1) fs) (w_disk w) a1 cs1 Hin) as [[[[m d] a] cs] E].
  - pose proof (get_range_h _ _ _ Hin). unfold loop_fuel, s_headH, s_len in *. lia.
  - rewrite E. eauto.
Qed.

Theorem exec_total F c w e : 2 <= maxh c -> exists w' cs, exec F c w e = Ok (w', cs).
Proof.
  intros Hm. destruct e; simpl; eauto using cycle_total.
  - destruct (h <=? lp (w_mem w)); [eauto|]. destruct (get (w_st w) h); [|eauto].
    destruct inner; [|eauto].
    destruct (cycle_total F c (mkW (w_st w) (mkCp (lp (w_mem w)) (rem h (failed (w_mem w)))) (w_disk w) (att_incr (w_att w) h)) Hm) as (w2 & cs & E).
    rewrite E. eauto.
  - destruct (s_times (w_st w)) as [|? [|? ?]]; eauto.
  - destruct (tail_of (w_st w)); eauto.
Qed.

(** the code before the fix: a full batch that fails entirely is found again and again *)
Lemma batch_all_fail cut : forall hs a lo fl a' cs lo',
  batch (fun _ _ => true) cut hs a lo = (fl, a', cs, lo') -> lo' = lo /\ fl = map fst hs.
Proof.
  induction hs as [|x r IH]; intros a lo fl a' cs lo'; simpl.
  - intros H; inversion H; auto.
  - destruct (batch (fun _ _ => true) cut r (att_incr a (fst x)) lo) as [[[fl1 a2] cs1] lo1] eqn:B.
    intros H; inversion H; subst. destruct (IH _ _ _ _ _ _ B) as [-> ->]. auto.
Qed.

Lemma old_loop_spins c st lph hs :
  find c st (fst lph) lph = Ok hs -> hs <> [] -> Z.of_nat (length hs) = maxh c ->
  forall fuel m d a acc, lp m = fst lph -> loop false (fun _ _ => true) c fuel st lph m d a acc = OutOfFuel.
Proof.
  intros Hf Hne Hl. induction fuel as [|f IH]; intros m d a acc Hm; [reflexivity|].
  simpl. rewrite Hm, Hf. destruct hs as [|x r] eqn:E; [congruence|]. rewrite <- E in *.
  destruct (batch (fun _ _ => true) (cut_of c st) hs a None) as [[[fl a'] cs] lo] eqn:B.
  destruct (batch_all_fail _ _ _ _ _ _ _ _ B) as [-> ->].
  replace (Z.of_nat (length hs) <? maxh c) with false by (symmetry; apply Z.ltb_ge; lia).
  apply IH. reflexivity.
Qed.

Definition spin_store : store := mkStore 1 [0; 1; 2; 3; 4; 5; 6; 7; 8; 9; 10; 11].
Definition spin_cfg : cfg := mkCfg 5 1 4.

Theorem old_cycle_never_returns :
  forall fuel, cycle_gen false (fun _ _ => true) spin_cfg fuel (init spin_store) = OutOfFuel.
Proof.
  intros fuel. unfold cycle_gen.
  change (last_pruned (w_st (init spin_store)) (w_mem (init spin_store))) with (Some ((1, 0), mkCp 1 [])).
  cbn [failed retry w_att init].
  rewrite (old_loop_spins spin_cfg spin_store (1, 0) [(1, 0); (2, 1); (3, 2); (4, 3)]); try reflexivity. discriminate.
Qed.

(** ... while the repaired loop returns after two batches: 1..7 are recorded as failed, the checkpoint is 7 *)
Example fixed_cycle_returns :
  exists w cs, cycle (fun _ _ => true) spin_cfg (init spin_store) = Ok (w, cs) /\
               w_mem w = mkCp 7 [1; 2; 3; 4; 5; 6; 7] /\ w_disk w = w_mem w /\ length cs = 7%nat.
Proof. vm_compute. eauto 10. Qed.

(** * stores along a history *)
Definition st_step (st : store) (e : event) : store :=
  match e with
  | EAppend ts => mkStore (s_tail st) (s_times st ++ ts)
  | EDrop => match s_times st with _ :: (_ :: _) as r => mkStore (s_tail st + 1) r | _ => st end
  | _ => st
  end.

Lemma cycle_store F c w w' cs : cycle F c w = Ok (w', cs) -> w_st w' = w_st w.
Proof.
  unfold cycle, cycle_gen. destruct (last_pruned _ _) as [[lph m1]|]; [|intros H; inversion H; reflexivity].
  destruct (retry _ _ _ _ _) as [[fs a1] cs1]. destruct (loop _ _ _ _ _ _ _ _ _ _) as [[[[m d] a] cs0]| |]; try discriminate.
  intros H; inversion H; reflexivity.
Qed.

Lemma exec_store F c w e w' cs : exec F c w e = Ok (w', cs) -> w_st w' = st_step (w_st w) e.
Proof.
  destruct e; simpl.
  - apply cycle_store.
  - intros H; inversion H; reflexivity.
  - destruct (h <=? lp (w_mem w)); [intros H; inversion H; reflexivity|].
    destruct (get (w_st w) h); [|intros H; inversion H; reflexivity].
    destruct inner.
    + destruct (cycle F c _) as [[w2 cs2]| |] eqn:E; try discriminate.
      apply cycle_store in E. intros H; inversion H; subst.
      destruct (_ && _); simpl; exact E.
    + intros H; inversion H; subst. destruct (_ && _); reflexivity.
  - destruct (s_times (w_st w)) as [|? [|? ?]]; intros H; inversion H; reflexivity.
  - intros H. apply cycle_store in H. exact H.
  - intros H. apply cycle_store in H. exact H.
  - destruct (tail_of (w_st w)); intros H; inversion H; reflexivity.
Qed.

Definition head_time (st : store) : Z := match head_of st with Some hd => snd hd | None => 0 end.

Lemma cut_of_head c st : cut_of c st = match head_of st with Some _ => head_time st - window c | None => 0 end.
Proof. unfold cut_of, head_time. destruct (head_of st); reflexivity. Qed.

Lemma get_append_old st ts h x : get st h = Some x -> get (mkStore (s_tail st) (s_times st ++ ts)) h = Some x.
Proof.
  intros G. destruct (get_some _ _ _ G) as (F1 & R & N). unfold get in *. simpl.
  unfold s_headH, s_len in *. simpl. rewrite app_length.
  assert (E : (s_tail st <=? h) && (h <=? s_tail st + Z.of_nat (length (s_times st) + length ts) - 1) = true).
  { apply andb_true_iff. split; apply Z.leb_le; lia. }
  rewrite E. rewrite nth_error_app1; [|apply nth_error_Some; congruence].
  rewrite N. destruct x; simpl in *; subst; reflexivity.
Qed.

Lemma get_append_inv st ts h x :
  h <= s_headH st -> get (mkStore (s_tail st) (s_times st ++ ts)) h = Some x -> get st h = Some x.
Proof.
  intros Hh G. destruct (get_some _ _ _ G) as (F1 & R & N). simpl in *.
  unfold get. assert (E : (s_tail st <=? h) && (h <=? s_headH st) = true).
  { apply andb_true_iff. split; apply Z.leb_le; lia. }
  rewrite E. rewrite nth_error_app1 in N; [|unfold s_headH, s_len in *; lia].
  rewrite N. destruct x; simpl in *; subst; reflexivity.
Qed.

Lemma get_drop st t0 t1 r h x :
  s_times st = t0 :: t1 :: r -> get (mkStore (s_tail st + 1) (t1 :: r)) h = Some x -> get st h = Some x.
Proof.
  intros E G. destruct (get_some _ _ _ G) as (F1 & R & N). simpl in *.
  unfold s_headH, s_len in R. simpl in R.
  unfold get. assert (E2 : (s_tail st <=? h) && (h <=? s_headH st) = true).
  { apply andb_true_iff. unfold s_headH, s_len. rewrite E. simpl length. split; apply Z.leb_le; lia. }
  rewrite E2, E. replace (Z.to_nat (h - s_tail st)) with (S (Z.to_nat (h - (s_tail st + 1)))) by lia.
  simpl. simpl in N. rewrite N. destruct x; simpl in *; subst; reflexivity.
Qed.

Lemma head_drop st t0 t1 r : s_times st = t0 :: t1 :: r ->
  head_of (mkStore (s_tail st + 1) (t1 :: r)) = head_of st /\ s_headH (mkStore (s_tail st + 1) (t1 :: r)) = s_headH st.
Proof.
  intros E. assert (HH : s_headH (mkStore (s_tail st + 1) (t1 :: r)) = s_headH st).
  { unfold s_headH, s_len. simpl. rewrite E. simpl length. lia. }
  split; [|assumption]. unfold head_of. simpl. rewrite E, HH.
  destruct (get_inside st (s_headH st)) as [x G].
  { unfold s_headH, s_len. rewrite E. simpl length. lia. }
  rewrite G. destruct (get_inside (mkStore (s_tail st + 1) (t1 :: r)) (s_headH st)) as [y G2].
  { rewrite <- HH. unfold s_headH, s_len. simpl. lia. }
  rewrite G2. f_equal. apply (get_drop _ _ _ _ _ _ E) in G2. congruence.
Qed.

Lemma cut_of_nonempty c st : s_times st <> [] -> cut_of c st = head_time st - window c.
Proof.
  intros Hne. unfold cut_of, head_time, head_of. destruct (s_times st) eqn:E; [congruence|].
  destruct (get_inside st (s_headH st)) as [y Y]; [unfold s_headH, s_len; rewrite E; simpl length; lia|].
  now rewrite Y.
Qed.

(** * safety and monotonicity: one invariant for the whole cycle *)
Definition safe_failed (c : cfg) (st : store) (fs : list Z) : Prop :=
  forall h, In h fs -> h <= s_headH st /\ forall x, get st h = Some x -> snd x <= cut_of c st.

(** a call hands over a real header of the store; unless it comes from the on-delete hook that header is not newer than
    head time - window *)
Definition good (c : cfg) (st : store) (k : call) : Prop :=
  get st (c_h k) = Some (c_h k, c_t k) /\ c_cut k = cut_of c st /\ (c_org k <> OHook -> c_t k <= c_cut k).

Definition Inv (c : cfg) (w : world) : Prop :=
  safe_failed c (w_st w) (failed (w_mem w)) /\ safe_failed c (w_st w) (failed (w_disk w)) /\
  lp (w_disk w) <= lp (w_mem w).

Lemma safe_incl c st fs fs' : incl fs' fs -> safe_failed c st fs -> safe_failed c st fs'.
Proof. intros I S h Hh. apply S, I, Hh. Qed.

Lemma cycle_inv F c w w' cs :
  Inv c w -> cycle F c w = Ok (w', cs) ->
  Inv c w' /\ Forall (good c (w_st w)) cs /\ Forall (fun k => c_org k <> OHook) cs /\
  lp (w_mem w) <= lp (w_mem w') /\ lp (w_disk w) <= lp (w_disk w') /\
  (last_pruned (w_st w) (w_mem w) <> None ->
   forall h, In h (failed (w_mem w)) -> get (w_st w) h <> None -> exists k, In k cs /\ c_h k = h /\ c_org k = ORetry).
Proof.
  intros (S1 & S2 & L) Hc. pose proof (cycle_store _ _ _ _ _ Hc) as Hst. revert Hc.
  unfold cycle, cycle_gen. set (st := w_st w) in *.
  destruct (last_pruned st (w_mem w)) as [[lph m1]|] eqn:LP.
  2:{ intros H; inversion H; subst. split; [unfold Inv; auto|]. split; [constructor|]. split; [constructor|].
      split; [lia|]. split; [lia|]. intros X; elim X; reflexivity. }
  destruct (last_pruned_spec _ _ _ _ LP) as (Hin & Hlp & Hge & Hincl & _).
  destruct (retry F st (cut_of c st) (failed m1) (w_att w)) as [[fs a1] cs1] eqn:R.
  destruct (retry_spec _ _ _ _ _ _ _ _ R) as (R1 & R2 & R3 & R4).
  destruct (loop true F c (loop_fuel st) st lph (mkCp (lp m1) fs) (w_disk w) a1 cs1) as [[[[m d] a] cs0]| |] eqn:E; try discriminate.
  intros H; inversion H; subst w' cs0. clear H. simpl in Hst.
  destruct (head_of_nonempty _ _ Hin) as [hd Hh].
  assert (Hcut : cut_of c st = snd hd - window c) by (unfold cut_of; now rewrite Hh).
  assert (S1' : safe_failed c st (failed m1)) by (eapply safe_incl; eauto).
  set (P := fun (lph : hdr) (m d : cp) (a : att) (acc : list call) =>
    in_store st lph /\ lp m <= fst lph /\ lp d <= lp m /\ lp (w_mem w) <= lp m /\ lp (w_disk w) <= lp d /\
    safe_failed c st (failed m) /\ safe_failed c st (failed d) /\
    Forall (good c st) acc /\ Forall (fun k => c_org k <> OHook) acc /\ exists rest, acc = cs1 ++ rest).
  edestruct (loop_rule F c st P (fun _ => True)) as (lph1 & HP & _).
  6: exact E.
  2,3,4: intros; exact I.
  - (* one iteration keeps P *)
    clear E. intros lph0 m0 d0 a0 acc hs fl a' cs2 lo (P1 & P2 & P3 & P4 & P5 & P6 & P7 & P8 & P9 & rest & P10) Fd Hne B.
    destruct (batch_spec _ _ _ _ _ _ _ _ _ B) as (B1 & B2 & B3 & B4 & _).
    destruct (find_shape _ _ _ _ _ _ P1 Hh Fd) as [Csh Cle].
    destruct (find_last_ge _ _ _ _ _ _ P1 Hh Fd) as [Lin Lge].
    assert (Sn : safe_failed c st (union (failed m0) fl)).
    { intros h Hu. apply union_in in Hu. destruct Hu as [Hu|Hu]; [now apply P6|].
      apply B3, in_map_iff in Hu. destruct Hu as (x & <- & Hx).
      destruct (consec_in _ _ _ _ Csh Hx) as [Xs _]. rewrite Forall_forall in Cle. specialize (Cle _ Hx).
      split; [apply (get_range_h _ _ _ Xs)|]. intros y Gy. unfold in_store in Xs. rewrite Xs in Gy. inversion Gy; subst. lia. }
    cbv zeta. unfold P. simpl. splits; auto; try lia.
    + apply Forall_app. split; [assumption|].
      apply Forall_forall. intros k Hk. rewrite Forall_forall in B2. destruct (B2 _ Hk) as [K1 K2].
      assert (Hkx : In (c_h k, c_t k) hs) by (rewrite <- B1; apply in_map_iff; exists k; auto).
      destruct (consec_in _ _ _ _ Csh Hkx) as [Xs _]. rewrite Forall_forall in Cle. specialize (Cle _ Hkx).
      unfold good. simpl in *. splits; [exact Xs|assumption|]. intros _. rewrite K2. lia.
    + apply Forall_app. split; [assumption|]. eapply Forall_impl; [|exact B2]. simpl. intros k [K _]. rewrite K. discriminate.
    + exists (rest ++ cs2). rewrite P10. now rewrite app_assoc.
  - (* P holds initially *)
    unfold P. simpl. splits; auto; try lia.
    + eapply safe_incl; eauto.
    + apply Forall_forall. intros k Hk. rewrite Forall_forall in R1. destruct (R1 _ Hk) as [(K1 & K2 & K3) K4].
      unfold good. splits; auto. intros _. rewrite K3. destruct (S1' _ K4) as [_ X]. apply (X _ K2).
    + eapply Forall_impl; [|exact R1]. simpl. intros k [(K1 & _) _]. rewrite K1. discriminate.
    + exists []. now rewrite app_nil_r.
  - destruct HP as (P1 & P2 & P3 & P4 & P5 & P6 & P7 & P8 & P9 & rest & P10).
    simpl. unfold Inv. simpl. splits; auto.
    intros _ h Hh' Hn.
    assert (Hm1 : In h (failed m1)).
    { unfold last_pruned in LP. destruct (tail_of st) as [tl|] eqn:T; [|discriminate].
      destruct (fst tl <? lp (w_mem w)).
      - destruct (get st (lp (w_mem w))); inversion LP; subst; assumption.
      - inversion LP; subst. simpl. apply filter_In. split; [assumption|].
        destruct (get st h) as [x|] eqn:G; [|congruence]. apply get_range_h in G.
        destruct (tail_of_some _ _ T) as [_ TF]. apply Z.leb_le. lia. }
    destruct (R4 _ Hm1 Hn) as (k & K1 & K2). exists k. rewrite P10. split; [apply in_or_app; now left|].
    split; [assumption|]. rewrite Forall_forall in R1. destruct (R1 _ K1) as [(K3 & _) _]. exact K3.
Qed.

(** head time never decreases (block time is monotone): what the retry of a failed height relies on *)
Definition ev_mono (st : store) (e : event) : Prop :=
  match e with EAppend _ => head_time st <= head_time (st_step st e) | _ => True end.

Lemma st_step_nonempty st e : s_times st <> [] -> s_times (st_step st e) <> [].
Proof.
  intros Hne. destruct e; simpl; try assumption.
  - destruct (s_times st); [congruence|simpl; discriminate].
  - destruct (s_times st) as [|t0 [|t1 r]] eqn:E; simpl; try (rewrite E; assumption); try congruence.
Qed.

Lemma safe_failed_step c st e fs :
  s_times st <> [] -> ev_mono st e -> safe_failed c st fs -> safe_failed c (st_step st e) fs.
Proof.
  intros Hne Hm S. pose proof (st_step_nonempty st e Hne) as Hne'. destruct e; simpl in *; try assumption.
  - (* append *)
    intros h Hh. destruct (S _ Hh) as [S1 S2]. split.
    + unfold s_headH, s_len in *. simpl. rewrite app_length. lia.
    + intros x G. apply get_append_inv in G; [|assumption]. specialize (S2 _ G).
      rewrite (cut_of_nonempty c (mkStore (s_tail st) (s_times st ++ ts)) Hne'). rewrite (cut_of_nonempty c _ Hne) in S2. lia.
  - (* drop *)
    destruct (s_times st) as [|t0 [|t1 r]] eqn:E; try assumption.
    destruct (head_drop st t0 t1 r E) as [HD HH].
    intros h Hh. destruct (S _ Hh) as [S1 S2]. split; [rewrite HH; assumption|].
    intros x G. apply (get_drop _ _ _ _ _ _ E) in G. specialize (S2 _ G).
    unfold cut_of in *. rewrite HD. assumption.
Qed.

Lemma exec_inv F c w e w' cs :
  s_times (w_st w) <> [] -> ev_mono (w_st w) e -> Inv c w -> exec F c w e = Ok (w', cs) ->
  Inv c w' /\ Forall (good c (w_st w)) cs /\ Forall (fun k => c_org k <> OHook -> c_t k <= c_cut k) cs.
Proof.
  intros Hne Hev HI He.
  assert (G2 : forall l, Forall (good c (w_st w)) l -> Forall (fun k => c_org k <> OHook -> c_t k <= c_cut k) l).
  { intros l. apply Forall_impl. intros k (_ & _ & K). exact K. }
  destruct e; simpl in He.
  - destruct (cycle_inv _ _ _ _ _ HI He) as (I1 & I2 & _). auto.
  - inversion He; subst. destruct HI as (S1 & S2 & L). unfold Inv. simpl.
    splits; auto; apply (safe_failed_step c (w_st w) (EAppend ts)); auto.
  - (* on-delete hook *)
    destruct HI as (S1 & S2 & L).
    assert (S1' : safe_failed c (w_st w) (rem h (failed (w_mem w)))).
    { eapply safe_incl; [|exact S1]. intros y Hy. apply rem_in in Hy. tauto. }
    destruct (h <=? lp (w_mem w)) eqn:E1; [inversion He; subst; unfold Inv; simpl; auto|].
    destruct (get (w_st w) h) as [x|] eqn:G; [|inversion He; subst; unfold Inv; simpl; auto].
    apply Z.leb_gt in E1.
    set (w1 := mkW (w_st w) (mkCp (lp (w_mem w)) (rem h (failed (w_mem w)))) (w_disk w) (att_incr (w_att w) h)) in *.
    assert (I1 : Inv c w1) by (unfold Inv; simpl; auto).
    assert (Gk : good c (w_st w) (mkCall OHook h (snd x) (cut_of c (w_st w)) (negb (F h (att_get (w_att w) h))))).
    { unfold good. simpl. splits; [|reflexivity|congruence]. rewrite G. pose proof (get_fst _ _ _ G). destruct x; simpl in *; subst; reflexivity. }
    destruct inner.
    + destruct (cycle F c w1) as [[w2 cs2]| |] eqn:Ec; try discriminate.
      destruct (cycle_inv _ _ _ _ _ I1 Ec) as ((T1 & T2 & T3) & T4 & _ & T5 & T6 & _).
      pose proof (cycle_store _ _ _ _ _ Ec) as Hs.
      inversion He; subst w' cs. clear He.
      split; [|split; [constructor; assumption|constructor; [intros X; exfalso; apply X; reflexivity|auto]]].
      destruct (_ && negb (h <=? lp (w_mem w2))) eqn:E2; [|unfold Inv; auto].
      apply andb_true_iff in E2. destruct E2 as [_ E2]. apply negb_true_iff, Z.leb_gt in E2.
      unfold Inv. simpl. splits; auto. lia.
    + inversion He; subst w' cs. clear He.
      split; [|split; [constructor; [assumption|constructor]|constructor; [intros X; exfalso; apply X; reflexivity|constructor]]].
      destruct (_ && negb (h <=? lp (w_mem w))) eqn:E2; [|exact I1].
      unfold Inv. simpl. splits; auto. lia.
  - (* drop *)
    destruct HI as (S1 & S2 & L).
    pose proof (safe_failed_step c (w_st w) EDrop _ Hne Hev S1) as X1.
    pose proof (safe_failed_step c (w_st w) EDrop _ Hne Hev S2) as X2. simpl in X1, X2.
    destruct (s_times (w_st w)) as [|t0 [|t1 r]]; inversion He; subst; unfold Inv; simpl; auto.
  - (* restart *)
    destruct HI as (S1 & S2 & L).
    assert (I1 : Inv c (mkW (w_st w) (w_mem w) (w_mem w) (w_att w))) by (unfold Inv; simpl; auto; splits; auto; lia).
    destruct (cycle_inv _ _ _ _ _ I1 He) as (T1 & T2 & _). auto.
  - (* crash *)
    destruct HI as (S1 & S2 & L).
    assert (I1 : Inv c (mkW (w_st w) (w_disk w) (w_disk w) (w_att w))) by (unfold Inv; simpl; auto; splits; auto; lia).
    destruct (cycle_inv _ _ _ _ _ I1 He) as (T1 & T2 & _). auto.
  - (* reset *)
    destruct (tail_of (w_st w)); inversion He; subst; [|auto].
    unfold Inv. simpl. splits; auto; try lia; intros ? [].
Qed.

(** checkpoint monotonicity, event by event *)
Lemma exec_mono F c w e w' cs :
  lp (w_disk w) <= lp (w_mem w) -> exec F c w e = Ok (w', cs) ->
  lp (w_disk w') <= lp (w_mem w') /\
  (e <> EReset -> lp (w_disk w) <= lp (w_disk w')) /\
  (e <> EReset -> e <> ECrash -> lp (w_mem w) <= lp (w_mem w')).
Proof.
  intros L He.
  assert (CM : forall w0 w1 cs1, lp (w_disk w0) <= lp (w_mem w0) -> cycle F c w0 = Ok (w1, cs1) ->
               lp (w_disk w1) <= lp (w_mem w1) /\ lp (w_disk w0) <= lp (w_disk w1) /\ lp (w_mem w0) <= lp (w_mem w1)).
  { intros w0 w1 cs1 L0 Hc.
    (* monotonicity does not depend on the failed sets: run the cycle invariant on a world whose failed sets are empty?
       no: use the same invariant with trivially safe sets is not possible, so redo the loop rule for the heights only *)
    revert Hc. unfold cycle, cycle_gen. set (st := w_st w0).
    destruct (last_pruned st (w_mem w0)) as [[lph m1]|] eqn:LP; [|intros H; inversion H; subst; lia].
    destruct (last_pruned_spec _ _ _ _ LP) as (Hin & Hlp & Hge & _).
    destruct (retry F st (cut_of c st) (failed m1) (w_att w0)) as [[fs a1] cs0].
    destruct (loop true F c (loop_fuel st) st lph (mkCp (lp m1) fs) (w_disk w0) a1 cs0) as [[[[m d] a] cs2]| |] eqn:E; try discriminate.
    intros H; inversion H; subst w1 cs2. clear H. simpl.
    destruct (head_of_nonempty _ _ Hin) as [hd Hh].
    set (P := fun (lph : hdr) (m d : cp) (a : att) (acc : list call) =>
      in_store st lph /\ lp m <= fst lph /\ lp d <= lp m /\ lp (w_mem w0) <= lp m /\ lp (w_disk w0) <= lp d).
    edestruct (loop_rule F c st P (fun _ => True)) as (lph1 & HP & _).
    6: exact E.
    2,3,4: intros; exact I.
    - intros lph0 m0 d0 a0 acc hs fl a' cs3 lo (P1 & P2 & P3 & P4 & P5) Fd Hne B.
      destruct (find_last_ge _ _ _ _ _ _ P1 Hh Fd) as [Lin Lge].
      cbv zeta. unfold P. simpl. splits; auto; lia.
    - unfold P. simpl. splits; auto; lia.
    - destruct HP as (P1 & P2 & P3 & P4 & P5). auto. }
  destruct e; simpl in He.
  - destruct (CM _ _ _ L He) as (A & B & C). auto.
  - inversion He; subst; simpl. splits; intros; lia.
  - destruct (h <=? lp (w_mem w)) eqn:E1; [inversion He; subst; simpl; splits; intros; lia|].
    destruct (get (w_st w) h); [|inversion He; subst; simpl; splits; intros; lia].
    destruct inner.
    + destruct (cycle F c _) as [[w2 cs2]| |] eqn:Ec; try discriminate.
      apply CM in Ec; [|simpl; exact L]. destruct Ec as (A & B & C). simpl in *.
      inversion He; subst w' cs. clear He.
      destruct (_ && negb (h <=? lp (w_mem w2))) eqn:E2; simpl; [|splits; intros; lia].
      apply andb_true_iff in E2. destruct E2 as [_ E2]. apply negb_true_iff, Z.leb_gt in E2. splits; intros; lia.
    + inversion He; subst w' cs. clear He. simpl.
      destruct (_ && negb (h <=? lp (w_mem w))) eqn:E2; simpl; [|splits; intros; lia].
      apply Z.leb_gt in E1. splits; intros; lia.
  - destruct (s_times (w_st w)) as [|t0 [|t1 r]]; inversion He; subst; simpl; splits; intros; lia.
  - destruct (CM (mkW (w_st w) (w_mem w) (w_mem w) (w_att w)) _ _ ltac:(simpl; lia) He) as (A & B & C). simpl in *.
    splits; intros; lia.
  - destruct (CM (mkW (w_st w) (w_disk w) (w_disk w) (w_att w)) _ _ ltac:(simpl; lia) He) as (A & B & C). simpl in *.
    splits; intros; try lia. congruence.
  - destruct (tail_of (w_st w)); inversion He; subst; simpl; splits; intros; try lia; congruence.
Qed.

(** * histories *)
Fixpoint hist_ok (P : store -> event -> Prop) (st : store) (es : list event) : Prop :=
  match es with [] => True | e :: r => P st e /\ hist_ok P (st_step st e) r end.

Lemma step_ok F c w tr e : 2 <= maxh c ->
  exists w' cs, exec F c w e = Ok (w', cs) /\ step F c (w, tr) e = (w', tr ++ cs).
Proof.
  intros Hm. destruct (exec_total F c w e Hm) as (w' & cs & E). exists w', cs. split; [assumption|].
  unfold step. simpl. now rewrite E.
Qed.

Lemma init_inv c st : Inv c (init st).
Proof. unfold Inv, init. simpl. splits; try lia; intros ? []. Qed.

(** SAFETY over whole histories *)
Theorem never_in_window_gen F c : 2 <= maxh c -> forall es w tr,
  s_times (w_st w) <> [] -> hist_ok ev_mono (w_st w) es -> Inv c w ->
  Forall (fun k => c_org k <> OHook -> c_t k <= c_cut k) tr ->
  Forall (fun k => c_org k <> OHook -> c_t k <= c_cut k) (snd (run (step F c) (w, tr) es)) /\
  Inv c (fst (run (step F c) (w, tr) es)).
Proof.
  intros Hm. induction es as [|e r IH]; intros w tr Hne Hh HI Ht; [simpl; auto|].
  destruct Hh as [He Hr]. rewrite run_cons.
  destruct (step_ok F c w tr e Hm) as (w' & cs & E & ->).
  destruct (exec_inv _ _ _ _ _ _ Hne He HI E) as (I' & _ & G).
  pose proof (exec_store _ _ _ _ _ _ E) as Hs.
  apply IH; auto.
  - rewrite Hs. now apply st_step_nonempty.
  - now rewrite Hs.
  - apply Forall_app. auto.
Qed.

(** every call hands over the header the store holds for that height, and records the cutoff of that moment *)
Theorem calls_genuine F c w e w' cs :
  s_times (w_st w) <> [] -> ev_mono (w_st w) e -> Inv c w -> exec F c w e = Ok (w', cs) ->
  Forall (fun k => get (w_st w) (c_h k) = Some (c_h k, c_t k) /\ c_cut k = head_time (w_st w) - window c) cs.
Proof.
  intros Hne He HI E. destruct (exec_inv _ _ _ _ _ _ Hne He HI E) as (_ & G & _).
  eapply Forall_impl; [|exact G]. intros k (K1 & K2 & _). split; [assumption|]. now rewrite K2, cut_of_nonempty.
Qed.

(** CHECKPOINT over whole histories *)
Definition le_cp (x y : world * list call) : Prop :=
  lp (w_disk (fst x)) <= lp (w_mem (fst x)) ->
  lp (w_disk (fst y)) <= lp (w_mem (fst y)) /\ lp (w_disk (fst x)) <= lp (w_disk (fst y)).

Theorem checkpoint_monotone_gen F c : 2 <= maxh c -> forall es w tr,
  Forall (fun e => e <> EReset) es -> lp (w_disk w) <= lp (w_mem w) ->
  let w' := fst (run (step F c) (w, tr) es) in
  lp (w_disk w') <= lp (w_mem w') /\ lp (w_disk w) <= lp (w_disk w') /\
  (Forall (fun e => e <> ECrash) es -> lp (w_mem w) <= lp (w_mem w')).
Proof.
  intros Hm. induction es as [|e r IH]; intros w tr Hr L; [simpl; splits; intros; lia|].
  inversion Hr as [|? ? He Hr']; subst. rewrite run_cons.
  destruct (step_ok F c w tr e Hm) as (w1 & cs & E & ->).
  destruct (exec_mono _ _ _ _ _ _ L E) as (A & B & C).
  destruct (IH w1 (tr ++ cs) Hr' A) as (A' & B' & C').
  cbv zeta. splits; auto.
  - specialize (B He). lia.
  - intros Hc. inversion Hc; subst. specialize (C He H1). specialize (C' H2). lia.
Qed.

(** a graceful restart is invisible to the checkpoint in memory and to what is pruned: the cycle that Start runs behaves
    exactly like a cycle of the service that was stopped *)
Lemma loop_indep_disk adv F c st : forall fuel lph m d a acc m1 d1 a1 acc1,
  loop adv F c fuel st lph m d a acc = Ok (m1, d1, a1, acc1) ->
  forall d', exists d1', loop adv F c fuel st lph m d' a acc = Ok (m1, d1', a1, acc1).
Proof.
  induction fuel as [|f IH]; intros lph m d a acc m1 d1 a1 acc1; [discriminate|].
  simpl. destruct (find c st (lp m) lph) as [hs| |]; try discriminate.
  - destruct hs as [|x r] eqn:E; [intros H d'; inversion H; subst; eauto|]. rewrite <- E in *.
    destruct (batch F (cut_of c st) hs a None) as [[[fl a'] cs] lo].
    destruct (Z.of_nat (length hs) <? maxh c).
    + intros H d'; inversion H; subst; eauto.
    + intros H d'. exists d1. exact H.
  - intros H d'; inversion H; subst; eauto.
Qed.

Theorem restart_transparent F c w w' cs :
  exec F c w ERestart = Ok (w', cs) ->
  exists w'', exec F c w ECycle = Ok (w'', cs) /\ w_mem w'' = w_mem w' /\ w_att w'' = w_att w' /\
              lp (w_mem w) <= lp (w_disk w').
Proof.
  simpl. intros H.
  assert (L : lp (w_mem w) <= lp (w_disk w')).
  { destruct (exec_mono F c (mkW (w_st w) (w_mem w) (w_mem w) (w_att w)) ECycle w' cs ltac:(simpl; lia) H) as (_ & B & _).
    simpl in B. apply B. discriminate. }
  revert H. unfold cycle, cycle_gen. cbn [w_st w_mem w_disk w_att].
  destruct (last_pruned (w_st w) (w_mem w)) as [[lph m1]|].
  2:{ intros H; inversion H; subst. simpl in *. exists w. destruct w; simpl; auto. }
  destruct (retry _ _ _ _ _) as [[fs a1] cs1].
  destruct (loop true F c _ _ lph _ (w_mem w) a1 cs1) as [[[[m d] a] cs0]| |] eqn:E; try discriminate.
  intros H; inversion H; subst. destruct (loop_indep_disk _ _ _ _ _ _ _ _ _ _ _ _ _ _ E (w_disk w)) as [d' E'].
  rewrite E'. eexists. simpl. splits; try reflexivity. exact L.
Qed.

(** COMPLETENESS: everything old enough that lies after the start is pruned or recorded as failed *)
Definition cov (base : Z) (m : cp) (tr : list call) : Prop :=
  forall h, base < h <= lp m -> done tr h \/ In h (failed m).

Definition in_range (st : store) (h : Z) : Prop := s_tail st <= h <= s_headH st.

(** nothing above the checkpoint is older than the cutoff by more than one block time *)
Definition exhausted (c : cfg) (st : store) (m : cp) : Prop :=
  forall x, in_store st x -> lp m < fst x -> cut_of c st <= snd x + btime c.

Lemma cov_mono base m tr tr' : cov base m tr -> cov base m (tr ++ tr').
Proof. intros C h Hh. destruct (C h Hh); [left; now apply done_app_l|now right]. Qed.

Lemma first_h_ck ck lp : fst lp - 1 <= ck <= fst lp -> first_h ck lp <= ck + 1.
Proof.
  intros H. unfold first_h, prepend. destruct (fst lp =? 1); simpl; [lia|].
  destruct (ck <? fst lp) eqn:E; [apply Z.ltb_lt in E|apply Z.ltb_ge in E]; lia.
Qed.

Lemma cycle_complete F c w w' cs tr base :
  0 < window c -> 0 < btime c -> 1 <= maxh c -> sorted_st (w_st w) -> s_times (w_st w) <> [] ->
  s_tail (w_st w) - 1 <= base -> lp (w_mem w) <= s_headH (w_st w) -> lp (w_disk w) <= s_headH (w_st w) ->
  cov base (w_mem w) tr -> cov base (w_disk w) tr ->
  cycle F c w = Ok (w', cs) ->
  s_tail (w_st w) - 1 <= lp (w_mem w') <= s_headH (w_st w) /\ lp (w_disk w') <= s_headH (w_st w) /\
  lp (w_mem w) <= lp (w_mem w') /\
  cov base (w_mem w') (tr ++ cs) /\ cov base (w_disk w') (tr ++ cs) /\ exhausted c (w_st w) (w_mem w').
Proof.
  intros Hw Hb Hm Hs Hne0 Hbase Rm Rd Cm Cd. unfold cycle, cycle_gen. set (st := w_st w) in *.
  assert (Hne : exists tl, tail_of st = Some tl).
  { unfold tail_of. destruct (s_times st) eqn:E; [congruence|].
    apply get_inside. unfold s_headH, s_len. rewrite E. simpl length. lia. }
  destruct Hne as [tl Ht]. destruct (tail_of_some _ _ Ht) as [TI TF].
  destruct (last_pruned st (w_mem w)) as [[lph m1]|] eqn:LP.
  2:{ unfold last_pruned in LP. rewrite Ht in LP. destruct (fst tl <? lp (w_mem w)) eqn:E; [|discriminate].
      apply Z.ltb_lt in E. destruct (get_inside st (lp (w_mem w))) as [xm Gm]; [lia|]. rewrite Gm in LP. discriminate. }
  destruct (last_pruned_spec _ _ _ _ LP) as (Hin & Hlp & Hge & Hincl & Hsame & Hjump).
  destruct (retry F st (cut_of c st) (failed m1) (w_att w)) as [[fs a1] cs1] eqn:R.
  destruct (retry_spec _ _ _ _ _ _ _ _ R) as (R1 & R2 & R3 & R4).
  destruct (loop true F c (loop_fuel st) st lph (mkCp (lp m1) fs) (w_disk w) a1 cs1) as [[[[m d] a] cs0]| |] eqn:E; try discriminate.
  intros H; inversion H; subst w' cs0. clear H. simpl.
  destruct (head_of_nonempty _ _ Hin) as [hd Hh].
  assert (Hcut : cut_of c st = snd hd - window c) by (unfold cut_of; now rewrite Hh).
  pose proof (get_range_h _ _ _ Hin) as Rlph.
  (* the checkpoint the loop starts from is covered *)
  assert (C1 : cov base (mkCp (lp m1) fs) (tr ++ cs1)).
  { intros h Hh'. simpl in Hh'.
    destruct (Z_lt_ge_dec (s_tail st) (lp (w_mem w))) as [Lt|Ge].
    - destruct (Hsame Lt) as [Em _]. rewrite Em in *. destruct (Cm h Hh') as [D|I]; [left; now apply done_app_l|].
      destruct (R3 _ I) as [K|D]; [now right|left; now apply done_app_r].
    - destruct (Hjump ltac:(lia)) as (J1 & J2 & J3).
      destruct (lp (w_mem w) <? s_tail st) eqn:E2; [apply Z.ltb_lt in E2; lia|apply Z.ltb_ge in E2].
      assert (h = s_tail st) by lia. subst h.
      destruct (Cm (s_tail st) ltac:(lia)) as [D|I]; [left; now apply done_app_l|].
      assert (I' : In (s_tail st) (failed m1)).
      { rewrite J3. apply filter_In. split; [assumption|apply Z.leb_le; lia]. }
      destruct (R3 _ I') as [K|D]; [now right|left; now apply done_app_r]. }
  set (P := fun (lph : hdr) (m d : cp) (a : att) (acc : list call) =>
    in_store st lph /\ fst lph - 1 <= lp m <= fst lph /\ lp d <= s_headH st /\ lp (w_mem w) <= lp m /\
    cov base m (tr ++ acc) /\ cov base d (tr ++ acc) /\ exists rest, acc = cs1 ++ rest).
  set (Q := fun ck : Z => forall x, in_store st x -> ck < fst x -> cut_of c st <= snd x + btime c).
  edestruct (loop_rule F c st P Q) as (lph1 & HP & HQ).
  6: exact E.
  - (* step *)
    clear E. intros lph0 m0 d0 a0 acc hs fl a' cs2 lo (P1 & P2 & P3 & P3' & P4 & P5 & rest & P6) Fd Hne B.
    destruct (batch_spec _ _ _ _ _ _ _ _ _ B) as (B1 & B2 & B3 & B4 & _).
    destruct (find_shape _ _ _ _ _ _ P1 Hh Fd) as [Csh Cle].
    destruct (find_last_ge _ _ _ _ _ _ P1 Hh Fd) as [Lin Lge].
    pose proof (first_h_ck (lp m0) lph0 P2) as FH.
    assert (Cn : cov base (mkCp (fst (last hs lph0)) (union (failed m0) fl)) (tr ++ acc ++ cs2)).
    { intros h Hh'. simpl in Hh'. destruct (Z_le_gt_dec h (lp m0)) as [Le|Gt].
      - destruct (P4 h ltac:(lia)) as [D|I]; [left; rewrite app_assoc; now apply done_app_l|right; apply union_in; now left].
      - rewrite (consec_last _ _ _ lph0 Csh Hne) in Hh'.
        destruct (consec_covers _ _ _ h Csh) as (x & Hx & Hfx); [lia|].
        destruct (B4 _ Hx) as [I|D]; rewrite Hfx in *.
        + right. apply union_in. now right.
        + left. apply done_app_r. now apply done_app_r. }
    cbv zeta. unfold P. simpl. splits; auto; try lia.
    + apply (get_range_h _ _ _ Lin).
    + exists (rest ++ cs2). rewrite P6. now rewrite app_assoc.
  - intros lph0 m0 d0 a0 acc (P1 & _) Fd. exfalso. revert Fd. now apply find_no_err.
  - intros lph0 m0 d0 a0 acc (P1 & P2 & _) Fd. unfold Q. intros x Hx Hgt.
    rewrite Hcut. apply (find_complete c st (lp m0) lph0 hd [] Hs Hw Hb Hm P1 Hh Fd); auto; [simpl; lia|].
    unfold upto. pose proof (first_h_ck (lp m0) lph0 P2). lia.
  - intros lph0 m0 d0 a0 acc hs (P1 & _) Fd Hne Hlen. unfold Q. intros x Hx Hgt.
    rewrite Hcut. apply (find_complete c st (lp m0) lph0 hd hs Hs Hw Hb Hm P1 Hh Fd); auto.
    unfold upto. destruct hs; [congruence|assumption].
  - (* initially *)
    unfold P. simpl. splits; auto; try lia.
    + intros h Hh'. destruct (Cd h Hh'); [left; now apply done_app_l|now right].
    + exists []. now rewrite app_nil_r.
  - destruct HP as (P1 & P2 & P3 & P3' & P4 & P5 & rest & P6). pose proof (get_range_h _ _ _ P1) as R1'.
    splits; auto; try lia.
Qed.

(** the events of a history without header deletion and without the explicit reset *)
Definition plain (e : event) : Prop :=
  match e with ECycle | EAppend _ | ERestart | ECrash => True | _ => False end.
Definition ev_sorted (st : store) (e : event) : Prop := sorted_st (st_step st e).

Definition J (c : cfg) (base : Z) (wt : world * list call) : Prop :=
  let w := fst wt in
  s_tail (w_st w) = base /\ in_range (w_st w) (lp (w_mem w)) /\ in_range (w_st w) (lp (w_disk w)) /\
  lp (w_disk w) <= lp (w_mem w) /\
  cov base (w_mem w) (snd wt) /\ cov base (w_disk w) (snd wt).

Lemma in_range_append st ts h : in_range st h -> in_range (mkStore (s_tail st) (s_times st ++ ts)) h.
Proof. unfold in_range, s_headH, s_len. simpl. rewrite app_length. lia. Qed.

Lemma in_range_nonempty st h : in_range st h -> s_times st <> [].
Proof. unfold in_range, s_headH, s_len. intros H E. rewrite E in H. simpl in H. lia. Qed.

Lemma cycle_J F c base w w' cs tr :
  0 < window c -> 0 < btime c -> 1 <= maxh c -> sorted_st (w_st w) ->
  J c base (w, tr) -> cycle F c w = Ok (w', cs) ->
  J c base (w', tr ++ cs) /\ exhausted c (w_st w') (w_mem w').
Proof.
  intros Hw Hb Hm Hs (J1 & J2 & J3 & JL & J4 & J5) He. simpl in *.
  pose proof (cycle_store _ _ _ _ _ He) as Hst.
  pose proof (in_range_nonempty _ _ J2) as Hne.
  destruct (cycle_complete F c w w' cs tr base Hw Hb Hm Hs Hne ltac:(lia) ltac:(unfold in_range in *; lia)
              ltac:(unfold in_range in *; lia) J4 J5 He) as (A & B & A' & C & D & E).
  destruct (exec_mono F c w ECycle w' cs JL He) as (M1 & M2 & M3).
  specialize (M2 ltac:(discriminate)).
  unfold J. simpl. rewrite Hst. unfold in_range in *. splits; auto; lia.
Qed.

Lemma exec_J F c base w tr e w' cs :
  0 < window c -> 0 < btime c -> 1 <= maxh c -> sorted_st (w_st w) -> plain e ->
  J c base (w, tr) -> exec F c w e = Ok (w', cs) ->
  J c base (w', tr ++ cs) /\ (e <> EAppend (match e with EAppend ts => ts | _ => [] end) -> exhausted c (w_st w') (w_mem w')).
Proof.
  intros Hw Hb Hm Hs Hp HJ He.
  destruct e; simpl in Hp; try contradiction; simpl in He.
  - destruct (cycle_J F c base w w' cs tr Hw Hb Hm Hs HJ He). auto.
  - destruct HJ as (J1 & J2 & J3 & JL & J4 & J5). simpl in *.
    inversion He; subst. unfold J. simpl. rewrite app_nil_r. splits; auto using in_range_append. congruence.
  - destruct HJ as (J1 & J2 & J3 & JL & J4 & J5). simpl in *.
    assert (HJ' : J c base (mkW (w_st w) (w_mem w) (w_mem w) (w_att w), tr)) by (unfold J; simpl; splits; auto; lia).
    destruct (cycle_J F c base (mkW (w_st w) (w_mem w) (w_mem w) (w_att w)) w' cs tr Hw Hb Hm Hs HJ' He). auto.
  - destruct HJ as (J1 & J2 & J3 & JL & J4 & J5). simpl in *.
    assert (HJ' : J c base (mkW (w_st w) (w_disk w) (w_disk w) (w_att w), tr)) by (unfold J; simpl; splits; auto; lia).
    destruct (cycle_J F c base (mkW (w_st w) (w_disk w) (w_disk w) (w_att w)) w' cs tr Hw Hb Hm Hs HJ' He). auto.
Qed.

Theorem eventually_all_gen F c base : 2 <= maxh c -> 0 < window c -> 0 < btime c -> forall es w tr,
  sorted_st (w_st w) -> hist_ok ev_sorted (w_st w) es -> Forall plain es -> J c base (w, tr) ->
  J c base (run (step F c) (w, tr) es) /\
  (forall es' e, es = es' ++ [e] -> e <> EAppend (match e with EAppend ts => ts | _ => [] end) ->
     let wt := run (step F c) (w, tr) es in exhausted c (w_st (fst wt)) (w_mem (fst wt))).
Proof.
  intros Hm Hw Hb. induction es as [|e r IH]; intros w tr Hs Hh Hp HJ.
  - split; [exact HJ|]. intros es' e E. destruct es'; discriminate.
  - destruct Hh as [He Hr]. inversion Hp as [|? ? Pe Pr]; subst. rewrite run_cons.
    destruct (step_ok F c w tr e Hm) as (w' & cs & E & ->).
    destruct (exec_J F c base w tr e w' cs Hw Hb ltac:(lia) Hs Pe HJ E) as [HJ' Hex].
    pose proof (exec_store _ _ _ _ _ _ E) as Hst.
    assert (Hs' : sorted_st (w_st w')) by (rewrite Hst; exact He).
    destruct (IH w' (tr ++ cs) Hs' ltac:(rewrite Hst; exact Hr) Pr HJ') as [A B].
    split; [exact A|]. intros es' e0 Ees Hne.
    destruct es' as [|e1 es'']; simpl in Ees; inversion Ees; subst.
    + simpl. apply Hex. exact Hne.
    + apply (B es'' e0 eq_refl Hne).
Qed.

Theorem eventually_all F c st es e :
  2 <= maxh c -> 0 < window c -> 0 < btime c -> s_times st <> [] -> sorted_st st ->
  hist_ok ev_sorted st (es ++ [e]) -> Forall plain (es ++ [e]) -> e = ECycle \/ e = ERestart \/ e = ECrash ->
  let wt := run (step F c) (init st, []) (es ++ [e]) in
  forall x, in_store (w_st (fst wt)) x -> s_tail st < fst x -> snd x + btime c < cut_of c (w_st (fst wt)) ->
    done (snd wt) (fst x) \/ In (fst x) (failed (w_mem (fst wt))).
Proof.
  intros Hm Hw Hb Hne Hs Hh Hp He wt x Hx Hgt Hold.
  assert (HJ : J c (s_tail st) (init st, [])).
  { unfold J, init, cov, in_range, s_headH, s_len. simpl. destruct (s_times st); [congruence|]. simpl length. splits; intros; lia. }
  destruct (eventually_all_gen F c (s_tail st) Hm Hw Hb (es ++ [e]) (init st) [] Hs Hh Hp HJ) as [(J1 & J2 & J3 & JL & J4 & J5) Hex].
  specialize (Hex es e eq_refl). fold wt in Hex, J1, J2, J3, JL, J4, J5. cbv zeta in Hex.
  assert (Hne' : e <> EAppend match e with EAppend ts => ts | _ => [] end) by (destruct He as [->|[->| ->]]; discriminate).
  specialize (Hex Hne' x Hx).
  destruct (Z_lt_ge_dec (lp (w_mem (fst wt))) (fst x)) as [Lt|Ge]; [specialize (Hex Lt); lia|].
  apply J4. lia.
Qed.

Theorem failed_retried F c w w' cs :
  Inv c w -> last_pruned (w_st w) (w_mem w) <> None -> cycle F c w = Ok (w', cs) ->
  forall h, In h (failed (w_mem w)) -> get (w_st w) h <> None -> exists k, In k cs /\ c_h k = h /\ c_org k = ORetry.
Proof. intros HI HL Hc. destruct (cycle_inv _ _ _ _ _ HI Hc) as (_ & _ & _ & _ & _ & R). exact (R HL). Qed.

Theorem never_in_window F c st es :
  2 <= maxh c -> s_times st <> [] -> hist_ok ev_mono st es ->
  forall k, In k (snd (run (step F c) (init st, []) es)) -> c_org k <> OHook -> c_t k <= c_cut k.
Proof.
  intros Hm Hne Hh k Hk.
  destruct (never_in_window_gen F c Hm es (init st) [] Hne Hh (init_inv c st) (Forall_nil _)) as [A _].
  rewrite Forall_forall in A. exact (A k Hk).
Qed.

Theorem reachable_inv F c st es :
  2 <= maxh c -> s_times st <> [] -> hist_ok ev_mono st es -> Inv c (fst (run (step F c) (init st, []) es)).
Proof.
  intros Hm Hne Hh. exact (proj2 (never_in_window_gen F c Hm es (init st) [] Hne Hh (init_inv c st) (Forall_nil _))).
Qed.

Lemma disk_le_mem_run F c : forall es (wt : world * list call),
  lp (w_disk (fst wt)) <= lp (w_mem (fst wt)) ->
  lp (w_disk (fst (run (step F c) wt es))) <= lp (w_mem (fst (run (step F c) wt es))).
Proof.
  induction es as [|e r IH]; intros wt L; [exact L|]. rewrite run_cons. apply IH.
  unfold step. destruct (exec F c (fst wt) e) as [[w' cs]| |] eqn:E; try exact L.
  simpl. destruct (exec_mono _ _ _ _ _ _ L E) as (A & _). exact A.
Qed.

Theorem checkpoint_monotone F c st es1 es2 :
  2 <= maxh c -> Forall (fun e => e <> EReset) es2 ->
  let w1 := fst (run (step F c) (init st, []) es1) in
  let w2 := fst (run (step F c) (init st, []) (es1 ++ es2)) in
  lp (w_disk w1) <= lp (w_disk w2) /\ lp (w_disk w2) <= lp (w_mem w2) /\
  (Forall (fun e => e <> ECrash) es2 -> lp (w_mem w1) <= lp (w_mem w2)).
Proof.
  intros Hm Hr w1 w2. unfold w2, w1. rewrite run_app.
  pose proof (disk_le_mem_run F c es1 (init st, []) ltac:(simpl; lia)) as L1.
  destruct (run (step F c) (init st, []) es1) as [wa tra]. simpl in *.
  destruct (checkpoint_monotone_gen F c Hm es2 wa tra Hr L1) as (A & B & C). auto.
Qed.

(** * non-vacuity: a concrete irregular chain (equal timestamps, a long gap), transient and permanent failures,
      restart, crash and head advances *)
Definition ex_store : store := mkStore 3 [0; 0; 4; 5; 5; 30; 31; 33; 60; 61; 62; 90].
Definition ex_cfg : cfg := mkCfg 30 3 3.
Definition ex_F : oracle := fun h n => ((h =? 5) && (Nat.ltb n 2)) || (h =? 8).
Definition ex_es : list event := [ECycle; EAppend [95; 120]; ERestart; ECycle; ECrash; EAppend [130]; ECycle].

Example ex_history_ok :
  2 <= maxh ex_cfg /\ 0 < window ex_cfg /\ 0 < btime ex_cfg /\ s_times ex_store <> [] /\
  hist_ok ev_mono ex_store ex_es /\ Forall plain ex_es /\ Forall (fun e => e <> EReset) ex_es.
Proof.
  splits; try (vm_compute; congruence); try discriminate.
  - vm_compute. splits; trivial; discriminate.
  - repeat constructor.
  - repeat constructor; discriminate.
Qed.

Example ex_sorted : sorted_st ex_store /\ hist_ok ev_sorted ex_store ex_es.
Proof.
  assert (G : forall ts, (forall i j a b, (i <= j)%nat -> nth_error ts i = Some a -> nth_error ts j = Some b -> a <= b) ->
                         sorted_st (mkStore 3 ts)).
  { intros ts H x y Hx Hy L. destruct (get_some _ _ _ Hx) as (_ & Rx & Nx). destruct (get_some _ _ _ Hy) as (_ & Ry & Ny).
    simpl in *. eapply H; [|exact Nx|exact Ny]. lia. }
  assert (S : forall ts, StronglySorted Z.le ts ->
              forall i j a b, (i <= j)%nat -> nth_error ts i = Some a -> nth_error ts j = Some b -> a <= b).
  { induction 1 as [|t r Hr IH Ht]; intros i j a b L Ni Nj; [destruct i; discriminate|].
    destruct i, j; simpl in *; try lia.
    - inversion Ni; inversion Nj; lia.
    - inversion Ni; subst. rewrite Forall_forall in Ht. apply Ht. eapply nth_error_In; eauto.
    - eapply IH; [|eauto|eauto]. lia. }
  assert (K : forall ts, StronglySorted Z.le ts -> sorted_st (mkStore 3 ts)) by (intros; apply G, S; assumption).
  unfold ex_es, ex_store. simpl. unfold ev_sorted. simpl.
  splits; trivial; apply K; repeat (constructor; [|repeat constructor; lia]); constructor.
Qed.

(** the run hands 19 headers to Prune: batch calls, retries, failures (height 8 fails for good, 5 twice), and two headers whose
    time is exactly head time - window (the boundary instant counts as outside the window) *)
Example ex_run :
  let wt := run (step ex_F ex_cfg) (init ex_store, []) ex_es in
  length (snd wt) = 19%nat /\ w_mem (fst wt) = mkCp 15 [8] /\ w_disk (fst wt) = mkCp 15 [8] /\
  In (mkCall OBatch 11 60 60 true) (snd wt) /\ In (mkCall OBatch 14 90 90 true) (snd wt) /\
  In (mkCall ORetry 5 4 90 false) (snd wt) /\ In (mkCall ORetry 5 4 90 true) (snd wt) /\
  In (mkCall ORetry 8 30 100 false) (snd wt) /\ ~ In 16 (map c_h (snd wt)).
Proof. vm_compute. splits; try reflexivity; try tauto. intuition discriminate. Qed.

(** on-delete hook and tail advance, with a cycle running inside the hook's Prune call *)
Example ex_hook :
  let wt := run (step (fun _ _ => false) ex_cfg) (init ex_store, []) [EDelete 3 false; EDelete 4 true; EDrop; EDrop; ECycle; EReset] in
  map (fun k => (c_org k, c_h k)) (snd wt) =
    [(OHook, 4); (OBatch, 4); (OBatch, 5); (OBatch, 6); (OBatch, 7); (OBatch, 8); (OBatch, 9); (OBatch, 10); (OBatch, 11)] /\
  w_mem (fst wt) = mkCp 5 [] /\ s_tail (w_st (fst wt)) = 5.
Proof. vm_compute. auto. Qed.

(** the header store's tail overtakes the checkpoint (its deletions prune 6 through the hook, then the headers 5 and 6 go):
    the next cycle starts at the new tail 7 and hands it to Prune as well (before fix-c14-2 the checkpoint jumped to 7 and
    the block at height 7 was never pruned, neither by a cycle nor by the hook) *)
Example ex_tail_rebase :
  let st := mkStore 5 [0; 1; 2; 3; 4; 5; 6; 7; 8; 9; 100] in
  let wt := run (step (fun _ _ => false) (mkCfg 50 1 4)) (init st, [])
                [EDelete 5 false; EDelete 6 false; EDrop; EDrop; ECycle; EDelete 7 false; EDrop] in
  map (fun k => (c_org k, c_h k)) (snd wt) =
    [(OHook, 6); (OBatch, 7); (OBatch, 8); (OBatch, 9); (OBatch, 10); (OBatch, 11); (OBatch, 12); (OBatch, 13); (OBatch, 14)] /\
  w_mem (fst wt) = mkCp 14 [].
Proof. vm_compute. auto. Qed.

(** C14 — executable model of pruner/find.go (findPruneableHeaders, calculateEstimatedCutoff) over an abstract
    header store.  No proofs here (see FindProofs.v).

    Header store: consecutive heights [s_tail .. s_tail + len - 1], the time (ns) of each height in [s_times].
    A header is the pair (height, time): the only two fields the pruner reads. *)
From Coq Require Import List ZArith Bool.
Import ListNotations.
Open Scope Z_scope.

Notation hdr := (Z * Z)%type.           (* height, time *)
Record store := mkStore { s_tail : Z; s_times : list Z }.

Inductive res (A : Type) := Ok (a : A) | Err | OutOfFuel.
Arguments Ok {A} a. Arguments Err {A}. Arguments OutOfFuel {A}.

Definition s_len (st : store) : Z := Z.of_nat (length (s_times st)).
Definition s_headH (st : store) : Z := s_tail st + s_len st - 1.

(** hstore.GetByHeight *)
Definition get (st : store) (h : Z) : option hdr :=
  if (s_tail st <=? h) && (h <=? s_headH st)
  then match nth_error (s_times st) (Z.to_nat (h - s_tail st)) with Some t => Some (h, t) | None => None end
  else None.

(** hstore.Head / hstore.Tail (error on an empty store) *)
Definition head_of (st : store) : option hdr :=
  match s_times st with [] => None | _ => get st (s_headH st) end.
Definition tail_of (st : store) : option hdr :=
  match s_times st with [] => None | _ => get st (s_tail st) end.

(** headers of heights a, a+1, .., a+n-1; fails when one is missing *)
Fixpoint get_seq (st : store) (a : Z) (n : nat) : option (list hdr) :=
  match n with
  | O => Some []
  | S n' => match get st a, get_seq st (a + 1) n' with
            | Some x, Some r => Some (x :: r)
            | _, _ => None
            end
  end.

(** hstore.GetRangeByHeight(from, to): heights from+1 .. to-1; "from >= to" and missing headers are errors *)
Definition get_range (st : store) (from to : Z) : option (list hdr) :=
  if to <=? from + 1 then None else get_seq st (from + 1) (Z.to_nat (to - (from + 1))).

Record cfg := mkCfg { window : Z; btime : Z; maxh : Z }.   (* availability window, configured block time, maxHeadersPerLoop *)

(** calculateEstimatedCutoff (the head is re-read there; it is the same head) *)
Definition est_cutoff (c : cfg) (lp : hdr) (cut headH : Z) : Z :=
  let e := fst lp + Z.quot (cut - snd lp) (btime c) in
  let e := if headH <? e then headH else e in
  if maxh c <? e - fst lp then fst lp + maxh c else e.

Definition last_opt {A} (l : list A) : option A :=
  match l with [] => None | x :: r => Some (last r x) end.

(** the extension loop: while the last header is not newer than the cutoff fetch the next one; stop (and truncate) as
    soon as more than maxHeadersPerLoop headers are held *)
Fixpoint extend (fuel : nat) (c : cfg) (st : store) (cut : Z) (hs : list hdr) : res (list hdr) :=
  match fuel with
  | O => OutOfFuel
  | S f =>
    if maxh c <? Z.of_nat (length hs) then Ok (firstn (Z.to_nat (maxh c)) hs)
    else match last_opt hs with
         | None => Err                        (* headers[len-1] on an empty slice: not reachable, the range is non-empty *)
         | Some l =>
           if cut <? snd l then Ok hs
           else match get st (fst l + 1) with
                | None => Err
                | Some nx => extend f c st cut (hs ++ [nx])
                end
         end
  end.

(** the final cut: everything before the first header newer than the cutoff *)
Fixpoint take_le (cut : Z) (hs : list hdr) : list hdr :=
  match hs with
  | [] => []
  | x :: r => if cut <? snd x then [] else x :: take_le cut r
  end.

(** is the header to start after handed back itself? *)
Definition prepend (ck : Z) (lp : hdr) : bool := (fst lp =? 1) || (ck <? fst lp).

Definition find_fuel (st : store) : nat := S (S (length (s_times st))).

(** findPruneableHeaders(lastPruned); [ck] is the checkpoint's LastPrunedHeight at the time of the call: the header to start
    after is itself handed back when it is the genesis header or is not yet covered by the checkpoint (the header store's
    tail after it moved past the checkpoint, fix-c14-2) *)
Definition find (c : cfg) (st : store) (ck : Z) (lp : hdr) : res (list hdr) :=
  match head_of st with
  | None => Err
  | Some hd =>
    let cut := snd hd - window c in
    if negb (snd lp <? cut) then Ok []
    else
      let est := est_cutoff c lp cut (fst hd) in
      if est <=? fst lp then Ok []
      else match get_range st (fst lp) (est + 1) with
           | None => Err
           | Some hs0 =>
             let hs1 := if prepend ck lp then lp :: hs0 else hs0 in
             match extend (find_fuel st) c st cut hs1 with
             | Ok hs2 => Ok (take_le cut hs2)
             | Err => Err
             | OutOfFuel => OutOfFuel
             end
           end
  end.

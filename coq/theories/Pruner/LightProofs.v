(** Proofs about the light node's Prune under delete faults (model: Pruner/Light.v). *)
From Coq Require Import List Bool NArith Lia.
From CN Require Import Pruner.Light.
Import ListNotations.

(** [only_removed r ps]: same samples, and a block present afterwards was present before (Prune never stores anything) *)
Definition only_removed (r ps : list bool) : Prop :=
  length r = length ps /\ forall i, nth i r false = true -> nth i ps false = true.

Lemma only_removed_refl ps : only_removed ps ps.
Proof. split; auto. Qed.

Lemma only_removed_cons a b r ps : (a = true -> b = true) -> only_removed r ps -> only_removed (a :: r) (b :: ps).
Proof.
  intros Hab [Hl Hn]. split; [cbn; lia|]. intros [|i]; cbn; auto.
Qed.

Lemma only_removed_trans a b c : only_removed a b -> only_removed b c -> only_removed a c.
Proof. intros [L1 N1] [L2 N2]. split; [lia|auto]. Qed.

(** * the delete loop *)
Lemma del_loop_spec : forall ps fs ok r,
  del_loop ps fs = (ok, r) ->
  only_removed r ps /\
  (ok = true -> forallb negb r = true) /\
  (* a fault-free pattern cannot fail *)
  (forallb negb fs = true -> ok = true) /\
  (* failure: exactly the samples before the first fault were deleted, the rest is untouched *)
  (ok = false -> exists k, nth k fs false = true /\ (forall j, (j < k)%nat -> nth j fs false = false) /\ (k < length ps)%nat /\
                           r = repeat false k ++ skipn k ps).
Proof.
  induction ps as [|p ps IH]; intros fs ok r H; cbn [del_loop] in H.
  - inversion H; subst. repeat split; auto using only_removed_refl; try discriminate.
  - destruct fs as [|[|] fs'].
    + cbn [tl] in H. destruct (del_loop ps []) as [ok' r'] eqn:E. inversion H; subst.
      destruct (IH [] ok r' E) as (H1 & H2 & H3 & H4). repeat split.
      * apply only_removed_cons; [discriminate|exact H1].
      * apply only_removed_cons; [discriminate|exact H1].
      * intros Hok. cbn. auto.
      * intros _. apply H3. reflexivity.
      * intros Hok. destruct (H4 Hok) as (k & Hk & _). destruct k; discriminate.
    + inversion H; subst. repeat split; auto using only_removed_refl; try discriminate.
      intros _. exists 0%nat. cbn. repeat split; try lia.
    + cbn [tl] in H. destruct (del_loop ps fs') as [ok' r'] eqn:E. inversion H; subst.
      destruct (IH fs' ok r' E) as (H1 & H2 & H3 & H4). repeat split.
      * apply only_removed_cons; [discriminate|exact H1].
      * apply only_removed_cons; [discriminate|exact H1].
      * intros Hok. cbn. auto.
      * cbn. intros Hf. apply H3. exact Hf.
      * intros Hok. destruct (H4 Hok) as (k & Hk & Hlt & Hlen & Hr). exists (S k). cbn. repeat split; try lia.
        -- exact Hk.
        -- intros [|j] Hj; [reflexivity|]. apply Hlt. lia.
        -- rewrite Hr. reflexivity.
Qed.

(** * one call of Prune *)

(** 1. REPORTED PRUNED IMPLIES NOTHING LEFT: whenever Prune returns nil — under any fault pattern — no sample block of
    the height and no sampling result remain (given that the stored samples were indexed, [wf]). *)
Theorem reported_pruned_implies_nothing_left : forall s fs s',
  wf s = true -> prune_one s fs = (true, s') -> nothing_left s' = true.
Proof.
  intros [ps idx] fs s' Hwf H. unfold prune_one in H. cbn [index present] in H. destruct idx; cbn [negb] in H.
  - destruct (del_loop ps fs) as [ok r] eqn:E. destruct ok; [|discriminate]. inversion H; subst.
    destruct (del_loop_spec _ _ _ _ E) as (_ & H2 & _). unfold nothing_left. cbn. rewrite (H2 eq_refl). reflexivity.
  - inversion H; subst. unfold wf in Hwf. cbn in Hwf. unfold nothing_left. cbn. rewrite Hwf. reflexivity.
Qed.

(** 2. A FAILED CALL KEEPS THE INDEX: whenever Prune returns an error, the sampling result is still there (so the retry
    finds every remaining sample), nothing was added, the samples before the failing delete are gone and the others are
    exactly as before. *)
Theorem failed_keeps_index : forall s fs s',
  prune_one s fs = (false, s') ->
  index s = true /\ index s' = true /\ wf s' = true /\ only_removed (present s') (present s) /\
  exists k, nth k fs false = true /\ (k < length (present s))%nat /\
            present s' = repeat false k ++ skipn k (present s).
Proof.
  intros [ps idx] fs s' H. unfold prune_one in H. cbn [index present] in H. destruct idx; cbn [negb] in H; [|discriminate].
  destruct (del_loop ps fs) as [ok r] eqn:E. destruct ok; [discriminate|]. inversion H; subst. cbn.
  destruct (del_loop_spec _ _ _ _ E) as (H1 & _ & _ & H4). destruct (H4 eq_refl) as (k & Hk & _ & Hlen & Hr).
  repeat split; try apply H1. exists k. auto.
Qed.

Theorem prune_one_preserves_wf : forall s fs ok s', wf s = true -> prune_one s fs = (ok, s') -> wf s' = true.
Proof.
  intros s fs [|] s' Hwf H.
  - apply reported_pruned_implies_nothing_left in H; [|exact Hwf]. unfold nothing_left in H. apply andb_true_iff in H as [H _].
    unfold wf. rewrite H. apply orb_true_r.
  - apply failed_keeps_index in H. tauto.
Qed.

Theorem prune_one_only_removes : forall s fs ok s', prune_one s fs = (ok, s') -> only_removed (present s') (present s).
Proof.
  intros [ps idx] fs ok s' H. unfold prune_one in H. cbn [index present] in H. destruct idx; cbn [negb] in H.
  - destruct (del_loop ps fs) as [ok' r] eqn:E. destruct (del_loop_spec _ _ _ _ E) as (H1 & _).
    destruct ok'; inversion H; subst; exact H1.
  - inversion H; subst. apply only_removed_refl.
Qed.

(** a call without faults succeeds *)
Theorem no_fault_succeeds : forall s fs, no_fault fs = true -> fst (prune_one s fs) = true.
Proof.
  intros [ps idx] fs Hf. unfold prune_one. cbn [index present]. destruct idx; cbn [negb]; [|reflexivity].
  destruct (del_loop ps fs) as [ok r] eqn:E. destruct (del_loop_spec _ _ _ _ E) as (_ & _ & H3 & _).
  rewrite (H3 Hf). reflexivity.
Qed.

(** * the service's retries *)

(** 3. FAILED IS RETRIED WITH THE INDEX INTACT, for every schedule of fault patterns: the height is handed to Prune on
    every cycle until a call succeeds; if the service records it pruned nothing is left; while it is recorded failed it
    has been tried on every cycle, the sampling result is still there and covers every remaining block. *)
Theorem failed_is_retried_with_index_intact : forall sched s st s' n,
  wf s = true -> attempts s sched = (st, s', n) ->
  only_removed (present s') (present s) /\ wf s' = true /\
  (st = Pruned -> nothing_left s' = true /\ (1 <= n <= length sched)%nat) /\
  (st = Failed -> n = length sched /\ (sched <> [] -> index s' = true) /\ (sched = [] -> s' = s)).
Proof.
  induction sched as [|fs sched IH]; intros s st s' n Hwf H; cbn [attempts] in H.
  - inversion H; subst. repeat split; auto using only_removed_refl; try discriminate; try congruence.
  - destruct (prune_one s fs) as [ok s1] eqn:E. destruct ok.
    + inversion H; subst. repeat split.
      * apply (prune_one_only_removes _ _ _ _ E).
      * apply (prune_one_only_removes _ _ _ _ E).
      * apply (prune_one_preserves_wf _ _ _ _ Hwf E).
      * apply (reported_pruned_implies_nothing_left _ _ _ Hwf E).
      * lia.
      * cbn. lia.
      * discriminate.
      * discriminate.
      * discriminate.
    + destruct (attempts s1 sched) as [[st1 s2] n1] eqn:E2. inversion H; subst.
      pose proof (prune_one_preserves_wf _ _ _ _ Hwf E) as Hwf1.
      destruct (IH s1 st s' n1 Hwf1 E2) as (H1 & H2 & H3 & H4).
      pose proof (prune_one_only_removes _ _ _ _ E) as H0.
      destruct (failed_keeps_index _ _ _ E) as (_ & Hi1 & _).
      split; [eapply only_removed_trans; eassumption|]. split; [exact H2|]. split.
      * intros Hp. destruct (H3 Hp) as [Ha Hb]. split; [exact Ha|cbn; lia].
      * intros Hf. destruct (H4 Hf) as (Ha & Hb & Hc). split; [cbn; lia|]. split; [|discriminate].
        intros _. destruct sched; [rewrite (Hc eq_refl); exact Hi1|apply Hb; discriminate].
Qed.

(** 4. TRANSIENT FAULTS: as soon as one cycle's call meets no fault the height is pruned — at the latest by that call —
    and nothing is left. *)
Theorem transient_faults_eventually_removed : forall sched s k,
  wf s = true -> (exists fs, nth_error sched k = Some fs /\ no_fault fs = true) ->
  exists s' n, attempts s sched = (Pruned, s', n) /\ (n <= k + 1)%nat /\ nothing_left s' = true.
Proof.
  induction sched as [|fs sched IH]; intros s k Hwf (f & Hk & Hf).
  - destruct k; discriminate.
  - cbn [attempts]. destruct (prune_one s fs) as [ok s1] eqn:E. destruct ok.
    + exists s1, 1%nat. repeat split; [lia|apply (reported_pruned_implies_nothing_left _ _ _ Hwf E)].
    + destruct k as [|k].
      * cbn in Hk. inversion Hk; subst. pose proof (no_fault_succeeds s f Hf) as H. rewrite E in H. discriminate.
      * cbn in Hk. destruct (IH s1 k (prune_one_preserves_wf _ _ _ _ Hwf E) (ex_intro _ f (conj Hk Hf))) as (s' & n & Ha & Hn & Hl).
        rewrite Ha. exists s', (S n). repeat split; [lia|exact Hl].
Qed.

(** * the best-effort variant is refuted *)

(** with "log and continue" a call reports success although a sample block is left; the sampling result is gone, so the
    block is in no index: every later call, even without any fault, reports success again and removes nothing *)
Theorem besteffort_refuted :
  exists s fs s', wf s = true /\ prune_one_besteffort s fs = (true, s') /\ nothing_left s' = false /\ wf s' = false /\
                  (forall fs', prune_one_besteffort s' fs' = (true, s')) /\ (forall fs', prune_one s' fs' = (true, s')) /\
                  (* the code as it is reports the failure and keeps the index *)
                  prune_one s fs = (false, mkL [false; true; true] true).
Proof.
  exists (mkL [true; true; true] true), [false; true], (mkL [false; true; false] false).
  repeat split; vm_compute; reflexivity.
Qed.

(** * non-vacuity *)
Example light_nonvacuous :
  wf (mkL [true; true; false; true] true) = true /\
  prune_one (mkL [true; true; false; true] true) [] = (true, mkL [false; false; false; false] false) /\
  prune_one (mkL [true; true; false; true] true) [false; false; true] = (false, mkL [false; false; false; true] true) /\
  attempts (mkL [true; true; false; true] true) [[false; true]; [true]; [false; false; false; true]; []; [true]]
    = (Pruned, mkL [false; false; false; false] false, 4%nat) /\
  attempts (mkL [true; true] true) [[true]; [true]; [true]] = (Failed, mkL [true; true] true, 3%nat) /\
  light_mismatches [LPrune (mkL [true; true] true) [false; true] false (mkL [false; true] true);
                    LPrune (mkL [true; true] true) [false; true] true (mkL [false; true] false)] = [1%N].
Proof. vm_compute. repeat split. Qed.

(** Model of the light node's Pruner: [ShareAvailability.Prune] (share/availability/light/availability.go) —
    "prune one height = delete every indexed sample, then the index" — under delete faults, and the retry discipline of
    pruner.Service around it (a height whose Prune returned an error sits in the checkpoint's failed set and is handed to
    Prune again by every following cycle; a height whose Prune returned nil is never visited again).

    State of one height:
    - [present] : per sample listed in the sampling result ([SamplingResult.Available], in that order) — is its block in
      the blockstore;
    - [index]   : does the sampling result exist.  It is the ONLY record of which sample blocks belong to the height.
    One attempt = one call of Prune with a fault pattern [fs]: [nth i fs false = true] iff the i-th [DeleteBlock] call of
    this attempt fails with an error other than "not found" (a missing block is tolerated and counts as deleted).

    Executable, no proofs here (Pruner/LightProofs.v). *)
From Coq Require Import List Bool NArith.
Import ListNotations.

Record lstate := mkL { present : list bool; index : bool }.

(** the loop over [result.Available]: the first failing DeleteBlock aborts the call, the samples after it are untouched *)
Fixpoint del_loop (ps fs : list bool) : bool * list bool :=
  match ps with
  | [] => (true, [])
  | p :: ps' =>
    match fs with
    | true :: _ => (false, ps)
    | _ => let '(ok, r) := del_loop ps' (tl fs) in (ok, false :: r)
    end
  end.

(** [Prune]: no sampling result: nothing to prune; otherwise delete the samples, and only then the sampling result *)
Definition prune_one (s : lstate) (fs : list bool) : bool * lstate :=
  if negb (index s) then (true, s)
  else let '(ok, ps) := del_loop (present s) fs in
       if ok then (true, mkL ps false) else (false, mkL ps true).

(** the variant that treats a delete fault as "best effort" (log and continue), then deletes the sampling result and
    reports success — refuted in LightProofs.v *)
Fixpoint del_loop_besteffort (ps fs : list bool) : list bool :=
  match ps with
  | [] => []
  | p :: ps' => (match fs with true :: _ => p | _ => false end) :: del_loop_besteffort ps' (tl fs)
  end.

Definition prune_one_besteffort (s : lstate) (fs : list bool) : bool * lstate :=
  if negb (index s) then (true, s) else (true, mkL (del_loop_besteffort (present s) fs) false).

(** nothing of the height is left: no sample block, no sampling result *)
Definition nothing_left (s : lstate) : bool := forallb negb (present s) && negb (index s).

(** what Prune relies on: every stored sample block of the height is listed in an existing sampling result
    (true after sampling: the result is persisted before any sample is requested) *)
Definition wf (s : lstate) : bool := index s || forallb negb (present s).

(** * The service's discipline for one height *)
Inductive status := Pruned | Failed.

(** [attempts s sched]: the height is handed to Prune once per cycle, with the fault patterns of [sched] in turn, until a
    call returns nil; returns the status the service records, the state, and the number of calls made *)
Fixpoint attempts (s : lstate) (sched : list (list bool)) : status * lstate * nat :=
  match sched with
  | [] => (Failed, s, 0)
  | fs :: sched' =>
    let '(ok, s') := prune_one s fs in
    if ok then (Pruned, s', 1)
    else let '(st, s'', n) := attempts s' sched' in (st, s'', S n)
  end.

Definition no_fault (fs : list bool) : bool := forallb negb fs.

(** * Correspondence cases: one observed Prune call of the real light availability *)
Inductive lcase :=
  LPrune (before : lstate) (faults : list bool) (obs_ok : bool) (after : lstate).

Definition lstate_eqb (a b : lstate) : bool :=
  Bool.eqb (index a) (index b) &&
  (Nat.eqb (length (present a)) (length (present b)) &&
   forallb (fun pq => Bool.eqb (fst pq) (snd pq)) (combine (present a) (present b))).

Definition lagree (c : lcase) : bool :=
  match c with
  | LPrune b fs ok a => let '(ok', a') := prune_one b fs in Bool.eqb ok ok' && lstate_eqb a a'
  end.

Fixpoint lmism_from (n : N) (cs : list lcase) : list N :=
  match cs with
  | [] => []
  | c :: cs' => if lagree c then lmism_from (N.succ n) cs' else n :: lmism_from (N.succ n) cs'
  end.
Definition light_mismatches (cs : list lcase) : list N := lmism_from 0%N cs.

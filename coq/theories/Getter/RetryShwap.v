(** C06 — the abstract [verify] instantiated with the model of Sample.Verify (Shwap/Verify.v): what GetSamples hands
    out, at every position and on every path, is the share the header commits to at the requested coordinates. *)
From Coq Require Import List Bool Arith NArith.
From CN Require Import Base.Nmt Shwap.Verify Shwap.VerifyProofs Getter.Retry Getter.RetryProofs.
Import ListNotations.

Definition sample_vfy (D : nat) (cell : nat -> nat -> share) (rc : nat * nat) (b : option sample) : bool :=
  match b with Some s => sample_verify (dah D cell) s (fst rc) (snd rc) | None => false end.

Theorem get_samples_committed : forall D cell slots vals err,
  (forall rq sc, In (rq, sc) slots -> fst rq < 2 ^ D /\ snd rq < 2 ^ D) ->
  get_samples (plain_codec opt_empty) (sample_vfy D cell) false slots = (vals, err) ->
  forall i s, nth_error vals i = Some (Some s) ->
    exists rq sc, nth_error slots i = Some (rq, sc) /\ sm_share s = cell (fst rq) (snd rq).
Proof.
  intros D cell slots vals err Hb H i s Hn.
  destruct (get_samples_verified (plain_codec opt_empty) (sample_vfy D cell) eq_refl slots vals err H) as [_ Hv].
  destruct (Hv i (Some s) Hn eq_refl) as [rq [sc [H1 H2]]].
  exists rq, sc. split; [exact H1|].
  destruct (Hb rq sc (nth_error_In _ _ H1)) as [Hr Hc].
  eapply sample_sound; eassumption.
Qed.

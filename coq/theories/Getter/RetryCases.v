(** C06 — the model instance the correspondence cases are evaluated with.  The harness classifies every payload a
    scripted peer sends (decodes? empty? what does the real Verify say?) and names each distinct decoded container with a
    number; the model only has to get the *protocol* right: which answer ends up in the caller's hands, the error class,
    how many requests were issued, which peers were reported for blacklisting. *)
From Coq Require Import List Bool Arith NArith BinNat.
From CN Require Import Getter.Retry.
Import ListNotations.

(** a decoded container: None = decodes to an empty container; Some (id, what Verify says) *)
Definition cwire : Type := option (N * bool).
Definition ccodec : codec cwire cwire := plain_codec opt_empty.
Definition cverify (_ : unit) (b : cwire) : bool := match b with Some (_, ok) => ok | None => false end.
Definition cscript : Type := list (behaviour cwire).

(** monomorphic shorthands for the generated case files (no implicit arguments to infer: the case files type-check fast) *)
Definition cA (p : N) (ok : bool) : behaviour cwire := Answer (Some (p, ok)).
Definition cAE : behaviour cwire := Answer None.
Definition cUK : behaviour cwire := Undecodable GKeep.
Definition cUZ : behaviour cwire := Undecodable GZero.
Definition cNF : behaviour cwire := NotFound.
Definition cIN : behaviour cwire := Internal.
Definition cBS : behaviour cwire := BadStatus.
Definition cRS : behaviour cwire := Reset.
Definition cRL : behaviour cwire := RateLimited.
Definition cTO : behaviour cwire := Timeout.
Definition cDL : behaviour cwire := Deadline.
Definition slot (p : option N) (a : nat) (b : list nat) : option N * nat * list nat := (p, a, b).

Definition pid_of (b : cwire) : option N := option_map fst b.

Fixpoint black_from (i : nat) (t : list punish) : list nat :=
  match t with
  | [] => []
  | PBlacklist :: t' => i :: black_from (S i) t'
  | _ :: t' => black_from (S i) t'
  end.

(** observation of one executeRequest-based call *)
Record sobs := mksobs {
  o_pid : option N;        (* the returned container (None: zero value / empty) *)
  o_err : bool;            (* err != nil *)
  o_notfound : bool;       (* errors.Is(err, shwap.ErrNotFound) *)
  o_ctx : bool;            (* errors.Is(err, DeadlineExceeded) || errors.Is(err, Canceled) *)
  o_attempts : nat;        (* requests issued *)
  o_black : list nat       (* attempts whose peer ended up blocked; [] when blacklisting is disabled *)
}.

Definition nat_list_eqb (a b : list nat) : bool :=
  Nat.eqb (length a) (length b) && forallb (fun p => Nat.eqb (fst p) (snd p)) (combine a b).
Definition optN_eqb (a b : option N) : bool :=
  match a, b with Some x, Some y => N.eqb x y | None, None => true | _, _ => false end.

Definition sobs_eqb (a b : sobs) : bool :=
  optN_eqb (o_pid a) (o_pid b) && Bool.eqb (o_err a) (o_err b) && Bool.eqb (o_notfound a) (o_notfound b) &&
  Bool.eqb (o_ctx a) (o_ctx b) && Nat.eqb (o_attempts a) (o_attempts b) && nat_list_eqb (o_black a) (o_black b).

Definition obs_of (blacklisting : bool) (leak_visible : bool) (o : outcome (buf := cwire)) : sobs :=
  let s := out_st o in
  let bl := if blacklisting then black_from 0 (s_trace s) else [] in
  match o with
  | OOk _ => mksobs (pid_of (s_buf s)) false false false (s_attempts s) bl
  | _ => mksobs (if leak_visible then pid_of (s_buf s) else None) true (e_notfound (s_err s)) (e_ctx (s_err s)) (s_attempts s) bl
  end.

Definition run_single (blacklisting : bool) (script : cscript) : sobs :=
  obs_of blacklisting false (finish (exec ccodec cverify tt (init_st ccodec) script)).

(** GetSamples: per slot (returned container, requests issued, blacklisted attempts); the error *)
Record mobs := mkmobs { m_slots : list (option N * nat * list nat); m_err : bool; m_notfound : bool }.

Definition slot_eqb (a b : option N * nat * list nat) : bool :=
  optN_eqb (fst (fst a)) (fst (fst b)) && Nat.eqb (snd (fst a)) (snd (fst b)) && nat_list_eqb (snd a) (snd b).

Definition run_samples (blacklisting : bool) (slots : list cscript) (obs : mobs) : bool :=
  let outs := map (fun sc => finish (exec ccodec cverify tt (init_st ccodec) sc)) slots in
  let so := map (obs_of blacklisting false) outs in
  let failing := filter o_err so in
  Nat.eqb (length so) (length (m_slots obs)) &&
  forallb (fun p => slot_eqb (o_pid (fst p), o_attempts (fst p), o_black (fst p)) (snd p)) (combine so (m_slots obs)) &&
  Bool.eqb (m_err obs) (negb (Nat.eqb (length failing) 0)) &&
  (* errgroup returns the error of whichever slot failed first: schedule dependent among the failing slots *)
  implb (m_notfound obs) (existsb o_notfound failing) &&
  implb (negb (Nat.eqb (length failing) 0) && forallb o_notfound failing) (m_notfound obs).

(** bitswap: per block the deliveries addressed to it, in order.  Observed: per block the container it holds. *)
Definition run_bs_samples (blks : list (list (option cwire))) : option (list (option N)) * bool :=
  let '(r, ok) := bs_get_samples ccodec cverify (map (fun d => (tt, d)) blks) in
  (option_map (map pid_of) r, ok).
Definition run_bs_all (blks : list (list (option cwire))) : option (list (option N)) :=
  option_map (map pid_of) (bs_get_all ccodec cverify (map (fun d => (tt, d)) blks)).

Definition optl_eqb (a b : option (list (option N))) : bool :=
  match a, b with
  | Some x, Some y => Nat.eqb (length x) (length y) && forallb (fun p => optN_eqb (fst p) (snd p)) (combine x y)
  | None, None => true
  | _, _ => false
  end.

(** cascade: every getter's (value id, error class, context done afterwards); observed: value id or failure class *)
Definition cres_eqb (a b : cres N) : bool :=
  match a, b with
  | CVal x, CVal y => N.eqb x y
  | CFail n z, CFail n' z' => Bool.eqb n n' && Bool.eqb z z'
  | _, _ => false
  end.
Definition ocres_eqb (a b : option (cres N)) : bool :=
  match a, b with Some x, Some y => cres_eqb x y | None, None => true | _, _ => false end.

Inductive ccase :=
| CSingle (blacklisting : bool) (script : cscript) (obs : sobs)
| CSamples (blacklisting : bool) (slots : list cscript) (obs : mobs)
| CBsSamples (blks : list (list (option cwire))) (vals : option (list (option N))) (ok : bool)
| CBsAll (blks : list (list (option cwire))) (vals : option (list (option N)))
| CCascade (gs : list (gres N)) (obs : option (cres N)).

Definition agree (c : ccase) : bool :=
  match c with
  | CSingle bl sc obs => sobs_eqb (run_single bl sc) obs
  | CSamples bl slots obs => run_samples bl slots obs
  | CBsSamples blks vals ok => let '(v, k) := run_bs_samples blks in optl_eqb v vals && Bool.eqb k ok
  | CBsAll blks vals => optl_eqb (run_bs_all blks) vals
  | CCascade gs obs => ocres_eqb (cascade gs) obs
  end.

Fixpoint mism_from (n : N) (cs : list ccase) : list N :=
  match cs with
  | [] => []
  | c :: cs' => if agree c then mism_from (N.succ n) cs' else n :: mism_from (N.succ n) cs'
  end.
Definition mismatches (cs : list ccase) : list N := mism_from 0%N cs.

(** C06 — executable model of the network getters (share/shwap/p2p/shrex/shrex_getter/shrex.go,
    share/shwap/p2p/shrex/client.go, share/shwap/p2p/bitswap/getter.go + block_fetch.go, share/shwap/getters/cascade.go).

    The protocol logic does not care what verification is: [verify] is a Section variable.  What it does care about is
    *where the bytes of a peer are decoded to*, *when the result becomes visible to the caller* and *what a failed attempt
    leaves behind*.  So the model is written over
      - a request [req], a wire payload [wire] (what a peer sends after the OK status and the container's [ReadFrom]
        manages to decode) and the response buffer [buf] the getter decodes into, shared by all attempts of one request;
      - a [codec]: the container's [ReadFrom] as a function of the *previous buffer content* (which fields are overwritten,
        which survive), the zero value and [IsEmpty];
      - a script: the sequence of behaviours of the peers the peer manager hands out, one per attempt.

    No proofs in this file (proofs: RetryProofs.v). *)
From Coq Require Import List Bool Arith NArith.
Import ListNotations.

(** * What one peer does in one attempt *)
Inductive garbage := GKeep | GZero.
(** a failed [ReadFrom] leaves the buffer untouched ([serde.Read] failed: Sample, Row, NamespaceData, RangeNamespaceData,
    the EDS byte buffer is reset by the next request anyway) or sets it to the zero value ([*s, err = XxxFromProto(..)]
    with a protobuf that parses but does not convert: Sample, Row) *)

Inductive behaviour (wire : Type) :=
| Answer (w : wire)          (* status OK + a payload the container's ReadFrom decodes (honest, other coordinates, other
                                square, cut at a message boundary, extended, shares mutated, ...) *)
| Undecodable (g : garbage)  (* status OK + a payload ReadFrom rejects: ErrInvalidResponse *)
| NotFound                   (* status NOT_FOUND *)
| Internal                   (* status INTERNAL *)
| BadStatus                  (* any other status value: ErrInvalidRequest *)
| Reset                      (* stream reset / closed before a status was read, stream could not be opened *)
| RateLimited                (* reset with StreamRateLimited / StreamResourceLimitExceeded: ErrResourceExhausted *)
| Timeout                    (* no answer within the per-attempt timeout; the caller's context is still live *)
| Deadline.                  (* the caller's context ends (deadline or cancellation) during this attempt *)
Arguments Answer {wire}. Arguments Undecodable {wire}. Arguments NotFound {wire}. Arguments Internal {wire}.
Arguments BadStatus {wire}. Arguments Reset {wire}. Arguments RateLimited {wire}. Arguments Timeout {wire}.
Arguments Deadline {wire}.

(** peers.ResultNoop / ResultCooldownPeer / ResultBlacklistPeer, as passed to the peer manager's DoneFunc *)
Inductive punish := PNoop | PCooldown | PBlacklist.

(** the error value executeRequest accumulates with errors.Join, projected to the classes a caller can test with errors.Is *)
Record errs := mkerrs {
  e_notfound : bool;   (* shwap.ErrNotFound *)
  e_corrupt : bool;    (* a verification failure or shrex.ErrInvalidResponse *)
  e_server : bool;     (* ErrInternalServer / ErrInvalidRequest / ErrResourceExhausted / a stream error *)
  e_ctx : bool         (* context.DeadlineExceeded / context.Canceled *)
}.
Definition no_err : errs := mkerrs false false false false.
Definition add_notfound (e : errs) := mkerrs true (e_corrupt e) (e_server e) (e_ctx e).
Definition add_corrupt (e : errs) := mkerrs (e_notfound e) true (e_server e) (e_ctx e).
Definition add_server (e : errs) := mkerrs (e_notfound e) (e_corrupt e) true (e_ctx e).
Definition add_ctx (e : errs) := mkerrs (e_notfound e) (e_corrupt e) (e_server e) true.

(** * The container codec *)
Record codec (wire buf : Type) := mkcodec {
  zero : buf;                      (* the zero value: shwap.Sample{}, shwap.Row{}, nil NamespaceData, ... *)
  decode : buf -> wire -> buf;     (* a successful ReadFrom into a buffer holding [buf] *)
  is_empty : buf -> bool           (* IsEmpty() / buff.Len() == 0 *)
}.
Arguments zero {wire buf}. Arguments decode {wire buf}. Arguments is_empty {wire buf}.

(** a codec whose successful decode does not depend on what the buffer held before *)
Definition overwrites {wire buf} (c : codec wire buf) : Prop := forall b w, decode c b w = decode c (zero c) w.

Section Exec.
  Context {req wire buf : Type}.
  Variable C : codec wire buf.
  Variable verify : req -> buf -> bool.
  Variable r : req.

  (** the closure [handle]/[verify]/[build] of every Get method: "nil response" check, then verification *)
  Definition handle (b : buf) : bool := negb (is_empty C b) && verify r b.

  (** state of one executeRequest call *)
  Record st := mkst {
    s_buf : buf;              (* the response container captured by the req/verify closures *)
    s_err : errs;             (* err *)
    s_attempts : nat;         (* attempt *)
    s_trace : list punish     (* the last setStatus call of every attempt, oldest first *)
  }.
  Definition init_st : st := mkst (zero C) no_err 0 [].

  Inductive outcome :=
  | OOk (s : st)              (* return nil: the buffer holds the result *)
  | OErr (s : st)             (* return errors.Join(err, ctx.Err()) *)
  | OWait (s : st).           (* blocked in getPeer: no peer is available and the context is still live *)

  Definition after_failed_read (g : garbage) (b : buf) : buf := match g with GKeep => b | GZero => zero C end.

  Definition bump (s : st) (b : buf) (e : errs) (p : list punish) : st :=
    mkst b e (S (s_attempts s)) (s_trace s ++ p).

  (** executeRequest, shrex.go: one iteration per scripted peer *)
  Fixpoint exec (s : st) (script : list (behaviour wire)) : outcome :=
    match script with
    | [] => OWait s
    | bh :: rest =>
      match bh with
      | Answer w =>
        let b := decode C (s_buf s) w in
        if handle b then OOk (bump s b (s_err s) [PNoop])
        else exec (bump s b (add_corrupt (s_err s)) [PBlacklist]) rest
      | Undecodable g => exec (bump s (after_failed_read g (s_buf s)) (add_corrupt (s_err s)) [PBlacklist]) rest
      | NotFound => exec (bump s (s_buf s) (add_notfound (s_err s)) [PCooldown]) rest
      | Internal | BadStatus | Reset | RateLimited => exec (bump s (s_buf s) (add_server (s_err s)) [PCooldown]) rest
      | Timeout => exec (bump s (s_buf s) (add_ctx (s_err s)) [PCooldown]) rest
      | Deadline => OErr (bump s (s_buf s) (add_ctx (s_err s)) [PCooldown])
      end
    end.

  (** the caller's context has a deadline: a call blocked in getPeer returns [errors.Join(err, ctx.Err())] when it fires
      (also covers a context that is already done when the call starts: script [[]]) *)
  Definition finish (o : outcome) : outcome :=
    match o with
    | OWait s => OErr (mkst (s_buf s) (add_ctx (s_err s)) (s_attempts s) (s_trace s))
    | _ => o
    end.

  Definition out_st (o : outcome) : st := match o with OOk s | OErr s | OWait s => s end.

  (** ** Single-container getters: GetRow, GetNamespaceData, GetRangeNamespaceData, GetEDS.
      [if err != nil { return zero, err }; return response, nil] *)
  Definition get_single (script : list (behaviour wire)) : buf * option errs :=
    match finish (exec init_st script) with
    | OOk s => (s_buf s, None)
    | o => (zero C, Some (s_err (out_st o)))
    end.

  (** ** GetSamples: one executeRequest per coordinate, the positional result slice is returned together with the first error.
      [leak = true] is the code before fix-c06-1: the closures decode straight into [samples[i]], so whatever the last
      decode left there is what the caller sees.  [leak = false]: decode into a local, assign the slot after verification. *)
  Definition slot_of (leak : bool) (o : outcome) : buf * option errs :=
    match o with
    | OOk s => (s_buf s, None)
    | o => ((if leak then s_buf (out_st o) else zero C), Some (s_err (out_st o)))
    end.

  Definition first_err (l : list (option errs)) : option errs :=
    fold_right (fun x acc => match x with Some e => Some e | None => acc end) None l.
End Exec.

Arguments mkst {buf}. Arguments OOk {buf}. Arguments OErr {buf}. Arguments OWait {buf}.

Section Samples.
  Context {req wire buf : Type}.
  Variable C : codec wire buf.
  Variable verify : req -> buf -> bool.

  (** every slot has its own request and its own sequence of peers; a slot that is cancelled because a sibling failed sees a
      [Deadline] at that point of its script, so quantifying over all scripts covers every schedule of the errgroup. *)
  Definition get_samples (leak : bool) (slots : list (req * list (behaviour wire))) : list buf * option errs :=
    let rs := map (fun x => slot_of C leak (finish (exec C verify (fst x) (init_st C) (snd x)))) slots in
    (map fst rs, first_err (map snd rs)).
End Samples.

(** * Bitswap: Fetch populates a block only inside the verifying UnmarshalFn (block_fetch.go, *_block.go) *)
Section Bitswap.
  Context {req wire buf : Type}.
  Variable C : codec wire buf.
  Variable verify : req -> buf -> bool.

  (** one block = one request; [deliveries] are the block bodies the exchange hands to the hasher for that CID, in order.
      [None] = a body the envelope / CID / id / protobuf checks reject.  A populated block ignores later deliveries. *)
  Definition deliver (r : req) (cur : buf) (d : option wire) : buf :=
    if negb (is_empty C cur) then cur else
    match d with
    | None => cur
    | Some w => let b := decode C (zero C) w in if handle C verify r b then b else cur
    end.
  Definition fetch_block (r : req) (ds : list (option wire)) : buf := fold_left (deliver r) ds (zero C).

  (** Fetch returns nil iff every block was populated before the context ended *)
  Definition fetch (blks : list (req * list (option wire))) : list buf * bool :=
    let bs := map (fun x => fetch_block (fst x) (snd x)) blks in
    (bs, forallb (fun b => negb (is_empty C b)) bs).

  (** Getter.GetSamples (bitswap/getter.go): the partial slice goes out with the error when at least one block was fetched *)
  Definition bs_get_samples (blks : list (req * list (option wire))) : option (list buf) * bool :=
    let '(bs, ok) := fetch blks in
    if ok then (Some bs, true) else
    if existsb (fun b => negb (is_empty C b)) bs then (Some bs, false) else (None, false).

  (** GetRow / GetRangeNamespaceData / the rows of GetEDS and GetNamespaceData: all or nothing *)
  Definition bs_get_all (blks : list (req * list (option wire))) : option (list buf) :=
    let '(bs, ok) := fetch blks in if ok then Some bs else None.
End Bitswap.

(** * Cascade (getters/cascade.go) *)
Section Cascade.
  Context {V : Type}.
  (** what one getter returned: a value (possibly partial) and an error class *)
  Inductive gerr := GNone | GNotSupported | GByzantine | GOther (e : errs).
  Record gres := mkgres { g_val : V; g_err : gerr; g_ctx_done : bool (* ctx.Err() != nil after this getter returned *) }.

  Inductive cres := CVal (v : V) | CFail (notfound : bool) (byz : bool).

  Fixpoint cascade_from (nf : bool) (gs : list gres) : cres :=
    match gs with
    | [] => CFail nf false                         (* "all getters failed: %w" *)
    | g :: rest =>
      match g_err g with
      | GNone => CVal (g_val g)
      | GNotSupported => cascade_from nf rest
      | GByzantine => CFail false true
      | GOther e => if g_ctx_done g then CFail false false   (* return zero, ctx.Err() *)
                    else cascade_from (nf || e_notfound e) rest
      end
    end.
  Definition cascade (gs : list gres) : option cres :=
    match gs with [] => None (* "no getters provided" *) | _ => Some (cascade_from false gs) end.
End Cascade.
Arguments gres : clear implicits. Arguments cres : clear implicits.

(** * Concrete codecs *)
(** Sample / Row / NamespaceData / the EDS byte buffer: a successful decode replaces the whole value *)
Definition plain_codec {A} (is_emp : option A -> bool) : codec (option A) (option A) :=
  mkcodec _ _ None (fun _ w => w) is_emp.
Definition opt_empty {A} (x : option A) : bool := match x with None => true | Some _ => false end.

(** RangeNamespaceData: rows arrive as a stream of RowNamespaceData messages (shares, proof) *)
Section Range.
  Context {X P : Type}.
  Record rng := mkrng { rg_rows : option (list X); rg_first : option P; rg_last : option P }.
  Definition rng_zero : rng := mkrng None None None.
  (** [resets = false]: ReadFrom before fix-c06-2 — Shares is rebuilt, the first proof is assigned when there is at least
      one row, the last proof only when there are at least two: otherwise the previous content survives.
      [resets = true]: the receiver is replaced as a whole. *)
  Definition rng_decode (resets : bool) (b : rng) (nd : list (X * option P)) : rng :=
    let base := if resets then rng_zero else b in
    mkrng (Some (map fst nd))
          (match nd with [] => rg_first base | x :: _ => snd x end)
          (match nd with [] | [_] => rg_last base | x :: _ :: _ => snd (last nd x) end).
  Definition rng_empty (b : rng) : bool :=
    match rg_rows b, rg_first b, rg_last b with None, None, None => true | _, _, _ => false end.
  Definition rng_codec (resets : bool) : codec (list (X * option P)) rng :=
    mkcodec _ _ rng_zero (rng_decode resets) rng_empty.
End Range.
Arguments rng : clear implicits.

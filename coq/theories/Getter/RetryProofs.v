(** C06 — proofs about the getter model (Retry.v): for every script of peer behaviours, every deadline point, every codec.
    No axioms. *)
From Coq Require Import List Bool Arith Lia.
From CN Require Import Getter.Retry.
Import ListNotations.

(** * executeRequest *)
Section ExecProofs.
  Context {req wire buf : Type}.
  Variable C : codec wire buf.
  Variable verify : req -> buf -> bool.
  Variable r : req.
  Notation exec := (exec C verify r).
  Notation handle := (handle C verify r).
  Notation st := (@st buf).

  Definition is_terminal (s : st) (b : behaviour wire) : bool :=
    match b with
    | Answer w => handle (decode C (s_buf s) w)
    | Deadline => true
    | _ => false
    end.

  Lemma exec_app : forall a b s,
    exec s (a ++ b) = match exec s a with OWait s' => exec s' b | o => o end.
  Proof.
    induction a as [|x a IH]; intros b s; simpl; [reflexivity|].
    destruct x; try apply IH; try reflexivity.
    destruct (handle (decode C (s_buf s) w)); [reflexivity|apply IH].
  Qed.

  (** ** returned_verified *)
  Lemma exec_ok_verified : forall sc s s', exec s sc = OOk s' -> handle (s_buf s') = true.
  Proof.
    induction sc as [|x sc IH]; intros s s' H; simpl in H; [discriminate|].
    destruct x; try (apply IH in H; exact H); try discriminate.
    destruct (handle (decode C (s_buf s) w)) eqn:E; [|apply IH in H; exact H].
    inversion H; subst; simpl. exact E.
  Qed.

  Lemma handle_spec b : handle b = true <-> is_empty C b = false /\ verify r b = true.
  Proof.
    unfold Retry.handle. rewrite andb_true_iff, negb_true_iff. tauto.
  Qed.

  Lemma finish_ok (o : outcome (buf := buf)) s : finish o = OOk s -> o = OOk s.
  Proof. destruct o; simpl; congruence. Qed.

  (** whatever the peers did and wherever the deadline fell: a non-empty value a single-container Get method returns
      (with or without an error) verifies for the request; next to an error the value is the zero value *)
  Theorem get_single_verified : forall sc b e,
    is_empty C (zero C) = true ->
    get_single C verify r sc = (b, e) ->
    (is_empty C b = false -> verify r b = true) /\ (e <> None -> b = zero C) /\ (e = None -> is_empty C b = false).
  Proof.
    intros sc b e Hz. unfold get_single.
    destruct (finish (exec (init_st C) sc)) eqn:E; intros H; inversion H; subst; clear H.
    - apply finish_ok, exec_ok_verified, handle_spec in E. destruct E as [E1 E2].
      split; [auto|]. split; [congruence|auto].
    - split; [rewrite Hz; discriminate|]. split; [reflexivity|discriminate].
    - split; [rewrite Hz; discriminate|]. split; [reflexivity|discriminate].
  Qed.

  (** ** no_poison: what the bad peers sent before is irrelevant to a later good answer *)
  Theorem no_poison : forall pre w rest s0 s1,
    overwrites C ->
    exec s0 pre = OWait s1 ->                     (* the prefix was consumed without ending the call *)
    handle (decode C (zero C) w) = true ->        (* the answer verifies in a fresh container *)
    exec s0 (pre ++ Answer w :: rest) = OOk (bump s1 (decode C (zero C) w) (s_err s1) [PNoop]).
  Proof.
    intros pre w rest s0 s1 Ho Hp Hh. rewrite exec_app, Hp. simpl.
    rewrite (Ho (s_buf s1) w), Hh. reflexivity.
  Qed.

  (** a prefix is consumed without ending the call iff it has no deadline and no accepted answer — in particular
      every sequence of wrong-coordinate / truncated / garbled / not-found / error / reset / silent peers *)
  Fixpoint all_bad (s : st) (sc : list (behaviour wire)) : Prop :=
    match sc with
    | [] => True
    | x :: sc' =>
      match x with
      | Answer w => handle (decode C (s_buf s) w) = false /\
                    all_bad (bump s (decode C (s_buf s) w) (add_corrupt (s_err s)) [PBlacklist]) sc'
      | Undecodable g => all_bad (bump s (after_failed_read C g (s_buf s)) (add_corrupt (s_err s)) [PBlacklist]) sc'
      | NotFound => all_bad (bump s (s_buf s) (add_notfound (s_err s)) [PCooldown]) sc'
      | Internal | BadStatus | Reset | RateLimited => all_bad (bump s (s_buf s) (add_server (s_err s)) [PCooldown]) sc'
      | Timeout => all_bad (bump s (s_buf s) (add_ctx (s_err s)) [PCooldown]) sc'
      | Deadline => False
      end
    end.

  Lemma all_bad_wait : forall sc s, all_bad s sc <-> exists s', exec s sc = OWait s'.
  Proof.
    induction sc as [|x sc IH]; intros s; simpl.
    - split; [eauto|tauto].
    - destruct x; try apply IH.
      + destruct (handle (decode C (s_buf s) w)).
        * split; [intros [H _]; discriminate|intros [s' H]; discriminate].
        * rewrite <- IH. tauto.
      + split; [tauto|intros [s' H]; discriminate].
  Qed.

  (** for an overwriting codec whether an answer is accepted does not depend on the state: a prefix of answers that fail
      in a fresh container, and of non-answers, never ends the call *)
  Definition bad_fresh (x : behaviour wire) : Prop :=
    match x with Answer w => handle (decode C (zero C) w) = false | Deadline => False | _ => True end.

  Lemma bad_fresh_all_bad : overwrites C -> forall sc s, Forall bad_fresh sc -> all_bad s sc.
  Proof.
    intros Ho. induction sc as [|x sc IH]; intros s H; simpl; [exact I|].
    inversion H as [|? ? Hx Hsc]; subst.
    destruct x; simpl in Hx; try (apply IH; assumption); try contradiction.
    rewrite (Ho (s_buf s) w). split; [exact Hx|apply IH; assumption].
  Qed.

  Corollary honest_after_bad_accepted : forall pre w rest,
    overwrites C -> Forall bad_fresh pre -> handle (decode C (zero C) w) = true ->
    exists s, exec (init_st C) (pre ++ Answer w :: rest) = OOk s /\ s_buf s = decode C (zero C) w /\
              s_attempts s = S (length pre) /\ last (s_trace s) PCooldown = PNoop.
  Proof.
    intros pre w rest Ho Hb Hh.
    destruct (proj1 (all_bad_wait pre (init_st C)) (bad_fresh_all_bad Ho pre _ Hb)) as [s1 H1].
    rewrite (no_poison pre w rest _ s1 Ho H1 Hh). eexists; split; [reflexivity|]. simpl.
    assert (Ha : forall sc s s', exec s sc = OWait s' -> s_attempts s' = s_attempts s + length sc).
    { induction sc as [|x sc IH]; intros s s' H; simpl in H.
      - inversion H; subst; simpl; lia.
      - destruct x; try (apply IH in H; simpl in H; rewrite H; simpl; lia); try discriminate.
        destruct (handle (decode C (s_buf s) w0)); [discriminate|].
        apply IH in H; simpl in H; rewrite H; simpl; lia. }
    apply Ha in H1. simpl in H1. split; [reflexivity|]. split; [lia|]. apply last_last.
  Qed.

  (** ** error classes *)
  Definition flags_le (a b : errs) : Prop :=
    (e_notfound a = true -> e_notfound b = true) /\ (e_corrupt a = true -> e_corrupt b = true) /\
    (e_server a = true -> e_server b = true) /\ (e_ctx a = true -> e_ctx b = true).

  Lemma flags_le_refl a : flags_le a a. Proof. unfold flags_le; tauto. Qed.
  Lemma flags_le_trans a b c : flags_le a b -> flags_le b c -> flags_le a c.
  Proof. unfold flags_le; tauto. Qed.

  Lemma exec_err_mono : forall sc s, flags_le (s_err s) (s_err (out_st (exec s sc))).
  Proof.
    induction sc as [|x sc IH]; intros s; simpl; [apply flags_le_refl|].
    destruct x; simpl;
      try (eapply flags_le_trans; [|apply IH]; simpl; unfold flags_le; simpl; tauto);
      try (unfold flags_le; simpl; tauto).
    destruct (handle (decode C (s_buf s) w)); simpl.
    - apply flags_le_refl.
    - eapply flags_le_trans; [|apply IH]; simpl; unfold flags_le; simpl; tauto.
  Qed.

  Definition no_payload (x : behaviour wire) : Prop :=
    match x with Answer _ | Undecodable _ => False | _ => True end.

  Lemma exec_no_payload : forall sc s,
    Forall no_payload sc ->
    (forall s', exec s sc <> OOk s') /\
    (e_corrupt (s_err s) = false -> e_corrupt (s_err (out_st (exec s sc))) = false).
  Proof.
    induction sc as [|x sc IH]; intros s H; simpl.
    - split; [discriminate|auto].
    - inversion H as [|? ? Hx Hsc]; subst.
      destruct x; simpl in Hx; try contradiction;
        try (match goal with |- (forall s', Retry.exec _ _ _ ?S _ <> _) /\ _ =>
               destruct (IH S Hsc) as [A B]; split; [exact A|intros Hc; apply B; simpl; exact Hc] end).
      split; [discriminate|auto].
  Qed.

  Lemma exec_err_ctx : forall sc s s', exec s sc = OErr s' -> e_ctx (s_err s') = true /\ In Deadline sc.
  Proof.
    induction sc as [|x sc IH]; intros s s' H; simpl in H; [discriminate|].
    destruct x; try (apply IH in H; destruct H; split; [assumption|right; assumption]); try discriminate.
    - destruct (handle (decode C (s_buf s) w)); [discriminate|].
      apply IH in H; destruct H; split; [assumption|right; assumption].
    - inversion H; subst; simpl. split; [reflexivity|left; reflexivity].
  Qed.

  (** notfound_maps: peers that only ever answer NOT_FOUND (the deadline may fall anywhere after the first answer): the
      call fails, the error is ErrNotFound — never success, never a corruption / invalid-response error *)
  Theorem notfound_maps : forall sc,
    Forall (fun x => x = NotFound \/ x = Deadline) sc -> hd_error sc = Some NotFound ->
    exists e, get_single C verify r sc = (zero C, Some e) /\
              e_notfound e = true /\ e_corrupt e = false /\ e_ctx e = true.
  Proof.
    intros sc Hall Hhd.
    assert (Hnp : Forall no_payload sc).
    { eapply Forall_impl; [|exact Hall]. intros x [->| ->]; exact I. }
    destruct sc as [|x sc]; [discriminate|]. simpl in Hhd. inversion Hhd; subst x. clear Hhd.
    unfold get_single.
    pose proof (exec_no_payload _ (init_st C) Hnp) as [Hnok Hcor].
    pose proof (exec_err_mono (NotFound :: sc) (init_st C)) as Hmono.
    assert (Hnf : e_notfound (s_err (out_st (exec (init_st C) (NotFound :: sc)))) = true).
    { simpl. apply (exec_err_mono sc _). reflexivity. }
    specialize (Hcor eq_refl).
    destruct (exec (init_st C) (NotFound :: sc)) as [s|s|s] eqn:E.
    - exfalso. eapply Hnok; reflexivity.
    - simpl. eexists; split; [reflexivity|]. simpl in *. repeat split; auto.
      eapply exec_err_ctx; eassumption.
    - simpl. eexists; split; [reflexivity|]. simpl in *. repeat split; auto.
  Qed.

  (** ** terminates *)
  Theorem exec_deadline_ends : forall sc s, In Deadline sc -> forall s', exec s sc <> OWait s'.
  Proof.
    induction sc as [|x sc IH]; intros s Hin s'; [destruct Hin|].
    simpl. destruct Hin as [->|Hin]; [discriminate|].
    destruct x; try (apply IH; assumption); try discriminate.
    destruct (handle (decode C (s_buf s) w)); [discriminate|apply IH; assumption].
  Qed.

  Lemma exec_attempts : forall sc s, s_attempts (out_st (exec s sc)) <= s_attempts s + length sc.
  Proof.
    induction sc as [|x sc IH]; intros s; simpl; [lia|].
    destruct x; simpl; try (etransitivity; [apply IH|simpl; lia]); try lia.
    destruct (handle (decode C (s_buf s) w)); simpl; [lia|].
    etransitivity; [apply IH|simpl; lia].
  Qed.

  (** a call whose context has a deadline ends with a result or with an error carrying the context error, after at
      most one request per scripted peer; it waits (OWait) only while no deadline has fired *)
  Theorem terminates : forall sc,
    (exists s, finish (exec (init_st C) sc) = OOk s /\ handle (s_buf s) = true) \/
    (exists s, finish (exec (init_st C) sc) = OErr s /\ e_ctx (s_err s) = true) .
  Proof.
    intros sc. destruct (exec (init_st C) sc) as [s|s|s] eqn:E; simpl.
    - left. eexists; split; [reflexivity|]. eapply exec_ok_verified; eassumption.
    - right. eexists; split; [reflexivity|]. eapply exec_err_ctx; eassumption.
    - right. eexists; split; [reflexivity|]. reflexivity.
  Qed.

  (** ** peer accounting *)
  Lemma exec_trace_len : forall sc s,
    length (s_trace s) = s_attempts s ->
    length (s_trace (out_st (exec s sc))) = s_attempts (out_st (exec s sc)).
  Proof.
    induction sc as [|x sc IH]; intros s H; simpl; [exact H|].
    destruct x; simpl; try (apply IH; simpl; rewrite app_length; simpl; lia);
      try (rewrite app_length; simpl; lia).
    destruct (handle (decode C (s_buf s) w)); simpl; [rewrite app_length; simpl; lia|].
    apply IH; simpl; rewrite app_length; simpl; lia.
  Qed.

  (** the peer whose answer is accepted is reported with Noop; a peer is reported for blacklisting only for a payload that
      was received and then failed to decode or to verify — never for not-found, an error status, a reset, silence *)
  Fixpoint blame (s : st) (sc : list (behaviour wire)) : list punish :=
    match sc with
    | [] => []
    | x :: sc' =>
      match x with
      | Answer w => if handle (decode C (s_buf s) w) then [PNoop]
                    else PBlacklist :: blame (bump s (decode C (s_buf s) w) (add_corrupt (s_err s)) [PBlacklist]) sc'
      | Undecodable g => PBlacklist :: blame (bump s (after_failed_read C g (s_buf s)) (add_corrupt (s_err s)) [PBlacklist]) sc'
      | NotFound => PCooldown :: blame (bump s (s_buf s) (add_notfound (s_err s)) [PCooldown]) sc'
      | Internal | BadStatus | Reset | RateLimited => PCooldown :: blame (bump s (s_buf s) (add_server (s_err s)) [PCooldown]) sc'
      | Timeout => PCooldown :: blame (bump s (s_buf s) (add_ctx (s_err s)) [PCooldown]) sc'
      | Deadline => [PCooldown]
      end
    end.

  Theorem trace_is_blame : forall sc s, s_trace (out_st (exec s sc)) = s_trace s ++ blame s sc.
  Proof.
    induction sc as [|x sc IH]; intros s; simpl; [rewrite app_nil_r; reflexivity|].
    destruct x; simpl; try (rewrite IH; simpl; rewrite <- app_assoc; reflexivity); try reflexivity.
    destruct (handle (decode C (s_buf s) w)); simpl; [reflexivity|].
    rewrite IH; simpl; rewrite <- app_assoc; reflexivity.
  Qed.

  Theorem blacklist_only_for_bad_payload : forall sc s i,
    nth_error (blame s sc) i = Some PBlacklist ->
    exists x, nth_error sc i = Some x /\ match x with Answer _ | Undecodable _ => True | _ => False end.
  Proof.
    induction sc as [|x sc IH]; intros s i H; simpl in H; [destruct i; discriminate|].
    destruct x; simpl in H;
      try (destruct i as [|i]; simpl in H; [discriminate|]; apply IH in H; destruct H as [y [H1 H2]]; exists y; split; assumption);
      try (destruct i as [|i]; simpl in H; [inversion H; subst; eexists; split; [reflexivity|exact I]|];
           apply IH in H; destruct H as [y [H1 H2]]; exists y; split; assumption).
    - destruct (handle (decode C (s_buf s) w)).
      + destruct i as [|[|i]]; simpl in H; discriminate.
      + destruct i as [|i]; simpl in H; [eexists; split; [reflexivity|exact I]|].
        apply IH in H; destruct H as [y [H1 H2]]; exists y; split; assumption.
    - destruct i as [|[|i]]; simpl in H; discriminate.
  Qed.
End ExecProofs.

(** * GetSamples *)
Section SamplesProofs.
  Context {req wire buf : Type}.
  Variable C : codec wire buf.
  Variable verify : req -> buf -> bool.
  Hypothesis zero_empty : is_empty C (zero C) = true.

  Lemma slot_of_verified : forall r sc b e,
    slot_of C false (finish (exec C verify r (init_st C) sc)) = (b, e) ->
    is_empty C b = false -> verify r b = true.
  Proof.
    intros r sc b e H Hne.
    destruct (finish (exec C verify r (init_st C) sc)) eqn:E; simpl in H; inversion H; subst; clear H.
    - apply finish_ok, exec_ok_verified, handle_spec in E. apply E.
    - rewrite zero_empty in Hne; discriminate.
    - rewrite zero_empty in Hne; discriminate.
  Qed.

  (** returned_verified for GetSamples: the result slice is positionally aligned with the requests and every non-empty
      element verifies for the request at its position — whether or not an error is returned with it *)
  Theorem get_samples_verified : forall slots vals err,
    get_samples C verify false slots = (vals, err) ->
    length vals = length slots /\
    forall i b, nth_error vals i = Some b -> is_empty C b = false ->
      exists rq sc, nth_error slots i = Some (rq, sc) /\ verify rq b = true.
  Proof.
    intros slots vals err H. unfold get_samples in H. inversion H; subst; clear H.
    split; [rewrite !map_length; reflexivity|].
    intros i b Hn Hne. rewrite map_map in Hn.
    rewrite nth_error_map in Hn. destruct (nth_error slots i) as [[rq sc]|] eqn:Es; [|discriminate].
    simpl in Hn. inversion Hn; subst; clear Hn.
    exists rq, sc. split; [reflexivity|].
    destruct (slot_of C false (finish (exec C verify rq (init_st C) sc))) as [b e] eqn:E.
    simpl in *. eapply slot_of_verified; eassumption.
  Qed.

  (** an error is returned iff some slot failed; a slot that succeeded is filled *)
  Lemma first_err_none : forall l, first_err l = None <-> Forall (fun x => x = None) l.
  Proof.
    induction l as [|x l IH]; simpl; [split; auto|].
    destruct x; split; intros H; try discriminate.
    - inversion H; discriminate.
    - constructor; [reflexivity|apply IH; exact H].
    - apply IH. inversion H; assumption.
  Qed.

  Theorem get_samples_complete_when_no_error : forall slots vals,
    get_samples C verify false slots = (vals, None) ->
    forall i b, nth_error vals i = Some b -> is_empty C b = false.
  Proof.
    intros slots vals H i b Hn. unfold get_samples in H. inversion H as [[Hv He]]; clear H.
    apply first_err_none in He. rewrite Forall_forall in He.
    rewrite <- Hv in Hn. rewrite map_map, nth_error_map in Hn.
    destruct (nth_error slots i) as [[rq sc]|] eqn:Es; [|discriminate]. simpl in Hn. inversion Hn; subst b; clear Hn.
    assert (Hin : In (snd (slot_of C false (finish (exec C verify rq (init_st C) sc))))
                     (map snd (map (fun x => slot_of C false (finish (exec C verify (fst x) (init_st C) (snd x)))) slots))).
    { rewrite map_map. apply in_map_iff. exists (rq, sc). split; [reflexivity|]. eapply nth_error_In; eassumption. }
    apply He in Hin.
    destruct (finish (exec C verify rq (init_st C) sc)) eqn:E; simpl in *; try discriminate.
    apply finish_ok, exec_ok_verified, handle_spec in E. apply E.
  Qed.
End SamplesProofs.

(** the code before fix-c06-1 ([leak = true]) hands out what the last decode left in the slot: a sample of another square
    followed by the deadline is returned non-empty, unverified, next to the error *)
Theorem get_samples_leak_witness :
  exists slots vals err,
    get_samples (plain_codec (A := bool) opt_empty) (fun (_ : unit) b => match b with Some ok => ok | None => false end)
                true slots = (vals, Some err) /\
    vals = [Some false].
Proof.
  exists [(tt, [Answer (Some false); Deadline])]. eexists. eexists. vm_compute. split; reflexivity.
Qed.

(** * Bitswap *)
Section BitswapProofs.
  Context {req wire buf : Type}.
  Variable C : codec wire buf.
  Variable verify : req -> buf -> bool.
  Hypothesis zero_empty : is_empty C (zero C) = true.

  Definition good (r : req) (b : buf) : Prop := is_empty C b = true \/ handle C verify r b = true.

  Lemma deliver_good r cur d : good r cur -> good r (deliver C verify r cur d).
  Proof.
    intros H. unfold deliver. destruct (negb (is_empty C cur)); [exact H|].
    destruct d as [w|]; [|exact H].
    destruct (handle C verify r (decode C (zero C) w)) eqn:E; [right; exact E|exact H].
  Qed.

  Lemma fold_deliver_good r : forall ds cur, good r cur -> good r (fold_left (deliver C verify r) ds cur).
  Proof. induction ds as [|d ds IH]; intros cur H; simpl; [exact H|apply IH, deliver_good, H]. Qed.

  (** a block is populated only with a container that verifies for the block's own identifier *)
  Theorem fetch_block_verified r ds :
    is_empty C (fetch_block C verify r ds) = false -> verify r (fetch_block C verify r ds) = true.
  Proof.
    intros Hne. destruct (fold_deliver_good r ds (zero C) (or_introl zero_empty)) as [H|H].
    - unfold fetch_block in Hne. congruence.
    - apply andb_true_iff in H. apply H.
  Qed.

  (** a populated block never changes (first verified delivery wins) ... *)
  Lemma deliver_populated r cur d : is_empty C cur = false -> deliver C verify r cur d = cur.
  Proof. intros H. unfold deliver. rewrite H. reflexivity. Qed.

  Lemma fold_deliver_populated r : forall ds cur, is_empty C cur = false -> fold_left (deliver C verify r) ds cur = cur.
  Proof. induction ds as [|d ds IH]; intros cur H; simpl; [reflexivity|]. rewrite deliver_populated by exact H. apply IH, H. Qed.

  (** ... and rejected deliveries leave it pending: the next good one fills it (no_poison for bitswap) *)
  Theorem fetch_block_no_poison r pre w rest :
    is_empty C (fetch_block C verify r pre) = true ->
    handle C verify r (decode C (zero C) w) = true ->
    fetch_block C verify r (pre ++ Some w :: rest) = decode C (zero C) w.
  Proof.
    intros He Hh. unfold fetch_block in *. rewrite fold_left_app. simpl.
    unfold deliver at 2. rewrite He. simpl. rewrite Hh.
    apply fold_deliver_populated. apply andb_true_iff in Hh. destruct Hh as [Hh _].
    apply negb_true_iff in Hh. exact Hh.
  Qed.

  Lemma fetch_nth blks i b :
    nth_error (fst (fetch C verify blks)) i = Some b ->
    exists r ds, nth_error blks i = Some (r, ds) /\ b = fetch_block C verify r ds.
  Proof.
    unfold fetch; simpl. rewrite nth_error_map.
    destruct (nth_error blks i) as [[r ds]|]; [|discriminate]. simpl. intros H; inversion H. eauto.
  Qed.

  (** Getter.GetSamples over bitswap: whatever is handed out — complete, or partial next to the error — holds, at every
      position, nothing or a container that verifies for the identifier requested at that position *)
  Theorem bs_get_samples_verified blks vals ok :
    bs_get_samples C verify blks = (Some vals, ok) ->
    length vals = length blks /\
    forall i b, nth_error vals i = Some b -> is_empty C b = false ->
      exists r ds, nth_error blks i = Some (r, ds) /\ verify r b = true.
  Proof.
    unfold bs_get_samples. destruct (fetch C verify blks) as [bs k] eqn:E.
    assert (Hbs : bs = fst (fetch C verify blks)) by (rewrite E; reflexivity).
    assert (Hres : vals = bs -> length vals = length blks /\
      forall i b, nth_error vals i = Some b -> is_empty C b = false ->
        exists r ds, nth_error blks i = Some (r, ds) /\ verify r b = true).
    { intros ->. split; [rewrite Hbs; unfold fetch; simpl; apply map_length|].
      intros i b Hn Hne. rewrite Hbs in Hn. apply fetch_nth in Hn. destruct Hn as [r [ds [H1 ->]]].
      exists r, ds. split; [exact H1|]. apply fetch_block_verified, Hne. }
    destruct k; [intros H; inversion H; subst; apply Hres; reflexivity|].
    destruct (existsb (fun b => negb (is_empty C b)) bs); intros H; inversion H; subst. apply Hres; reflexivity.
  Qed.

  (** all-or-nothing getters (row, range, rows of a square, rows of namespace data) *)
  Theorem bs_get_all_verified blks vals :
    bs_get_all C verify blks = Some vals ->
    length vals = length blks /\
    forall i b, nth_error vals i = Some b ->
      is_empty C b = false /\ exists r ds, nth_error blks i = Some (r, ds) /\ verify r b = true.
  Proof.
    unfold bs_get_all. destruct (fetch C verify blks) as [bs k] eqn:E.
    destruct k; [|discriminate]. intros H; inversion H; subst vals; clear H.
    assert (Hbs : bs = fst (fetch C verify blks)) by (rewrite E; reflexivity).
    assert (Hall : forallb (fun b => negb (is_empty C b)) bs = true).
    { unfold fetch in E. inversion E; subst. reflexivity. }
    split; [rewrite Hbs; unfold fetch; simpl; apply map_length|].
    intros i b Hn.
    assert (Hne : is_empty C b = false).
    { rewrite forallb_forall in Hall. apply nth_error_In in Hn. apply Hall in Hn. apply negb_true_iff in Hn. exact Hn. }
    split; [exact Hne|]. rewrite Hbs in Hn. apply fetch_nth in Hn. destruct Hn as [r [ds [H1 ->]]].
    exists r, ds. split; [exact H1|]. apply fetch_block_verified, Hne.
  Qed.
End BitswapProofs.

(** * Cascade *)
Section CascadeProofs.
  Context {V : Type}.

  (** a value leaves the cascade only if some getter returned it without an error: values returned next to an error
      (partial results) are dropped *)
  Theorem cascade_val_sound : forall (gs : list (gres V)) nf v,
    cascade_from nf gs = CVal v -> exists g, In g gs /\ g_err g = GNone /\ g_val g = v.
  Proof.
    induction gs as [|g gs IH]; intros nf v H; simpl in H; [discriminate|].
    destruct (g_err g) eqn:E.
    - inversion H; subst. exists g. split; [left; reflexivity|split; [exact E|reflexivity]].
    - apply IH in H. destruct H as [g' [H1 H2]]. exists g'. split; [right; exact H1|exact H2].
    - discriminate.
    - destruct (g_ctx_done g); [discriminate|].
      apply IH in H. destruct H as [g' [H1 H2]]. exists g'. split; [right; exact H1|exact H2].
  Qed.

  Definition falls_through (g : gres V) : Prop :=
    match g_err g with GNotSupported => True | GOther _ => g_ctx_done g = false | _ => False end.

  (** the first getter that succeeds wins, whatever the failing getters in front of it returned *)
  Theorem cascade_first_success : forall (pre : list (gres V)) g rest nf,
    Forall falls_through pre -> g_err g = GNone -> cascade_from nf (pre ++ g :: rest) = CVal (g_val g).
  Proof.
    induction pre as [|p pre IH]; intros g rest nf Hp Hg; simpl.
    - rewrite Hg. reflexivity.
    - inversion Hp as [|? ? H1 H2]; subst. unfold falls_through in H1.
      destruct (g_err p); try contradiction; [apply IH; assumption|].
      rewrite H1. apply IH; assumption.
  Qed.

  (** every getter reports not-found (and the context is still live): the cascade's error is ErrNotFound *)
  Theorem cascade_notfound : forall (gs : list (gres V)) nf,
    gs <> [] ->
    Forall (fun g => exists e, g_err g = GOther e /\ e_notfound e = true /\ g_ctx_done g = false) gs ->
    cascade_from nf gs = CFail true false.
  Proof.
    induction gs as [|g gs IH]; intros nf Hne H; [congruence|].
    inversion H as [|? ? [e [H1 [H2 H3]]] Hr]; subst. simpl. rewrite H1, H3, H2, orb_true_r.
    destruct gs as [|g' gs]; [reflexivity|]. apply IH; [discriminate|exact Hr].
  Qed.

  (** getters that only hand out verified values compose: so does their cascade *)
  Corollary cascade_verified (P : V -> Prop) : forall gs v,
    Forall (fun g => g_err g = GNone -> P (g_val g)) gs -> cascade gs = Some (CVal v) -> P v.
  Proof.
    intros gs v Hall H. unfold cascade in H. destruct gs as [|g gs]; [discriminate|].
    assert (H' : cascade_from false (g :: gs) = CVal v) by (inversion H; reflexivity).
    apply cascade_val_sound in H'. destruct H' as [g' [Hin [He Hv]]].
    rewrite Forall_forall in Hall. subst v. apply Hall; assumption.
  Qed.
End CascadeProofs.

(** * Codecs *)
Lemma plain_overwrites {A} (e : option A -> bool) : overwrites (plain_codec e).
Proof. intros b w. reflexivity. Qed.

Lemma rng_resetting_overwrites {X P} : overwrites (@rng_codec X P true).
Proof. intros b w. reflexivity. Qed.

(** ReadFrom before fix-c06-2: a one-row answer decoded after a two-row answer keeps the two-row answer's last proof *)
Theorem rng_stale_witness :
  exists (b : rng nat nat) nd, b = decode (rng_codec false) rng_zero [(1, None); (2, Some 7)] /\
    nd = [(3, Some 5)] /\
    decode (rng_codec false) b nd <> decode (rng_codec false) rng_zero nd /\
    rg_last (decode (rng_codec false) b nd) = Some 7.
Proof.
  eexists. eexists. split; [reflexivity|]. split; [reflexivity|]. vm_compute. split; [discriminate|reflexivity].
Qed.

Lemma rng_zero_empty {X P} r : is_empty (@rng_codec X P r) (zero (rng_codec r)) = true.
Proof. reflexivity. Qed.

(** C14 — pruning removes only data older than the availability window, and all of it.
    Property theorems only; each is closed by [exact] of a lemma proved in Pruner/FindProofs.v, Pruner/CycleProofs.v.

    Model (Pruner/Find.v, Pruner/Cycle.v): header store = consecutive heights with arbitrary times; [find] =
    findPruneableHeaders (estimate from the configured block time, extension loop, cut), [cycle] = prune() (lastPruned,
    retryFailed, the batch loop with maxHeadersPerLoop, updateCheckpoint to memory and disk), events of a history:
    cycle, head advance, on-delete hook (optionally with a cycle running inside it), tail removal, graceful restart, crash,
    reset.  The model follows the repaired code (fix-c14-1: the batch loop always advances; fix-c14-2: the block at a header-store
    tail that overtook the checkpoint is pruned too).  The failure oracle [F h n] (does the n-th Prune call for height h fail?) is arbitrary.
    A [call] records the header (height [c_h], time [c_t]) handed to Pruner.Prune, who made it ([c_org]), its outcome
    [c_ok], and [c_cut] = head time - window at that moment. *)
From Coq Require Import List ZArith.
From CN Require Import Base.Lts Pruner.Find Pruner.FindProofs Pruner.Cycle Pruner.CycleProofs Pruner.Light Pruner.LightProofs.
Import ListNotations.
Open Scope Z_scope.

(** 1. NEVER INSIDE THE WINDOW.  For every chain (any times), window, block time, batch limit >= 2, failure pattern and
    history (cycles, restarts, crashes, resets, head advances, tail removals, hook calls — interleaved in any way) in which
    the head time never decreases: every header handed to Prune by a cycle — in a batch or as a retry of a failed
    height — has time <= head time - window.  A block whose time is strictly inside the window is never touched; a block
    exactly [window] old is treated as outside (findPruneableHeaders uses Time.After(cutoff); see C14_nonvacuous).
    Calls made by the on-delete hook are excluded: what the header store deletes is its own decision. *)
Theorem C14_never_in_window : forall (F : oracle) (c : cfg) (st : store) (es : list event),
  2 <= maxh c -> s_times st <> [] -> hist_ok ev_mono st es ->
  forall k, In k (snd (run (step F c) (init st, []) es)) -> c_org k <> OHook -> c_t k <= c_cut k.
Proof. exact never_in_window. Qed.
Print Assumptions C14_never_in_window.

(** ... and the recorded header and cutoff are the real ones: the store's header of that height, the head time of
    that moment minus the window. *)
Theorem C14_calls_genuine : forall F c w e w' cs,
  s_times (w_st w) <> [] -> ev_mono (w_st w) e -> Inv c w -> exec F c w e = Ok (w', cs) ->
  Forall (fun k => get (w_st w) (c_h k) = Some (c_h k, c_t k) /\ c_cut k = head_time (w_st w) - window c) cs.
Proof. exact calls_genuine. Qed.
Print Assumptions C14_calls_genuine.

(** [Inv] (used above and below) holds in every reachable state. *)
Theorem C14_reachable_inv : forall F c st es,
  2 <= maxh c -> s_times st <> [] -> hist_ok ev_mono st es -> Inv c (fst (run (step F c) (init st, []) es)).
Proof. exact reachable_inv. Qed.
Print Assumptions C14_reachable_inv.

(** 2. THE CHECKPOINT NEVER MOVES BACKWARDS.  Along every history without the explicit reset the persisted last-pruned
    height only grows and never exceeds the one in memory; without crashes the one in memory only grows too (a crash
    falls back to the persisted value, which is the only thing it can lose). *)
Theorem C14_checkpoint_monotone : forall F c st es1 es2,
  2 <= maxh c -> Forall (fun e => e <> EReset) es2 ->
  let w1 := fst (run (step F c) (init st, []) es1) in
  let w2 := fst (run (step F c) (init st, []) (es1 ++ es2)) in
  lp (w_disk w1) <= lp (w_disk w2) /\ lp (w_disk w2) <= lp (w_mem w2) /\
  (Forall (fun e => e <> ECrash) es2 -> lp (w_mem w1) <= lp (w_mem w2)).
Proof. exact checkpoint_monotone. Qed.
Print Assumptions C14_checkpoint_monotone.

(** It survives restarts: Stop + Start behaves exactly like the next cycle of the service that was stopped (same headers
    pruned, same checkpoint and failed set in memory), and what is persisted afterwards is at least what was in memory. *)
Theorem C14_restart_transparent : forall F c w w' cs,
  exec F c w ERestart = Ok (w', cs) ->
  exists w'', exec F c w ECycle = Ok (w'', cs) /\ w_mem w'' = w_mem w' /\ w_att w'' = w_att w' /\
              lp (w_mem w) <= lp (w_disk w').
Proof. exact restart_transparent. Qed.
Print Assumptions C14_restart_transparent.

(** 3. EVERY CYCLE TERMINATES, for every store, checkpoint, failure pattern and batch limit >= 2 (the search for
    pruneable headers included: no event of the model runs out of fuel). *)
Theorem C14_cycle_terminates : forall F c w e, 2 <= maxh c -> exists w' cs, exec F c w e = Ok (w', cs).
Proof. exact exec_total. Qed.
Print Assumptions C14_cycle_terminates.

(** The code before the fix (lastPrunedHeader follows successful prunes only, [cycle_gen false]) does not have this
    property: batch limit 4, every Prune call failing, 12 headers of which 7 are prunable — no amount of fuel suffices. *)
Theorem C14_cycle_terminates_before_fix_refuted :
  exists F c w, forall fuel, cycle_gen false F c fuel w = OutOfFuel.
Proof. exists (fun _ _ => true), spin_cfg, (init spin_store). exact old_cycle_never_returns. Qed.
Print Assumptions C14_cycle_terminates_before_fix_refuted.

(** 4. EVERYTHING OLD ENOUGH IS PRUNED OR RECORDED, within one cycle.  For every chain with non-decreasing times (block time
    equal to, shorter or longer than the estimate), positive window and block time, batch limit >= 2, failure pattern and
    history of cycles, head advances, restarts and crashes: once a cycle has returned, every header after the pruner's
    starting point whose time + block time is below the cutoff has been pruned successfully at some point or is in the
    failed set. *)
Theorem C14_eventually_all : forall F c st es e,
  2 <= maxh c -> 0 < window c -> 0 < btime c -> s_times st <> [] -> sorted_st st ->
  hist_ok ev_sorted st (es ++ [e]) -> Forall plain (es ++ [e]) -> e = ECycle \/ e = ERestart \/ e = ECrash ->
  let wt := run (step F c) (init st, []) (es ++ [e]) in
  forall x, in_store (w_st (fst wt)) x -> s_tail st < fst x -> snd x + btime c < cut_of c (w_st (fst wt)) ->
    done (snd wt) (fst x) \/ In (fst x) (failed (w_mem (fst wt))).
Proof. exact eventually_all. Qed.
Print Assumptions C14_eventually_all.

(** The same for one cycle from ANY state (so also after hook calls and tail removals, including a header-store tail that
    has overtaken the checkpoint): heights up to [base] (at least tail - 1: what lies below the tail has no header any more)
    are not owed; everything after it up to the new checkpoint is pruned or failed, the tail block included, and nothing
    above the new checkpoint is older than the cutoff by more than a block time. *)
Theorem C14_cycle_complete : forall F c w w' cs tr base,
  0 < window c -> 0 < btime c -> 1 <= maxh c -> sorted_st (w_st w) -> s_times (w_st w) <> [] ->
  s_tail (w_st w) - 1 <= base -> lp (w_mem w) <= s_headH (w_st w) -> lp (w_disk w) <= s_headH (w_st w) ->
  cov base (w_mem w) tr -> cov base (w_disk w) tr ->
  cycle F c w = Ok (w', cs) ->
  s_tail (w_st w) - 1 <= lp (w_mem w') <= s_headH (w_st w) /\ lp (w_disk w') <= s_headH (w_st w) /\
  lp (w_mem w) <= lp (w_mem w') /\
  cov base (w_mem w') (tr ++ cs) /\ cov base (w_disk w') (tr ++ cs) /\ exhausted c (w_st w) (w_mem w').
Proof. exact cycle_complete. Qed.
Print Assumptions C14_cycle_complete.

(** e.g. the tail overtaking the checkpoint: the block at the new tail is handed to Prune by the next cycle *)
Theorem C14_tail_block_pruned_example :
  let st := mkStore 5 [0; 1; 2; 3; 4; 5; 6; 7; 8; 9; 100] in
  let wt := run (step (fun _ _ => false) (mkCfg 50 1 4)) (init st, [])
                [EDelete 5 false; EDelete 6 false; EDrop; EDrop; ECycle; EDelete 7 false; EDrop] in
  map (fun k => (c_org k, c_h k)) (snd wt) =
    [(OHook, 6); (OBatch, 7); (OBatch, 8); (OBatch, 9); (OBatch, 10); (OBatch, 11); (OBatch, 12); (OBatch, 13); (OBatch, 14)] /\
  w_mem (fst wt) = mkCp 14 [].
Proof. exact ex_tail_rebase. Qed.
Print Assumptions C14_tail_block_pruned_example.

(** ... and failed heights are retried: every cycle hands every failed height whose header is still stored to Prune again. *)
Theorem C14_failed_retried : forall F c w w' cs,
  Inv c w -> last_pruned (w_st w) (w_mem w) <> None -> cycle F c w = Ok (w', cs) ->
  forall h, In h (failed (w_mem w)) -> get (w_st w) h <> None -> exists k, In k cs /\ c_h k = h /\ c_org k = ORetry.
Proof. exact failed_retried. Qed.
Print Assumptions C14_failed_retried.

(** The search result itself ([ck] = the checkpoint height at the call): consecutive store headers right after lastPruned -
    from lastPruned itself when it is the genesis header or not yet covered by the checkpoint -, none newer than the cutoff,
    at most the batch limit; when the batch is not full nothing above it is older than cutoff - block time. *)
Theorem C14_find_shape : forall c st ck lp hd hs,
  in_store st lp -> head_of st = Some hd -> find c st ck lp = Ok hs ->
  consec st (first_h ck lp) hs /\ Forall (fun x => snd x <= snd hd - window c) hs.
Proof. exact find_shape. Qed.
Print Assumptions C14_find_shape.

Theorem C14_find_complete : forall c st ck lp hd hs,
  sorted_st st -> 0 < window c -> 0 < btime c -> 1 <= maxh c ->
  in_store st lp -> head_of st = Some hd -> find c st ck lp = Ok hs ->
  Z.of_nat (length hs) < maxh c ->
  forall x, in_store st x -> upto ck lp hs < fst x -> snd hd - window c <= snd x + btime c.
Proof. exact find_complete. Qed.
Print Assumptions C14_find_complete.

(** 5. WHAT "PRUNED" MEANS ON A LIGHT NODE (Pruner/Light.v: model of light ShareAvailability.Prune = delete every sample
    listed in the sampling result, then the sampling result, the only index of the height's sample blocks).  [present]: per
    listed sample, is its block stored; [index]: does the sampling result exist; [fs]: which DeleteBlock calls of this
    attempt fail (any pattern); [wf]: every stored sample is listed in an existing result (true after sampling).

    Reported pruned implies nothing left: whenever Prune returns nil - the only outcome after which the service never
    visits the height again - no sample block and no sampling result of the height remain. *)
Theorem C14_light_reported_pruned_implies_nothing_left : forall (s : lstate) (fs : list bool) (s' : lstate),
  wf s = true -> prune_one s fs = (true, s') -> nothing_left s' = true.
Proof. exact reported_pruned_implies_nothing_left. Qed.
Print Assumptions C14_light_reported_pruned_implies_nothing_left.

(** A failed call keeps the index: the sampling result survives every call that returns an error, nothing is added, the
    samples before the failing delete are gone, the others untouched. *)
Theorem C14_light_failed_keeps_index : forall (s : lstate) (fs : list bool) (s' : lstate),
  prune_one s fs = (false, s') ->
  index s = true /\ index s' = true /\ wf s' = true /\ only_removed (present s') (present s) /\
  exists k, nth k fs false = true /\ (k < length (present s))%nat /\
            present s' = repeat false k ++ skipn k (present s).
Proof. exact failed_keeps_index. Qed.
Print Assumptions C14_light_failed_keeps_index.

(** Failed is retried with the index intact, for EVERY schedule of fault patterns (none / some / all / transient /
    permanent): handed to Prune once per cycle until a call returns nil ([attempts]); recorded pruned => nothing left;
    recorded failed => it was tried on every cycle and the sampling result still covers every remaining block. *)
Theorem C14_light_failed_is_retried_with_index_intact : forall (sched : list (list bool)) (s : lstate) st s' n,
  wf s = true -> attempts s sched = (st, s', n) ->
  only_removed (present s') (present s) /\ wf s' = true /\
  (st = Pruned -> nothing_left s' = true /\ (1 <= n <= length sched)%nat) /\
  (st = Failed -> n = length sched /\ (sched <> [] -> index s' = true) /\ (sched = [] -> s' = s)).
Proof. exact failed_is_retried_with_index_intact. Qed.
Print Assumptions C14_light_failed_is_retried_with_index_intact.

(** Transient faults: the first cycle whose call meets no fault (the k-th) removes everything, at the latest. *)
Theorem C14_light_transient_faults_eventually_removed : forall (sched : list (list bool)) (s : lstate) (k : nat),
  wf s = true -> (exists fs, nth_error sched k = Some fs /\ no_fault fs = true) ->
  exists s' n, attempts s sched = (Pruned, s', n) /\ (n <= k + 1)%nat /\ nothing_left s' = true.
Proof. exact transient_faults_eventually_removed. Qed.
Print Assumptions C14_light_transient_faults_eventually_removed.

(** The "best effort" variant (a failing delete is logged, the loop continues, the sampling result is deleted, nil is
    returned) is refuted: success is reported with a sample block left that no index lists any more - every later call
    reports success again and removes nothing; the code as it is reports the failure and keeps the index. *)
Theorem C14_light_besteffort_refuted :
  exists s fs s', wf s = true /\ prune_one_besteffort s fs = (true, s') /\ nothing_left s' = false /\ wf s' = false /\
                  (forall fs', prune_one_besteffort s' fs' = (true, s')) /\ (forall fs', prune_one s' fs' = (true, s')) /\
                  prune_one s fs = (false, mkL [false; true; true] true).
Proof. exact besteffort_refuted. Qed.
Print Assumptions C14_light_besteffort_refuted.

Theorem C14_light_nonvacuous :
  wf (mkL [true; true; false; true] true) = true /\
  prune_one (mkL [true; true; false; true] true) [] = (true, mkL [false; false; false; false] false) /\
  prune_one (mkL [true; true; false; true] true) [false; false; true] = (false, mkL [false; false; false; true] true) /\
  attempts (mkL [true; true; false; true] true) [[false; true]; [true]; [false; false; false; true]; []; [true]]
    = (Pruned, mkL [false; false; false; false] false, 4%nat) /\
  attempts (mkL [true; true] true) [[true]; [true]; [true]] = (Failed, mkL [true; true] true, 3%nat) /\
  light_mismatches [LPrune (mkL [true; true] true) [false; true] false (mkL [false; true] true);
                    LPrune (mkL [true; true] true) [false; true] true (mkL [false; true] false)] = [1%N].
Proof. exact light_nonvacuous. Qed.
Print Assumptions C14_light_nonvacuous.

(** non-vacuity: the hypotheses are met by a concrete irregular chain and history, on which 19 headers are handed over,
    among them two exactly at the boundary instant, failures, retries, and the repaired cycle returns where the old one spins *)
Theorem C14_nonvacuous :
  (2 <= maxh ex_cfg /\ 0 < window ex_cfg /\ 0 < btime ex_cfg /\ s_times ex_store <> [] /\
   hist_ok ev_mono ex_store ex_es /\ Forall plain ex_es /\ Forall (fun e => e <> EReset) ex_es) /\
  (sorted_st ex_store /\ hist_ok ev_sorted ex_store ex_es) /\
  (let wt := run (step ex_F ex_cfg) (init ex_store, []) ex_es in
   length (snd wt) = 19%nat /\ w_mem (fst wt) = mkCp 15 [8] /\ w_disk (fst wt) = mkCp 15 [8] /\
   In (mkCall OBatch 11 60 60 true) (snd wt) /\ In (mkCall OBatch 14 90 90 true) (snd wt) /\
   In (mkCall ORetry 5 4 90 false) (snd wt) /\ In (mkCall ORetry 5 4 90 true) (snd wt) /\
   In (mkCall ORetry 8 30 100 false) (snd wt) /\ ~ In 16 (map c_h (snd wt))) /\
  (exists w cs, cycle (fun _ _ => true) spin_cfg (init spin_store) = Ok (w, cs) /\
                w_mem w = mkCp 7 [1; 2; 3; 4; 5; 6; 7] /\ w_disk w = w_mem w /\ length cs = 7%nat).
Proof. exact (conj ex_history_ok (conj ex_sorted (conj ex_run fixed_cycle_returns))). Qed.
Print Assumptions C14_nonvacuous.

(** C01 — verified shares are exactly the shares committed at the requested position.
    The committed extended square is [cell : nat -> nat -> share] of width 2^D; [dah D cell] are its row and column
    roots (honest perfect NMTs with the parity-namespace prefix rule). Hashing is symbolic (injective): see Base/Nmt.v.
    Property theorems only. *)
From Coq Require Import List Arith NArith Bool.
From CN Require Import Base.Nmt Base.NmtProofs Base.NmtComplete Shwap.Verify Shwap.VerifyProofs.
Import ListNotations.

(** NMT core: if the claimed range lies inside the tree, the verified leaf hashes are the tree's leaves at exactly the
    claimed positions — any node list, any depth. *)
Theorem C01_nmt_position_binding : forall D L p lh,
  Forall leafk L -> length L = 2 ^ D ->
  Forall leafk lh -> length lh = p_end p - p_start p ->
  p_start p < p_end p -> p_end p <= 2 ^ D ->
  compute_root p lh = Some (tree D L) ->
  lh = sub L (p_start p) (p_end p - p_start p).
Proof. exact compute_root_pos. Qed.
Print Assumptions C01_nmt_position_binding.

(** Sample: any sample (any share, any proof nodes incl. unknown digests, any start/end, either axis) that verifies for
    (row, col) inside the square carries the committed share of (row, col). *)
Theorem C01_sample_sound : forall D cell s row col,
  row < 2 ^ D -> col < 2 ^ D -> sample_verify (dah D cell) s row col = true -> sm_share s = cell row col.
Proof. exact sample_sound. Qed.
Print Assumptions C01_sample_sound.

(** Row: whichever side is sent and whatever the erasure decoder does (it is arbitrary up to returning a row of the
    right length), a row that verifies for index idx exposes exactly the committed extended row idx. *)
Theorem C01_row_sound : forall D cell (decode_left decode_right : list share -> option (list share)),
  (forall l f, decode_left l = Some f -> length f = 2 * length l) ->
  (forall l f, decode_right l = Some f -> length f = 2 * length l) ->
  1 <= D ->
  forall side shares idx, idx < 2 ^ D ->
  row_verify decode_left decode_right (dah D cell) side shares idx = true ->
  exists full, row_shares decode_left decode_right side shares = Some full /\ full = eds_row D cell idx.
Proof. exact row_sound. Qed.
Print Assumptions C01_row_sound.

(** Share range: a response that verifies for the inclusive coordinates (fr,fc)..(tr,tc) against the committed row
    roots of rows fr..tr carries, flattened, exactly the committed original-data shares of that range, in order
    (content, position, length, order), whatever the encoder used to rebuild complete rows does. *)
Theorem C01_range_sound : forall D cell (extend : list share -> list share),
  (forall l, length (extend l) = length l) -> 1 <= D ->
  forall d fr fc tr tc is_ns,
  range_verify extend d fr fc tr tc (2 ^ D / 2) (map (row_root D cell) (seq fr (tr + 1 - fr))) is_ns = true ->
  concat (rg_shares d) = ods_range D cell fr fc tr tc.
Proof. exact range_sound. Qed.
Print Assumptions C01_range_sound.

(** non-vacuity: honest samples of every coordinate of a concrete square (both axes), an honest row and an honest
    two-row range verify in the model *)
From CN Require Import Shwap.VerifyExamples.
Theorem C01_nonvacuous :
  forallb (fun ij => sample_verify ex_dah (mksample (ex_cell (fst ij) (snd ij)) (Some (ex_row_proof (fst ij) (snd ij) (snd ij + 1))) 0) (fst ij) (snd ij)
                  && sample_verify ex_dah (mksample (ex_cell (fst ij) (snd ij)) (Some (ex_col_proof (snd ij) (fst ij) (fst ij + 1))) 1) (fst ij) (snd ij))
          (list_prod (seq 0 4) (seq 0 4)) = true.
Proof. exact ex_samples_verify. Qed.

(** The other direction (no false rejections): over a well-formed row, the honest sample of any coordinate — share
    plus the honest prover's nodes — is accepted by the verifier model. *)
Theorem C01_honest_sample_accepted : forall D cell row col,
  row < 2 ^ D -> col < 2 ^ D -> valid (row_root D cell row) ->
  sample_verify (dah D cell)
    (mksample (cell row col)
       (Some (mkproof col (col + 1) (prove D 0 col (col + 1) (row_leaves (2 ^ D) row (eds_row D cell row))) None)) 0)
    row col = true.
Proof. exact sample_complete_row. Qed.
Print Assumptions C01_honest_sample_accepted.

(** C17 — peer selection never deadlocks and never hands out a peer it should not.
    Property theorems only; each is closed by [exact] of a lemma proved elsewhere. *)
From Coq Require Import List ZArith NArith String.
From CN Require Import Base.Lts Base.LockOrder Gen.LockGraph_peers Peers.Locks Peers.Pool Peers.PoolProofs Peers.PoolFine Peers.PoolFineProofs
  Peers.Manager Peers.ManagerProofs Peers.Fine Peers.FineProofs.
Import ListNotations.
Open Scope N_scope.

(** ---- no interleaving can hang the pool: the held->acquired graph of the package's mutexes, regenerated from the
    source by the translator on every run, is acyclic and no function returns holding a lock ... *)
Theorem C17_peers_lock_acyclic : sacyclic edges = true /\ unbalanced = [].
Proof. exact peers_lock_acyclic. Qed.
Print Assumptions C17_peers_lock_acyclic.

(** ... hence any number of threads that take the package's locks in that order never reach a state in which every
    unfinished thread waits for a held lock *)
Theorem C17_peers_no_deadlock : forall progs s,
  Forall (LockOrder.ok String.eqb edges []) progs ->
  LockOrder.reachable String.eqb (LockOrder.init progs) s -> ~ LockOrder.deadlocked s.
Proof. exact peers_no_deadlock. Qed.
Print Assumptions C17_peers_no_deadlock.

(** ---- the pool (pool.go + timedqueue.go), for every sequence [es] of atomic steps (public methods, clock advances,
    single cool-down expiries, and the try / read-channel / wake / cancel steps of any number of next() callers) *)

(** the pool counts its peers correctly *)
Theorem C17_count_inv : forall ttl es,
  let s := spool (run step (init ttl) es) in
  pcount s = Z.of_nat (nact (pstat s) (plist s)) /\ NoDup (plist s) /\
  (forall p, In p (plist s) <-> pstat s p <> None) /\ phas s = (0 <? pcount s)%Z.
Proof. exact count_inv. Qed.
Print Assumptions C17_count_inv.

(** it offers a peer only while that peer is active, never panics, never misses an active peer, and a lookup changes
    nothing but the round-robin index *)
Theorem C17_tryGet_active : forall ttl es,
  let s := spool (run step (init ttl) es) in
  (forall p, snd (try_get s) = GSome p -> pstat s p = Some Active /\ In p (plist s)) /\
  snd (try_get s) <> GPanic /\
  ((0 < pcount s)%Z -> exists p, snd (try_get s) = GSome p) /\
  same_but_next s (fst (try_get s)).
Proof. exact tryGet_active. Qed.
Print Assumptions C17_tryGet_active.

(** a peer put on cool-down is not offered again before the cool-down elapses *)
Theorem C17_cooldown_respected : forall ttl es x t,
  let s := run step (init ttl) es in
  snd (try_get (spool s)) = GSome x -> In t (cooldown_times (init ttl) es x) -> t + ttl <= pnow (spool s).
Proof. exact cooldown_respected. Qed.
Print Assumptions C17_cooldown_respected.

(** waiting callers are woken when a peer becomes available *)
Theorem C17_waiters_woken : forall ttl es w g,
  let s := run step (init ttl) es in
  swait s w = WHolding g -> (0 < pcount (spool s))%Z ->
  chan_closed (spool s) g = true /\
  exists x, swait (run step s [EWWake w; EWTry w]) w = WGot x /\ pstat (spool s) x = Some Active.
Proof. exact waiters_woken. Qed.
Print Assumptions C17_waiters_woken.

(** ... and a waiting caller can always leave through its context: requests return or honour cancellation *)
Theorem C17_cancel_honoured : forall s w g,
  swait s w = WHolding g ->
  swait (step s (EWCancel w)) w = WGone /\ spool (step s (EWCancel w)) = spool s /\
  forall w', w' <> w -> swait (step s (EWCancel w)) w' = swait s w'.
Proof. exact cancel_honoured. Qed.
Print Assumptions C17_cancel_honoured.

(** non-vacuity *)
Theorem C17_pool_nonvacuous :
  let s := run step (init 10) ex_history in
  cooldown_times (init 10) ex_history 1 = [0] /\
  snd (run_out (init 10) ex_history) = [GSome 1; GSome 2; GSome 3; GSome 2] /\
  pstat (spool s) 1 = Some Active /\ pstat (spool s) 3 = None /\ pcount (spool s) = 2%Z /\ pnow (spool s) = 10 /\
  snd (try_get (spool s)) = GSome 1.
Proof. exact pool_nonvacuous. Qed.

Theorem C17_waiters_nonvacuous :
  let s := run step (init 10) [EWTry 0; EWRead 0; EAdd [5]; ECooldown 5; EWTry 1; EWRead 1; EAdvance 10; EExpire] in
  swait s 0%nat = WHolding 0 /\ swait s 1%nat = WHolding 1 /\ (0 < pcount (spool s))%Z.
Proof. exact waiters_nonvacuous. Qed.

(** ---- the cool-down timer at LOCK GRANULARITY (Peers/PoolFine.v).  Above, one expiry ("the item leaves the queue and
    afterCooldown makes the peer active") is one event.  In the code it is two critical sections of the timer goroutine:
    the scan under the queue mutex ([QLock], one [QPop] per iteration) and the callback under pool.m ([QCall]); [QE e]
    is any other pool event.  remove / tryGet / cleanup / the clock / the waiters' steps may run between any two of
    them; add and putOnCooldown take the queue mutex first and are enabled only while the timer does not hold it.
    [qrun true] = the code under test (releaseUnsafe calls onPop inside its loop, i.e. under the queue mutex). *)

(** a peer put on cool-down is not offered again before the cool-down elapses, in every such interleaving *)
Theorem C17_fine_cooldown_respected : forall ttl es x t,
  let s := qrun true (qinit ttl) es in
  snd (try_get (spool (q_sys s))) = GSome x -> In t (qcooldown_times true (qinit ttl) es x) ->
  t + ttl <= pnow (spool (q_sys s)).
Proof. exact fine_cooldown_respected. Qed.
Print Assumptions C17_fine_cooldown_respected.

(** ... and the pool counts its peers correctly *)
Theorem C17_fine_pool_count_inv : forall ttl es,
  let s := spool (q_sys (qrun true (qinit ttl) es)) in
  pcount s = Z.of_nat (nact (pstat s) (plist s)) /\ NoDup (plist s) /\
  (forall p, In p (plist s) <-> pstat s p <> None) /\ phas s = (0 <? pcount s)%Z.
Proof. exact fine_pool_count_inv. Qed.
Print Assumptions C17_fine_pool_count_inv.

(** this rests on the callback running UNDER the queue mutex: when the expired ids are collected, the queue unlocked and
    onPop called afterwards ([qrun false]), remove + add + putOnCooldown of the peer between the unlock and the callback
    leave a fresh cool-down that the stale callback ends at once *)
Theorem C17_cooldown_respected_callback_after_unlock_refuted : exists ttl es x t,
  let s := qrun false (qinit ttl) es in
  snd (try_get (spool (q_sys s))) = GSome x /\ In t (qcooldown_times false (qinit ttl) es x) /\
  ~ (t + ttl <= pnow (spool (q_sys s))).
Proof. exact cooldown_respected_after_unlock_refuted. Qed.
Print Assumptions C17_cooldown_respected_callback_after_unlock_refuted.

(** non-vacuity: the same calls against the code under test (remove gets through while the callback is due, add and
    putOnCooldown wait for the scan to end; the second cool-down lasts its ttl) *)
Theorem C17_fine_pool_nonvacuous :
  let s := qrun true (qinit 10) window_history_locked in
  qcooldown_times true (qinit 10) window_history_locked 0 = [0; 10] /\
  snd (try_get (spool (q_sys s))) = GNone /\ pstat (spool (q_sys s)) 0 = Some Cooldown /\ q_tm s = TmIdle /\
  snd (try_get (spool (q_sys (qrun true s [QE (EAdvance 10); QLock; QPop; QCall; QPop])))) = GSome 0.
Proof. exact fine_pool_nonvacuous. Qed.

(** ---- the manager (manager.go) with every call as ONE event, for every sequence [es] of manager events (shrex-sub notifications, header
    arrivals, Peer calls, request results, discovery updates, disconnects, GC rounds, clock ticks), whatever order
    the implementation's map iterations take *)

(** peers that only announced still-unconfirmed hashes are not in the general pool: a peer is there only if discovery
    added it, or it announced a hash that a header (or a getter holding the header, via Peer) confirmed *)
Theorem C17_no_unvalidated_promotion : forall enable self ttl es x,
  has (m_nodes (mrun (new_mgr enable self ttl) es)) x = true ->
  In (MUpdate x true) es \/
  exists h, (exists height, In (MValidate x h height) es) /\
            (exists height order, In (MHeader h height order) es \/ In (MPeer h height order) es).
Proof. exact no_unvalidated_promotion. Qed.
Print Assumptions C17_no_unvalidated_promotion.

(** once a peer is blacklisted no later Peer call returns it, from either pool *)
Theorem C17_blacklisted_never_offered : forall enable self ttl es es' h height order x src,
  is_blacklisted (mrun (new_mgr enable self ttl) es) x = true ->
  snd (get_peer (mrun (new_mgr enable self ttl) (es ++ es')) h height order) <> PRes x src.
Proof. exact blacklisted_never_offered. Qed.
Print Assumptions C17_blacklisted_never_offered.

(** ... and with blacklisting enabled a misbehaviour report does blacklist (the hypothesis above is reachable) *)
Theorem C17_done_blacklists : forall m h x src, m_enable m = true -> is_blacklisted (done m h x src DBlacklist) x = true.
Proof. exact done_blacklists. Qed.
Print Assumptions C17_done_blacklists.

(** ---- the manager at LOCK GRANULARITY (Peers/Fine.v).  The Manager holds no lock across a call; here every call in
    progress is a thread, one event [FStep t] is ONE critical section of thread [t] (one access to shared state under
    Manager.lock / pool.m / the gater's lock / an atomic), pools are heap objects that survive their map entry, and
    [es], [es'] range over ALL interleavings of the steps of any number of concurrent calls ([FSpawn] begins a call,
    [FWake] hands a blocked Peer call a peer from next(), [FAge]/[FTick] are pool ageing and the clock).
    [finit true ...] = the current code (removeIfUnreachable tests isBlacklistedPeer || !nodes.has). *)

(** once a peer is blacklisted (BlockPeer has taken effect), a Peer call that begins afterwards never returns it, from
    either pool, fast path or blocking path, whatever runs between its steps *)
Theorem C17_fine_blacklisted_never_offered : forall enable self ttl es es' t x src,
  black (fs_sh (frun (finit true enable self ttl) es)) x = true ->
  fs_thr (frun (finit true enable self ttl) es) t = TNone ->
  fs_thr (frun (finit true enable self ttl) (es ++ es')) t <> TDone (OP (PRes x src)).
Proof. exact fine_blacklisted_never_offered. Qed.
Print Assumptions C17_fine_blacklisted_never_offered.

(** ... which rests on the blacklist test in removeIfUnreachable: with [!nodes.has(p)] alone ([finit false]) a
    discovery add that lands between nodes.remove and BlockPeer of the peer's blacklisting makes the next Peer call for a
    hash the peer announced return it (the one-event-per-call model cannot express this history) *)
Theorem C17_blacklisted_never_offered_without_blacklist_test_refuted : exists es es' t x src,
  black (fs_sh (frun (finit false true 9 10) es)) x = true /\
  fs_thr (frun (finit false true 9 10) es) t = TNone /\
  fs_thr (frun (finit false true 9 10) (es ++ es')) t = TDone (OP (PRes x src)).
Proof. exact unguarded_refuted. Qed.
Print Assumptions C17_blacklisted_never_offered_without_blacklist_test_refuted.

(** with blacklisting enabled, a misbehaviour report that has returned did blacklist the peer, whatever ran between
    nodes.remove and BlockPeer *)
Theorem C17_fine_done_blacklists : forall guard self ttl es es' t h x src o,
  fs_thr (frun (finit guard true self ttl) es) t = TNone ->
  fs_thr (frun (finit guard true self ttl) (es ++ FSpawn t (CDone h x src DBlacklist) :: es')) t = TDone o ->
  black (fs_sh (frun (finit guard true self ttl) (es ++ FSpawn t (CDone h x src DBlacklist) :: es'))) x = true.
Proof. exact fine_done_blacklists. Qed.
Print Assumptions C17_fine_done_blacklists.

(** a peer is in the general pool only if a discovery add for it has begun, or it began to announce a hash whose
    confirmation (header arrival / a getter holding the header) has begun *)
Theorem C17_fine_no_unvalidated_promotion : forall guard enable self ttl es x,
  has (h_nodes (fs_sh (frun (finit guard enable self ttl) es))) x = true ->
  (exists t, In (FSpawn t (CUpdate x true)) es) \/
  exists h, (exists t height, In (FSpawn t (CValidate x h height)) es) /\
            (exists t height order, In (FSpawn t (CHeader h height order)) es \/ In (FSpawn t (CPeer h height order)) es).
Proof. exact fine_no_unvalidated_promotion. Qed.
Print Assumptions C17_fine_no_unvalidated_promotion.

(** the schedules the harness drives on the real Manager (park a call at a named point, run others, resume) are such
    histories *)
Theorem C17_harness_schedules_are_histories : forall hs s, exists es, hrun s hs = frun s es.
Proof. exact hrun_reachable. Qed.
Print Assumptions C17_harness_schedules_are_histories.

(** non-vacuity: the interleaving above on the current code reaches "blacklisted AND in the general pool AND in its
    hash pool"; the next Peer call drops the peer from both pools and returns nothing *)
Theorem C17_fine_nonvacuous :
  let s := frun (finit true true 9 10) gap_prefix in
  black (fs_sh s) 0 = true /\ has (h_nodes (fs_sh s)) 0 = true /\ has (pool_of (fs_sh s) 0) 0 = true /\
  fs_thr s 1%nat = TDone (OP (PRes 0 SShrexSub)) /\ fs_thr s 4%nat = TNone /\
  let s' := frun s gap_suffix in
  fs_thr s' 4%nat = TDone (OP PWait) /\ has (h_nodes (fs_sh s')) 0 = false /\ has (pool_of (fs_sh s') 0) 0 = false.
Proof. exact fine_nonvacuous. Qed.

Theorem C17_manager_nonvacuous :
  let m := mrun (new_mgr true 9 10) ex_mhistory in
  is_blacklisted m 0 = true /\ has (m_nodes m) 1 = true /\ has (m_nodes m) 3 = true /\ has (m_nodes m) 0 = false /\
  snd (mrun_out (new_mgr true 9 10) (ex_mhistory ++ [MPeer 3 8 []; MPeer 3 8 []; MPeer 0 6 []; MPeer 0 6 []])) =
    [OV VIgnore; OV VIgnore; OV VIgnore; OP (PRes 1 SDiscovered); OP (PRes 3 SDiscovered); OP (PRes 1 SShrexSub); OP (PRes 1 SShrexSub)].
Proof. exact manager_nonvacuous. Qed.

(** C05 — every way of reading a stored block returns exactly the block that was stored.
    Property theorems only; each is closed by [exact] of a lemma proved in Store/OdsFileProofs.v / ReadPathsProofs.v.

    [parity] / [recover] are the erasure code (abstract).  The file-format theorems do not depend on any property of the
    code; the read-path theorems use only that a parity half has the length of its data half and that decoding a
    parity half gives back the data half (completeness side). *)
From Coq Require Import List ZArith NArith.
From CN Require Import Store.OdsFile Store.ReadPaths Store.OdsFileProofs Store.ReadPathsProofs.
Import ListNotations.

(** The ODS file determines the block: decoding what [CreateODS] writes — header, roots, the shares before the first
    tail-padding share — gives back the whole square, padding included. No assumption on the code. *)
Theorem C05_file_roundtrip : forall sq, wf sq = true -> decode_ods (encode_ods sq) = Some sq.
Proof. exact decode_encode_ods. Qed.
Print Assumptions C05_file_roundtrip.

(** What must not change: the file is header + roots + only the filled shares, and its size is the one the store's
    integrity check expects; the Q4 file holds all k*k parity shares. *)
Theorem C05_file_sizes : forall parity, (forall l, length (parity l) = length l) -> forall sq, wf sq = true ->
  fsize (encode_ods sq) = expected_ods_size sq /\ fsize (encode_q4 parity sq) = expected_q4_size sq /\
  open_ods (encode_ods sq) = Some (header_of sq) /\ read_roots (encode_ods sq) (header_of sq) = Some (sq_roots sq).
Proof. exact file_sizes. Qed.
Print Assumptions C05_file_sizes.

(** Readers working by byte offset on the files: a row / column half of the first quadrant read from the ODS file is
    that row / column of the square — shares past the end of the file come back as tail padding —, the whole quadrant
    through [ReadShares] is the square, and the Q4 file gives back the parity quadrant. *)
Theorem C05_file_readers : forall parity, (forall l, length (parity l) = length l) -> forall sq, wf sq = true ->
  (forall i, (i < sq_k sq)%nat ->
     read_row_half (encode_ods sq) (header_of sq) (offset_with_roots (header_of sq)) i = Some (row_of (sq_k sq) (sq_ods sq) i) /\
     read_col_half (encode_ods sq) (header_of sq) (offset_with_roots (header_of sq)) i = Some (col_of (sq_k sq) (sq_ods sq) i) /\
     read_row_half (encode_q4 parity sq) (header_of sq) 0 i = Some (q4_row parity sq i) /\
     read_col_half (encode_q4 parity sq) (header_of sq) 0 i =
       Some (map (fun r => nth i (q4_row parity sq r) tail_share) (seq 0 (sq_k sq)))) /\
  read_ods_shares (encode_ods sq) (header_of sq) = Some (sq_ods sq).
Proof. exact file_readers. Qed.
Print Assumptions C05_file_readers.

(** The property: for every valid block, every representation (in memory, ODS file, ODS+Q4 files, Q4 pruned), the
    accessor the store hands out (bounds validation, close-once, proofs cache) can be opened, and *any history* of
    requests — samples, axis halves, row / block namespace data, share ranges, all shares, the streamed square,
    roots, data hash, size, with any arguments — returns for each request what the request means on the block itself
    ([reference]; for an axis half: the half it claims to be of the right axis), out-of-bounds arguments included
    (their reference is "refused"). *)
Theorem C05_read_paths_correct :
  forall parity recover, (forall l, length (parity l) = length l) -> (forall l, recover (parity l) = l) ->
  forall sq r, wf sq = true ->
  exists w, open_wrapped parity sq r = Some w /\
            forall ps, Forall nd_valid ps -> Forall2 (res_ok parity sq) ps (run_reads parity recover w ps).
Proof. exact read_paths_correct. Qed.
Print Assumptions C05_read_paths_correct.

(** Out-of-bounds coordinates, rows, ranges and namespaces that cannot hold data are refused — nothing is served —
    whatever was read before on the same accessor. *)
Theorem C05_validation_rejects_oob :
  forall parity recover, (forall l, length (parity l) = length l) -> (forall l, recover (parity l) = l) ->
  forall sq r w ps p, wf sq = true -> open_wrapped parity sq r = Some w -> Forall nd_valid ps ->
  in_bounds sq p = false -> nothing_served (fst (step parity recover (run_state parity recover w ps) p)).
Proof. exact validation_rejects_oob. Qed.
Print Assumptions C05_validation_rejects_oob.

(** The answer does not depend on how the block is held nor on what was read before. *)
Theorem C05_representation_independent :
  forall parity recover, (forall l, length (parity l) = length l) -> (forall l, recover (parity l) = l) ->
  forall sq r1 r2 w1 w2 ps1 ps2 p, wf sq = true ->
  open_wrapped parity sq r1 = Some w1 -> open_wrapped parity sq r2 = Some w2 ->
  Forall nd_valid ps1 -> Forall nd_valid ps2 -> nd_valid p ->
  match p with
  | PAxisHalf _ _ => True
  | _ => fst (step parity recover (run_state parity recover w1 ps1) p) = fst (step parity recover (run_state parity recover w2 ps2) p)
  end.
Proof. exact representation_independent. Qed.
Print Assumptions C05_representation_independent.

(** Non-vacuity: a concrete code meets the two hypotheses; blocks with no padding, some padding, all-but-one padding
    and the empty block are valid; the file of the padded block holds 3 of its 4 shares and decodes to the block; the
    four representations answer 18 example requests with the block's data (parity share of Q4, the unwritten padding
    share, present / absent / out-of-range namespaces, refused mixed-namespace range, refused out-of-bounds:
   [ReadPathsProofs.ex_reads]). *)
Theorem C05_nonvacuous :
  (forall l, length (ex_parity l) = length l) /\ (forall l, ex_recover (ex_parity l) = l) /\
  (wf ex_sq = true /\ wf ex_empty = true /\ wf ex_full = true /\ wf ex_one = true) /\
  (length (encode_ods ex_sq) = (65 + 8 + 3)%nat /\ fsize (encode_ods ex_sq) = (65 + 8 * 90 + 3 * 512)%Z /\
   decode_ods (encode_ods ex_sq) = Some ex_sq /\ length (encode_ods ex_empty) = (65 + 4 + 0)%nat).
Proof. exact nonvacuous. Qed.
Print Assumptions C05_nonvacuous.

(** C04 — draft stub (replaced below once the proofs exist) *)
From Coq Require Import List ZArith.
From CN Require Import Das.Coordinator.
Import ListNotations.
Open Scope Z_scope.
Theorem C04_stub : run (mkCfg 1 1 [] repaired) init [] = init.
Proof. reflexivity. Qed.
Print Assumptions C04_stub.

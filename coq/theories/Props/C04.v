(** C04 — the DASer never loses a block height, including across restarts.
    Property theorems only; each is closed by [exact] of a lemma proved in Das/*.v.

    Model: Das/Coordinator.v ([step], over the event alphabet NewHead / Deliver / Wake / Checkpoint / Step / Tick /
    Stop / Crash / Restart; [run c init es] is the state after the history [es]).  [vr c = repaired] is the tree with
    fix-c04-1 and fix-c13-1..3 applied; ghost fields: [sampled] (heights the sampler has answered nil or
    outside-window for), [lo] (the DASer's starting point: the largest store tail a start has seen), [storehead]. *)
From Coq Require Import List ZArith.
From CN Require Import Das.Coordinator Das.Invariant Das.Theorems Das.Witness.
Import ListNotations.
Open Scope Z_scope.

(** Every height between the starting point and the newest head is, in every reachable state (whatever the history of
    heads, worker steps with any outcome, deliveries, statistics/checkpoint requests, ticks, stops, crashes, restarts),
    sampled (or skipped), in flight in a worker, queued for catch-up, or recorded as failed / being retried. *)
Theorem C04_cover_inv : forall c es h,
  vr c = repaired /\ 1 <= limit c /\ 1 <= range c ->
  let s := run c init es in
  lo s <= h <= head s ->
  In h (sampled s) \/ in_flight s h \/ next s <= h \/ lookup h (failed s) <> None \/ lookup h (inretry s) <> None.
Proof. exact cover_inv. Qed.
Print Assumptions C04_cover_inv.

(** The sampled-chain head reported by the statistics is below every height that has not been sampled. *)
Theorem C04_sampled_head_safe : forall c es h,
  vr c = repaired /\ 1 <= limit c /\ 1 <= range c ->
  let s := run c init es in
  lo s <= h <= sampled_chain_head s -> In h (sampled s).
Proof. exact sampled_head_safe. Qed.
Print Assumptions C04_sampled_head_safe.

(** Restart coverage, for EVERY point at which a checkpoint can be taken or lie on disk: [p] is the checkpoint that
    newCheckpoint yields in the reachable state [s] (background store, both checkpoints of Stop) or the one persisted
    earlier; the process goes down with [p] in its datastore and starts again with any store tail / head.  Every height
    from the starting point up to the new head that had not been sampled when [p] was written is in flight, queued or
    failed afterwards, and the new head is not below the old one. *)
Theorem C04_restart_cover : forall c es p tail hd picks h,
  vr c = repaired /\ 1 <= limit c /\ 1 <= range c ->
  let s := run c init es in
  (p = cp_of c s \/ persisted s = Some p) -> 1 <= tail ->
  let s' := step c (down_with s p) (Restart tail hd picks) in
  Z.max (lo s) tail <= h <= head s' ->
  (In h (sampled s) \/ in_flight s' h \/ next s' <= h \/ lookup h (failed s') <> None \/ lookup h (inretry s') <> None)
  /\ running s' = true /\ head s <= head s'.
Proof. exact restart_cover. Qed.
Print Assumptions C04_restart_cover.

(** The same history that loses height 4 before the fix keeps it in flight afterwards (non-vacuity: a restart with a
    recent job in flight at the stop checkpoint). *)
Theorem C04_restart_cover_nonvacuous :
  let c := mkCfg 10 1 tbl repaired in let s := run c init hist_a in
  valid c /\ running s = true /\ lo s <= 4 <= head s /\ ~ In 4 (sampled s) /\ in_flight s 4.
Proof. exact restart_cover_nonvacuous. Qed.
Print Assumptions C04_restart_cover_nonvacuous.

(** The defect repaired by fix-c04-1 (DESIGN.md section 6): on the code before the fix the coverage statement is false —
    catch-up done to 3, head 4 being sampled, Stop, Restart: height 4 is neither sampled nor anywhere in the state. *)
Theorem C04_restart_cover_refuted :
  exists c es h, vr c = mkVariant false true true true /\ 1 <= limit c /\ 1 <= range c /\
    let s := run c init es in running s = true /\ lo s <= h <= head s /\ ~ covered s h.
Proof. exact restart_cover_refuted. Qed.
Print Assumptions C04_restart_cover_refuted.

(** C08 — concurrent store use is safe: no torn reads, no deadlock, no use-after-close.
    Property theorems only; each is closed by [exact] of a lemma proved elsewhere.

    Three parts: (a) lock order and deadlock freedom of store + caches + file accessors, over the lock graph that a
    translator regenerates from the Go source on every run; (b) the reference-counted cache entries, for every
    interleaving of any number of goroutines; (c) the sequential specification of the store, a linearizability checker
    for recorded histories, and linearizability of operations made atomic per height by the stripe lock.
    Which interleavings the Go scheduler produces, and data-race freedom, are not theorems: see the harness. *)
From Coq Require Import List ZArith NArith String Permutation.
From CN Require Import Base.Lts Base.LockOrder Gen.LockGraph_store Store.ConcLocks
  Store.CacheRef Store.CacheRefProofs Store.CacheRefLruProofs
  Store.StoreSpec Store.StoreSpecProofs Store.ConcAtomic.
Import ListNotations.
Local Open Scope nat_scope.
Local Open Scope list_scope.

(** ================= (a) lock order ================= *)

(** The held -> acquired graph of the mutexes of store, store/cache, store/file and share/eds (striped locks named
    per family: two stripes of one family held together would be a self edge; the wait of accessor.close for the
    readers of an entry as a pseudo lock), regenerated from the source on every run and extended by the locks a reader
    takes while it holds a cache reference, is acyclic; the only store function that returns holding locks is the
    helper made for it (multiLock.lock, undone by the deferred multiLock.unlock of each caller). *)
Theorem C08_store_lock_acyclic :
  sacyclic store_edges = true /\
  store_unbalanced = [("store.multiLock.lock", hashes); ("store.multiLock.lock", heights)]%string.
Proof. exact store_lock_acyclic. Qed.
Print Assumptions C08_store_lock_acyclic.

(** the order itself: hash stripe, then height stripe, then the cache's stripe, then the entry lock; the store waits
    for readers only below its own stripes and never under a cache lock; never two stripes of one family *)
Theorem C08_store_lock_order :
  In (hashes, heights) edges /\ In (heights, cstripe) edges /\ In (cstripe, alock) edges /\
  In (heights, adone) edges /\ In (hashes, adone) edges /\
  ~ In (cstripe, adone) edges /\ ~ In (alock, adone) edges /\ ~ In (heights, hashes) edges /\
  ~ In (heights, heights) edges /\ ~ In (hashes, hashes) edges /\ ~ In (cstripe, cstripe) edges.
Proof. exact store_order_edges. Qed.
Print Assumptions C08_store_lock_order.

(** Any number of goroutines, programs of any length over blocking acquisitions, releases and non-blocking shared
    acquisitions ([XTake]: taking a cache reference): if every goroutine acquires a lock only along the edges of the
    graph, no reachable state is deadlocked (every unfinished goroutine waiting for something held). *)
Theorem C08_store_no_deadlock : forall progs s,
  Forall (xok String.eqb store_edges []) progs ->
  xreachable String.eqb (xinit progs) s -> ~ xdeadlocked s.
Proof. exact store_no_deadlock. Qed.
Print Assumptions C08_store_no_deadlock.

(** the lock programs of put / get (hit, miss) / has / remove / cached get / eviction, transcribed from the code,
    satisfy the hypothesis (non-vacuity; it also fails if the generated edges stop covering them) *)
Theorem C08_store_programs_follow_order : Forall (xok String.eqb store_edges []) store_programs.
Proof. exact store_programs_ok. Qed.

(** What must not change / what the hypothesis excludes: a caller that goes back into the store while it holds an
    accessor.  With that single edge the graph is cyclic, and a reader + a remover reach a deadlocked state (in the
    implementation the remover's wait is bounded by defaultCloseTimeout, after which the accessor is force-closed
    under the reader). *)
Theorem C08_reader_reentry_refuted :
  sacyclic (store_edges ++ [(adone, heights)]) = false /\
  (let reader := [XAcq heights; XTake adone; XRel heights; XAcq heights; XRel heights; XRel adone] in
   let remover := [XAcq hashes; XAcq heights; XAcq adone; XRel adone; XRel hashes; XRel heights] in
   exists s, xreachable String.eqb (xinit [reader; remover]) s /\ xdeadlocked s).
Proof. exact (conj reader_reentry_cycle reader_reentry_deadlock). Qed.
Print Assumptions C08_reader_reentry_refuted.

(** ================= (b) reference-counted cache entries ================= *)

(** ---- the entry protocol in an arbitrary environment: [n] goroutines, ANY sequence [es] of reference attempts on
    any entry, releases, close attempts on any entry, waits, timeouts, goroutine creations *)

(** the counter is the number of goroutines that hold a reference, and never negative *)
Theorem C08_refs_count : forall n es e x,
  nth_error (ents (run step1 (init1 n) es)) e = Some x ->
  refs x = cnt (holdsb e) (thr (run step1 (init1 n) es)) /\ (0 <= refs x)%Z.
Proof. exact refs_count. Qed.
Print Assumptions C08_refs_count.

(** Close() of the wrapped accessor at most once *)
Theorem C08_close_at_most_once : forall n es e x,
  nth_error (ents (run step1 (init1 n) es)) e = Some x -> closes x <= 1.
Proof. exact close_at_most_once. Qed.
Print Assumptions C08_close_at_most_once.

(** ... and only by a step that finds no reference outstanding — or by the explicit timeout event, which is flagged *)
Theorem C08_close_only_without_refs : forall n es ev e x x',
  let s := run step1 (init1 n) es in
  nth_error (ents s) e = Some x -> nth_error (ents (step1 s ev)) e = Some x' ->
  closes x' <> closes x ->
  closes x = 0 /\ closes x' = 1 /\
  ((exists t, ev = EWait t) /\ refs x = 0%Z /\ refs x' = 0%Z /\ forced x' = forced x
   \/ (exists t, ev = ETimeout t) /\ forced x' = true).
Proof. exact close_only_without_refs. Qed.
Print Assumptions C08_close_only_without_refs.

(** once closed without timeout: no reference, no holder, in any later state *)
Theorem C08_closed_means_no_refs : forall n es e x,
  nth_error (ents (run step1 (init1 n) es)) e = Some x ->
  closes x = 1 -> forced x = false ->
  refs x = 0%Z /\ forall t, nth_error (thr (run step1 (init1 n) es)) t <> Some (Hold e).
Proof. exact closed_means_no_refs. Qed.
Print Assumptions C08_closed_means_no_refs.

(** a reader holding a reference reads from an accessor that has not been closed (timeout excluded, stated) *)
Theorem C08_holder_reads_open : forall n es t e,
  nth_error (thr (run step1 (init1 n) es)) t = Some (Hold e) ->
  exists x, nth_error (ents (run step1 (init1 n) es)) e = Some x /\ (closes x = 0 \/ forced x = true) /\ (1 <= refs x)%Z.
Proof. exact holder_reads_open. Qed.
Print Assumptions C08_holder_reads_open.

(** no reference is handed out after isClosed: the counter only grows by an addRef on an entry that is not closed *)
Theorem C08_no_addref_after_closed : forall n es ev e x x',
  let s := run step1 (init1 n) es in
  nth_error (ents s) e = Some x -> nth_error (ents (step1 s ev)) e = Some x' ->
  (refs x < refs x')%Z -> isclosed x = false /\ refs x' = (refs x + 1)%Z /\ exists t, ev = EAddRef t e.
Proof. exact no_addref_after_closed. Qed.
Print Assumptions C08_no_addref_after_closed.

(** close(done) never panics: the done channel exists and is closed exactly while no reference is out *)
Theorem C08_done_channel : forall n es,
  panics (run step1 (init1 n) es) = 0 /\
  forall e x, nth_error (ents (run step1 (init1 n) es)) e = Some x -> (dclosed x = true <-> refs x = 0%Z) /\ 0 < gen x.
Proof. intros n es. exact (conj (no_panic n es) (done_tracks_refs n es)). Qed.
Print Assumptions C08_done_channel.

(** a closer waits only while a reference is out; it is the only one; with none left its wait is over *)
Theorem C08_waiter_progress : forall n es t e g,
  nth_error (thr (run step1 (init1 n) es)) t = Some (Wait e g) ->
  exists x, nth_error (ents (run step1 (init1 n) es)) e = Some x /\ g = gen x /\ isclosed x = true /\ closes x = 0 /\
            cnt (waitsb e) (thr (run step1 (init1 n) es)) = 1%Z /\ (refs x = 0%Z -> done_closed x g = true).
Proof. exact waiter_progress. Qed.
Print Assumptions C08_waiter_progress.

(** ---- the cache around the entries: LRU + eviction goroutines + stripe locks + Get / GetOrLoad / Remove, ANY
    schedule [es] of their atomic steps for [n] goroutines and any capacity *)

(** every step of the cache is a sequence of steps of the entry protocol: all of the above holds inside the cache *)
Theorem C08_cache_refines_protocol : forall cap n es,
  exists es1, abs_st (run step2 (init2 cap n) es) = run step1 (init1 n) es1.
Proof. exact reach2_abs. Qed.
Print Assumptions C08_cache_refines_protocol.

Theorem C08_cache_holder_reads_open : forall cap n es t e,
  nth_error (c_thr (run step2 (init2 cap n) es)) t = Some (PHold e) ->
  exists x, nth_error (c_ents (run step2 (init2 cap n) es)) e = Some x /\
            (closes x = 0 \/ forced x = true) /\ (1 <= refs x)%Z.
Proof. exact cache_holder_reads_open. Qed.
Print Assumptions C08_cache_holder_reads_open.

Theorem C08_cache_refs_closes : forall cap n es i x,
  nth_error (c_ents (run step2 (init2 cap n) es)) i = Some x ->
  (0 <= refs x)%Z /\ closes x <= 1 /\ (closes x = 1 -> forced x = false -> refs x = 0%Z) /\
  c_panics (run step2 (init2 cap n) es) = 0.
Proof. exact cache_refs_closes. Qed.
Print Assumptions C08_cache_refs_closes.

(** no leak: when every operation has returned, every reader has closed and the eviction goroutines have finished,
    every accessor whose entry left the cache (removed, evicted, replaced) has been closed exactly once *)
Theorem C08_cache_no_leak : forall cap n es,
  all_idle (run step2 (init2 cap n) es) ->
  forall i x, nth_error (c_ents (run step2 (init2 cap n) es)) i = Some x ->
  refs x = 0%Z /\ closes x <= 1 /\
  (~ in_lru (run step2 (init2 cap n) es) i -> isclosed x = true /\ closes x = 1) /\
  (isclosed x = false -> closes x = 0).
Proof. exact no_leak. Qed.
Print Assumptions C08_cache_no_leak.

(** Remove and the eviction goroutines are blocked only by outstanding references *)
Theorem C08_cache_waiter_enabled : forall cap n es t h e g,
  nth_error (c_thr (run step2 (init2 cap n) es)) t = Some (PRmW h e g) \/
  nth_error (c_thr (run step2 (init2 cap n) es)) t = Some (PClW e g) ->
  exists x, nth_error (c_ents (run step2 (init2 cap n) es)) e = Some x /\ closes x = 0 /\ isclosed x = true /\
            (refs x = 0%Z -> done_closed x g = true).
Proof. exact cache_waiter_enabled. Qed.
Print Assumptions C08_cache_waiter_enabled.

(** non-vacuity: readers + a waiting closer + a refused late reader; the forced close; a waiting eviction goroutine
    and a quiescent state in which everything is closed once *)
Theorem C08_ref_nonvacuous :
  (let s := run step1 (init1 4) ex_events in
   ents s = [mkE 0 1 true true 1 false] /\ thr s = [Idle; Idle; Idle; Idle] /\ panics s = 0 /\
   let s' := run step1 (init1 4) (firstn 7 ex_events) in
   ents s' = [mkE 1 1 false true 0 false] /\ thr s' = [Idle; Hold 0; Wait 0 1; Idle]) /\
  (let s := run step1 (init1 2) [ENew 0; EClose1 1 0; ETimeout 1] in
   ents s = [mkE 1 1 false true 1 true] /\ thr s = [Hold 0; Idle]).
Proof. exact (conj ex_run ex_forced). Qed.

Theorem C08_cache_nonvacuous :
  let s := run step2 (init2 1 3) ex2 in
  all_idle s /\ c_lru s = [] /\ c_ents s = [mkE 0 1 true true 1 false; mkE 0 1 true true 1 false] /\
  let s' := run step2 (init2 1 3) (firstn 6 ex2) in
  c_thr s' = [PHold 0; PHold 1; PIdle; PClW 0 1] /\ c_lru s' = [(263%N, 1)] /\
  c_ents s' = [mkE 1 1 false true 0 false; mkE 1 1 false false 0 false].
Proof. exact ex2_run. Qed.

(** ================= (c) sequential specification, linearizability ================= *)

(** the checker run on the recorded histories decides exactly: some sequential order of the completed operations
    respects real time, gives every operation its observed result and ends in the observed content *)
Theorem C08_linearizable_sound : forall hs init ops final,
  linearizable hs init ops final = true -> exists l, is_linearization hs init ops final l.
Proof. exact linearizable_sound. Qed.
Print Assumptions C08_linearizable_sound.

Theorem C08_linearizable_complete : forall hs init ops final l,
  is_linearization hs init ops final l -> linearizable hs init ops final = true.
Proof. exact linearizable_complete. Qed.
Print Assumptions C08_linearizable_complete.

(** With operations made atomic per height by the stripe lock (any stripe function; each operation's file-system
    effects performed one by one under the lock, interleaved with everybody else's): for EVERY schedule the order of
    lock acquisitions is a sequential execution of the specification that explains every observed result, keeps every
    goroutine's program order, and — whenever no operation is in flight — ends in exactly the files on disk. *)
Theorem C08_atomic_per_height_linearizable : forall stripe_of init progs es,
  let s := run (cstep stripe_of) (cinit init progs) es in
  exists m,
    replay init (g_log s) = Some m /\
    (forall t p, nth_error progs t = Some p -> exists rest, log_of t (g_log s) ++ rest = p /\ (finished s -> rest = [])) /\
    (no_flight s -> forall h, g_files s h = conc (lookup h m)).
Proof. exact atomic_linearizable. Qed.
Print Assumptions C08_atomic_per_height_linearizable.

(** non-vacuity *)
Theorem C08_spec_nonvacuous :
  linearizable [5%N] [] [mkOp RemoveAll 5 ROk 0 3; mkOp PutODSQ4 5 ROk 1 2; mkOp Has 5 RFound 4 5] [(5%N, OdsQ4)] = true /\
  linearizable [5%N] [] [mkOp RemoveAll 5 ROk 0 3; mkOp PutODSQ4 5 ROk 1 2; mkOp Has 5 RFound 4 5] [] = false /\
  linearizable [5%N] [] [mkOp PutODS 5 ROk 0 1; mkOp RemoveAll 5 ROk 2 3] [(5%N, Ods)] = false /\
  linearizable [5%N] [] [mkOp PutODS 5 ROk 0 1; mkOp PutODSQ4 5 ROk 2 3; mkOp HasQ4 5 RFound 4 5; mkOp RemoveQ4 5 ROk 6 7;
                         mkOp HasQ4 5 RNotFound 8 9; mkOp Get 5 RFound 10 11] [(5%N, Ods)] = true.
Proof. exact lin_example. Qed.

(** C10 — bitswap blocks are accepted only if they verify for the requested identifier.

    [cdecode] (protobuf -> container) and [verify] (the container's Verify against the requester's roots) are arbitrary;
    a registry is the global map CID -> pending Block; a body is what unmarshalProto yields (inner CID bytes, container
    bytes) or nothing.  Theorems quantify over every registry, every body and every sequence of bodies.
    Property theorems only; proofs in Shwap/CidProofs.v and Shwap/BitswapProofs.v. *)
From Coq Require Import List ZArith Bool.
From CN Require Import Base.Bytes Shwap.Ids Shwap.IdsProofs Shwap.Cid Shwap.CidProofs Shwap.Bitswap Shwap.BitswapProofs.
Import ListNotations.
Open Scope Z_scope.

(** ** cid_bij: every identifier maps to exactly one content identifier and back *)

(** the CID of a block built for a valid identifier parses back to the same block type and decodes to the same identifier *)
Theorem C10_cid_roundtrip : forall t sz i j,
  height_ok i -> size_ok (kind_of t) sz -> new (kind_of t) sz i = Some j ->
  empty_block (block_cid t j) = Some (t, j).
Proof. exact cid_bij. Qed.
Print Assumptions C10_cid_roundtrip.

(** one CID per identifier; identifiers of different block types never share a CID *)
Theorem C10_cid_injective : forall t t' sz sz' i i' j j',
  height_ok i -> height_ok i' -> size_ok (kind_of t) sz -> size_ok (kind_of t') sz' ->
  new (kind_of t) sz i = Some j -> new (kind_of t') sz' i' = Some j' ->
  block_cid t j = block_cid t' j' -> t = t' /\ j = j'.
Proof. exact block_cid_injective. Qed.
Print Assumptions C10_cid_injective.

(** the parser accepts only the canonical encoding: no second byte string names the same identifier *)
Theorem C10_cid_canonical : forall bs t idb,
  bytes_ok bs = true -> extract_bytes bs = Some (t, idb) -> bs = encode_cid t idb /\ length idb = id_size t.
Proof. exact extract_canonical. Qed.
Print Assumptions C10_cid_canonical.

(** codec and multihash codes are pairwise distinct, and no codec is a multihash code *)
Theorem C10_codecs_distinct : forall t t',
  (codec t = codec t' \/ mhcode t = mhcode t' -> t = t') /\ codec t <> mhcode t'.
Proof. intros t t'; split; [apply codecs_distinct|apply codec_not_mhcode]. Qed.
Print Assumptions C10_codecs_distinct.

(** ** accept_sound *)
Theorem C10_accept_sound : forall (root cont cbytes : Type) (cdecode : bty -> cbytes -> option cont)
    (verify : root -> bty -> id -> cont -> bool) (r r' : registry root cont) b d,
  hasher_write cdecode verify false r b = (r', WOk d) ->
  exists cidb container t e c,
    b = Some (cidb, container) /\ extract_bytes cidb = Some (t, d) /\ lookup cidb r = Some e /\
    dec (kind_of (e_ty e)) d = Some (e_id e) /\
    cdecode (e_ty e) container = Some c /\
    verify (e_root e) (e_ty e) (e_id e) c = true /\
    r' = update cidb (populate e c) r.
Proof. exact @accept_sound. Qed.
Print Assumptions C10_accept_sound.

(** in a registry keyed by the CIDs of its blocks the body reaches a block of exactly its type and identifier *)
Theorem C10_accept_type : forall (root cont cbytes : Type) (cdecode : bty -> cbytes -> option cont)
    (verify : root -> bty -> id -> cont -> bool) (r r' : registry root cont) b d,
  (forall k e, lookup k r = Some e -> k = block_cid (e_ty e) (e_id e) /\ length (enc (kind_of (e_ty e)) (e_id e)) = id_size (e_ty e)) ->
  hasher_write cdecode verify false r b = (r', WOk d) ->
  exists cidb container e, b = Some (cidb, container) /\ lookup cidb r = Some e /\
    extract_bytes cidb = Some (e_ty e, enc (kind_of (e_ty e)) (e_id e)) /\ d = enc (kind_of (e_ty e)) (e_id e).
Proof. exact @accept_type. Qed.
Print Assumptions C10_accept_type.

(** ** reject_leaves_pending: any other bytes leave every request exactly as it was *)
Theorem C10_reject_leaves_pending : forall (root cont cbytes : Type) (cdecode : bty -> cbytes -> option cont)
    (verify : root -> bty -> id -> cont -> bool) (r r' : registry root cont) b,
  hasher_write cdecode verify false r b = (r', WErr) -> r' = r.
Proof. exact @reject_leaves_pending. Qed.
Print Assumptions C10_reject_leaves_pending.

(** what must not change: a write touches at most the block its inner CID names, never a block's type, identifier or
    roots, and a populated block keeps its container *)
Theorem C10_write_frame : forall (root cont cbytes : Type) (cdecode : bty -> cbytes -> option cont)
    (verify : root -> bty -> id -> cont -> bool) (r r' : registry root cont) b w k e',
  hasher_write cdecode verify false r b = (r', w) -> lookup k r' = Some e' ->
  exists e, lookup k r = Some e /\ e_ty e' = e_ty e /\ e_id e' = e_id e /\ e_root e' = e_root e /\
            (forall c, e_cont e = Some c -> e_cont e' = Some c).
Proof. exact @write_frame. Qed.
Print Assumptions C10_write_frame.

(** whatever bodies arrive, in whatever order, for whatever CIDs: a request that is filled afterwards holds a container
    that verifies for its identifier against its roots *)
Theorem C10_filled_only_verified : forall (root cont cbytes : Type) (cdecode : bty -> cbytes -> option cont)
    (verify : root -> bty -> id -> cont -> bool) bs (r : registry root cont),
  (forall k e, lookup k r = Some e -> e_cont e = None) ->
  reg_ok verify (run_writes cdecode verify false r bs).
Proof. exact @filled_only_verified. Qed.
Print Assumptions C10_filled_only_verified.

(** ** serve_accept *)
Theorem C10_serve_accept : forall (root cont cbytes : Type) (cdecode : bty -> cbytes -> option cont)
    (verify : root -> bty -> id -> cont -> bool) (populate_from : bty -> id -> option cont) (cencode : bty -> cont -> cbytes),
  (forall t c, cdecode t (cencode t c) = Some c) ->
  forall (r : registry root cont) t sz i j e c,
  height_ok i -> size_ok (kind_of t) sz -> new (kind_of t) sz i = Some j ->
  lookup (block_cid t j) r = Some e -> e_ty e = t -> e_id e = j ->
  populate_from t j = Some c -> verify (e_root e) t j c = true ->
  exists bd, blockstore_get populate_from cencode (block_cid t j) = Some bd /\
             hasher_write cdecode verify false r (Some bd) = (update (block_cid t j) (populate e c) r, WOk (enc (kind_of t) j)).
Proof. exact @serve_accept. Qed.
Print Assumptions C10_serve_accept.

(** ** concurrent fetches of one identifier *)

(** a duplicate fetch applies the same check against its own roots ... *)
Theorem C10_dup_sound : forall (root cont cbytes : Type) (cdecode : bty -> cbytes -> option cont)
    (verify : root -> bty -> id -> cont -> bool) (d d' : entry root cont) b,
  dup_unmarshal cdecode verify false d b = Some d' ->
  exists c, verify (e_root d) (e_ty d) (e_id d) c = true /\ d' = populate d c.
Proof. exact @dup_sound. Qed.
Print Assumptions C10_dup_sound.

(** ... and never fails on a body the hasher accepted for the registered block of the same identifier and roots *)
Theorem C10_dup_same_root_accepts : forall (root cont cbytes : Type) (cdecode : bty -> cbytes -> option cont)
    (verify : root -> bty -> id -> cont -> bool) (r r' : registry root cont) b dg cidb e (d : entry root cont),
  hasher_write cdecode verify false r b = (r', WOk dg) -> (exists container, b = Some (cidb, container)) -> lookup cidb r = Some e ->
  e_ty d = e_ty e -> e_id d = e_id e -> e_root d = e_root e ->
  exists c, dup_unmarshal cdecode verify false d b = Some (populate d c) /\ verify (e_root d) (e_ty d) (e_id d) c = true.
Proof. exact @dup_same_root_accepts. Qed.
Print Assumptions C10_dup_same_root_accepts.

(** the code before fix-c10-1: a populated block accepts a body that does not even decode; a duplicate fetch fails on it *)
Theorem C10_early_return_witness :
  let cd := fun (_ : bty) (x : option bool) => x in
  let vf := fun (_ : unit) (_ : bty) (_ : id) (c : bool) => c in
  let k := block_cid BSample (mkid 7 3 5 []) in
  let r := [(k, mkentry BSample (mkid 7 3 5 []) tt (Some true))] in
  hasher_write cd vf true r (Some (k, None)) = (r, WOk (enc KSample (mkid 7 3 5 []))) /\
  hasher_write cd vf false r (Some (k, None)) = (r, WErr) /\
  dup_unmarshal cd vf true (mkentry BSample (mkid 7 3 5 []) tt None) (Some (k, None)) = None.
Proof. exact early_return_witness. Qed.
Print Assumptions C10_early_return_witness.

(** ** non-vacuity *)
Example C10_nonvacuous :
  block_cid BSample (mkid 7 3 5 []) = [1; 144; 240; 1; 145; 240; 1; 12; 0; 0; 0; 0; 0; 0; 0; 7; 0; 3; 0; 5] /\
  empty_block (block_cid BSample (mkid 7 3 5 [])) = Some (BSample, mkid 7 3 5 []) /\
  extract_bytes (1 :: 144 :: 240 :: 1 :: 129 :: 240 :: 1 :: 12 :: repeat 0 12) = None /\
  extract_bytes ([1; 128; 240; 1; 129; 240; 1; 10] ++ repeat 0 10 ++ [0]) = None /\
  extract_bytes ([1; 128; 240; 1; 129; 240; 1; 138; 0] ++ repeat 0 10) = None.
Proof. exact cid_nonvacuous. Qed.

Example C10_nonvacuous_accept :
  let cd := fun (_ : bty) (x : option bool) => x in
  let vf := fun (_ : unit) (_ : bty) (_ : id) (c : bool) => c in
  let k := block_cid BRow (mkid 9 2 0 []) in
  let r := [(k, mkentry BRow (mkid 9 2 0 []) tt None)] in
  new KRow 8 (mkid 9 2 0 []) = Some (mkid 9 2 0 []) /\
  hasher_write cd vf false r (Some (k, Some false)) = (r, WErr) /\
  hasher_write cd vf false r (Some (k, Some true)) = ([(k, mkentry BRow (mkid 9 2 0 []) tt (Some true))], WOk (enc KRow (mkid 9 2 0 []))).
Proof. repeat split; reflexivity. Qed.

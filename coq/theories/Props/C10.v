(** C10 — bitswap blocks are accepted only if they verify for the requested identifier.

    [cdecode] (protobuf -> container) and [verify] (the container's Verify against the requester's roots) are arbitrary;
    a registry is the global map CID -> pending Block; a body is what unmarshalProto yields (inner CID bytes, container
    bytes) or nothing.  Theorems quantify over every registry, every body and every sequence of bodies.
    Property theorems only; proofs in Shwap/CidProofs.v and Shwap/BitswapProofs.v. *)
From Coq Require Import List ZArith Bool.
From CN Require Import Base.Bytes Shwap.Ids Shwap.IdsProofs Shwap.Cid Shwap.CidProofs Shwap.Bitswap Shwap.BitswapProofs.
Import ListNotations.
Open Scope Z_scope.

(** ** cid_bij: every identifier maps to exactly one content identifier and back *)

(** the CID of a block built for a valid identifier parses back to the same block type and decodes to the same identifier *)
Theorem C10_cid_roundtrip : forall t sz i j,
  height_ok i -> size_ok (kind_of t) sz -> new (kind_of t) sz i = Some j ->
  empty_block (block_cid t j) = Some (t, j).
Proof. exact cid_bij. Qed.
Print Assumptions C10_cid_roundtrip.

(** one CID per identifier; identifiers of different block types never share a CID *)
Theorem C10_cid_injective : forall t t' sz sz' i i' j j',
  height_ok i -> height_ok i' -> size_ok (kind_of t) sz -> size_ok (kind_of t') sz' ->
  new (kind_of t) sz i = Some j -> new (kind_of t') sz' i' = Some j' ->
  block_cid t j = block_cid t' j' -> t = t' /\ j = j'.
Proof. exact block_cid_injective. Qed.
Print Assumptions C10_cid_injective.

(** the parser accepts only the canonical encoding: no second byte string names the same identifier *)
Theorem C10_cid_canonical : forall bs t idb,
  bytes_ok bs = true -> extract_bytes bs = Some (t, idb) -> bs = encode_cid t idb /\ length idb = id_size t.
Proof. exact extract_canonical. Qed.
Print Assumptions C10_cid_canonical.

(** codec and multihash codes are pairwise distinct, and no codec is a multihash code *)
Theorem C10_codecs_distinct : forall t t',
  (codec t = codec t' \/ mhcode t = mhcode t' -> t = t') /\ codec t <> mhcode t'.
Proof. intros t t'; split; [apply codecs_distinct|apply codec_not_mhcode]. Qed.
Print Assumptions C10_codecs_distinct.

(** ** accept_sound *)
Theorem C10_accept_sound : forall (root cont cbytes : Type) (cdecode : bty -> cbytes -> option cont)
    (verify : root -> bty -> id -> cont -> bool) (r r' : registry root cont) b d,
  hasher_write cdecode verify false r b = (r', WOk d) ->
  exists cidb container t e c,
    b = Some (cidb, container) /\ extract_bytes cidb = Some (t, d) /\ lookup cidb r = Some e /\
    dec (kind_of (e_ty e)) d = Some (e_id e) /\
    cdecode (e_ty e) container = Some c /\
    verify (e_root e) (e_ty e) (e_id e) c = true /\
    r' = update cidb (populate e c) r.
Proof. exact @accept_sound. Qed.
Print Assumptions C10_accept_sound.

(** in a registry keyed by the CIDs of its blocks the body reaches a block of exactly its type and identifier *)
Theorem C10_accept_type : forall (root cont cbytes : Type) (cdecode : bty -> cbytes -> option cont)
    (verify : root -> bty -> id -> cont -> bool) (r r' : registry root cont) b d,
  (forall k e, lookup k r = Some e -> k = block_cid (e_ty e) (e_id e) /\ length (enc (kind_of (e_ty e)) (e_id e)) = id_size (e_ty e)) ->
  hasher_write cdecode verify false r b = (r', WOk d) ->
  exists cidb container e, b = Some (cidb, container) /\ lookup cidb r = Some e /\
    extract_bytes cidb = Some (e_ty e, enc (kind_of (e_ty e)) (e_id e)) /\ d = enc (kind_of (e_ty e)) (e_id e).
Proof. exact @accept_type. Qed.
Print Assumptions C10_accept_type.

(** ** reject_leaves_pending: any other bytes leave every request exactly as it was *)
Theorem C10_reject_leaves_pending : forall (root cont cbytes : Type) (cdecode : bty -> cbytes -> option cont)
    (verify : root -> bty -> id -> cont -> bool) (r r' : registry root cont) b,
  hasher_write cdecode verify false r b = (r', WErr) -> r' = r.
Proof. exact @reject_leaves_pending. Qed.
Print Assumptions C10_reject_leaves_pending.

(** what must not change: a write touches at most the block its inner CID names, never a block's type, identifier or
    roots, and a populated block keeps its container *)
Theorem C10_write_frame : forall (root cont cbytes : Type) (cdecode : bty -> cbytes -> option cont)
    (verify : root -> bty -> id -> cont -> bool) (r r' : registry root cont) b w k e',
  hasher_write cdecode verify false r b = (r', w) -> lookup k r' = Some e' ->
  exists e, lookup k r = Some e /\ e_ty e' = e_ty e /\ e_id e' = e_id e /\ e_root e' = e_root e /\
            (forall c, e_cont e = Some c -> e_cont e' = Some c).
Proof. exact @write_frame. Qed.
Print Assumptions C10_write_frame.

(** whatever bodies arrive, in whatever order, for whatever CIDs: a request that is filled afterwards holds a container
    that verifies for its identifier against its roots *)
Theorem C10_filled_only_verified : forall (root cont cbytes : Type) (cdecode : bty -> cbytes -> option cont)
    (verify : root -> bty -> id -> cont -> bool) bs (r : registry root cont),
  (forall k e, lookup k r = Some e -> e_cont e = None) ->
  reg_ok verify (run_writes cdecode verify false r bs).
Proof. exact @filled_only_verified. Qed.
Print Assumptions C10_filled_only_verified.

(** ** serve_accept *)
Theorem C10_serve_accept : forall (root cont cbytes : Type) (cdecode : bty -> cbytes -> option cont)
    (verify : root -> bty -> id -> cont -> bool) (populate_from : bty -> id -> option cont) (cencode : bty -> cont -> cbytes),
  (forall t c, cdecode t (cencode t c) = Some c) ->
  forall (r : registry root cont) t sz i j e c,
  height_ok i -> size_ok (kind_of t) sz -> new (kind_of t) sz i = Some j ->
  lookup (block_cid t j) r = Some e -> e_ty e = t -> e_id e = j ->
  populate_from t j = Some c -> verify (e_root e) t j c = true ->
  exists bd, blockstore_get populate_from cencode (block_cid t j) = Some bd /\
             hasher_write cdecode verify false r (Some bd) = (update (block_cid t j) (populate e c) r, WOk (enc (kind_of t) j)).
Proof. exact @serve_accept. Qed.
Print Assumptions C10_serve_accept.

(** the representation made explicit for rows (RowBlock.Populate = AxisHalf.ToRow): an accessor may hand out the data half
    or — as ODS+Q4 files do for the lower half of the EDS — the parity half, as long as it says which; the served row
    verifies against the committed row and yields exactly its shares.  [parity]/[recover] is the erasure code (abstract;
    the one hypothesis is that the data half is recovered from the parity half). *)
Theorem C10_serve_row_any_half : forall (share : Type) (parity recover : list share -> list share),
  (forall l, recover (parity l) = l) ->
  forall (data : list share) (h : bool * list share),
  half_of parity data h ->
  row_verifies parity recover (data ++ parity data) (to_row true h) /\
  row_shares parity recover (to_row true h) = data ++ parity data.
Proof. exact @serve_row_any_half. Qed.
Print Assumptions C10_serve_row_any_half.

(** seeded change C10-d (the IsParity flag dropped): the honest parity half labelled LEFT does not verify *)
Theorem C10_serve_row_flag_dropped_refuted :
  let parity := map Z.succ in let recover := map Z.pred in
  (forall l, recover (parity l) = l) /\
  half_of parity [1] (true, parity [1]) /\
  ~ row_verifies parity recover ([1] ++ parity [1]) (to_row false (true, parity [1])) /\
  row_verifies parity recover ([1] ++ parity [1]) (to_row true (true, parity [1])).
Proof. exact serve_row_flag_dropped_refuted. Qed.
Print Assumptions C10_serve_row_flag_dropped_refuted.

(** ** concurrent fetches of one identifier *)

(** a duplicate fetch applies the same check against its own roots ... *)
Theorem C10_dup_sound : forall (root cont cbytes : Type) (cdecode : bty -> cbytes -> option cont)
    (verify : root -> bty -> id -> cont -> bool) (d d' : entry root cont) b,
  dup_unmarshal cdecode verify false d b = Some d' ->
  exists c, verify (e_root d) (e_ty d) (e_id d) c = true /\ d' = populate d c.
Proof. exact @dup_sound. Qed.
Print Assumptions C10_dup_sound.

(** ... and never fails on a body the hasher accepted for the registered block of the same identifier and roots *)
Theorem C10_dup_same_root_accepts : forall (root cont cbytes : Type) (cdecode : bty -> cbytes -> option cont)
    (verify : root -> bty -> id -> cont -> bool) (r r' : registry root cont) b dg cidb e (d : entry root cont),
  hasher_write cdecode verify false r b = (r', WOk dg) -> (exists container, b = Some (cidb, container)) -> lookup cidb r = Some e ->
  e_ty d = e_ty e -> e_id d = e_id e -> e_root d = e_root e ->
  exists c, dup_unmarshal cdecode verify false d b = Some (populate d c) /\ verify (e_root d) (e_ty d) (e_id d) c = true.
Proof. exact @dup_same_root_accepts. Qed.
Print Assumptions C10_dup_same_root_accepts.

(** the code before fix-c10-1: a populated block accepts a body that does not even decode; a duplicate fetch fails on it *)
Theorem C10_early_return_witness :
  let cd := fun (_ : bty) (x : option bool) => x in
  let vf := fun (_ : unit) (_ : bty) (_ : id) (c : bool) => c in
  let k := block_cid BSample (mkid 7 3 5 []) in
  let r := [(k, mkentry BSample (mkid 7 3 5 []) tt (Some true))] in
  hasher_write cd vf true r (Some (k, None)) = (r, WOk (enc KSample (mkid 7 3 5 []))) /\
  hasher_write cd vf false r (Some (k, None)) = (r, WErr) /\
  dup_unmarshal cd vf true (mkentry BSample (mkid 7 3 5 []) tt None) (Some (k, None)) = None.
Proof. exact early_return_witness. Qed.
Print Assumptions C10_early_return_witness.

(** ** every interleaving of concurrent fetches of one identifier (model: Shwap/Bitswap.v, Section Conc)

    [crun cdecode verify atomic_reg trust k st tr] runs the step list [tr] — registrations (one atomic load-or-store when
    [atomic_reg = true], Load ... Store when [false]), subscriptions, bodies decoded by the hasher and published to the
    sessions at any later time, blocks taken from the session, re-publication by NotifyNewBlocks, duplicate path, return
    with the deferred registry clean-up, cancellation — of ANY number of fetches ([nat]-indexed) of the CID [k], each with
    its own Block and roots.  [trust = false] is the code with fix-c10-3, [trust = true] the code before it. *)

(** a Fetch that returns nil holds a populated Block whose container verifies against ITS OWN roots — every interleaving,
    every number of fetches, and independently of the registration discipline *)
Theorem C10_conc_fetch_sound : forall (root cont cbytes : Type) (cdecode : bty -> cbytes -> option cont)
    (verify : root -> bty -> id -> cont -> bool) (k : list Z) (atomic_reg : bool)
    (blk0 : nat -> entry root cont) (tr : list (cstep (cbytes := cbytes))),
  (forall i, e_cont (blk0 i) = None) ->
  forall i, f_pc (c_fs (crun cdecode verify atomic_reg false k (cinit blk0) tr) i) = FRet true ->
  exists c, e_cont (f_blk (c_fs (crun cdecode verify atomic_reg false k (cinit blk0) tr) i)) = Some c /\
            verify (e_root (f_blk (c_fs (crun cdecode verify atomic_reg false k (cinit blk0) tr) i)))
                   (e_ty (f_blk (c_fs (crun cdecode verify atomic_reg false k (cinit blk0) tr) i)))
                   (e_id (f_blk (c_fs (crun cdecode verify atomic_reg false k (cinit blk0) tr) i))) c = true.
Proof. exact @conc_fetch_sound. Qed.
Print Assumptions C10_conc_fetch_sound.

(** in every variant, at every moment: whatever a Block of a concurrent fetch holds verifies against its own roots *)
Theorem C10_conc_blocks_verified : forall (root cont cbytes : Type) (cdecode : bty -> cbytes -> option cont)
    (verify : root -> bty -> id -> cont -> bool) (k : list Z) (atomic_reg trust : bool)
    (blk0 : nat -> entry root cont) (tr : list (cstep (cbytes := cbytes))) i c,
  (forall i, e_cont (blk0 i) = None) ->
  let x := c_fs (crun cdecode verify atomic_reg trust k (cinit blk0) tr) i in
  e_cont (f_blk x) = Some c -> verify (e_root (f_blk x)) (e_ty (f_blk x)) (e_id (f_blk x)) c = true.
Proof. exact @conc_blocks_verified. Qed.
Print Assumptions C10_conc_blocks_verified.

(** the atomic registration keeps the registry entry of the CID with exactly the one fetch that registered it and has not
    returned ... *)
Theorem C10_conc_registry_owner : forall (root cont cbytes : Type) (cdecode : bty -> cbytes -> option cont)
    (verify : root -> bty -> id -> cont -> bool) (k : list Z) (trust : bool)
    (blk0 : nat -> entry root cont) (tr : list (cstep (cbytes := cbytes))),
  let st := crun cdecode verify true trust k (cinit blk0) tr in
  (forall o, c_owner st = Some o -> orig_inflight (f_pc (c_fs st o)) = true) /\
  (forall j, orig_inflight (f_pc (c_fs st j)) = true -> c_owner st = Some j).
Proof. exact @conc_registry_owner. Qed.
Print Assumptions C10_conc_registry_owner.

(** ... so the hasher always finds the verifier of that pending request: the honest body for it is accepted and fills it *)
Theorem C10_conc_pending_served : forall (root cont cbytes : Type) (cdecode : bty -> cbytes -> option cont)
    (verify : root -> bty -> id -> cont -> bool) (k : list Z) (trust : bool)
    (blk0 : nat -> entry root cont) (tr : list (cstep (cbytes := cbytes))) f t idb container c,
  (forall i, e_cont (blk0 i) = None) ->
  let st := crun cdecode verify true trust k (cinit blk0) tr in
  let e := f_blk (c_fs st f) in
  orig_inflight (f_pc (c_fs st f)) = true ->
  extract_bytes k = Some (t, idb) -> dec (kind_of (e_ty e)) idb = Some (e_id e) ->
  cdecode (e_ty e) container = Some c -> verify (e_root e) (e_ty e) (e_id e) c = true ->
  exists st', check cdecode verify k st (Some (k, container)) = (st', true) /\
              f_done (c_fs st' f) = true /\ holds_verified verify (c_fs st' f).
Proof. exact @conc_pending_served. Qed.
Print Assumptions C10_conc_pending_served.

(** the code before fix-c10-3 (atomic registration, a fetch that registered the CID itself trusts the hasher blindly):
    every interleaving of CONCURRENT fetches — [overlapping]: no fetch registers after some fetch has returned — is safe;
    [C10_conc_trust_refuted] shows that the side condition is needed there, [C10_conc_twostep_refuted] that the atomic
    registration is *)
Theorem C10_conc_fetch_sound_overlap : forall (root cont cbytes : Type) (cdecode : bty -> cbytes -> option cont)
    (verify : root -> bty -> id -> cont -> bool) (k : list Z)
    (blk0 : nat -> entry root cont) (tr : list (cstep (cbytes := cbytes))),
  (forall i, e_cont (blk0 i) = None) ->
  overlapping cdecode verify true true k (cinit blk0) tr ->
  fetch_safe verify (crun cdecode verify true true k (cinit blk0) tr).
Proof. exact @conc_fetch_sound_overlap. Qed.
Print Assumptions C10_conc_fetch_sound_overlap.

(** seeded change C10-c (Load ... Store instead of LoadOrStore) on the code before fix-c10-3: two fetches that overlap,
    the later Store displaces the earlier entry, fetch 0 returns nil with an empty Block *)
Theorem C10_conc_twostep_refuted :
  overlapping w_dec w_ver false true w_k (cinit (fun _ => w_blk false)) w_twostep /\
  ~ fetch_safe w_ver (w_run false true (fun _ => false) w_twostep).
Proof. exact conc_twostep_refuted. Qed.
Print Assumptions C10_conc_twostep_refuted.

(** the same on the repaired code: no unverified data any more, but the verifier of pending fetch 0 is displaced and its
    honest body rejected — [C10_conc_registry_owner] / [C10_conc_pending_served] fail without the atomic registration *)
Theorem C10_conc_twostep_displaces :
  let st := w_run false false (fun i => Nat.eqb i 1) [SEnter 0; SEnter 1; SReg 0; SReg 1]%nat in
  orig_inflight (f_pc (c_fs st 0%nat)) = true /\ c_owner st = Some 1%nat /\
  snd (check w_dec w_ver w_k st (w_body false)) = false.
Proof. exact conc_twostep_displaces. Qed.
Print Assumptions C10_conc_twostep_displaces.

(** the code before fix-c10-3 (atomic registration, a self-registered fetch trusts the hasher blindly): a copy of the
    block decoded during an earlier fetch and published later ([w_stale]), or re-published by a duplicate after the
    original requester returned ([w_notify]), makes a Fetch return nil with an empty Block *)
Theorem C10_conc_trust_refuted :
  ~ fetch_safe w_ver (w_run true true (fun _ => false) w_stale) /\
  ~ fetch_safe w_ver (w_run true true (fun _ => false) w_notify).
Proof. exact conc_trust_refuted. Qed.
Print Assumptions C10_conc_trust_refuted.

(** ** non-vacuity *)
Example C10_nonvacuous :
  block_cid BSample (mkid 7 3 5 []) = [1; 144; 240; 1; 145; 240; 1; 12; 0; 0; 0; 0; 0; 0; 0; 7; 0; 3; 0; 5] /\
  empty_block (block_cid BSample (mkid 7 3 5 [])) = Some (BSample, mkid 7 3 5 []) /\
  extract_bytes (1 :: 144 :: 240 :: 1 :: 129 :: 240 :: 1 :: 12 :: repeat 0 12) = None /\
  extract_bytes ([1; 128; 240; 1; 129; 240; 1; 10] ++ repeat 0 10 ++ [0]) = None /\
  extract_bytes ([1; 128; 240; 1; 129; 240; 1; 138; 0] ++ repeat 0 10) = None.
Proof. exact cid_nonvacuous. Qed.

Example C10_nonvacuous_accept :
  let cd := fun (_ : bty) (x : option bool) => x in
  let vf := fun (_ : unit) (_ : bty) (_ : id) (c : bool) => c in
  let k := block_cid BRow (mkid 9 2 0 []) in
  let r := [(k, mkentry BRow (mkid 9 2 0 []) tt None)] in
  new KRow 8 (mkid 9 2 0 []) = Some (mkid 9 2 0 []) /\
  hasher_write cd vf false r (Some (k, Some false)) = (r, WErr) /\
  hasher_write cd vf false r (Some (k, Some true)) = ([(k, mkentry BRow (mkid 9 2 0 []) tt (Some true))], WOk (enc KRow (mkid 9 2 0 []))).
Proof. repeat split; reflexivity. Qed.

Example C10_conc_nonvacuous :
  let a := w_run true false (fun _ => false) w_stale in
  let b := w_run true false (fun _ => false) w_notify in
  let c := w_run true false (fun _ => false) w_twostep in
  f_pc (c_fs a 1%nat) = FRet true /\ e_cont (f_blk (c_fs a 1%nat)) = Some false /\
  f_pc (c_fs b 2%nat) = FRet true /\ e_cont (f_blk (c_fs b 2%nat)) = Some false /\
  f_pc (c_fs c 0%nat) = FRet true /\ e_cont (f_blk (c_fs c 0%nat)) = Some false /\ c_owner c = None.
Proof. exact conc_nonvacuous. Qed.

Example C10_conc_overlap_nonvacuous :
  let tr := (w_twostep ++ [SRecv 1; SNotify 1; SFinish 1])%nat in
  let st := w_run true true (fun _ => false) tr in
  overlapping w_dec w_ver true true w_k (cinit (fun _ => w_blk false)) tr /\
  f_pc (c_fs st 0%nat) = FRet true /\ e_cont (f_blk (c_fs st 0%nat)) = Some false /\
  f_pc (c_fs st 1%nat) = FRet true /\ e_cont (f_blk (c_fs st 1%nat)) = Some false /\ c_owner st = None.
Proof. exact conc_overlap_nonvacuous. Qed.

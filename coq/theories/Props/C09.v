(** C09 — shrex serves exactly what is asked and survives anything it is sent.

    Model: Shwap/Server.v (the server's stream handler with its recovery middleware, the per-identifier ResponseSize and the
    bounds checks of the validating accessor wrapper; identifier decoding is Shwap/Ids.v).  [store] (height -> not found /
    error / accessor with its EDS width), [limit] (the resource manager's memory budget), [build] (what the stored square's
    accessor does for an in-bounds identifier: container, error, panic) and [accepts] (the client's container verification)
    are arbitrary; requests are arbitrary byte lists.  A [ghost] counts accessors opened/closed and bytes reserved/released.

    Property theorems only; proofs in Shwap/ServerProofs.v. *)
From Coq Require Import List ZArith Bool.
From CN Require Import Base.Bytes Shwap.Ids Shwap.IdsProofs Shwap.Server Shwap.ServerProofs.
Import ListNotations.
Open Scope Z_scope.

(** ** serve_complete *)

(** a request whose first [size] bytes decode to a valid identifier of a stored height that lies inside the stored square and
    whose declared size fits the budget is answered OK with the accessor's container for exactly that identifier; one accessor
    was opened and closed, the declared size was reserved and released *)
Theorem C09_serve_complete : forall (P : Type) (store : Z -> lookup) (limit : Z) (build : proto -> id -> built P) p bs i eds pl,
  (size (pkind p) <= length bs)%nat ->
  dec (pkind p) (firstn (size (pkind p)) bs) = Some i ->
  validate (pkind p) i = true ->
  store (h i) = LAcc (Some eds) ->
  in_bounds p eds i ->
  response_size p eds i <= limit ->
  build p i = BOk pl ->
  handle store limit build p bs = (OPayload pl, mkghost 1 1 (response_size p eds i) (response_size p eds i)).
Proof. exact @serve_complete_explicit. Qed.
Print Assumptions C09_serve_complete.

(** end to end: the identifier a client's constructor accepts for the stored square ([client_sz]: EDS width; ODS width for a
    range), sent as the client encodes it, is answered with the container for that identifier, and the client returns it when
    its verification accepts it (that honest containers verify and equal the stored data is C01 / C05; the harness checks it
    on the real containers for every served reply) *)
Theorem C09_serve_client : forall (P : Type) (store : Z -> lookup) (limit : Z) (build : proto -> id -> built P)
    (accepts : proto -> id -> P -> bool) p eds i j pl,
  height_ok i -> size_ok (pkind p) (client_sz p eds) -> new (pkind p) (client_sz p eds) i = Some j ->
  store (h j) = LAcc (Some eds) -> response_size p eds j <= limit -> build p j = BOk pl -> accepts p j pl = true ->
  client_of accepts p j (fst (handle store limit build p (enc (pkind p) j))) = CValue pl.
Proof. exact @serve_client. Qed.
Print Assumptions C09_serve_client.

(** whatever follows the identifier on the stream, the client-built request is well formed *)
Theorem C09_client_request_wf : forall (store : Z -> lookup) p eds i j junk,
  height_ok i -> size_ok (pkind p) (client_sz p eds) -> new (pkind p) (client_sz p eds) i = Some j ->
  store (h j) = LAcc (Some eds) ->
  wf_request store p (enc (pkind p) j ++ junk) j eds.
Proof. exact client_request_wf. Qed.
Print Assumptions C09_client_request_wf.

(** ** notfound: whatever getter sits in front of the store — the bare store.ErrNotFound or one wrapped with context
    ([wrapped]: store.CachedStore, any %w decorator) *)
Theorem C09_notfound : forall (P : Type) (store : Z -> lookup) (limit : Z) (build : proto -> id -> built P) p bs i wrapped,
  read_id p bs = Some i -> validate (pkind p) i = true -> store (h i) = LNotFound wrapped ->
  handle store limit build p bs = (OStatus SNotFound, ghost0).
Proof. exact @notfound. Qed.
Print Assumptions C09_notfound.

(** and the client reports "not found" for exactly that status *)
Theorem C09_client_notfound : forall (P : Type) (accepts : proto -> id -> P -> bool) p i o,
  client_of accepts p i o = CNotFound <-> o = OStatus SNotFound.
Proof. exact @client_notfound. Qed.
Print Assumptions C09_client_notfound.

(** ** refuse *)

(** for EVERY byte string the handler ends in a reset, an error status, or a payload — and a payload only for a well-formed
    in-bounds request (a panic of the accessor is not an outcome: it is recovered into a reset) *)
Theorem C09_refuse_total : forall (P : Type) (store : Z -> lookup) (limit : Z) (build : proto -> id -> built P) p bs,
  (exists g, handle store limit build p bs = (OReset, g)) \/
  (exists g, handle store limit build p bs = (OResetLimit, g)) \/
  (exists s g, handle store limit build p bs = (OStatus s, g)) \/
  (exists pl g i eds, handle store limit build p bs = (OPayload pl, g) /\ wf_request store p bs i eds).
Proof. exact @handle_outcomes. Qed.
Print Assumptions C09_refuse_total.

(** a payload goes out only for a request that is long enough, decodes to a valid identifier of a stored height inside the
    stored square, fits the budget — and it is what the accessor built for that identifier *)
Theorem C09_served_only_wellformed : forall (P : Type) (store : Z -> lookup) (limit : Z) (build : proto -> id -> built P) p bs pl g,
  handle store limit build p bs = (OPayload pl, g) ->
  exists i eds,
    ((size (pkind p) <= length bs)%nat /\ dec (pkind p) (firstn (size (pkind p)) bs) = Some i /\ validate (pkind p) i = true /\
     store (h i) = LAcc (Some eds) /\ in_bounds p eds i) /\
    response_size p eds i <= limit /\ build p i = BOk pl /\
    g = mkghost 1 1 (response_size p eds i) (response_size p eds i).
Proof. exact @served_only_wf. Qed.
Print Assumptions C09_served_only_wellformed.

Theorem C09_malformed_never_ok : forall (P : Type) (store : Z -> lookup) (limit : Z) (build : proto -> id -> built P) p bs,
  (forall i eds, ~ wf_request store p bs i eds) -> forall pl g, handle store limit build p bs <> (OPayload pl, g).
Proof. exact @never_ok. Qed.
Print Assumptions C09_malformed_never_ok.

(** truncated *)
Theorem C09_refuse_short : forall (P : Type) (store : Z -> lookup) (limit : Z) (build : proto -> id -> built P) p bs,
  (length bs < size (pkind p))%nat -> handle store limit build p bs = (OReset, ghost0).
Proof. exact @refuse_short. Qed.
Print Assumptions C09_refuse_short.

(** undecodable (bad namespace, from >= to, ...), in particular height zero *)
Theorem C09_refuse_undecodable : forall (P : Type) (store : Z -> lookup) (limit : Z) (build : proto -> id -> built P) p bs,
  dec (pkind p) (firstn (size (pkind p)) bs) = None -> handle store limit build p bs = (OReset, ghost0).
Proof. exact @refuse_undecodable. Qed.
Print Assumptions C09_refuse_undecodable.

Theorem C09_refuse_zero_height : forall (P : Type) (store : Z -> lookup) (limit : Z) (build : proto -> id -> built P) p bs,
  unbe (firstn 8 bs) = 0 -> handle store limit build p bs = (OReset, ghost0).
Proof. exact @refuse_zero_height. Qed.
Print Assumptions C09_refuse_zero_height.

(** out of bounds for the stored block: INTERNAL with everything released, or a reset when the declared size exceeds the budget *)
Theorem C09_refuse_out_of_bounds : forall (P : Type) (store : Z -> lookup) (limit : Z) (build : proto -> id -> built P) p bs i eds,
  read_id p bs = Some i -> validate (pkind p) i = true -> store (h i) = LAcc (Some eds) -> ~ in_bounds p eds i ->
  handle store limit build p bs =
    (if limit <? response_size p eds i then OResetLimit else OStatus SInternal,
     if limit <? response_size p eds i then mkghost 1 1 0 0 else mkghost 1 1 (response_size p eds i) (response_size p eds i)).
Proof. exact @refuse_out_of_bounds. Qed.
Print Assumptions C09_refuse_out_of_bounds.

(** what the bounds check accepts is inside the square, and (for a valid identifier) conversely *)
Theorem C09_bounds_exact : forall p eds i,
  (bounds_ok p eds i = true -> in_bounds p eds i) /\
  (validate (pkind p) i = true -> in_bounds p eds i -> bounds_ok p eds i = true).
Proof. exact bounds_exact. Qed.
Print Assumptions C09_bounds_exact.

(** bytes after the identifier are not read *)
Theorem C09_trailing_ignored : forall (P : Type) (store : Z -> lookup) (limit : Z) (build : proto -> id -> built P) p bs junk,
  length bs = size (pkind p) -> handle store limit build p (bs ++ junk) = handle store limit build p bs.
Proof. exact @trailing_ignored. Qed.
Print Assumptions C09_trailing_ignored.

(** the accessor panics while building the answer: the stream is reset, the accessor closed, the memory released *)
Theorem C09_panic_contained : forall (P : Type) (store : Z -> lookup) (limit : Z) (build : proto -> id -> built P) p bs i eds,
  wf_request store p bs i eds -> response_size p eds i <= limit -> build p i = BPanic ->
  handle store limit build p bs = (OReset, mkghost 1 1 (response_size p eds i) (response_size p eds i)).
Proof. exact @panic_contained. Qed.
Print Assumptions C09_panic_contained.

(** store failures other than "not found", an unreadable size, an accessor error: INTERNAL *)
Theorem C09_internal_errors : forall (P : Type) (store : Z -> lookup) (limit : Z) (build : proto -> id -> built P) p bs i,
  read_id p bs = Some i -> validate (pkind p) i = true ->
  (store (h i) = LError -> handle store limit build p bs = (OStatus SInternal, ghost0)) /\
  (store (h i) = LAcc None -> handle store limit build p bs = (OStatus SInternal, mkghost 1 1 0 0)) /\
  (forall eds, store (h i) = LAcc (Some eds) -> limit < response_size p eds i ->
     handle store limit build p bs = (OResetLimit, mkghost 1 1 0 0)).
Proof. exact @internal_errors. Qed.
Print Assumptions C09_internal_errors.

Theorem C09_build_failure : forall (P : Type) (store : Z -> lookup) (limit : Z) (build : proto -> id -> built P) p bs i eds,
  wf_request store p bs i eds -> response_size p eds i <= limit -> build p i <> BPanic -> (forall pl, build p i <> BOk pl) ->
  handle store limit build p bs = (OStatus SInternal, mkghost 1 1 (response_size p eds i) (response_size p eds i)).
Proof. exact @build_failure. Qed.
Print Assumptions C09_build_failure.

(** ** balanced: on every path — every byte string, store, budget, accessor behaviour, panics included — as many accessors
    are closed as were opened (at most one) and as many bytes released as were reserved (only while the accessor is open) *)
Theorem C09_balanced : forall (P : Type) (store : Z -> lookup) (limit : Z) (build : proto -> id -> built P) p bs,
  g_opened (snd (handle store limit build p bs)) = g_closed (snd (handle store limit build p bs)) /\
  g_reserved (snd (handle store limit build p bs)) = g_released (snd (handle store limit build p bs)).
Proof. exact @handle_balanced. Qed.
Print Assumptions C09_balanced.

Theorem C09_at_most_one_accessor : forall (P : Type) (store : Z -> lookup) (limit : Z) (build : proto -> id -> built P) p bs,
  (g_opened (snd (handle store limit build p bs)) <= 1)%nat /\
  (g_reserved (snd (handle store limit build p bs)) <> 0 -> g_opened (snd (handle store limit build p bs)) = 1%nat).
Proof. exact @handle_at_most_one. Qed.
Print Assumptions C09_at_most_one_accessor.

(** the same from any ghost state (the handler runs on a server that has already served other streams), and the reason:
    a deferred release cancels its acquisition whatever the code in between returns *)
Theorem C09_balanced_from : forall (P : Type) (store : Z -> lookup) (limit : Z) (build : proto -> id -> built P) p bs g0,
  bal_from g0 (snd (handle_body store limit build p bs g0)).
Proof. exact @handle_body_balanced. Qed.
Print Assumptions C09_balanced_from.

Theorem C09_deferred_balanced : forall (A : Type) acq rel (body : ghost -> A * ghost),
  paired acq rel -> (forall g, bal_from g (snd (body g))) -> forall g, bal_from g (snd (deferred rel body (acq g))).
Proof. exact @deferred_balanced. Qed.
Print Assumptions C09_deferred_balanced.

(** ** the reservation is computed from attacker-controlled fields *)
Theorem C09_size_nonneg : forall p eds i, validate (pkind p) i = true -> 0 <= eds -> 0 <= response_size p eds i.
Proof. exact size_nonneg. Qed.
Print Assumptions C09_size_nonneg.

(** every byte string the handler reads, every stored width up to the protocol maximum: the amount asked of the resource
    manager is in [0, 2^41) *)
Theorem C09_size_bounded : forall p bs i eds,
  bytes_ok bs = true -> read_id p bs = Some i -> 0 <= eds <= 2 * max_ods -> 0 <= response_size p eds i < 2 ^ 41.
Proof. exact size_bounded. Qed.
Print Assumptions C09_size_bounded.

(** and for a request that passes the bounds check it is positive and at most the stored data square plus a sample proof *)
Theorem C09_served_reservation_bounded : forall p eds i,
  validate (pkind p) i = true -> in_bounds p eds i -> 2 <= eds ->
  0 < response_size p eds i <= (eds / 2) * (eds / 2) * share_size + axis_root_size * Z.log2 eds.
Proof. exact served_reservation_bounded. Qed.
Print Assumptions C09_served_reservation_bounded.

(** ** non-vacuity: a store holding height 30 (EDS width 8): a sample request is well formed and served, also with trailing
    bytes; one byte short, a budget one byte too small, a column one beyond the square, height zero, an unknown height, an
    unreadable block, a range one share beyond the ODS, the range [0, 2^32-1), from = to, a failing and a panicking
    accessor, the parity namespace *)
Theorem C09_nonvacuous :
  wf_request ex_store PSample ex_sample_req (mkid 30 3 5 []) 8 /\
  handle ex_store 1000 ex_build PSample ex_sample_req = (OPayload 3005, mkghost 1 1 782 782) /\
  handle ex_store 1000 ex_build PSample (ex_sample_req ++ [9; 9]) = (OPayload 3005, mkghost 1 1 782 782) /\
  handle ex_store 1000 ex_build PSample (firstn 11 ex_sample_req) = (OReset, ghost0) /\
  handle ex_store 781 ex_build PSample ex_sample_req = (OResetLimit, mkghost 1 1 0 0) /\
  handle ex_store 1000 ex_build PSample (be 8 30 ++ be 2 3 ++ be 2 8) = (OStatus SInternal, mkghost 1 1 782 782) /\
  handle ex_store 1000 ex_build PSample (be 8 0 ++ be 2 3 ++ be 2 5) = (OReset, ghost0) /\
  handle ex_store 1000 ex_build PSample (be 8 77 ++ be 2 3 ++ be 2 5) = (OStatus SNotFound, ghost0) /\
  handle ex_store 1000 ex_build PSample (be 8 78 ++ be 2 3 ++ be 2 5) = (OStatus SNotFound, ghost0) /\
  handle ex_store 1000 ex_build PSample (be 8 31 ++ be 2 3 ++ be 2 5) = (OStatus SInternal, mkghost 1 1 0 0) /\
  handle ex_store (2 ^ 30) ex_build PRange (be 8 30 ++ be 4 0 ++ be 4 16) = (OPayload 16, mkghost 1 1 8192 8192) /\
  handle ex_store (2 ^ 30) ex_build PRange (be 8 30 ++ be 4 0 ++ be 4 17) = (OStatus SInternal, mkghost 1 1 8704 8704) /\
  handle ex_store (2 ^ 30) ex_build PRange (be 8 30 ++ be 4 0 ++ be 4 4294967295) = (OResetLimit, mkghost 1 1 0 0) /\
  handle ex_store (2 ^ 30) ex_build PRange (be 8 30 ++ be 4 5 ++ be 4 5) = (OReset, ghost0) /\
  handle ex_store (2 ^ 30) ex_build PRow (be 8 30 ++ be 2 7) = (OStatus SInternal, mkghost 1 1 2048 2048) /\
  handle ex_store (2 ^ 30) ex_build PNd (be 8 30 ++ ex_ns) = (OReset, mkghost 1 1 8192 8192) /\
  handle ex_store (2 ^ 30) ex_build PNd (be 8 30 ++ parity_ns) = (OReset, ghost0) /\
  new KSample 8 (mkid 30 3 5 []) = Some (mkid 30 3 5 []) /\ enc KSample (mkid 30 3 5 []) = ex_sample_req.
Proof. exact server_nonvacuous. Qed.
Print Assumptions C09_nonvacuous.

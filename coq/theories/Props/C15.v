(** C15 — a bridge node stores exactly the block it announces or was asked to keep.
    Property theorems only; each is closed by [exact] of a lemma of Core/ListenerProofs.v.
    Model: Core/Listener.v — [handle] (core/listener.go handleNewBlockEvent + handleNewSignedBlock + core/eds.go storeEDS),
    [exchange_get] (core/exchange.go GetByHeight), [exchange_get_by_hash] (core/exchange.go Get: header by hash, the
    served block is kept only if its header hash is the requested one), [shares_available] (share/availability/full), over a store that never rebinds a
    height.  A history is any list of such operations; every failure is an oracle value carried by the operation, so
    the theorems hold for every pattern of fetch / sync-status / store / getter failures, any number of endpoints, any
    order, duplicates, gaps and replays. *)
From Coq Require Import List NArith Bool.
From CN Require Import Core.Listener Core.ListenerProofs.
Import ListNotations.
Open Scope N_scope.

(** In every reachable state (endpoints serving the height they are asked for):
    - no height is published twice,
    - the square stored under the height of a published header has that header's DAH,
    - everything stored has a header with the same DAH that was published or given (successful availability check /
      exchange request),
    - window policy: the parity quadrant is kept exactly for in-window (or empty) squares, and a pruned node stores
      nothing outside the window. *)
Theorem C15_history_invariant : forall cfg os,
  Forall well_served os -> inv cfg (run cfg init os).
Proof. exact history_invariant. Qed.
Print Assumptions C15_history_invariant.

Theorem C15_stored_matches_published : forall cfg os p,
  Forall well_served os -> In p (published (run cfg init os)) ->
  exists d, lookup (p_height p) (store (run cfg init os)) = Some d /\ s_dah d = p_dah p.
Proof. exact stored_matches_published. Qed.
Print Assumptions C15_stored_matches_published.

Theorem C15_published_once : forall cfg os,
  Forall well_served os -> NoDup (map p_height (published (run cfg init os))).
Proof. exact published_once. Qed.
Print Assumptions C15_published_once.

Theorem C15_stored_has_header : forall cfg os h d,
  Forall well_served os -> lookup h (store (run cfg init os)) = Some d ->
  (exists p, In p (published (run cfg init os)) /\ p_height p = h /\ p_dah p = s_dah d) \/ In (h, s_dah d) (given (run cfg init os)).
Proof. exact stored_has_header. Qed.
Print Assumptions C15_stored_has_header.

Theorem C15_window_policy : forall cfg os h d,
  Forall well_served os -> lookup h (store (run cfg init os)) = Some d ->
  s_q4 d = (s_inwin d || s_empty d) /\ (archival cfg = false -> s_inwin d = true).
Proof. exact window_policy. Qed.
Print Assumptions C15_window_policy.

(** On one chain (every block and header of a height carries the DAH [f h]): whatever is stored under [h] has DAH
    [f h]; every header the node was given with success (availability check incl. the already-stored shortcut, exchange
    request) is stored with exactly its DAH; every published header has the chain's DAH. *)
Theorem C15_stored_matches_given : forall cfg f os,
  Forall (on_chain f) os -> cinv f (run cfg init os).
Proof. exact stored_matches_given. Qed.
Print Assumptions C15_stored_matches_given.

(** For consistent consensus blocks (data hash = hash [dh] of the square's DAH) the published header's DAH hashes to
    its data hash. *)
Theorem C15_published_commits_to_square : forall cfg dh os p,
  Forall (consistent dh) os -> In p (published (run cfg init os)) -> p_datahash p = dh (p_dah p).
Proof. exact published_commits_to_square. Qed.
Print Assumptions C15_published_commits_to_square.

(** A failed ingest leaves nothing: store, publications, notifications and given headers are unchanged, and the
    operation's result is a failure code. *)
Theorem C15_failed_core_leaves_nothing : forall cfg st ev,
  snd (handle cfg st ev) <> OProcessed -> unchanged st (fst (handle cfg st ev)).
Proof. exact failed_core_leaves_nothing. Qed.
Print Assumptions C15_failed_core_leaves_nothing.

Theorem C15_failed_avail_leaves_nothing : forall cfg st r,
  snd (shares_available cfg st r) <> AOk -> fst (shares_available cfg st r) = st.
Proof. exact failed_avail_leaves_nothing. Qed.
Print Assumptions C15_failed_avail_leaves_nothing.

Theorem C15_failed_exchange_leaves_nothing : forall cfg st r,
  (forall h d, snd (exchange_get cfg st r) <> XHeader h d) -> unchanged st (fst (exchange_get cfg st r)).
Proof. exact failed_exchange_leaves_nothing. Qed.
Print Assumptions C15_failed_exchange_leaves_nothing.

Theorem C15_failed_hash_leaves_nothing : forall cfg st r,
  (forall h d, snd (exchange_get_by_hash cfg st r) <> XHeader h d) -> unchanged st (fst (exchange_get_by_hash cfg st r)).
Proof. exact failed_hash_leaves_nothing. Qed.
Print Assumptions C15_failed_hash_leaves_nothing.

(** A header request by hash answered with a block whose header hash is not the requested one is a failed ingest:
    nothing of the served block is kept and no header is returned. *)
Theorem C15_hash_mismatch_leaves_nothing : forall cfg st r,
  h_hash_ok r = false ->
  unchanged st (fst (exchange_get_by_hash cfg st r)) /\ forall h d, snd (exchange_get_by_hash cfg st r) <> XHeader h d.
Proof. exact hash_mismatch. Qed.
Print Assumptions C15_hash_mismatch_leaves_nothing.

(** Every successfully obtained block that is to be kept (inside the window, or archival) is in the store at the end
    of any history that contains its announcement (unless the node crashed on a wrong-chain block), whatever failed
    before - and if it was not stored before that announcement, it is stored with the block's DAH and its header was
    published. *)
Theorem C15_obtained_block_kept : forall cfg os1 ev b os2,
  good_event cfg ev b ->
  crashed (run cfg init (os1 ++ OpCore ev :: os2)) = false ->
  has (e_height ev) (run cfg init (os1 ++ OpCore ev :: os2)) = true /\
  (has (e_height ev) (run cfg init os1) = false ->
   stored_as (run cfg init (os1 ++ OpCore ev :: os2)) (e_height ev) (b_dah b) /\
   exists sy, In (mkpub (e_height ev) (b_dah b) (b_datahash b) sy) (published (run cfg init (os1 ++ OpCore ev :: os2)))).
Proof. exact good_event_kept. Qed.
Print Assumptions C15_obtained_block_kept.

(** non-vacuity: a ten-operation history with two endpoints (failed fetch retried by the other endpoint, duplicate,
    failed status query, failed store, success while syncing, replay of an old block, availability checks) meets every
    hypothesis above; its exact outcome under a pruned and an archival configuration. *)
Theorem C15_nonvacuous :
  Forall well_served Ex.hist /\ Forall (on_chain (fun h => 10 * h)) Ex.hist /\ Forall (consistent (fun d => 1000 + d)) Ex.hist /\
  map fst (store Ex.pruned) = [5; 6; 7] /\ map fst (store Ex.arch) = [5; 6; 4; 7] /\
  map p_height (published Ex.pruned) = [5; 6] /\ map p_local (published Ex.pruned) = [false; true] /\ hashes Ex.pruned = [(5, 1050)] /\
  lookup 4 (store Ex.arch) = Some (mkstored 40 false false false) /\ lookup 7 (store Ex.pruned) = Some (mkstored 70 true true false) /\
  given Ex.pruned = [(7, 70)] /\
  fst (run_codes (mkcfg false) init Ex.hist) = [2; 7; 1; 4; 6; 7; 3; 32; 30; 1].
Proof. exact nonvacuous_history. Qed.
Print Assumptions C15_nonvacuous.

(** non-vacuity of the by-hash path: a mismatching answer (height 9, DAH 90) and a failed commit query keep nothing; the
    requested block is then stored and its later announcement is a duplicate; height 9 is still announced and stored
    with the announced block's DAH 91. *)
Theorem C15_nonvacuous_by_hash :
  Forall well_served Ex.hhist /\ Forall (consistent (fun d => 1000 + d)) Ex.hhist /\
  fst (run_codes (mkcfg false) init Ex.hhist) = [20; 20; 22; 1; 7] /\
  store (run (mkcfg false) init (firstn 2 Ex.hhist)) = [] /\
  lookup 8 (store (run (mkcfg false) init Ex.hhist)) = Some (mkstored 80 true true false) /\
  lookup 9 (store (run (mkcfg false) init Ex.hhist)) = Some (mkstored 91 true true false) /\
  given (run (mkcfg false) init Ex.hhist) = [(8, 80)] /\ map p_height (published (run (mkcfg false) init Ex.hhist)) = [9].
Proof. exact nonvacuous_by_hash. Qed.
Print Assumptions C15_nonvacuous_by_hash.

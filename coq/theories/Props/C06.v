(** C06 — getters hand back only verified data, even when peers misbehave.

    [C] is the container codec (zero value, ReadFrom as a function of the previous buffer content, IsEmpty), [verify] the
    container's verification against the requested header — both arbitrary.  A script is the sequence of behaviours of the
    peers the peer manager hands out: a decodable payload (honest, other coordinates, other square, cut, extended, mutated),
    an undecodable one, NOT_FOUND, INTERNAL, another status, a reset, a rate-limit reset, silence, and the point where the
    caller's context ends.  Theorems quantify over every script (every order, every length, every deadline point).
    Property theorems only; proofs in Getter/RetryProofs.v. *)
From Coq Require Import List Bool Arith NArith.
From CN Require Import Base.Nmt Shwap.Verify Shwap.VerifyProofs Getter.Retry Getter.RetryProofs Getter.RetryShwap.
Import ListNotations.

(** ** returned_verified *)

(** GetRow / GetNamespaceData / GetRangeNamespaceData / GetEDS over shrex: a non-empty returned value verifies for the request;
    next to an error the value is the zero value; without an error it is non-empty. *)
Theorem C06_single_returned_verified : forall (req wire buf : Type) (C : codec wire buf) (verify : req -> buf -> bool) r sc b e,
  is_empty C (zero C) = true ->
  get_single C verify r sc = (b, e) ->
  (is_empty C b = false -> verify r b = true) /\ (e <> None -> b = zero C) /\ (e = None -> is_empty C b = false).
Proof. exact @get_single_verified. Qed.
Print Assumptions C06_single_returned_verified.

(** GetSamples over shrex: the slice is positionally aligned with the request and every non-empty element — also of a
    partial result returned together with an error — verifies for the coordinates requested at its position.  Each slot
    has its own arbitrary script, which covers every interleaving of the concurrent per-coordinate requests and the
    cancellation of the others when one fails. *)
Theorem C06_samples_returned_verified : forall (req wire buf : Type) (C : codec wire buf) (verify : req -> buf -> bool),
  is_empty C (zero C) = true ->
  forall slots vals err,
  get_samples C verify false slots = (vals, err) ->
  length vals = length slots /\
  forall i b, nth_error vals i = Some b -> is_empty C b = false ->
    exists rq sc, nth_error slots i = Some (rq, sc) /\ verify rq b = true.
Proof. exact @get_samples_verified. Qed.
Print Assumptions C06_samples_returned_verified.

(** ... and no error means every requested sample is there *)
Theorem C06_samples_complete : forall (req wire buf : Type) (C : codec wire buf) (verify : req -> buf -> bool) slots vals,
  get_samples C verify false slots = (vals, None) ->
  forall i b, nth_error vals i = Some b -> is_empty C b = false.
Proof. exact @get_samples_complete_when_no_error. Qed.
Print Assumptions C06_samples_complete.

(** with the model of Sample.Verify for [verify]: every returned sample carries the share the header commits to at the
    requested coordinates *)
Theorem C06_samples_are_committed : forall D cell slots vals err,
  (forall rq sc, In (rq, sc) slots -> fst rq < 2 ^ D /\ snd rq < 2 ^ D) ->
  get_samples (plain_codec opt_empty) (sample_vfy D cell) false slots = (vals, err) ->
  forall i s, nth_error vals i = Some (Some s) ->
    exists rq sc, nth_error slots i = Some (rq, sc) /\ sm_share s = cell (fst rq) (snd rq).
Proof. exact get_samples_committed. Qed.
Print Assumptions C06_samples_are_committed.

(** Bitswap getter, GetSamples: complete or partial, every non-empty element verifies for the identifier at its position *)
Theorem C06_bitswap_samples_returned_verified : forall (req wire buf : Type) (C : codec wire buf) (verify : req -> buf -> bool),
  is_empty C (zero C) = true ->
  forall blks vals ok,
  bs_get_samples C verify blks = (Some vals, ok) ->
  length vals = length blks /\
  forall i b, nth_error vals i = Some b -> is_empty C b = false ->
    exists r ds, nth_error blks i = Some (r, ds) /\ verify r b = true.
Proof. exact @bs_get_samples_verified. Qed.
Print Assumptions C06_bitswap_samples_returned_verified.

(** Bitswap getter, row / range / the rows of a square or of namespace data: all blocks verified, or nothing *)
Theorem C06_bitswap_all_returned_verified : forall (req wire buf : Type) (C : codec wire buf) (verify : req -> buf -> bool),
  is_empty C (zero C) = true ->
  forall blks vals,
  bs_get_all C verify blks = Some vals ->
  length vals = length blks /\
  forall i b, nth_error vals i = Some b ->
    is_empty C b = false /\ exists r ds, nth_error blks i = Some (r, ds) /\ verify r b = true.
Proof. exact @bs_get_all_verified. Qed.
Print Assumptions C06_bitswap_all_returned_verified.

(** Cascade: a value comes out only if some getter returned it error-free (partial results next to an error are dropped),
    so getters that only hand out verified values compose — with or without a local-store getter in front *)
Theorem C06_cascade_returned_verified : forall (V : Type) (P : V -> Prop) gs v,
  Forall (fun g => g_err g = GNone -> P (g_val g)) gs -> cascade gs = Some (CVal v) -> P v.
Proof. exact @cascade_verified. Qed.
Print Assumptions C06_cascade_returned_verified.

(** ** no_poison *)

(** after ANY prefix of peers that did not end the call — answers that fail in a fresh container, undecodable payloads,
    not-found, error statuses, resets, silence — an answer that verifies in a fresh container is accepted, returned
    unchanged, and its peer is reported with Noop.  [overwrites C]: a successful ReadFrom replaces the whole container
    (true of Sample, Row, NamespaceData, the EDS buffer, and of RangeNamespaceData since fix-c06-2). *)
Theorem C06_no_poison : forall (req wire buf : Type) (C : codec wire buf) (verify : req -> buf -> bool) r pre w rest,
  overwrites C -> Forall (bad_fresh C verify r) pre -> handle C verify r (decode C (zero C) w) = true ->
  exists s, exec C verify r (init_st C) (pre ++ Answer w :: rest) = OOk s /\ s_buf s = decode C (zero C) w /\
            s_attempts s = S (length pre) /\ last (s_trace s) PCooldown = PNoop.
Proof. exact @honest_after_bad_accepted. Qed.
Print Assumptions C06_no_poison.

Theorem C06_codecs_overwrite : forall (A X P : Type) (e : option A -> bool),
  overwrites (plain_codec e) /\ overwrites (@rng_codec X P true).
Proof. intros; split; [apply plain_overwrites|apply rng_resetting_overwrites]. Qed.
Print Assumptions C06_codecs_overwrite.

(** bitswap: rejected deliveries leave the block pending, the next good one fills it, nothing replaces it afterwards *)
Theorem C06_bitswap_no_poison : forall (req wire buf : Type) (C : codec wire buf) (verify : req -> buf -> bool) r pre w rest,
  is_empty C (fetch_block C verify r pre) = true ->
  handle C verify r (decode C (zero C) w) = true ->
  fetch_block C verify r (pre ++ Some w :: rest) = decode C (zero C) w.
Proof. exact @fetch_block_no_poison. Qed.
Print Assumptions C06_bitswap_no_poison.

(** cascade: the first getter that succeeds wins whatever the failing getters before it returned *)
Theorem C06_cascade_first_success : forall (V : Type) (pre : list (gres V)) g rest nf,
  Forall falls_through pre -> g_err g = GNone -> cascade_from nf (pre ++ g :: rest) = CVal (g_val g).
Proof. exact @cascade_first_success. Qed.
Print Assumptions C06_cascade_first_success.

(** ** notfound_maps *)
Theorem C06_notfound_maps : forall (req wire buf : Type) (C : codec wire buf) (verify : req -> buf -> bool) r sc,
  Forall (fun x => x = NotFound \/ x = Deadline) sc -> hd_error sc = Some NotFound ->
  exists e, get_single C verify r sc = (zero C, Some e) /\
            e_notfound e = true /\ e_corrupt e = false /\ e_ctx e = true.
Proof. exact @notfound_maps. Qed.
Print Assumptions C06_notfound_maps.

Theorem C06_cascade_notfound : forall (V : Type) (gs : list (gres V)) nf,
  gs <> [] ->
  Forall (fun g => exists e, g_err g = GOther e /\ e_notfound e = true /\ g_ctx_done g = false) gs ->
  cascade_from nf gs = CFail true false.
Proof. exact @cascade_notfound. Qed.
Print Assumptions C06_cascade_notfound.

(** ** terminates: with a deadline on the caller's context a call ends with a verified result or with an error carrying
    the context error, after at most one request per scripted peer; it only ever waits while no deadline has fired *)
Theorem C06_terminates : forall (req wire buf : Type) (C : codec wire buf) (verify : req -> buf -> bool) r sc,
  (exists s, finish (exec C verify r (init_st C) sc) = OOk s /\ handle C verify r (s_buf s) = true) \/
  (exists s, finish (exec C verify r (init_st C) sc) = OErr s /\ e_ctx (s_err s) = true).
Proof. exact @terminates. Qed.
Print Assumptions C06_terminates.

Theorem C06_deadline_ends_the_call : forall (req wire buf : Type) (C : codec wire buf) (verify : req -> buf -> bool) r sc s,
  In Deadline sc -> forall s', exec C verify r s sc <> OWait s'.
Proof. exact @exec_deadline_ends. Qed.
Print Assumptions C06_deadline_ends_the_call.

Theorem C06_attempts_bounded : forall (req wire buf : Type) (C : codec wire buf) (verify : req -> buf -> bool) r sc s,
  s_attempts (out_st (exec C verify r s sc)) <= s_attempts s + length sc.
Proof. exact @exec_attempts. Qed.
Print Assumptions C06_attempts_bounded.

(** ** peer accounting: a peer is reported for blacklisting only for a payload that arrived and failed to decode or verify *)
Theorem C06_blacklist_only_for_bad_payload : forall (req wire buf : Type) (C : codec wire buf) (verify : req -> buf -> bool) r sc s i,
  nth_error (blame C verify r s sc) i = Some PBlacklist ->
  exists x, nth_error sc i = Some x /\ match x with Answer _ | Undecodable _ => True | _ => False end.
Proof. exact @blacklist_only_for_bad_payload. Qed.
Print Assumptions C06_blacklist_only_for_bad_payload.

Theorem C06_trace_is_blame : forall (req wire buf : Type) (C : codec wire buf) (verify : req -> buf -> bool) r sc s,
  s_trace (out_st (exec C verify r s sc)) = s_trace s ++ blame C verify r s sc.
Proof. exact @trace_is_blame. Qed.
Print Assumptions C06_trace_is_blame.

(** ** the two defects of the code before the fixes, as witnesses in the model of that code *)
Theorem C06_prefix_leak_witness :
  exists slots vals err,
    get_samples (plain_codec (A := bool) opt_empty) (fun (_ : unit) b => match b with Some ok => ok | None => false end)
                true slots = (vals, Some err) /\ vals = [Some false].
Proof. exact get_samples_leak_witness. Qed.
Print Assumptions C06_prefix_leak_witness.

Theorem C06_stale_proof_witness :
  exists (b : rng nat nat) nd, b = decode (rng_codec false) rng_zero [(1, None); (2, Some 7)] /\
    nd = [(3, Some 5)] /\
    decode (rng_codec false) b nd <> decode (rng_codec false) rng_zero nd /\
    rg_last (decode (rng_codec false) b nd) = Some 7.
Proof. exact rng_stale_witness. Qed.
Print Assumptions C06_stale_proof_witness.

(** ** non-vacuity: a concrete fault sequence meets the hypotheses of no_poison / notfound_maps *)
Example C06_nonvacuous :
  let C := plain_codec (A := N * bool) opt_empty in
  let vf := fun (_ : unit) (b : option (N * bool)) => match b with Some (_, ok) => ok | None => false end in
  Forall (bad_fresh C vf tt) [Answer (Some (1%N, false)); Undecodable GZero; NotFound; Timeout; Reset; Answer None] /\
  get_single C vf tt [Answer (Some (1%N, false)); Undecodable GZero; NotFound; Timeout; Reset; Answer None;
                      Answer (Some (2%N, true)); Deadline] = (Some (2%N, true), None) /\
  get_single C vf tt [NotFound; NotFound; Deadline] = (None, Some (mkerrs true false false true)) /\
  get_single C vf tt [NotFound; Internal] = (None, Some (mkerrs true false true true)).
Proof.
  simpl. split; [repeat constructor|]. repeat split; reflexivity.
Qed.

(** C03 — a light node calls a block available only after verifying its whole sample set.
    Property theorems only; each is closed by [exact] of a lemma proved in Light/*Proofs.v.

    Model: Light/Sampling.v. A history is a list of events [fev] of arbitrarily many concurrent calls ([FCall]), each
    advancing one shared-state access at a time ([FStep]: session LoadOrStore / wait / datastore Get + load-or-draw /
    persist / close / Delete), getter answers ([FResp]: ANY slice — any subset served, nothing, nil, shorter, longer — with
    any error class), context aborts of waiting calls ([FAbort]), and [FCrash] / [FRestart] (fresh instance over the same
    durable datastore, without / with Close) — in ANY interleaving. [frun cf (init count) es] is the state after [es].
    The datastore the result is persisted in can FAIL, as further events: [FLoadFail] (the Get of the previous result returns
    an error other than ErrNotFound: I/O error, or a context-aware datastore seeing a cancelled / expired context),
    [FStoreFail] (the eager persist of a fresh draw fails) and [FRespFail] (the getter answers, then the persist of the new
    result fails), the stores at each point where autobatch Put/Flush can fail ([sfail]); each makes the call return that error.
    The random source is an input (the byte stream read by crypto/rand.Int and the iteration order of the Go map).
    [cf] is the code variant: [repaired cf] = branches fix-c03-1 (draw persisted before the first request), fix-c03-2
    (every write flushed) and fix-c03-3 (a failed write is dropped from the write buffer), which the model follows;
    soundness holds for every variant. *)
From Coq Require Import List ZArith NArith Permutation.
From CN Require Import Light.Map Light.Sampling Light.DrawProofs Light.SamplingProofs Light.SessionProofs.
Import ListNotations.
Open Scope Z_scope.

(** draw_ok — for EVERY byte stream the first set has exactly min(count, w*w) distinct coordinates inside the square
    (before and after the permutation the Go map iteration applies). *)
Theorem C03_draw_ok : forall w count bs cs rest,
  0 <= count -> select_random_samples w count bs = Some (cs, rest) ->
  NoDup cs /\ Forall (in_square w) cs /\ Z.of_nat (length cs) = Z.min count (w * w).
Proof. exact select_ok. Qed.
Print Assumptions C03_draw_ok.

Theorem C03_draw_ok_any_order : forall w count bs order cs,
  0 <= count -> draw w count bs order = Some cs ->
  NoDup cs /\ Forall (in_square w) cs /\ Z.of_nat (length cs) = Z.min count (w * w).
Proof. exact draw_ok. Qed.
Print Assumptions C03_draw_ok_any_order.

(** "drawn from the WHOLE extended square": no cell is excluded by construction — for every cell there is a stream prefix
    after which, however the stream continues, the drawn set contains that cell. (Unpredictability and uniformity of
    crypto/rand itself are outside the model; the check reports a chi-square statistic over real draws.) *)
Theorem C03_draw_reaches_every_cell : forall w count r c,
  1 <= count -> 0 <= r < w -> 0 <= c < w ->
  exists pre, forall more cs rest, select_random_samples w count (pre ++ more) = Some (cs, rest) -> In (r, c) cs.
Proof. exact draw_reaches_every_cell. Qed.
Print Assumptions C03_draw_reaches_every_cell.

(** avail_sound — over every history and interleaving (any code variant [cf], any write-batch size, crashes and restarts
    included): at the step [e] at which call [t] for header [h] arrives at the verdict "available" (it is about to close its
    session with a nil error — the empty-square and outside-window shortcuts never get there), there is a set [av] of
    coordinates, duplicate-free, inside the square, at least min(SampleAmount, w*w) of them, each of which is in the log
    [s_served] for THIS root (C03_served_genuine: returned non-empty by the getter at its own position), and with the
    repaired code [av] is exactly what the datastore holds as "available" with nothing remaining.
    Hypotheses: widths are a function of the root (one chain), sample amounts are unsigned, and the answer that completes
    the call kept the Getter contract (same length as the request) — see [C03_avail_sound_needs_contract]. *)
Theorem C03_avail_sound : forall wf cf count es e t h c,
  0 <= count -> Forall (ev_wf wf) (es ++ [e]) ->
  let s := frun cf (init count) es in
  answer_in_contract s e ->
  mget t (s_thr (fstep cf s e)) = Some (h, TRel c VOk) -> mget t (s_thr s) <> Some (h, TRel c VOk) ->
  exists av,
    (NoDup av /\ Forall (in_square (hw h)) av /\
     Z.of_nat (length av) >= Z.min (s_count (fstep cf s e)) (hw h * hw h) /\
     forall x, In x av -> exists b, In (hr h, x, b) (s_served (fstep cf s e))) /\
    (c_persist_draw cf = true -> view (fstep cf s e) (hr h) = Some (mkres av [])).
Proof. exact avail_sound. Qed.
Print Assumptions C03_avail_sound.

(** what the log means: every entry (root, coordinate, verified) is a non-empty slot, at the position of that coordinate
    in the request, of an answer the getter gave to a call for that root ([resp_of e]: the answer carried by an [FResp] or,
    when the persist after it failed, an [FRespFail] event). *)
Theorem C03_served_genuine : forall cf count es r c b,
  In (r, c, b) (s_served (frun cf (init count) es)) ->
  exists es1 e t resp es2 h ch res i,
    es = es1 ++ e :: es2 /\ resp_of e = Some (t, resp) /\
    mget t (s_thr (frun cf (init count) es1)) = Some (h, TReq ch res) /\ hr h = r /\
    nth_error (r_rem res) i = Some c /\ nth_error (rs_slots resp) i = Some (SFull b).
Proof. exact served_genuine_init. Qed.
Print Assumptions C03_served_genuine.

(** "retrieved with a valid proof" is the getter's part (C06): IF every non-empty slot a getter hands back is a verified
    sample, THEN every coordinate ever counted as sampled is verified. Light availability itself never calls Verify. *)
Theorem C03_served_verified : forall cf count es r c b,
  Forall answer_verified es -> In (r, c, b) (s_served (frun cf (init count) es)) -> b = true.
Proof. exact served_verified_init. Qed.
Print Assumptions C03_served_verified.

(** session_mutex — in every reachable state two calls for the same height are never both between their successful
    LoadOrStore and their Delete (so never both loading, drawing, inside the getter or persisting). *)
Theorem C03_session_mutex : forall cf count es t1 t2 h1 h2 ts1 ts2,
  let s := frun cf (init count) es in
  mget t1 (s_thr s) = Some (h1, ts1) -> mget t2 (s_thr s) = Some (h2, ts2) ->
  inside ts1 -> inside ts2 -> hh h1 = hh h2 -> t1 = t2.
Proof. exact session_mutex. Qed.
Print Assumptions C03_session_mutex.

(** requests_are_pending (repaired code) — whenever a call is inside the getter, what it asked for is exactly the
    persisted remaining list of its root: the same coordinates in the same order, on every retry, for every concurrent
    call, after every crash or restart; and that list is durable. *)
Theorem C03_requests_are_pending : forall wf hf cf count es t h c res,
  repaired cf -> Forall (ev_chain wf hf) es ->
  mget t (s_thr (frun cf (init count) es)) = Some (h, TReq c res) ->
  view (frun cf (init count) es) (hr h) = Some res /\ mget (hr h) (s_disk (frun cf (init count) es)) = Some res.
Proof. exact requests_are_pending. Qed.
Print Assumptions C03_requests_are_pending.

(** pending_step (repaired code) — one step of anybody: a persisted result stays as it is (failed, empty, nil, cancelled,
    over-long answers; failed loads; failed stores; other calls; other roots; crash; restart) unless the step is an answer to a request for exactly its
    remaining coordinates, and then it becomes [answered]: coordinates at non-empty positions move to available, the
    others stay pending. *)
Theorem C03_pending_step : forall wf hf cf count es e r res,
  repaired cf -> Forall (ev_chain wf hf) (es ++ [e]) ->
  let s := frun cf (init count) es in
  view s r = Some res ->
  view (fstep cf s e) r = Some res \/
  exists t resp h c, resp_of e = Some (t, resp) /\ mget t (s_thr s) = Some (h, TReq c res) /\ hr h = r /\
                     rs_slots resp <> [] /\ (length (rs_slots resp) <= length (r_rem res))%nat /\
                     view (fstep cf s e) r = Some (answered res (rs_slots resp)).
Proof. exact pending_step_run. Qed.
Print Assumptions C03_pending_step.

(** and inside [answered] a coordinate changes side only through a non-empty slot at ITS position *)
Theorem C03_answer_positional : forall res sl c,
  (In c (firstn (length sl) (r_rem res)) -> ~ In c (r_rem (answered res sl)) ->
     exists i b, nth_error (r_rem res) i = Some c /\ nth_error sl i = Some (SFull b)) /\
  (In c (r_avail (answered res sl)) -> In c (r_avail res) \/
     exists i b, nth_error (r_rem res) i = Some c /\ nth_error sl i = Some (SFull b)) /\
  (In c (r_rem (answered res sl)) -> exists i, nth_error (r_rem res) i = Some c /\ nth_error sl i = Some SEmpty).
Proof. exact answer_positional. Qed.
Print Assumptions C03_answer_positional.

(** pending_stable (repaired code) — from the moment a result for a root is persisted (that is: from the first draw on,
    before anything was requested), at every later point of every history (failed loads and failed stores of the datastore
    included) a result is persisted for it; pending only
    shrinks, sampled only grows, both inside the original set; and as long as the getter keeps its contract
    available ∪ remaining is the same set. *)
Theorem C03_pending_stable : forall wf hf cf count es1 es2 r res0,
  repaired cf -> Forall (ev_chain wf hf) (es1 ++ es2) ->
  view (frun cf (init count) es1) r = Some res0 ->
  exists res, view (frun cf (init count) (es1 ++ es2)) r = Some res /\
              (incl (r_rem res) (r_rem res0) /\ incl (r_avail res0) (r_avail res) /\
               forall c, In c (r_avail res) -> In c (r_avail res0) \/ In c (r_rem res0)) /\
              (contract_run cf (frun cf (init count) es1) es2 ->
               Permutation (r_avail res ++ r_rem res) (r_avail res0 ++ r_rem res0)).
Proof. exact pending_stable. Qed.
Print Assumptions C03_pending_stable.

(** * datastore faults *)

(** load_fault_inert (any code variant) — the Get of the previous result fails (any error class): the call goes to its
    return with that error, never "available", and nothing else changes: not the durable datastore, not the write buffer,
    not the served log, not the sessions, no other call; nothing is drawn. (When the result sits in the write buffer,
    autobatch answers without touching the datastore: no failure is possible and the event is void.) *)
Theorem C03_load_fault_inert : forall cf s t e,
  let s' := fstep cf s (FLoadFail t e) in
  s_disk s' = s_disk s /\ s_buf s' = s_buf s /\ s_served s' = s_served s /\ s_sess s' = s_sess s /\
  s_closed s' = s_closed s /\ s_count s' = s_count s /\
  (forall t', t' <> t -> mget t' (s_thr s') = mget t' (s_thr s)) /\
  (mget t (s_thr s') = mget t (s_thr s) \/
   exists h c, mget t (s_thr s) = Some (h, TLoad c) /\ buffered s (hr h) = false /\
               mget t (s_thr s') = Some (h, TRel c (fault_verdict e)) /\ fault_verdict e <> VOk).
Proof. exact load_fault_inert. Qed.
Print Assumptions C03_load_fault_inert.

(** store_fault_safe (repaired code) — a failed store anywhere in any history, for every root: a persisted result stays
    exactly as it is or becomes [answered] by the failing call's own answer to a request for exactly its remaining
    coordinates (only when just the second flush failed; C03_answer_positional: a coordinate changes side only through a
    non-empty slot at its position) — a failed store never turns a pending coordinate into a sampled one and never changes
    the set; a root without a result gets none, or exactly the draw the failing call was about to persist. *)
Theorem C03_store_fault_safe : forall wf hf cf count es e r,
  repaired cf -> Forall (ev_chain wf hf) (es ++ [e]) -> is_store_fault e ->
  let s := frun cf (init count) es in
  match view s r with
  | Some res =>
    view (fstep cf s e) r = Some res \/
    exists t resp h c, resp_of e = Some (t, resp) /\ mget t (s_thr s) = Some (h, TReq c res) /\ hr h = r /\
                       rs_slots resp <> [] /\ (length (rs_slots resp) <= length (r_rem res))%nat /\
                       view (fstep cf s e) r = Some (answered res (rs_slots resp))
  | None =>
    view (fstep cf s e) r = None \/
    exists t o e0 h c res, e = FStoreFail t o e0 /\ mget t (s_thr s) = Some (h, TStore c res) /\ hr h = r /\
                           view (fstep cf s e) r = Some res
  end.
Proof. exact store_fault_safe. Qed.
Print Assumptions C03_store_fault_safe.

(** the call that hit the failing store returns an error (any code variant) *)
Theorem C03_store_fault_verdict : forall cf s e t h c v,
  is_store_fault e -> mget t (s_thr (fstep cf s e)) = Some (h, TRel c v) -> mget t (s_thr s) <> Some (h, TRel c v) -> v <> VOk.
Proof. exact store_fault_verdict. Qed.
Print Assumptions C03_store_fault_verdict.

(** rerequest_exactly_pending (repaired code) — a result [res0] for root [r] is persisted (true from the first draw on);
    ANY history follows: failed loads, failed stores, failed / partial / cancelled answers, concurrent calls, crash,
    restart. Whenever a call for [r] is then inside the getter, what it asked for is durable and is part of [res0]'s pending
    coordinates; and — the getter keeping its contract — available ∪ remaining is the same set, and every pending coordinate
    of [res0] that is NOT asked for again is recorded as sampled and was handed back non-empty by the getter for this root. *)
Theorem C03_rerequest_exactly_pending : forall wf hf cf count es1 es2 r res0 t h c res,
  repaired cf -> 0 <= count -> Forall (ev_chain wf hf) (es1 ++ es2) ->
  view (frun cf (init count) es1) r = Some res0 ->
  let s := frun cf (init count) (es1 ++ es2) in
  mget t (s_thr s) = Some (h, TReq c res) -> hr h = r ->
  mget r (s_disk s) = Some res /\
  (incl (r_rem res) (r_rem res0) /\ incl (r_avail res0) (r_avail res) /\
   forall x, In x (r_avail res) -> In x (r_avail res0) \/ In x (r_rem res0)) /\
  (contract_run cf (frun cf (init count) es1) es2 ->
   Permutation (r_avail res ++ r_rem res) (r_avail res0 ++ r_rem res0) /\
   forall x, In x (r_rem res0) -> In x (r_rem res) \/ (In x (r_avail res) /\ exists b, In (r, x, b) (s_served s))).
Proof. exact rerequest_exactly_pending. Qed.
Print Assumptions C03_rerequest_exactly_pending.

(** * non-vacuity: concrete histories meeting the hypotheses *)
Theorem C03_draw_nonvacuous :
  select_random_samples 6 3 [7; 5; 1; 5; 1; 2; 6; 5; 1; 3; 9] = Some ([(5, 1); (2, 5); (1, 3)], [9]) /\
  select_random_samples 2 16 [1; 1; 0; 1; 1; 1; 1; 0; 0; 0] = Some ([(1, 1); (0, 1); (1, 0); (0, 0)], []).
Proof. exact draw_nonvacuous. Qed.

Theorem C03_avail_sound_nonvacuous :
  let s := frun fixed_cfg (init 4) es_first in
  let e := FResp 1 (mkresp [F; F; F; F] EOther) in
  Forall (ev_wf (fun _ => 8)) (es_first ++ [e]) /\ answer_in_contract s e /\
  mget 1%N (s_thr (fstep fixed_cfg s e)) = Some (hx, TRel 0%N VOk) /\ mget 1%N (s_thr s) <> Some (hx, TRel 0%N VOk) /\
  view (fstep fixed_cfg s e) 1%N = Some (mkres [(1, 2); (3, 4); (5, 6); (7, 0)] []).
Proof. exact avail_sound_nonvacuous. Qed.

Theorem C03_session_mutex_nonvacuous :
  let s := frun fixed_cfg (init 4) (es_first ++ [FCall 2 hx; FStep 2 [] []; FStep 2 [] []; FStep 2 [] []]) in
  mget 1%N (s_thr s) = Some (hx, TReq 0%N (mkres [] [(1, 2); (3, 4); (5, 6); (7, 0)])) /\
  mget 2%N (s_thr s) = Some (hx, TWait 0%N) /\ mget 7%N (s_sess s) = Some 0%N.
Proof. exact session_mutex_nonvacuous. Qed.

(** partial answer, crash, retry on the repaired code: same two coordinates, same order *)
Theorem C03_pending_stable_nonvacuous :
  let es1 := [FCall 1 hx; FStep 1 [] []; FStep 1 [] []; FStep 1 [1; 2; 3; 4; 5; 6; 7; 0] []; FStep 1 [] []; FResp 1 (mkresp [F; E; F; E] EDeadline);
              FStep 1 [] []; FStep 1 [] []] in
  let es2 := [FCrash 4; FCall 1 hx; FStep 1 [] []; FStep 1 [] []; FStep 1 [9; 9; 9; 9] []] in
  view (frun fixed_cfg (init 4) es1) 1%N = Some (mkres [(1, 2); (5, 6)] [(3, 4); (7, 0)]) /\
  mget 1%N (s_thr (frun fixed_cfg (init 4) (es1 ++ es2))) = Some (hx, TReq 1%N (mkres [(1, 2); (5, 6)] [(3, 4); (7, 0)])) /\
  Forall (ev_chain (fun _ => 8) (fun _ => 7%N)) (es1 ++ es2) /\ contract_run fixed_cfg (frun fixed_cfg (init 4) es1) es2.
Proof. exact pending_stable_nonvacuous. Qed.

(** datastore faults on the repaired code: partial answer; a retry whose load fails with a cancelled context (returns
    context.Canceled, result untouched); a retry that is served everything but whose persist fails with an I/O error
    (returns the error, nothing recorded as sampled); crash; the next call asks for exactly the two pending coordinates *)
Theorem C03_pending_stable_faults_nonvacuous :
  let res0 := mkres [(1, 2); (5, 6)] [(3, 4); (7, 0)] in
  view (frun fixed_cfg (init 4) es_faults1) 1%N = Some res0 /\
  mget 2%N (s_thr (frun fixed_cfg (init 4) (es_faults1 ++ firstn 6 es_faults2))) = Some (hx, TDone VCanceled) /\
  mget 3%N (s_thr (frun fixed_cfg (init 4) (es_faults1 ++ firstn 13 es_faults2))) = Some (hx, TDone VErr) /\
  view (frun fixed_cfg (init 4) (es_faults1 ++ firstn 13 es_faults2)) 1%N = Some res0 /\
  mget 4%N (s_thr (frun fixed_cfg (init 4) (es_faults1 ++ es_faults2))) = Some (hx, TReq 3%N res0) /\
  repaired fixed_cfg /\
  Forall (ev_chain (fun _ => 8) (fun _ => 7%N)) (es_faults1 ++ es_faults2) /\
  contract_run fixed_cfg (frun fixed_cfg (init 4) es_faults1) es_faults2 /\
  is_store_fault (nth 10 es_faults2 (FCrash 0)).
Proof. exact pending_stable_faults_nonvacuous. Qed.

(** * the limits of the statements *)

(** the contract hypothesis of avail_sound is necessary: a shorter all-non-empty slice makes the call succeed with 2 of 4
    samples. No getter in the repository returns such a slice (shrex, bitswap, store: full length or nil; cascade: passes on). *)
Theorem C03_avail_sound_needs_contract :
  let s := frun fixed_cfg (init 4) es_first in
  let e := FResp 1 (mkresp [F; F] ENone) in
  mget 1%N (s_thr (fstep fixed_cfg s e)) = Some (hx, TRel 0%N VOk) /\
  view (fstep fixed_cfg s e) 1%N = Some (mkres [(1, 2); (3, 4)] []) /\ ~ answer_in_contract s e.
Proof. exact avail_sound_needs_contract. Qed.

(** what fix-c03-3 repaired — before it ([keepbuf_cfg]) a failed write stayed in the autobatch write buffer: the eager
    persist of the first draw fails before the buffer is emptied (the datastore's Batch() returns an I/O error) and the call
    returns the error; the retry finds the draw in the buffer and asks the getter for it although it is NOT durable
    (C03_requests_are_pending fails); the getter hands back nothing; the process dies without Close; the next call draws
    and requests a different set (C03_pending_stable / C03_rerequest_exactly_pending fail). *)
Theorem C03_pending_stable_keepbuf_refuted :
  exists es1 es2 h c1 c2 res1 res2,
    mget 2%N (s_thr (frun keepbuf_cfg (init 2) es1)) = Some (h, TReq c1 res1) /\
    mget (hr h) (s_disk (frun keepbuf_cfg (init 2) es1)) = None /\
    mget 3%N (s_thr (frun keepbuf_cfg (init 2) (es1 ++ es2))) = Some (h, TReq c2 res2) /\
    s_served (frun keepbuf_cfg (init 2) (es1 ++ es2)) = [] /\ r_rem res1 <> r_rem res2.
Proof. exact pending_stable_keepbuf_refuted. Qed.

(** what the first two repairs repaired — the code before them ([orig_cfg]: no write before the first answer, writes only
    buffered) does NOT keep pending coordinates: (1) partial answer, crash without Close: the result is gone; *)
Theorem C03_pending_stable_original_crash_refuted :
  exists es1 es2 res0,
    view (frun orig_cfg (init 4) es1) 1%N = Some res0 /\ r_rem res0 <> [] /\
    view (frun orig_cfg (init 4) (es1 ++ es2)) 1%N = None.
Proof. exact pending_stable_original_crash_refuted. Qed.

(** (2) the getter hands back nothing at all: nothing is stored and the retry asks for different coordinates. *)
Theorem C03_pending_stable_original_empty_answer_refuted :
  exists es h c1 c2 res1 res2,
    mget 1%N (s_thr (frun orig_cfg (init 2) (firstn 4 es))) = Some (h, TReq c1 res1) /\
    mget 2%N (s_thr (frun orig_cfg (init 2) es)) = Some (h, TReq c2 res2) /\
    s_served (frun orig_cfg (init 2) es) = [] /\ r_rem res1 <> r_rem res2.
Proof. exact pending_stable_original_empty_answer_refuted. Qed.

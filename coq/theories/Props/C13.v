(** C13 — the DASer makes progress and stays within its configured bounds.
    Property theorems only; each is closed by [exact] of a lemma proved in Das/*.v.  Same model as C04
    (Das/Coordinator.v); [vr c = repaired] is the tree with fix-c04-1 and fix-c13-1..3 applied. *)
From Coq Require Import List ZArith.
From CN Require Import Das.Coordinator Das.Invariant Das.CoordinatorProofs Das.Theorems Das.Attempts Das.Progress Das.Witness.
Import ListNotations.
Open Scope Z_scope.

(** Catch-up and retry workers never exceed the limit; all workers never exceed twice the limit. *)
Theorem C13_conc_bound : forall c es,
  vr c = repaired /\ 1 <= limit c /\ 1 <= range c ->
  let s := run c init es in
  Z.of_nat (nonrecent_workers s) <= limit c /\ Z.of_nat (length (workers s)) <= 2 * limit c.
Proof. exact conc_bound. Qed.
Print Assumptions C13_conc_bound.

(** While the DASer runs, catch-up is reported done exactly when nothing is in flight, failed or queued. *)
Theorem C13_done_iff : forall c es,
  vr c = repaired /\ 1 <= limit c /\ 1 <= range c ->
  let s := run c init es in running s = true ->
  (done s = true <-> workers s = [] /\ failed s = [] /\ head s < next s).
Proof. exact done_iff. Qed.
Print Assumptions C13_done_iff.

(** The attempt count recorded for a height never decreases by any event other than a restart, unless that event
    reports a successful sample of the height. *)
Theorem C13_attempt_monotone : forall c, vr c = repaired /\ 1 <= limit c /\ 1 <= range c -> forall es e k,
  let s := run c init es in
  ~ is_restart e -> att_le (att_count s k) (att_count (step c s e) k) \/ reports_success s e k.
Proof. exact attempt_monotone. Qed.
Print Assumptions C13_attempt_monotone.

(** Every started job ends by reporting: no worker has returned without sending its result, *)
Theorem C13_no_silent_exit : forall c, vr c = repaired /\ 1 <= limit c /\ 1 <= range c -> forall es w,
  let s := run c init es in In w (workers s) -> wexit w = false.
Proof. exact no_silent_exit. Qed.
Print Assumptions C13_no_silent_exit.

(** and a job leaves the coordinator only through the delivery of its result (or because the whole instance is replaced). *)
Theorem C13_job_ends_by_reporting : forall c, vr c = repaired /\ 1 <= limit c /\ 1 <= range c -> forall s e w,
  Good c s -> In w (workers s) -> ~ has_id (step c s e) (wid w) ->
  (exists picks, e = Deliver (wid w) picks) \/ is_restart e.
Proof. exact job_ends_by_reporting. Qed.
Print Assumptions C13_job_ends_by_reporting.

Theorem C13_reachable_good : forall c, vr c = repaired /\ 1 <= limit c /\ 1 <= range c -> forall es, Good c (run c init es).
Proof. exact Good_run. Qed.
Print Assumptions C13_reachable_good.

(** Progress: "good" events are a successful sample, the delivery of a finished job, a wake-up that can start a job, and
    time passing until a back-off expires.  Each strictly decreases the variant [mu]; *)
Theorem C13_good_decreases : forall c, vr c = repaired /\ 1 <= limit c /\ 1 <= range c -> forall s e,
  Good c s -> running s = true -> good c s e -> mu (step c s e) < mu s.
Proof. exact good_decreases. Qed.
Print Assumptions C13_good_decreases.

(** so no run of good events is longer than the variant; *)
Theorem C13_good_trace_bound : forall c, vr c = repaired /\ 1 <= limit c /\ 1 <= range c -> forall es s,
  Good c s -> running s = true -> good_trace c s es -> Z.of_nat (length es) <= mu s.
Proof. exact good_trace_bound. Qed.
Print Assumptions C13_good_trace_bound.

(** until catch-up is reported done one of them is enabled (no reachable state is stuck); *)
Theorem C13_good_enabled : forall c, vr c = repaired /\ 1 <= limit c /\ 1 <= range c -> forall s,
  Good c s -> running s = true -> done s = false -> exists e, good c s e.
Proof. exact good_enabled. Qed.
Print Assumptions C13_good_enabled.

(** hence from every reachable running state a continuation in which sampling succeeds reaches "done" within [mu] steps. *)
Theorem C13_progress : forall c, vr c = repaired /\ 1 <= limit c /\ 1 <= range c -> forall s,
  Good c s -> running s = true ->
  exists es, good_trace c s es /\ Z.of_nat (length es) <= mu s /\ done (fold_left (step c) es s) = true.
Proof. exact progress_from. Qed.
Print Assumptions C13_progress.

(** non-vacuity *)
Theorem C13_nonvacuous :
  (let c := mkCfg 1 1 tbl repaired in let s := run c init [Restart 1 5 []; NewHead 6 []] in
   valid c /\ length (workers s) = 2%nat /\ nonrecent_workers s = 1%nat) /\
  (let c := mkCfg 2 1 tbl repaired in let s := run c init hist_d in
   valid c /\ running s = true /\ done s = false /\ mu s = 11 /\ good c s (Deliver 5 [])) /\
  (let c := mkCfg 2 1 tbl repaired in let s := run c init hist_d in
   valid c /\ att_count s 4 = Some 2 /\ att_count (step c s (Deliver 5 [])) 4 = Some 3) /\
  (let c := mkCfg 10 1 tbl repaired in
   valid c /\ done (run c init hist_b) = true /\ running (run c init hist_b) = true /\
   done (run c init (hist_b ++ [NewHead 3 []])) = false).
Proof. exact (conj conc_bound_nonvacuous (conj progress_nonvacuous (conj attempt_monotone_nonvacuous done_iff_nonvacuous))). Qed.
Print Assumptions C13_nonvacuous.

(** The three defects repaired by fix-c13-1..3 (DESIGN.md section 6): on the code before each fix the statement is false. *)
Theorem C13_done_iff_refuted :
  exists c es, vr c = mkVariant true false true true /\ 1 <= limit c /\ 1 <= range c /\
    let s := run c init es in
    running s = true /\ workers s = [] /\ failed s = [] /\ head s < next s /\ done s = false.
Proof. exact done_iff_refuted. Qed.
Print Assumptions C13_done_iff_refuted.

Theorem C13_report_once_refuted :
  exists c es w, vr c = mkVariant true true false true /\ 1 <= limit c /\ 1 <= range c /\
    let s := run c init es in
    running s = true /\ In w (workers s) /\ wexit w = true /\
    (forall o, step c s (Step (wid w) o) = s) /\ (forall picks, step c s (Deliver (wid w) picks) = s) /\
    (forall picks, step c s (Wake picks) = s) /\ done s = false.
Proof. exact report_once_refuted. Qed.
Print Assumptions C13_report_once_refuted.

Theorem C13_attempt_monotone_refuted :
  exists c es e k, vr c = mkVariant true true true false /\ 1 <= limit c /\ 1 <= range c /\
    let s := run c init es in
    ~ is_restart e /\ ~ reports_success s e k /\ ~ att_le (att_count s k) (att_count (step c s e) k).
Proof. exact attempt_monotone_refuted. Qed.
Print Assumptions C13_attempt_monotone_refuted.

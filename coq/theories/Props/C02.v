(** C02 — verified namespace data is complete: no share of a namespace can be withheld.
    Hypotheses: the committed rows are well formed ([valid], i.e. every inner digest is what HashNode computes: this is
    what a namespace-ordered square gives; the harness evaluates it on every generated square) and the namespace is a
    data namespace (below the parity namespace). Property theorems only. *)
From Coq Require Import List Arith NArith Bool.
From CN Require Import Base.Nmt Base.NmtProofs Base.NmtComplete Shwap.Verify Shwap.VerifyProofs.
Import ListNotations.

(** NMT core, inclusion: whatever range the proof claims, the accepted leaf hashes are *all* leaves of the namespace. *)
Theorem C02_nmt_complete : forall D X p nid lh,
  Forall leafk X -> length X = 2 ^ D -> valid (tree D X) -> (nid < maxns)%N ->
  Forall (fun d => leafk d /\ has_prefix nid d = true) lh ->
  verify_leaf_hashes p true nid lh (tree D X) = true ->
  lh = filter (has_prefix nid) X.
Proof. exact verify_leaf_hashes_complete. Qed.
Print Assumptions C02_nmt_complete.

(** NMT core, absence: an absence proof verifies only if the tree holds no leaf of the namespace. *)
Theorem C02_nmt_absent : forall D X p nid lf,
  Forall leafk X -> length X = 2 ^ D -> valid (tree D X) -> (nid < maxns)%N ->
  p_leaf p = Some lf ->
  verify_leaf_hashes p true nid [lf] (tree D X) = true ->
  filter (has_prefix nid) X = [].
Proof. exact verify_leaf_hashes_absent. Qed.
Print Assumptions C02_nmt_absent.

(** One row: what verifies is exactly the row's shares of the namespace, in order (nothing dropped, added, reordered);
    in particular an absence proof (no shares) verifies only when the row has none. *)
Theorem C02_row_complete : forall D cell ns d i,
  i < 2 ^ D -> valid (row_root D cell i) -> (ns < maxns)%N ->
  rnd_verify (dah D cell) ns d i = true ->
  rnd_shares d = ns_shares_of_row D cell i ns.
Proof. exact rnd_sound. Qed.
Print Assumptions C02_row_complete.

(** Whole block: verified namespace data flattens to every share of the namespace in block order, and has exactly one
    entry for each row whose [min,max] covers the namespace, each entry being that row's complete answer. *)
Theorem C02_block_complete : forall D cell ns nd,
  (forall i, i < 2 ^ D -> valid (row_root D cell i)) -> (ns < maxns)%N ->
  nd_verify (dah D cell) ns nd = true ->
  nd_flatten nd = ns_shares_of_block D cell ns /\
  map rnd_shares nd = map (fun i => ns_shares_of_row D cell i ns) (rows_with_ns (dah D cell) ns).
Proof. exact nd_sound. Qed.
Print Assumptions C02_block_complete.

(** non-vacuity: the rows of a concrete square are well formed, and honest namespace data (spanning two rows, in one
    row, absent inside a row's range, absent outside every row's range) verifies in the model *)
From CN Require Import Shwap.VerifyExamples.
Theorem C02_nonvacuous_valid : forallb (fun i => validb (row_root 2 ex_cell i)) (seq 0 4) = true.
Proof. exact ex_rows_valid. Qed.

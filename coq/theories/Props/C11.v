(** C11 — blob retrieval returns exactly the blobs that are in the block.
    Property theorems only; each is closed by [exact] of a lemma proved in Blob/ParserProofs.v.

    Reading guide.  [items] is the share sequence of one namespace: blobs (each split into the shares its length
    needs, share version 0 or 1) and arbitrary runs of padding shares, in any arrangement; it is placed row-major in a
    [k]-wide original square starting at position [off] ([rows_of]: what the share getter returns — one piece per row
    with the column of its first share).  [ranges] are the namespace ranges of the header's row roots; the index the
    code reports is row * len(RowRoots) + column of the blob's first share ([eds_index]).  [commit] is a free
    constructor: commitments are opaque and injective in (namespace, share version, signer, length, payload). *)
From Coq Require Import List ZArith NArith.
From CN Require Import Blob.Parser Blob.ParserSpec Blob.ParserProofs.
Import ListNotations.
Open Scope Z_scope.

(** Listing a namespace returns every blob of the layout, in order, each with its exact content and the index of its
    first share — for every square width, start position, blob lengths and padding runs. *)
Theorem C11_get_all_exact : forall (k off : nat) (items : list item) (ns : N) (ranges : list (N * N)),
  (0 < k)%nat -> Forall wf_item items -> first_ns_row ns ranges (off / k) ->
  get_all ns ranges (GRows (rows_of k off (flat items))) = GAOk (expected k (zlen ranges) off items).
Proof. exact get_all_exact. Qed.
Print Assumptions C11_get_all_exact.

(** ... nothing else, nothing dropped; byte-identical blobs are each returned. *)
Theorem C11_get_all_blobs_in_order : forall (k off : nat) (items : list item) (ns : N) (ranges : list (N * N)),
  (0 < k)%nat -> Forall wf_item items -> first_ns_row ns ranges (off / k) ->
  exists es, get_all ns ranges (GRows (rows_of k off (flat items))) = GAOk es /\ map fst es = blobs_of items.
Proof. exact get_all_blobs_in_order. Qed.
Print Assumptions C11_get_all_blobs_in_order.

(** Fetching by commitment returns the first blob with that commitment, and 'not found' exactly when there is none. *)
Theorem C11_get_by_commitment : forall (k off : nat) (items : list item) (ns : N) (ranges : list (N * N)) (c : com),
  (0 < k)%nat -> Forall wf_item items -> first_ns_row ns ranges (off / k) ->
  get c ns ranges (GRows (rows_of k off (flat items))) =
  match first_match c (expected k (zlen ranges) off items) with
  | Some (b, i) => OFound b i
  | None => ONotFound
  end.
Proof. exact get_by_commitment. Qed.
Print Assumptions C11_get_by_commitment.

Theorem C11_get_found_iff : forall (k off : nat) (items : list item) (ns : N) (ranges : list (N * N)) (c : com),
  (0 < k)%nat -> Forall wf_item items -> first_ns_row ns ranges (off / k) ->
  let es := expected k (zlen ranges) off items in
  (forall b i, get c ns ranges (GRows (rows_of k off (flat items))) = OFound b i <->
               exists l1 l2, es = l1 ++ (b, i) :: l2 /\ commit b = c /\ (forall e, In e l1 -> commit (fst e) <> c)) /\
  (get c ns ranges (GRows (rows_of k off (flat items))) = ONotFound <-> forall e, In e es -> commit (fst e) <> c).
Proof. exact get_found_iff. Qed.
Print Assumptions C11_get_found_iff.

(** A namespace that is not in the block: no row in range, an absence proof, or the getter's 'not found'. *)
Theorem C11_absent_not_found : forall (ns : N) (ranges : list (N * N)) (c : com),
  get_all ns ranges (GRows []) = GAOk [] /\ get c ns ranges (GRows []) = ONotFound /\
  (forall start rest, get_all ns ranges (GRows ((start, []) :: rest)) = GAOk [] /\
                      get c ns ranges (GRows ((start, []) :: rest)) = ONotFound) /\
  get_all ns ranges GNotFound = GAOk [] /\ get c ns ranges GNotFound = ONotFound.
Proof. exact absent_not_found. Qed.
Print Assumptions C11_absent_not_found.

(** The result does not depend on how the shares are cut into rows: for EVERY answer of the getter (well-formed or
    not) the loops of [retrieve] compute what a share-at-a-time reading of the positioned shares computes, up to the
    first absence proof. *)
Theorem C11_rows_irrelevant : forall (v : blob -> bool) (ns : N) (ranges : list (N * N)) (pre post : list (Z * list share)),
  nonempty_rows pre -> stops_here post ->
  (let '(o, _, seen) := retrieve v ns ranges (GRows (pre ++ post)) in (o, seen)) =
  fres_outcome (frun v FIdle [] (tag_rows (zlen ranges) (find_row ns ranges 0) pre)).
Proof. exact retrieve_flat. Qed.
Print Assumptions C11_rows_irrelevant.

(** The symbolic commitment is injective (what "opaque" means here). *)
Theorem C11_commit_injective : forall a b, commit a = commit b -> a = b.
Proof. exact commit_injective. Qed.
Print Assumptions C11_commit_injective.

(** non-vacuity: a concrete layout with leading padding, a blob crossing a row boundary, inner padding, a
    byte-identical duplicate and a signed version-1 blob meets the hypotheses, and the answers are the expected ones *)
Theorem C11_nonvacuous : (0 < 4)%nat /\ Forall wf_item ex_items /\ first_ns_row 1000 ex_ranges (6 / 4).
Proof. exact ex_wf. Qed.

Theorem C11_example :
  get_all 1000 ex_ranges (GRows (rows_of 4 6 (flat ex_items))) = GAOk [(ex_b1, 11); (ex_b1, 24); (ex_b2, 27)] /\
  rows_of 4 6 (flat ex_items) =
    [(2, [ex_pad 90; first_share ex_b1]); (0, [cont_share ex_b1 12; cont_share ex_b1 13; ex_pad 91; ex_pad 92]);
     (0, blob_shares ex_b1 ++ [first_share ex_b2])] /\
  get (commit ex_b1) 1000 ex_ranges (GRows (rows_of 4 6 (flat ex_items))) = OFound ex_b1 11 /\
  get (commit ex_b2) 1000 ex_ranges (GRows (rows_of 4 6 (flat ex_items))) = OFound ex_b2 27 /\
  get (commit (mkBlob 1000 0 None 1400 [11; 12; 14]%N)) 1000 ex_ranges (GRows (rows_of 4 6 (flat ex_items))) = ONotFound.
Proof. exact ex_get_all. Qed.

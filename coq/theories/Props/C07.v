(** C07 — a crash during a store write or removal never leaves a readable-but-wrong block.
    Property theorems only; each is closed by [exact] of a lemma proved in Store/CrashProofs.v.

    [to] / [tq] are the sizes of the complete ODS / Q4 files of the block (the ODS file starts with a 65-byte header).
    The model is the repaired code (fix commit 209657c: a Q4 file that does not hold the whole quadrant is not used):
    [lookup to tq true ...].  Process-crash semantics: effects are applied in order, one at a time. *)
From Coq Require Import List NArith.
From CN Require Import Base.Lts Store.Crash Store.CrashProofs.
Import ListNotations.
Open Scope N_scope.

(** The property, non-empty blocks.  From any consistent state [s] (a height link only ever names a complete ODS file;
    the empty directory is one, and every crash state is one again), for EVERY effect sequence [tr] one call of
    PutODSQ4 / PutODS can produce — any interleaving of the ODS and Q4 writers, any number and size of buffered
    writes, with or without the remove-and-rewrite recovery — or the removal sequence, and EVERY prefix [pre] of it
    (the crash point): after restart the state is consistent (no partially written file is linked), a lookup by height
    is Absent or the Full correct block; storing the block again by either method, in any interleaving, succeeds and
    leaves it linked and fully readable; removing it then leaves the height absent. *)
Theorem C07_crash_safe : forall to tq, 65 <= to -> forall s m tr pre,
  Inv to s -> (put_trace to tq m s tr \/ tr = remove_effects) -> prefix pre tr ->
  let s' := exec s pre in
  Inv to s' /\ (lookup to tq true 0 0 s' = Absent \/ lookup to tq true 0 0 s' = Full) /\
  (forall m' tr', put_trace to tq m' s' tr' ->
     let s'' := exec s' tr' in
     Inv to s'' /\ lookup to tq true 0 0 s'' = Full /\ has s'' = true /\
     lookup to tq true 0 0 (exec s'' remove_effects) = Absent /\ has (exec s'' remove_effects) = false).
Proof. exact crash_safe. Qed.
Print Assumptions C07_crash_safe.

(** The empty block (only ever symlinked to the shared empty-block file, which every restart rewrites): a crash
    while it is linked / unlinked, then a restart in any interleaving of the two file writers. *)
Theorem C07_crash_safe_empty : forall to tq eo eq, 65 <= eo -> forall s tr pre rt rt',
  InvE s -> (tr = put_empty_effects \/ tr = remove_empty_effects) -> prefix pre tr ->
  restart_trace eo eq rt -> restart_trace eo eq rt' ->
  let s' := exec (exec s pre) rt in
  InvE s' /\ (lookup to tq true eo eq s' = Absent \/ lookup to tq true eo eq s' = Full) /\
  (let s'' := exec s' put_empty_effects in
   lookup to tq true eo eq s'' = Full /\ has s'' = true /\
   (let s3 := exec (exec s'' remove_empty_effects) rt' in lookup to tq true eo eq s3 = Absent /\ has s3 = false)).
Proof. exact crash_safe_empty. Qed.
Print Assumptions C07_crash_safe_empty.

(** What a completed put leaves on disk does not depend on the interleaving nor on the buffering: it is [put_final]
    (the function the correspondence run compares the real store's result with). *)
Theorem C07_put_deterministic : forall to tq m s tr, put_trace to tq m s tr -> exec s tr = put_final to tq m s.
Proof. exact put_final_ok. Qed.
Print Assumptions C07_put_deterministic.

(** The checker applied to the system-call trace of the real put (Gen/PutEffects.v, regenerated on every run) is
    sound: an accepted trace is one of the modelled effect sequences, so every crash point of the observed execution
    is covered by [C07_crash_safe]. *)
Theorem C07_observed_trace_is_modelled : forall to tq m l, is_fresh_put to tq m l = true -> put_trace to tq m fs0 l.
Proof. exact is_fresh_put_sound. Qed.
Print Assumptions C07_observed_trace_is_modelled.

(** On the code before the repair (Q4 files of any size are used) the property is false: a crash during PutODSQ4 that
    leaves a partial Q4 file, followed by a re-put with PutODS, links the height to a block that reads wrong. *)
Theorem C07_crash_safe_unrepaired_refuted :
  exists pre tr tr',
    put_trace 100 50 MQ4 fs0 tr /\ prefix pre tr /\ put_trace 100 50 MOds (exec fs0 pre) tr' /\
    lookup 100 50 false 0 0 (exec (exec fs0 pre) tr') = Wrong /\
    lookup 100 50 true 0 0 (exec (exec fs0 pre) tr') = Full.
Proof. exact unchecked_q4_unsafe. Qed.
Print Assumptions C07_crash_safe_unrepaired_refuted.

(** Non-vacuity: the empty directory is consistent; a concrete crash point of a concrete put (ODS complete, 700 bytes
    of Q4) is a prefix of a modelled trace, looks Absent, and either re-put makes it Full (PutODS leaving the partial
    Q4 on disk, unused). *)
Theorem C07_nonvacuous :
  let to := 65 + 8 * 90 + 3 * 512 in let tq := 4 * 512 in
  let pre := stream POds [65; to - 65] ++ [Create PQ4; Append PQ4 700] in
  Inv to fs0 /\
  (exists tr, put_trace to tq MQ4 fs0 tr /\ prefix pre tr) /\
  lookup to tq true 0 0 (exec fs0 pre) = Absent /\ q4 (exec fs0 pre) = Some 700 /\
  lookup to tq true 0 0 (put_final to tq MQ4 (exec fs0 pre)) = Full /\ q4 (put_final to tq MQ4 (exec fs0 pre)) = Some tq /\
  lookup to tq true 0 0 (put_final to tq MOds (exec fs0 pre)) = Full /\ q4 (put_final to tq MOds (exec fs0 pre)) = Some 700.
Proof. exact crash_example. Qed.
Print Assumptions C07_nonvacuous.

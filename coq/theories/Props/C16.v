(** C16 — only internally consistent, properly signed headers are accepted.
    Property theorems only; each is closed by [exact] of a lemma of Header/ValidateProofs.v.
    Model: Header/Validate.v (ExtendedHeader.Validate / Verify / Hash / codecs / MsgID, cometbft commit verification
    in its one-by-one and batch variants, DAH hashing); hashes and signatures are symbolic (free constructors). *)
From Coq Require Import List ZArith.
From CN Require Import Header.Validate Header.ValidateProofs.
Import ListNotations.
Open Scope Z_scope.

(** A header passes validation only if its DAH hashes to the data hash (and has as many column as row roots), its
    validator set hashes to the validators hash, its commit is for this height and for the hash of exactly these raw
    fields, and the validators whose own slot carries a valid commit signature over this commit hold more than 2/3 of
    the set's power.  [signed_power_of] counts validator i only if signature i has the commit flag, i's address and is
    the signature by i's key over (chain id, commit height, round, block id, its timestamp). *)
Theorem C16_validate_sound : forall x,
  validate x = Ok ->
  dah_hash (dh x) = data_hash (hdr x) /\ length (rows (dh x)) = length (cols (dh x)) /\
  valset_hash (vs_vals (vals x)) = vals_hash (hdr x) /\
  c_height (cmt x) = height (hdr x) /\ bi_hash (c_bid (cmt x)) = hdr_hash (hdr x) /\
  3 * signed_power_of x > 2 * total_power (vs_vals (vals x)).
Proof. exact validate_sound. Qed.
Print Assumptions C16_validate_sound.

(** Every field participates: the three hashes determine all their inputs. *)
Theorem C16_header_hash_covers_every_field : forall h h',
  blen (vals_hash h) <> 0 -> blen (vals_hash h') <> 0 -> hdr_hash h = hdr_hash h' -> h = h'.
Proof. exact hdr_hash_inj. Qed.
Print Assumptions C16_header_hash_covers_every_field.

Theorem C16_dah_hash_covers_every_root : forall d d',
  length (rows d) = length (cols d) -> length (rows d') = length (cols d') -> dah_hash d = dah_hash d' -> d = d'.
Proof. exact dah_hash_inj. Qed.
Print Assumptions C16_dah_hash_covers_every_root.

Theorem C16_valset_hash_covers_keys_and_powers : forall vs vs',
  valset_hash vs = valset_hash vs' -> committed_vals vs = committed_vals vs'.
Proof. exact valset_hash_inj. Qed.
Print Assumptions C16_valset_hash_covers_keys_and_powers.

(** The block hash binds everything committed: two accepted headers with the same hash have the same raw header
    (all 16 fields), the same row and column roots and the same validator keys and powers. *)
Theorem C16_hash_binds : forall x y,
  validate x = Ok -> validate y = Ok -> xhash x = xhash y -> committed x = committed y.
Proof. exact hash_binds. Qed.
Print Assumptions C16_hash_binds.

(** Hence changing any committed field, any root or any validator/power of an accepted header while keeping its
    commit (block hash) makes it fail, *)
Theorem C16_mutation_rejected : forall x y,
  validate x = Ok -> xhash y = xhash x -> committed y <> committed x -> validate y <> Ok.
Proof. exact mutation_rejected_committed. Qed.
Print Assumptions C16_mutation_rejected.

(** and so does any change of the commit, the validator set or the signatures after which the valid signed power is
    no longer above two thirds. *)
Theorem C16_not_enough_power_rejected : forall y,
  3 * signed_power_of y <= 2 * total_power (vs_vals (vals y)) -> validate y <> Ok.
Proof. exact mutation_rejected_power. Qed.
Print Assumptions C16_not_enough_power_rejected.

(** What does not change the verdict: the signature-checking path (batch or one by one), selected by a cached flag
    that differs between a fresh value, a binary-decoded and a JSON-decoded one. *)
Theorem C16_validate_independent_of_path : forall b x, validate (set_same b x) = Ok <-> validate x = Ok.
Proof. exact validate_same_irrelevant. Qed.
Print Assumptions C16_validate_independent_of_path.

(** Verification against a trusted header, adjacent heights: the untrusted header names the announced validator set
    and the trusted header's hash; against a validated trusted header that is the hash of exactly its fields. *)
Theorem C16_verify_adjacent_sound : forall t u,
  adjacent t u = true -> verify t u = Ok ->
  vals_hash (hdr u) = next_vals_hash (hdr t) /\ bi_hash (last_bid (hdr u)) = xhash t.
Proof. exact verify_adjacent_sound. Qed.
Print Assumptions C16_verify_adjacent_sound.

Theorem C16_verify_adjacent_links : forall t u,
  validate t = Ok -> adjacent t u = true -> verify t u = Ok -> bi_hash (last_bid (hdr u)) = hdr_hash (hdr t).
Proof. exact verify_adjacent_links. Qed.
Print Assumptions C16_verify_adjacent_links.

(** Non-adjacent heights: distinct trusted validators holding more than 1/3 of the trusted power have valid
    commit signatures (over the trusted chain id and the untrusted commit's height, round and block id) in the
    untrusted commit - whichever signature path is taken. *)
Theorem C16_verify_nonadjacent_sound : forall t u,
  powers_nonneg (vs_vals (vals t)) -> adjacent t u = false -> verify t u = Ok ->
  3 * trusted_power (chain (hdr t)) (cmt u) (vs_vals (vals t)) > total_power (vs_vals (vals t)).
Proof. exact verify_nonadjacent_sound. Qed.
Print Assumptions C16_verify_nonadjacent_sound.

(** The generic wrapper additionally demands the same chain, a greater height and a time not before the trusted
    one and not in the future. *)
Theorem C16_verify_full_sound : forall now t u,
  verify_full now t u = Ok ->
  chain (hdr u) = chain (hdr t) /\ u64 (height (hdr t)) < u64 (height (hdr u)) /\
  time_lt (tsec (hdr u)) (tnano (hdr u)) (tsec (hdr t)) (tnano (hdr t)) = false /\
  time_lt (now + CLOCK_DRIFT) 0 (tsec (hdr u)) (tnano (hdr u)) = false /\ verify t u = Ok.
Proof. exact verify_full_sound. Qed.
Print Assumptions C16_verify_full_sound.

(** Re-encoding: whatever the binary or the JSON decoder returns for an encoded header has the same committed
    parts, commit, hash and Validate verdict; the binary decoder returns something for every valid header. *)
Theorem C16_reencode_bin_stable : forall x y,
  decode_bin (encode x) = Some y ->
  committed y = committed x /\ cmt y = cmt x /\ xhash y = xhash x /\ (validate y = Ok <-> validate x = Ok).
Proof. exact reencode_bin_stable. Qed.
Print Assumptions C16_reencode_bin_stable.

Theorem C16_reencode_json_stable : forall x y,
  decode_json (encode x) = Some y ->
  committed y = committed x /\ cmt y = cmt x /\ xhash y = xhash x /\ (validate y = Ok <-> validate x = Ok).
Proof. exact reencode_json_stable. Qed.
Print Assumptions C16_reencode_json_stable.

Theorem C16_reencode_bin_total_on_valid : forall x, validate x = Ok -> exists y, decode_bin (encode x) = Some y.
Proof. exact reencode_bin_total_on_valid. Qed.
Print Assumptions C16_reencode_bin_total_on_valid.

(** The same for verification against a trusted header: once the untrusted commit's signatures are basically valid
    (which Validate and the binary decoder check), the Verify verdict is the same on either signature path, hence
    unchanged by re-encoding either header in either format. *)
Theorem C16_verify_independent_of_path : forall b b' t u,
  powers_nonneg (vs_vals (vals t)) -> forallb csig_basic (c_sigs (cmt u)) = true ->
  (verify (set_same b t) (set_same b' u) = Ok <-> verify t u = Ok).
Proof. exact verify_same_irrelevant. Qed.
Print Assumptions C16_verify_independent_of_path.

Theorem C16_reencode_verify_stable : forall t u t' u',
  (decode_bin (encode t) = Some t' \/ decode_json (encode t) = Some t') ->
  (decode_bin (encode u) = Some u' \/ decode_json (encode u) = Some u') ->
  powers_nonneg (vs_vals (vals t)) -> forallb csig_basic (c_sigs (cmt u)) = true ->
  (verify t' u' = Ok <-> verify t u = Ok).
Proof. exact reencode_verify_stable. Qed.
Print Assumptions C16_reencode_verify_stable.

(** The gossip message id of an encoded header whose commit decodes is that commit's block id, so two such
    messages for the same block id have the same id whatever else they carry; valid headers are such messages. *)
Theorem C16_msgid_only_blockid : forall x y,
  commit_wire_ok (cmt x) = true -> commit_wire_ok (cmt y) = true -> c_bid (cmt x) = c_bid (cmt y) ->
  msg_id (encode x) = msg_id (encode y).
Proof. exact msgid_only_blockid. Qed.
Print Assumptions C16_msgid_only_blockid.

Theorem C16_msgid_of_valid : forall x, validate x = Ok -> msg_id (encode x) = MBlock (c_bid (cmt x)).
Proof. exact msgid_of_valid. Qed.
Print Assumptions C16_msgid_of_valid.

(** non-vacuity: a concrete two-header chain with three validators is accepted, verified and round-trips; dropping
    one of three equal signers (exactly 2/3), changing the app hash under the same commit, or appending a column root
    (which leaves the DAH hash unchanged) is refused; one of three trusted signers (exactly 1/3) is not enough. *)
Theorem C16_nonvacuous_validate :
  validate Ex.h1 = Ok /\ validate Ex.h2 = Ok /\ validate (set_same false Ex.h1) = Ok /\
  validate Ex.h1_two = Rej false /\ validate Ex.h1_app = Rej false /\ validate Ex.h1_col = Rej false /\
  dah_hash (dh Ex.h1_col) = dah_hash (dh Ex.h1) /\ xhash Ex.h1_app = xhash Ex.h1 /\ committed Ex.h1_app <> committed Ex.h1.
Proof. exact nonvacuous_validate. Qed.

Theorem C16_nonvacuous_verify :
  adjacent Ex.h1 Ex.h2 = true /\ verify Ex.h1 Ex.h2 = Ok /\ verify_full 2000 Ex.h1 Ex.h2 = Ok /\
  adjacent Ex.h1 Ex.h4 = false /\ verify Ex.h1 Ex.h4 = Ok /\ verify (set_same false Ex.h1) Ex.h4 = Ok /\
  verify Ex.h1 Ex.h4_one = Rej true /\ verify_full 2000 Ex.h2 Ex.h1 = Rej false.
Proof. exact nonvacuous_verify. Qed.

Theorem C16_nonvacuous_codec :
  decode_bin (encode Ex.h2) = Some (set_same true Ex.h2) /\ decode_json (encode Ex.h1) = Some (set_same false Ex.h1) /\
  msg_id (encode Ex.h1) = msg_id (encode Ex.h1_app) /\ msg_id (encode Ex.h1) <> msg_id (encode Ex.h2) /\
  decode_bin (encode Ex.h1_col) = None.
Proof. exact nonvacuous_codec. Qed.

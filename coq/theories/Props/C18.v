(** C18 — share identifiers and containers survive the wire unchanged or are refused.
    Property theorems only; each is closed by [exact] of a lemma proved elsewhere. *)
From Coq Require Import List ZArith.
From CN Require Import Base.Bytes Shwap.Ids Shwap.IdsProofs Base.Varint Base.VarintProofs Shwap.Wire Shwap.WireProofs Shwap.Containers Shwap.ContainersProofs.
Import ListNotations.
Open Scope Z_scope.

(** Every identifier a constructor accepts for a square within the protocol maximum decodes back to an equal value. *)
Theorem C18_id_roundtrip : forall k sz i j,
  height_ok i -> size_ok k sz -> new k sz i = Some j -> dec k (enc k j) = Some j.
Proof. exact id_roundtrip. Qed.
Print Assumptions C18_id_roundtrip.

(** An identifier accepted for a square of a given size addresses a position inside that square. *)
Theorem C18_verify_in_square : forall k sz i, verify k sz i = true -> in_square k sz i.
Proof. exact verify_in_square. Qed.
Print Assumptions C18_verify_in_square.

(** Decoders reject inputs of the wrong length ... *)
Theorem C18_dec_wrong_length : forall k bs, length bs <> size k -> dec k bs = None.
Proof. exact dec_wrong_length. Qed.
Print Assumptions C18_dec_wrong_length.

(** ... and never guess: an accepted byte string is the canonical encoding of the value returned, *)
Theorem C18_dec_canonical : forall k bs i,
  bytes_ok bs = true -> dec k bs = Some i -> enc k i = bs /\ length bs = size k /\ h i <> 0.
Proof. exact dec_canonical. Qed.
Print Assumptions C18_dec_canonical.

(** and the value is a valid identifier (out-of-range fields refused). *)
Theorem C18_dec_validates : forall k bs i,
  bytes_ok bs = true -> dec k bs = Some i -> validate k i = true.
Proof. exact dec_validates. Qed.
Print Assumptions C18_dec_validates.

(** No encoder silently alters a field: the encoding determines the identifier. *)
Theorem C18_enc_injective : forall k sz sz' i i' j j',
  height_ok i -> height_ok i' -> size_ok k sz -> size_ok k sz' ->
  new k sz i = Some j -> new k sz' i' = Some j' -> enc k j = enc k j' -> j = j'.
Proof. exact enc_injective. Qed.
Print Assumptions C18_enc_injective.

(** non-vacuity *)
Theorem C18_nonvacuous :
  new KSample 1024 (mkid 7 1023 1023 []) <> None /\ new KRnd 4 (mkid 7 3 0 ns_example) <> None /\
  new KRange 512 (mkid 7 262143 262144 []) <> None /\ new KNd 0 (mkid 9 0 0 ns_example) <> None /\
  new KRangeV0 512 (mkid 7 65000 65535 []) <> None.
Proof. exact roundtrip_nonvacuous. Qed.
Print Assumptions C18_nonvacuous.

(** * Containers: Sample, Row, RowNamespaceData, NamespaceData, RangeNamespaceData in protobuf and length-delimited stream form.
    Model: Shwap/Containers.v over Shwap/Wire.v and Base/Varint.v; tied byte-for-byte to the real encoders and decoders by
    harness/share/shwap/zz_verif_c18_containers_test.go.  [small bs] = the encoding is shorter than 2^63 bytes (true of every Go slice). *)

(** Varints: both decoders (gogo's generated loop, encoding/binary.ReadUvarint) invert the encoder for every uint64, whatever follows. *)
Theorem C18_varint_roundtrip : forall v rest, 0 <= v < two64 ->
  pb_uvarint (uvarint_enc v ++ rest) = Some (v, rest) /\ std_uvarint (uvarint_enc v ++ rest) = Some (v, rest).
Proof. exact varint_roundtrip. Qed.
Print Assumptions C18_varint_roundtrip.

(** ... and refuse more than ten bytes and truncated encodings. *)
Theorem C18_varint_overlong_refused : forall bs, (10 <= length bs)%nat -> Forall (fun b => 128 <= b) (firstn 10 bs) ->
  pb_uvarint bs = None /\ std_uvarint bs = None.
Proof. exact varint_overlong_refused. Qed.
Print Assumptions C18_varint_overlong_refused.

Theorem C18_varint_truncated_refused : forall v k, 0 <= v -> (k < length (uvarint_enc v))%nat ->
  pb_uvarint (firstn k (uvarint_enc v)) = None /\ std_uvarint (firstn k (uvarint_enc v)) = None.
Proof. exact varint_truncated_refused. Qed.
Print Assumptions C18_varint_truncated_refused.

(** Two's complement: int64 Start/End and int32 enums survive the uint64 varint. *)
Theorem C18_twos_complement : forall z, (in_i64 z = true -> i64_of_u64 (u64_of_int z) = z) /\ (in_i32 z = true -> i32_of_u64 (u64_of_int z) = z).
Proof. exact twos_complement. Qed.
Print Assumptions C18_twos_complement.

(** The protobuf wire layer: the tokeniser every generated Unmarshal shares inverts the encoder. *)
Theorem C18_wire_roundtrip : forall fs, Forall field_ok fs -> decode_fields (encode_fields fs) = Ok fs.
Proof. exact decode_encode_fields. Qed.
Print Assumptions C18_wire_roundtrip.

(** Every well-formed container encodes to protobuf bytes that decode back to it — up to the normalisation the Go code itself performs:
    a sample's leaf hash is not read back; a Both row travels as its Left half; a range proof with Start = End = 0 comes back empty;
    RowNamespaceData comes back unchanged. *)
Theorem C18_sample_roundtrip : forall s bs,
  sample_wf s = true -> sample_to_bytes s = EBytes bs -> small bs = true -> sample_from_bytes bs = Ok (sample_canon s).
Proof. exact sample_roundtrip. Qed.
Print Assumptions C18_sample_roundtrip.

Theorem C18_row_roundtrip : forall r bs,
  row_wf r = true -> row_to_bytes r = EBytes bs -> small bs = true -> row_from_bytes bs = Ok (row_canon r).
Proof. exact row_roundtrip. Qed.
Print Assumptions C18_row_roundtrip.

Theorem C18_rnd_roundtrip : forall d bs,
  rnd_wf d = true -> rnd_to_bytes d = EBytes bs -> small bs = true -> rnd_from_bytes bs = Ok d.
Proof. exact rnd_roundtrip. Qed.
Print Assumptions C18_rnd_roundtrip.

Theorem C18_range_roundtrip : forall g bs,
  range_wf g = true -> range_to_bytes g = EBytes bs -> small bs = true -> range_from_bytes bs = Ok (range_canon_pb g).
Proof. exact range_roundtrip. Qed.
Print Assumptions C18_range_roundtrip.

(** The same through the length-delimited stream (WriteTo / ReadFrom into a fresh value).  Single-message containers leave what
    follows unread; NamespaceData comes back unchanged; a range comes back with the proofs the row framing can carry
    (none for an empty range, only the first for a single row). *)
Theorem C18_sample_stream_roundtrip : forall s bs rest,
  sample_wf s = true -> sample_to_stream s = EBytes bs -> sample_read (bs ++ rest) = Ok (sample_canon s, rest).
Proof. exact sample_stream_roundtrip. Qed.
Print Assumptions C18_sample_stream_roundtrip.

Theorem C18_row_stream_roundtrip : forall r bs rest,
  row_wf r = true -> row_to_stream r = EBytes bs -> row_read (bs ++ rest) = Ok (row_canon r, rest).
Proof. exact row_stream_roundtrip. Qed.
Print Assumptions C18_row_stream_roundtrip.

Theorem C18_rnd_stream_roundtrip : forall d bs rest,
  rnd_wf d = true -> rnd_to_stream d = EBytes bs -> rnd_read (bs ++ rest) = Ok (d, rest).
Proof. exact rnd_stream_roundtrip. Qed.
Print Assumptions C18_rnd_stream_roundtrip.

Theorem C18_nd_stream_roundtrip : forall nd bs, nd_wf nd = true -> nd_to_stream nd = EBytes bs -> nd_read bs = Ok nd.
Proof. exact nd_stream_roundtrip. Qed.
Print Assumptions C18_nd_stream_roundtrip.

Theorem C18_range_stream_roundtrip : forall g bs,
  range_wf g = true -> range_to_stream g = EBytes bs -> range_read bs = Ok (range_canon_stream g).
Proof. exact range_stream_roundtrip. Qed.
Print Assumptions C18_range_stream_roundtrip.

(** Where the normalisations are the identity the value itself comes back. *)
Theorem C18_canon_identity :
  (forall s, (forall p, s_proof s = Some p -> p_leaf p = []) -> sample_canon s = s) /\
  (forall r, r_side r <> 2 -> row_canon r = r) /\
  (forall g, (forall p, g_first g = Some p \/ g_last g = Some p -> p_start p <> 0 \/ p_end p <> 0) -> range_canon_pb g = g) /\
  (forall g, (2 <= length (g_rows g))%nat -> range_canon_stream g = g).
Proof. exact canon_identity. Qed.
Print Assumptions C18_canon_identity.

(** Every container decoder is total: on any byte string it returns a value or an error (no recursion budget of the model is
    ever exhausted; that the Go code does not panic where the model says "error" is what the harness ties). *)
Theorem C18_container_decoders_total : forall f k bs, model_dec f k bs <> Fuel.
Proof. exact model_dec_total. Qed.
Print Assumptions C18_container_decoders_total.

(** What a decoder accepts is well formed: every share has 512 bytes, a range in protobuf form has no empty row, a row is a Left or
    Right half, a sample carries a proof. *)
Theorem C18_decoded_wellformed : forall f k bs c, model_dec f k bs = Ok c -> cont_decoded_ok f c.
Proof. exact decoded_wellformed. Qed.
Print Assumptions C18_decoded_wellformed.

(** A known field carrying another wire type is refused wherever it occurs in the message. *)
Theorem C18_wrong_wiretype_refused : forall k n v wt a b bs c,
  k <> KNdC -> known_wt k n = Some wt -> wtype v <> wt -> decode_fields bs = Ok (a ++ (n, v) :: b) -> model_dec FProto k bs <> Ok c.
Proof. exact wrong_wiretype_refused_bytes. Qed.
Print Assumptions C18_wrong_wiretype_refused.

(** A frame of the delimited stream cut short anywhere is never accepted, so every truncation of a Sample / Row / RowNamespaceData
    stream is an error. *)
Theorem C18_frame_truncated_refused : forall m bs k, write_frame m = Some bs -> (k < length bs)%nat ->
  read_frame (firstn k bs) = FErr \/ read_frame (firstn k bs) = FEof.
Proof. exact read_frame_truncated. Qed.
Print Assumptions C18_frame_truncated_refused.

Theorem C18_stream_truncated_refused : forall f c bs k,
  f = FStream -> (match c with CNd _ | CRange _ => False | _ => True end) -> model_enc f c = EBytes bs -> (k < length bs)%nat ->
  model_dec f (match c with CSample _ => KSampleC | CRow _ => KRowC | CRnd _ => KRndC | CNd _ => KNdC | CRange _ => KRangeC end) (firstn k bs) = Err.
Proof. exact stream_truncated_refused. Qed.
Print Assumptions C18_stream_truncated_refused.

(** Protobuf form: a message cut inside a field is refused; cut exactly between two fields it is the message with fewer fields
    (inherent to protobuf: a message carries no length of its own). *)
Theorem C18_wire_truncated : forall fs k, Forall field_ok fs -> (k < length (encode_fields fs))%nat ->
  decode_fields (firstn k (encode_fields fs)) = Err \/
  exists j, (j < length fs)%nat /\ decode_fields (firstn k (encode_fields fs)) = Ok (firstn j fs).
Proof. exact decode_fields_truncated. Qed.
Print Assumptions C18_wire_truncated.

(** NamespaceData stream (a bare sequence of frames): cut anywhere it yields an error or a proper prefix of the rows, never a
    wrong or partial row. *)
Theorem C18_nd_stream_truncated : forall nd bs k,
  nd_wf nd = true -> nd_to_stream nd = EBytes bs -> (k < length bs)%nat ->
  nd_read (firstn k bs) = Err \/ exists j, (j < length nd)%nat /\ nd_read (firstn k bs) = Ok (firstn j nd).
Proof. exact nd_stream_truncated. Qed.
Print Assumptions C18_nd_stream_truncated.

(** No encoder silently alters a field: the bytes determine the container (up to the same normalisation). *)
Theorem C18_container_enc_injective :
  (forall s1 s2 bs, sample_wf s1 = true -> sample_wf s2 = true -> small bs = true ->
     sample_to_bytes s1 = EBytes bs -> sample_to_bytes s2 = EBytes bs -> sample_canon s1 = sample_canon s2) /\
  (forall r1 r2 bs, row_wf r1 = true -> row_wf r2 = true -> small bs = true ->
     row_to_bytes r1 = EBytes bs -> row_to_bytes r2 = EBytes bs -> row_canon r1 = row_canon r2) /\
  (forall d1 d2 bs, rnd_wf d1 = true -> rnd_wf d2 = true -> small bs = true ->
     rnd_to_bytes d1 = EBytes bs -> rnd_to_bytes d2 = EBytes bs -> d1 = d2) /\
  (forall g1 g2 bs, range_wf g1 = true -> range_wf g2 = true -> small bs = true ->
     range_to_bytes g1 = EBytes bs -> range_to_bytes g2 = EBytes bs -> range_canon_pb g1 = range_canon_pb g2) /\
  (forall n1 n2 bs, nd_wf n1 = true -> nd_wf n2 = true -> nd_to_stream n1 = EBytes bs -> nd_to_stream n2 = EBytes bs -> n1 = n2).
Proof. exact container_enc_injective. Qed.
Print Assumptions C18_container_enc_injective.

(** non-vacuity: concrete containers of every kind are well formed and round-trip by computation; the normalisations are real
    (these values do not come back unchanged); outside the hypothesis the encoders do alter (side 7 -> RIGHT, axis 2^32+1 -> 1),
    panic (sample without proof) or refuse (row above serde's 1 MiB limit). *)
Theorem C18_containers_nonvacuous :
  cont_wf (CSample ex_sample) = true /\ cont_wf (CRow ex_row_left) = true /\ cont_wf (CRow ex_row_both) = true /\
  cont_wf (CRnd ex_rnd_incl) = true /\ cont_wf (CRnd ex_rnd_abs) = true /\ cont_wf (CNd [ex_rnd_incl; ex_rnd_abs]) = true /\
  cont_wf (CRange ex_range1) = true /\ cont_wf (CRange ex_range3) = true /\ cont_wf (CRange ex_range_zero) = true.
Proof. exact examples_wf. Qed.
Print Assumptions C18_containers_nonvacuous.

Theorem C18_normalisations_are_real :
  dec_eq (model_dec FProto KRowC (bytes_of (model_enc FProto (CRow ex_row_both)))) (CRow (mkrow [ex_share 1; ex_share 2] 0)) = true /\
  dec_eq (model_dec FProto KSampleC (bytes_of (model_enc FProto (CSample (mksample (ex_share 5) (Some ex_absence) 0)))))
         (CSample (mksample (ex_share 5) (Some (mkproof 1 2 [ex_node 7] [] true)) 0)) = true /\
  dec_eq (model_dec FProto KRangeC (bytes_of (model_enc FProto (CRange ex_range_zero))))
         (CRange (mkrange [[ex_share 1; ex_share 2]] (Some (mkproof 0 0 [] [] true)) None)) = true /\
  dec_eq (model_dec FStream KRangeC (bytes_of (model_enc FStream (CRange ex_range_zero)))) (CRange ex_range_zero) = true /\
  dec_eq (model_dec FStream KRangeC (bytes_of (model_enc FStream (CRange ex_range1)))) (CRange (mkrange [[ex_share 1]] (Some ex_proof) None)) = true.
Proof. exact normalisations_are_real. Qed.
Print Assumptions C18_normalisations_are_real.

(** C18 — share identifiers and containers survive the wire unchanged or are refused.
    Property theorems only; each is closed by [exact] of a lemma proved elsewhere. *)
From Coq Require Import List ZArith.
From CN Require Import Base.Bytes Shwap.Ids Shwap.IdsProofs.
Import ListNotations.
Open Scope Z_scope.

(** Every identifier a constructor accepts for a square within the protocol maximum decodes back to an equal value. *)
Theorem C18_id_roundtrip : forall k sz i j,
  height_ok i -> size_ok k sz -> new k sz i = Some j -> dec k (enc k j) = Some j.
Proof. exact id_roundtrip. Qed.
Print Assumptions C18_id_roundtrip.

(** An identifier accepted for a square of a given size addresses a position inside that square. *)
Theorem C18_verify_in_square : forall k sz i, verify k sz i = true -> in_square k sz i.
Proof. exact verify_in_square. Qed.
Print Assumptions C18_verify_in_square.

(** Decoders reject inputs of the wrong length ... *)
Theorem C18_dec_wrong_length : forall k bs, length bs <> size k -> dec k bs = None.
Proof. exact dec_wrong_length. Qed.
Print Assumptions C18_dec_wrong_length.

(** ... and never guess: an accepted byte string is the canonical encoding of the value returned, *)
Theorem C18_dec_canonical : forall k bs i,
  bytes_ok bs = true -> dec k bs = Some i -> enc k i = bs /\ length bs = size k /\ h i <> 0.
Proof. exact dec_canonical. Qed.
Print Assumptions C18_dec_canonical.

(** and the value is a valid identifier (out-of-range fields refused). *)
Theorem C18_dec_validates : forall k bs i,
  bytes_ok bs = true -> dec k bs = Some i -> validate k i = true.
Proof. exact dec_validates. Qed.
Print Assumptions C18_dec_validates.

(** No encoder silently alters a field: the encoding determines the identifier. *)
Theorem C18_enc_injective : forall k sz sz' i i' j j',
  height_ok i -> height_ok i' -> size_ok k sz -> size_ok k sz' ->
  new k sz i = Some j -> new k sz' i' = Some j' -> enc k j = enc k j' -> j = j'.
Proof. exact enc_injective. Qed.
Print Assumptions C18_enc_injective.

(** non-vacuity *)
Theorem C18_nonvacuous :
  new KSample 1024 (mkid 7 1023 1023 []) <> None /\ new KRnd 4 (mkid 7 3 0 ns_example) <> None /\
  new KRange 512 (mkid 7 262143 262144 []) <> None /\ new KNd 0 (mkid 9 0 0 ns_example) <> None /\
  new KRangeV0 512 (mkid 7 65000 65535 []) <> None.
Proof. exact roundtrip_nonvacuous. Qed.

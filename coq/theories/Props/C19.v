(** C19 — RPC methods are reachable only with the permission they require.
    Property theorems only; each is closed by [exact] of a lemma proved in Rpc/PermsProofs.v.

    [RpcTable.methods], [RpcTable.wrappers], [RpcTable.registered] ... are the tables regenerated from the source of
    celestia-node on every run (translator /verif/translators/perms): the domain "every method of every registered
    module" is that finite, complete list; credentials, tokens, times and requested names are unrestricted. *)
From Coq Require Import String List ZArith.
From CN Require Import Rpc.Table Rpc.Perms Gen.RpcTable Rpc.Current Rpc.PermsProofs.
Import ListNotations.
Open Scope string_scope.

(** The permission sets are the four cumulative ones; unauthenticated callers get "public". *)
Theorem C19_permission_sets :
  cur_sets = mk_permsets ["public"] ["public"; "read"] ["public"; "read"; "write"] ["public"; "read"; "write"; "admin"] /\
  a_default cur_api = ["public"] /\ a_valid cur_api = ["public"; "read"; "write"; "admin"].
Proof. exact cur_permission_sets. Qed.
Print Assumptions C19_permission_sets.

(** Every method of every registered module declares one of the four permissions (so registration does not panic). *)
Theorem C19_every_method_tagged : forall m, In m RpcTable.methods ->
  exists p, m_tag m = Some p /\ In p ["public"; "read"; "write"; "admin"] /\ m_is_func m = true /\ m_has_ctx m = true.
Proof. exact every_method_tagged. Qed.
Print Assumptions C19_every_method_tagged.

(** The matrix: with authentication enabled a method is reached exactly by the credentials whose permission list contains
    the permission the method declares; with authentication disabled by everyone. All 8 credential classes of the
    property plus any other properly signed permission list ([CCustom]), at any time. *)
Theorem C19_matrix : forall (auth_enabled : bool) (now : Z) (c : cred) (m : method), In m RpcTable.methods ->
  (allowed cur_api cur_sets auth_enabled now c m = true <->
   (auth_enabled = false \/ In (the_tag m) (token_perms cur_api cur_sets c))).
Proof. exact matrix. Qed.
Print Assumptions C19_matrix.

(** With authentication enabled a caller without a token reaches only public methods. *)
Theorem C19_no_token_public_only : forall now m, In m RpcTable.methods ->
  allowed cur_api cur_sets true now CNone m = true -> m_tag m = Some "public".
Proof. exact no_token_public_only. Qed.
Print Assumptions C19_no_token_public_only.

(** Expired, malformed or wrongly signed tokens grant nothing: whatever is asked for — existing method or not, in the
    header or as form value — the answer is 401; so is a header without the Bearer prefix. *)
Theorem C19_invalid_tokens_grant_nothing : forall now t mo na,
  (t_wellformed t = false \/ t_sig_ok t = false \/ exists e, t_expiry t = Some e /\ (e < now)%Z) ->
  call cur_api true now (AHeader true t) mo na = O401 /\ call cur_api true now (AForm t) mo na = O401.
Proof. exact invalid_tokens_401. Qed.
Print Assumptions C19_invalid_tokens_grant_nothing.

Theorem C19_missing_bearer_grants_nothing : forall now t mo na, call cur_api true now (AHeader false t) mo na = O401.
Proof. exact missing_bearer_grants_nothing. Qed.
Print Assumptions C19_missing_bearer_grants_nothing.

Theorem C19_invalid_classes_grant_nothing : forall now c mo na, c = CExpired \/ c = COtherKey \/ c = CGarbage ->
  call cur_api true now (cred_authz cur_sets now c) mo na = O401.
Proof. exact invalid_classes_grant_nothing. Qed.
Print Assumptions C19_invalid_classes_grant_nothing.

(** Authentication disabled grants everything, whatever the request carries. *)
Theorem C19_auth_disabled_grants_all : forall now a m, In m RpcTable.methods -> reaches cur_api false now a m = true.
Proof. exact auth_disabled_grants_all. Qed.
Print Assumptions C19_auth_disabled_grants_all.

(** The policy covers every method: a method nobody classified breaks this theorem. *)
Theorem C19_every_method_classified : forall m, In m RpcTable.methods -> classify m <> KUnclassified.
Proof. exact every_method_classified. Qed.
Print Assumptions C19_every_method_classified.

(** Methods that move funds, submit data, mint or verify credentials, reveal node identity or peers, or reconfigure the
    node (everything the reviewed policy does not list as a benign read), and every method returning a TxResponse,
    declare write or admin ... *)
Theorem C19_sensitive_need_write : forall m, In m RpcTable.methods ->
  classify m <> KBenign \/ m_returns_tx m = true ->
  m_tag m = Some "write" \/ m_tag m = Some "admin".
Proof. exact sensitive_need_write. Qed.
Print Assumptions C19_sensitive_need_write.

(** ... hence no credential lacking both reaches them while authentication is enabled. *)
Theorem C19_sensitive_unreachable_below_write : forall now c m, In m RpcTable.methods ->
  classify m <> KBenign \/ m_returns_tx m = true ->
  ~ In "write" (token_perms cur_api cur_sets c) -> ~ In "admin" (token_perms cur_api cur_sets c) ->
  allowed cur_api cur_sets true now c m = false.
Proof. exact sensitive_unreachable_below_write. Qed.
Print Assumptions C19_sensitive_unreachable_below_write.

(** go-jsonrpc serves the wrapper struct's methods, the proxy guards Internal's fields: every served method is a plain
    forward to the guarded field of the same name, and every guarded field is served. *)
Theorem C19_no_unproxied_method : forall w, In w RpcTable.wrappers ->
  w_forward w = Some (w_name w) /\ w_args_ok w = true /\
  exists m, In m RpcTable.methods /\ m_module m = w_module w /\ m_name m = w_name w.
Proof. exact no_unproxied_method. Qed.
Print Assumptions C19_no_unproxied_method.

Theorem C19_every_field_registered : forall m, In m RpcTable.methods ->
  exists w, In w RpcTable.wrappers /\ w_module w = m_module m /\ w_name w = m_name m.
Proof. exact every_field_registered. Qed.
Print Assumptions C19_every_field_registered.

(** No request at all — any name, any credential, either mode — ends in an unchecked invocation, a registration panic or
    a proxy fault; what is reached is the implementation of the method that was asked for. *)
Theorem C19_no_unchecked_outcome : forall e now a mo na,
  match call cur_api e now a mo na with
  | OReached mo' na' => mo' = mo /\ na' = na /\ exists m, In m RpcTable.methods /\ m_module m = mo /\ m_name m = na
  | ODenied | O401 | ONotFound => True
  | OStartupPanic | OUnchecked _ _ | OFault => False
  end.
Proof. exact no_unchecked_outcome. Qed.
Print Assumptions C19_no_unchecked_outcome.

(** Registrations: one namespace per module, every method belongs to a registered module, the client addresses exactly
    the registered modules, wrapper structs have no field besides Internal; and the wiring of api/rpc/server.go is the one
    the model transcribes. *)
Theorem C19_registrations :
  NoDup (map r_namespace RpcTable.registered) /\
  (forall m, In m RpcTable.methods -> In (m_module m) (map r_namespace RpcTable.registered)) /\
  (forall r, In r RpcTable.registered <-> In r RpcTable.client_modules) /\
  RpcTable.extra_fields = [].
Proof. exact registrations_facts. Qed.
Print Assumptions C19_registrations.

Theorem C19_server_wiring : wiring_ok = true.
Proof. exact cur_wiring_ok. Qed.
Print Assumptions C19_server_wiring.

(** non-vacuity: the current table has methods on both sides of every level, and the model exhibits each excluded defect *)
Theorem C19_nonvacuous :
  (exists m, In m methods /\ allowed cur_api cur_sets true 0 CRead m = true /\ allowed cur_api cur_sets true 0 CPublic m = false) /\
  (exists m, In m methods /\ allowed cur_api cur_sets true 0 CReadWrite m = true /\ allowed cur_api cur_sets true 0 CRead m = false) /\
  (exists m, In m methods /\ allowed cur_api cur_sets true 0 CAdmin m = true /\ allowed cur_api cur_sets true 0 CReadWrite m = false) /\
  (exists m, In m methods /\ allowed cur_api cur_sets true 0 (CCustom ["admin"]) m = false /\ allowed cur_api cur_sets true 0 CRead m = true) /\
  (exists m, In m methods /\ (classify m <> KBenign \/ m_returns_tx m = true)) /\
  (exists m, In m methods /\ classify m = KBenign /\ m_tag m = Some "read").
Proof. exact matrix_nonvacuous. Qed.
Print Assumptions C19_nonvacuous.

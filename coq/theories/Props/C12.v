(** C12 — inclusion proofs handed to clients verify, and only for what they claim.
    Property theorems only; each is closed by [exact] of a lemma proved in Blob/*Proofs.v / Blob/TupleMerkle.v.

    Reading guide.  Go slices are lists, pointers are options (nil = None); indexing beyond a slice and dereferencing nil
    are the outcome [RPanic].  Hashes are symbolic (free constructors: injective).  The models follow the repaired code
    (fix-c12-1 Proof.equal, fix-c12-2 GetRangeResult.Verify, fix-c12-3 one-block tuple ranges, fix-c12-4
    CommitmentProof.Validate); the transcriptions of the code as found are kept in Blob/ProofEq.v with the failing inputs
    as examples in Blob/ProofEqProofs.v ([asfound_*]). *)
From Coq Require Import List ZArith NArith.
From CN Require Import Base.Bytes Blob.ProofEq Blob.ProofEqProofs Blob.TupleMerkle Blob.Tuple Blob.TupleProofs
  Blob.Commitment Blob.CommitmentProofs.
Import ListNotations.
Open Scope Z_scope.

(** * The blob inclusion check *)

(** [Proof.equal] is equality of proofs (component by component: range, every node, leaf hash, flag; a missing component
    only equals a missing component) and never panics — padded, trimmed and nil-holding proofs are refused. *)
Theorem C12_equal_iff : forall p q : bproof, (proof_equal p q = ROk <-> p = q) /\ proof_equal p q <> RPanic.
Proof. exact equal_iff. Qed.
Print Assumptions C12_equal_iff.

(** [Included] says yes exactly when the blob with that commitment is in the block ([own] = the proof the node derives
    for it, None when the blob is not found) and the supplied proof is that proof; malformed input is an error. *)
Theorem C12_included_iff : forall (own input : option bproof),
  (included own input = IncYes <-> exists p, own = Some p /\ input = Some p) /\ included own input <> IncPanic.
Proof. exact included_iff. Qed.
Print Assumptions C12_included_iff.

(** * Share-range results *)

(** An accepted range result hands out exactly the shares its proof proves (no prefix, no extension), carries no missing
    component, and the proof validated; [Verify] never panics. *)
Theorem C12_range_verify_sound : forall (shares : list N) (proof : option share_proof),
  (range_verify shares proof = ROk <->
   exists sp, proof = Some sp /\ shares = sp_data sp /\ sp_nil_entries sp = false /\ sp_validates sp = true) /\
  range_verify shares proof <> RPanic.
Proof. exact range_verify_sound. Qed.
Print Assumptions C12_range_verify_sound.

(** * Commitment proofs *)

(** For every instantiation of the primitives (in particular the symbolic one): if [Verify] accepts, then the subtree
    roots hash to the commitment; the subtree-root proofs consume ALL subtree roots front to back, each exactly as many
    as its share range has leaf ranges, each slice verified against the row root of its row ([covers ... []]: nothing
    left over, nothing used twice); every row root is proven to the data root; and the counts agree (one subtree-root
    proof and one row proof per row root, EndRow - StartRow + 1 rows, no missing component, non-empty root and commitment). *)
Theorem C12_commitment_sound :
  forall (D C T NP MP : Type) (t_empty : T -> bool) (c_empty : C -> bool) (c_eqb : C -> C -> bool) (hfb : list D -> C)
         (width_of : Z -> option Z) (leaf_ranges : Z -> Z -> Z -> option nat)
         (vsri : Z -> Z -> NP -> list D -> Z -> D -> option bool) (mverify : MP -> T -> D -> bool)
         (g : gproof D NP MP) (root : T) (com : C),
  verify_gen D C T NP MP t_empty c_empty c_eqb hfb width_of leaf_ranges vsri mverify g root com = ROk ->
  c_eqb com (hfb (g_roots D NP MP g)) = true /\
  (exists w, width_of (total_shares NP (g_sproofs D NP MP g)) = Some w /\
             covers D NP leaf_ranges vsri w (g_roots D NP MP g) (g_sproofs D NP MP g) (g_row_roots D NP MP g) []) /\
  rows_verify D T MP mverify root (g_row_proofs D NP MP g) (g_row_roots D NP MP g) = true /\
  length (g_sproofs D NP MP g) = length (g_row_roots D NP MP g) /\
  length (g_row_proofs D NP MP g) = length (g_row_roots D NP MP g) /\
  (1 <= length (g_row_roots D NP MP g))%nat /\
  (length (g_sproofs D NP MP g) <= length (g_roots D NP MP g))%nat /\
  g_end_row D NP MP g - g_start_row D NP MP g + 1 = Z.of_nat (length (g_row_roots D NP MP g)) /\
  g_start_row D NP MP g <= g_end_row D NP MP g /\
  existsb is_none (g_sproofs D NP MP g) = false /\ existsb is_none (g_row_proofs D NP MP g) = false /\
  t_empty root = false /\ c_empty com = false.
Proof. exact commitment_sound. Qed.
Print Assumptions C12_commitment_sound.

(** The row range.  The node's own [Validate] counts rows in uint32 ([row_count_u32] = (EndRow - StartRow + 1) mod 2^32, as
    in [gvalidate]): an inverted range can count any number of rows, [e+1, e] and [0, 2^32-1] count none.  That an accepted
    proof has an ordered range and at least one row (the two conjuncts above) rests on the call of celestia-app's
    [RowProof.Validate] inside [Verify]: without it ([verify_gen_norowcheck]) the proof from which EVERY component was
    dropped, presented with an inverted or wrapped range and the commitment of the empty list, verifies against every
    non-empty data root, for every instantiation of the primitives with [SubTreeWidth 0] defined. *)
Theorem C12_row_count_wraps : forall n e, 0 <= e -> e < n - 1 -> n < 2 ^ 32 ->
  e < e - n + 1 + 2 ^ 32 < 2 ^ 32 /\ row_count_u32 (e - n + 1 + 2 ^ 32) e = n.
Proof. exact row_count_wraps. Qed.
Print Assumptions C12_row_count_wraps.

Theorem C12_norowcheck_accepts_empty_proof :
  forall (D C T NP MP : Type) (t_empty : T -> bool) (c_empty : C -> bool) (c_eqb : C -> C -> bool) (hfb : list D -> C)
         (width_of : Z -> option Z) (leaf_ranges : Z -> Z -> Z -> option nat)
         (vsri : Z -> Z -> NP -> list D -> Z -> D -> option bool) (mverify : MP -> T -> D -> bool)
         (start_row end_row : Z) (root : T) (w : Z),
  (start_row = end_row + 1 \/ (start_row = 0 /\ end_row = 2 ^ 32 - 1)) ->
  t_empty root = false -> c_empty (hfb []) = false -> c_eqb (hfb []) (hfb []) = true -> width_of 0 = Some w ->
  verify_gen_norowcheck D C T NP MP t_empty c_empty c_eqb hfb width_of leaf_ranges vsri mverify
    (trimmed D NP MP start_row end_row) root (hfb []) = ROk.
Proof. exact norowcheck_accepts_empty_proof_ranges. Qed.
Print Assumptions C12_norowcheck_accepts_empty_proof.

(** concrete witness (table-driven primitives of the non-vacuity example): accepted against two different roots by the
    variant, refused by the code as it is *)
Theorem C12_commitment_sound_without_row_validate_refuted :
  exists (g : gproof N unit N) (root root' com : N),
    root <> root' /\
    ex_verify_norowcheck g root com = ROk /\ ex_verify_norowcheck g root' com = ROk /\
    ~ commitment_sound_conclusion_rows g /\
    g_roots N unit N g = [] /\ g_row_roots N unit N g = [] /\ g_end_row N unit N g < g_start_row N unit N g /\
    ex_verify g root com = RErr /\ ex_verify g root' com = RErr.
Proof. exact commitment_sound_without_row_validate_refuted. Qed.
Print Assumptions C12_commitment_sound_without_row_validate_refuted.

(** With the symbolic hash a commitment names ONE list of subtree roots: two accepted proofs for the same commitment
    (with equally many subtree roots) carry the same subtree roots, whatever else was swapped in. *)
Theorem C12_commitment_binds :
  forall (D T NP MP : Type) (t_empty : T -> bool) (c_empty : dg D -> bool) (c_eqb : dg D -> dg D -> bool)
         (width_of : Z -> option Z) (leaf_ranges : Z -> Z -> Z -> option nat)
         (vsri : Z -> Z -> NP -> list D -> Z -> D -> option bool) (mverify : MP -> T -> D -> bool)
         (g g' : gproof D NP MP) (root root' : T) (com : dg D),
  (forall a b, c_eqb a b = true -> a = b) ->
  verify_gen D (dg D) T NP MP t_empty c_empty c_eqb hash_from_slices width_of leaf_ranges vsri mverify g root com = ROk ->
  verify_gen D (dg D) T NP MP t_empty c_empty c_eqb hash_from_slices width_of leaf_ranges vsri mverify g' root' com = ROk ->
  length (g_roots D NP MP g) = length (g_roots D NP MP g') ->
  g_roots D NP MP g = g_roots D NP MP g'.
Proof. exact commitment_binds_symbolic. Qed.
Print Assumptions C12_commitment_binds.

(** The executable summary model the harness feeds with the real libraries' answers IS the structural model. *)
Theorem C12_commitment_model_agree :
  forall (D C T NP MP : Type) (t_empty : T -> bool) (c_empty : C -> bool) (c_eqb : C -> C -> bool) (hfb : list D -> C)
         (width_of : Z -> option Z) (leaf_ranges : Z -> Z -> Z -> option nat)
         (vsri : Z -> Z -> NP -> list D -> Z -> D -> option bool) (mverify : MP -> T -> D -> bool)
         (g : gproof D NP MP) (root : T) (com : C),
  verify_gen D C T NP MP t_empty c_empty c_eqb hfb width_of leaf_ranges vsri mverify g root com =
  cverify (observe D C T NP MP t_empty c_empty c_eqb hfb width_of leaf_ranges vsri mverify g root com).
Proof. exact verify_gen_observe. Qed.
Print Assumptions C12_commitment_model_agree.

(** * Binary Merkle proofs (row roots -> data root, tuples -> tuple root) *)

(** a produced proof verifies for the item it was produced for ... *)
Theorem C12_merkle_roundtrip : forall (A : Type) (items : list A) (i : nat) (p : mproof A),
  proof_of items i = Some p -> exists x, nth_error items i = Some x /\ verifies p (hash_from_slices items) x.
Proof. exact @proof_roundtrip. Qed.
Print Assumptions C12_merkle_roundtrip.

(** ... and a verifying proof (whose total is the number of items) pins the item at the claimed index *)
Theorem C12_merkle_sound : forall (A : Type) (items : list A) (p : mproof A) (x : A),
  mp_total p = Z.of_nat (length items) -> verifies p (hash_from_slices items) x ->
  0 <= mp_index p < mp_total p /\ nth_error items (Z.to_nat (mp_index p)) = Some x.
Proof. exact @verify_sound. Qed.
Print Assumptions C12_merkle_sound.

(** * Data-root tuples *)

(** range and request validation accept exactly the ranges inside the chain, within the block limit *)
Theorem C12_tuple_range_checks : forall start end_ head height,
  (validate_range start end_ head = true <->
   exists h, head = Some h /\ start <> 0 /\ start < end_ /\ end_ - start <= blocks_limit /\ end_ <= h + 1) /\
  (validate_request height start end_ head = true <-> validate_range start end_ head = true /\ start <= height < end_).
Proof. exact tuple_range_checks. Qed.
Print Assumptions C12_tuple_range_checks.

(** the encoding is the 32-byte big-endian height followed by the data root, and determines both *)
Theorem C12_tuple_encoding : forall h r h' r' t,
  0 <= h < 2 ^ 64 -> 0 <= h' < 2 ^ 64 ->
  encode_tuple h r = Some t -> encode_tuple h' r' = Some t ->
  h = h' /\ r = r' /\ t = be 32 h ++ r.
Proof. exact tuple_encoding. Qed.
Print Assumptions C12_tuple_encoding.

(** for every valid request over an available chain the node produces a proof and a root, and the proof verifies
    against that root for the tuple of exactly the requested height (one-block ranges included) *)
Theorem C12_tuple_proof_roundtrip : forall (data_root : Z -> option (list Z)) height start end_ head,
  validate_request height start end_ head = true -> chain_ok data_root start end_ ->
  exists p root t,
    tuple_proof data_root height start end_ head = Some p /\
    tuple_root data_root start end_ head = Some root /\
    tuple_at data_root height = Some t /\ verifies p root t /\
    mp_total p = end_ - start /\ mp_index p = height - start.
Proof. exact tuple_proof_roundtrip. Qed.
Print Assumptions C12_tuple_proof_roundtrip.

(** whatever verifies against the tuple root of a range at an index is the tuple of height start + index: it names that
    height and that header's data root and nothing else *)
Theorem C12_tuple_proof_sound : forall (data_root : Z -> option (list Z)) start end_ head root (p : mproof (list Z)) t h r,
  chain_ok data_root start end_ ->
  tuple_root data_root start end_ head = Some root -> mp_total p = end_ - start -> verifies p root t ->
  0 <= h < 2 ^ 64 -> encode_tuple h r = Some t ->
  h = start + mp_index p /\ start <= h < end_ /\ data_root h = Some r.
Proof. exact tuple_proof_sound_full. Qed.
Print Assumptions C12_tuple_proof_sound.

(** * Non-vacuity *)
Theorem C12_nonvacuous :
  (proof_equal [Some ex_np; None] [Some ex_np; None] = ROk /\
   range_verify [1; 2; 3]%N (Some (mkSP [1; 2; 3]%N false true)) = ROk /\
   included (Some [Some ex_np]) (Some [Some ex_np]) = IncYes /\ included None (Some [Some ex_np]) = IncNo) /\
  (validate_request 7 3 10 (Some 12) = true /\ chain_ok ex_root 3 10) /\
  (validate_request 5 5 6 (Some 12) = true /\ tuple_root ex_root 5 6 (Some 12) <> None /\ tuple_proof ex_root 5 5 6 (Some 12) <> None) /\
  (ex_verify ex_g 55 61 = ROk /\ ex_verify ex_g 55 62 = RErr).
Proof. exact c12_nonvacuous. Qed.

(** C20 — blob subscriptions deliver every block once, in order, with the right blobs.
    Property theorems only; each is closed by [exact] of a lemma proved in Blob/SubscribeProofs.v.

    Model (Blob/Subscribe.v): the producer goroutine of blob.Service.Subscribe and its consumer as a labelled transition
    system at channel granularity.  Events: [Header h] (the unbuffered feed hands h over), [GetAllFail] / [GetAllOk] (the
    retrieval in flight returns), [Send], [Tick] (a Done / closed-feed case of a select fires), [Consume], [Cancel],
    [StopService], [FeedClose].  A header is (height, ids of the namespace's blobs at that height) and the response owed for
    it is that same pair.  [step true] is the code with fix-c20-1, [step false] the code before it.
    Ghost fields: [s_deliv] headers received from the feed, [s_emit] responses sent, [s_cons] responses read.

    Model of the feed (Blob/Feed.v): the forwarder goroutine of Service.Subscribe in nodebuilder/header/service.go, which
    nodebuilder/blob wires into the blob service: [FNext] (subscription.NextHeader returns the oldest ready item of the
    source: a header or an error), [FRecv] (the blocking send on the unbuffered channel meets a receive), [FTick] (the
    cancelled context is noticed), [FPublish h] / [FPublishErr] (the source makes a header / an error ready), [FCancel].
    Ghost fields: [f_pub] headers the source made ready, [f_taken] headers NextHeader handed out, [f_sent] headers sent.
    Composition [cstep]: both goroutines under the subscriber's context; [Handoff] = FRecv + Header h, possible only
    while the producer is in its outer select; the forwarder's deferred close is the producer's FeedClose. *)
From Coq Require Import List ZArith.
From CN Require Import Base.Lts Blob.Subscribe Blob.SubscribeProofs Blob.Feed Blob.FeedProofs.
Import ListNotations.

(** 1. EVERY BLOCK ONCE, IN ORDER, WITH THE RIGHT BLOBS.  For every event sequence (every header sequence, failure pattern,
    consumer pace, cancel / stop / feed close anywhere): the responses sent are exactly the responses owed for the headers
    received, in feed order - no gap, no duplicate, no reordering - with at most the newest header still unanswered; a
    failing retrieval keeps the producer on that height (it is in flight until answered); what the consumer has read plus
    what is buffered is what was sent, and at most 16 responses are buffered. *)
Theorem C20_prefix_inv : forall (fixed : bool) (es : list event),
  let s := run (step fixed) init es in
  (exists rest, s_deliv s = s_emit s ++ rest /\ (length rest <= 1)%nat) /\
  (s_pc s = Idle -> s_emit s = s_deliv s) /\
  (forall h, s_pc s = Retry h \/ s_pc s = Sending h -> s_deliv s = s_emit s ++ [h]) /\
  s_emit s = s_cons s ++ s_queue s /\ (length (s_queue s) <= cap)%nat.
Proof. exact prefix_inv. Qed.
Print Assumptions C20_prefix_inv.

(** the blocking send of the code never blocks: after the overflow test there is room *)
Theorem C20_send_never_blocks : forall fixed es h,
  s_pc (run (step fixed) init es) = Sending h -> (length (s_queue (run (step fixed) init es)) < cap)%nat.
Proof. exact send_never_blocks. Qed.
Print Assumptions C20_send_never_blocks.

(** 2. THE STREAM CLOSES ONLY WHEN the subscriber cancelled, the service stopped, the feed closed, or a header arrived while
    a full buffer of 16 responses was unread; and a closed stream stays closed and sends nothing. *)
Theorem C20_closes_only_when : forall fixed s e,
  is_closed s = false -> is_closed (step fixed s e) = true ->
  s_cancel s = true \/ s_stop s = true \/ s_fclosed s = true \/
  (length (s_queue s) = cap /\ exists h, e = Header h).
Proof. exact closes_only_when. Qed.
Print Assumptions C20_closes_only_when.

Theorem C20_closed_final : forall fixed s e,
  is_closed s = true -> is_closed (step fixed s e) = true /\ s_emit (step fixed s e) = s_emit s.
Proof. exact closed_final. Qed.
Print Assumptions C20_closed_final.

(** 3. PROMPT END.  [prod_steps fixed countfail s es] counts the steps the producer goroutine itself takes along es
    (with [countfail = false]: failing retrievals not counted).
    After the subscriber cancelled: closed after at most two producer steps, from every state, whatever the retrieval does. *)
Theorem C20_prompt_end_cancel : forall fixed s es,
  s_cancel s = true -> (2 <= prod_steps fixed true s es)%nat -> is_closed (run (step fixed) s es) = true.
Proof. exact prompt_end_cancel. Qed.
Print Assumptions C20_prompt_end_cancel.

(** After the service stopped: the same (with the fix). *)
Theorem C20_prompt_end_stop : forall s es,
  s_stop s = true -> (2 <= prod_steps true true s es)%nat -> is_closed (run (step true) s es) = true.
Proof. exact prompt_end_stop. Qed.
Print Assumptions C20_prompt_end_stop.

(** Before the fix this fails: a header is in flight, the service stops, the retrieval keeps failing - after any number n
    of producer steps the goroutine is still retrying that height. *)
Theorem C20_prompt_end_stop_before_fix_refuted :
  exists s h, s_stop s = true /\
    forall n, s_pc (run (step false) s (repeat GetAllFail n)) = Retry h /\ prod_steps false true s (repeat GetAllFail n) = n.
Proof.
  exists (run (step false) init [Header (1%Z, []); StopService]), (1%Z, []).
  split; [reflexivity|]. intros n. exact (proj2 (stop_ignored_before_fix (1%Z, []) n)).
Qed.
Print Assumptions C20_prompt_end_stop_before_fix_refuted.

(** After the feed closed: closed after at most three producer steps that are not failing retrievals - a height already taken
    from the feed is still retried and answered (never skipped), then the closed feed is seen. *)
Theorem C20_prompt_end_feedclose : forall fixed s es,
  s_fclosed s = true -> (3 <= prod_steps fixed false s es)%nat -> is_closed (run (step fixed) s es) = true.
Proof. exact prompt_end_feedclose. Qed.
Print Assumptions C20_prompt_end_feedclose.

(** non-vacuity: retried failures, a lagging consumer and a cancel during a retrieval; a stalled consumer closed by the 17th
    header with 16 responses still readable; stop during a failing retrieval with and without the fix *)
Theorem C20_nonvacuous :
  (let s := run (step true) init [Header (ex_h 1); GetAllFail; GetAllFail; GetAllOk; Send; Header (ex_h 2); GetAllOk; Send; Consume;
                                  Header (ex_h 3); GetAllFail; Cancel; GetAllFail] in
   s_emit s = [ex_h 1; ex_h 2] /\ s_cons s = [ex_h 1] /\ s_deliv s = [ex_h 1; ex_h 2; ex_h 3] /\ is_closed s = true) /\
  (let hs := map (fun n => ex_h (Z.of_nat n)) (seq 1 17) in
   let s := run (step true) init (flat_map (fun h => [Header h; GetAllOk; Send]) hs) in
   is_closed s = true /\ length (s_emit s) = 16%nat /\ length (s_deliv s) = 17%nat /\ s_cancel s = false /\ s_stop s = false) /\
  (is_closed (run (step true) init [Header (ex_h 1); StopService; GetAllFail]) = true /\
   is_closed (run (step false) init [Header (ex_h 1); StopService; GetAllFail; GetAllFail; GetAllFail]) = false).
Proof. exact (conj ex_cancel (conj ex_overflow ex_stop)). Qed.
Print Assumptions C20_nonvacuous.

(** 4. THE HEADER FEED (sections 1-3 take the headers as they arrive at the producer; this section is about how they get
    there).  For every event sequence of the forwarder - every pace of the source and of the reader, cancel or source error
    anywhere: what it has sent is a prefix of what NextHeader gave it, in order, nothing dropped, nothing repeated; it has at
    most one header in hand (none while it waits in NextHeader); and every header the source made ready is sent, in hand, or
    still ready in the source. *)
Theorem C20_feed_prefix_inv : forall (es : list fevent),
  let f := run fstep finit es in
  exists hand,
    f_taken f = f_sent f ++ hand /\ (length hand <= 1)%nat /\
    (f_pc f = FWait -> hand = []) /\ (forall h, f_pc f = FHold h -> hand = [h]) /\
    f_pub f = f_sent f ++ hand ++ hdrs (f_src f).
Proof. exact feed_prefix_inv. Qed.
Print Assumptions C20_feed_prefix_inv.

Theorem C20_feed_lossless_while_open : forall (es : list fevent),
  let f := run fstep finit es in
  is_fclosed f = false -> f_pub f = f_sent f ++ in_hand f ++ hdrs (f_src f).
Proof. exact feed_lossless_while_open. Qed.
Print Assumptions C20_feed_lossless_while_open.

(** the feed closes only when its context is cancelled or the source subscription returns an error; closed is final *)
Theorem C20_feed_closes_only_when : forall f e,
  is_fclosed f = false -> is_fclosed (fstep f e) = true ->
  f_cancel f = true \/ (e = FNext /\ exists r, f_src f = SErr :: r).
Proof. exact feed_closes_only_when. Qed.
Print Assumptions C20_feed_closes_only_when.

Theorem C20_feed_closed_final : forall f e,
  is_fclosed f = true -> is_fclosed (fstep f e) = true /\ f_sent (fstep f e) = f_sent f.
Proof. exact feed_closed_final. Qed.
Print Assumptions C20_feed_closed_final.

(** 5. END TO END: the real feed wired into the subscription.  The producer/consumer part of every run of the composition
    is a run of the subscription LTS, so sections 1-3 hold for it as they stand. *)
Theorem C20_e2e_projection : forall fixed (es : list cevent),
  exists bes, c_blob (run (cstep fixed) cinit es) = run (step fixed) init bes.
Proof. exact e2e_projection. Qed.
Print Assumptions C20_e2e_projection.

(** EVERY BLOCK OF THE SOURCE ONCE, IN ORDER (prefix_inv lifted through the feed): for every event sequence of the
    composition the responses sent are the responses owed for the headers the SOURCE made ready, in source order; every
    header of the source is answered, or is the one the producer is working on, or the one in the forwarder's hand, or is
    still ready in the source, in this order - no height in between is skipped, repeated or reordered, however long a
    retrieval stalls and however far the source runs ahead. *)
Theorem C20_e2e_prefix_inv : forall fixed (es : list cevent),
  let c := run (cstep fixed) cinit es in
  let f := c_feed c in
  let b := c_blob c in
  exists work hand,
    f_pub f = s_emit b ++ work ++ hand ++ hdrs (f_src f) /\
    f_taken f = s_emit b ++ work ++ hand /\
    s_deliv b = s_emit b ++ work /\
    (length work <= 1)%nat /\ (length hand <= 1)%nat /\
    (s_pc b = Idle -> work = []) /\ (forall h, s_pc b = Retry h \/ s_pc b = Sending h -> work = [h]) /\
    (f_pc f = FWait -> hand = []) /\ (forall h, f_pc f = FHold h -> hand = [h]) /\
    s_emit b = s_cons b ++ s_queue b /\ (length (s_queue b) <= cap)%nat.
Proof. exact e2e_prefix_inv. Qed.
Print Assumptions C20_e2e_prefix_inv.

Theorem C20_e2e_all_answered : forall fixed (es : list cevent),
  let c := run (cstep fixed) cinit es in
  s_pc (c_blob c) = Idle -> f_pc (c_feed c) = FWait -> f_src (c_feed c) = [] ->
  s_emit (c_blob c) = f_pub (c_feed c).
Proof. exact e2e_all_answered. Qed.
Print Assumptions C20_e2e_all_answered.

(** the stream of the composition closes only when the subscriber cancelled, the service stopped, the source subscription
    returned an error, or a header was handed over while 16 responses were unread *)
Theorem C20_e2e_closes_only_when : forall fixed (es : list cevent) e,
  let c := run (cstep fixed) cinit es in
  is_closed (c_blob c) = false -> is_closed (c_blob (cstep fixed c e)) = true ->
  s_cancel (c_blob c) = true \/ s_stop (c_blob c) = true \/ f_err (c_feed c) = true \/
  (length (s_queue (c_blob c)) = cap /\ e = Handoff).
Proof. exact e2e_closes_only_when. Qed.
Print Assumptions C20_e2e_closes_only_when.

(** non-vacuity: a reader 24 headers behind the feed receives all 25 in order; the long outage (a retrieval failing 30 times
    while the chain produces 24 more headers: producer stuck on height 1, forwarder holding height 2, 3..25 waiting in the
    source) after which all 25 heights are answered in order; a source error during a failing retrieval; a cancel *)
Theorem C20_feed_nonvacuous :
  (let f := run fstep finit (map FPublish (fhs 1 25) ++ [FNext]) in
   f_sent f = [] /\ f_taken f = [fh 1] /\ length (hdrs (f_src f)) = 24%nat /\
   f_sent (run fstep f (flat_map (fun _ => [FRecv; FNext]) (seq 1 25))) = fhs 1 25) /\
  (let c := run (cstep true) cinit
              ([Publish (fh 1); Next; Handoff] ++ map Publish (fhs 2 24) ++ [Next] ++ repeat (B GetAllFail) 30) in
   s_pc (c_blob c) = Retry (fh 1) /\ f_pc (c_feed c) = FHold (fh 2) /\ hdrs (f_src (c_feed c)) = fhs 3 23 /\
   s_emit (c_blob c) = [] /\
   let c' := run (cstep true) c (flat_map (fun _ => [B GetAllOk; B Send; B Consume; Handoff; Next]) (seq 1 25)) in
   s_emit (c_blob c') = fhs 1 25 /\ s_cons (c_blob c') = fhs 1 25 /\ f_pub (c_feed c') = fhs 1 25 /\
   is_closed (c_blob c') = false /\ is_fclosed (c_feed c') = false) /\
  ((let c := run (cstep true) cinit [Publish (fh 1); Next; Handoff; PublishErr; Next; B GetAllFail; B GetAllOk; B Send; B Tick] in
    s_emit (c_blob c) = [fh 1] /\ is_closed (c_blob c) = true /\ is_fclosed (c_feed c) = true /\ f_err (c_feed c) = true /\
    s_cancel (c_blob c) = false) /\
   (let c := run (cstep true) cinit [Publish (fh 1); Next; Handoff; Publish (fh 2); Next; CancelCtx; FeedTick; B GetAllOk] in
    s_emit (c_blob c) = [] /\ is_closed (c_blob c) = true /\ is_fclosed (c_feed c) = true /\ f_err (c_feed c) = false /\
    f_taken (c_feed c) = [fh 1; fh 2])).
Proof. exact (conj ex_feed_slow_reader (conj ex_long_outage ex_source_error_and_cancel)). Qed.
Print Assumptions C20_feed_nonvacuous.

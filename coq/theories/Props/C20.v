(** C20 — blob subscriptions deliver every block once, in order, with the right blobs.
    Property theorems only; each is closed by [exact] of a lemma proved in Blob/SubscribeProofs.v.

    Model (Blob/Subscribe.v): the producer goroutine of blob.Service.Subscribe and its consumer as a labelled transition
    system at channel granularity.  Events: [Header h] (the unbuffered feed hands h over), [GetAllFail] / [GetAllOk] (the
    retrieval in flight returns), [Send], [Tick] (a Done / closed-feed case of a select fires), [Consume], [Cancel],
    [StopService], [FeedClose].  A header is (height, ids of the namespace's blobs at that height) and the response owed for
    it is that same pair.  [step true] is the code with fix-c20-1, [step false] the code before it.
    Ghost fields: [s_deliv] headers received from the feed, [s_emit] responses sent, [s_cons] responses read. *)
From Coq Require Import List ZArith.
From CN Require Import Base.Lts Blob.Subscribe Blob.SubscribeProofs.
Import ListNotations.

(** 1. EVERY BLOCK ONCE, IN ORDER, WITH THE RIGHT BLOBS.  For every event sequence (every header sequence, failure pattern,
    consumer pace, cancel / stop / feed close anywhere): the responses sent are exactly the responses owed for the headers
    received, in feed order - no gap, no duplicate, no reordering - with at most the newest header still unanswered; a
    failing retrieval keeps the producer on that height (it is in flight until answered); what the consumer has read plus
    what is buffered is what was sent, and at most 16 responses are buffered. *)
Theorem C20_prefix_inv : forall (fixed : bool) (es : list event),
  let s := run (step fixed) init es in
  (exists rest, s_deliv s = s_emit s ++ rest /\ (length rest <= 1)%nat) /\
  (s_pc s = Idle -> s_emit s = s_deliv s) /\
  (forall h, s_pc s = Retry h \/ s_pc s = Sending h -> s_deliv s = s_emit s ++ [h]) /\
  s_emit s = s_cons s ++ s_queue s /\ (length (s_queue s) <= cap)%nat.
Proof. exact prefix_inv. Qed.
Print Assumptions C20_prefix_inv.

(** the blocking send of the code never blocks: after the overflow test there is room *)
Theorem C20_send_never_blocks : forall fixed es h,
  s_pc (run (step fixed) init es) = Sending h -> (length (s_queue (run (step fixed) init es)) < cap)%nat.
Proof. exact send_never_blocks. Qed.
Print Assumptions C20_send_never_blocks.

(** 2. THE STREAM CLOSES ONLY WHEN the subscriber cancelled, the service stopped, the feed closed, or a header arrived while
    a full buffer of 16 responses was unread; and a closed stream stays closed and sends nothing. *)
Theorem C20_closes_only_when : forall fixed s e,
  is_closed s = false -> is_closed (step fixed s e) = true ->
  s_cancel s = true \/ s_stop s = true \/ s_fclosed s = true \/
  (length (s_queue s) = cap /\ exists h, e = Header h).
Proof. exact closes_only_when. Qed.
Print Assumptions C20_closes_only_when.

Theorem C20_closed_final : forall fixed s e,
  is_closed s = true -> is_closed (step fixed s e) = true /\ s_emit (step fixed s e) = s_emit s.
Proof. exact closed_final. Qed.
Print Assumptions C20_closed_final.

(** 3. PROMPT END.  [prod_steps fixed countfail s es] counts the steps the producer goroutine itself takes along es
    (with [countfail = false]: failing retrievals not counted).
    After the subscriber cancelled: closed after at most two producer steps, from every state, whatever the retrieval does. *)
Theorem C20_prompt_end_cancel : forall fixed s es,
  s_cancel s = true -> (2 <= prod_steps fixed true s es)%nat -> is_closed (run (step fixed) s es) = true.
Proof. exact prompt_end_cancel. Qed.
Print Assumptions C20_prompt_end_cancel.

(** After the service stopped: the same (with the fix). *)
Theorem C20_prompt_end_stop : forall s es,
  s_stop s = true -> (2 <= prod_steps true true s es)%nat -> is_closed (run (step true) s es) = true.
Proof. exact prompt_end_stop. Qed.
Print Assumptions C20_prompt_end_stop.

(** Before the fix this fails: a header is in flight, the service stops, the retrieval keeps failing - after any number n
    of producer steps the goroutine is still retrying that height. *)
Theorem C20_prompt_end_stop_before_fix_refuted :
  exists s h, s_stop s = true /\
    forall n, s_pc (run (step false) s (repeat GetAllFail n)) = Retry h /\ prod_steps false true s (repeat GetAllFail n) = n.
Proof.
  exists (run (step false) init [Header (1%Z, []); StopService]), (1%Z, []).
  split; [reflexivity|]. intros n. exact (proj2 (stop_ignored_before_fix (1%Z, []) n)).
Qed.
Print Assumptions C20_prompt_end_stop_before_fix_refuted.

(** After the feed closed: closed after at most three producer steps that are not failing retrievals - a height already taken
    from the feed is still retried and answered (never skipped), then the closed feed is seen. *)
Theorem C20_prompt_end_feedclose : forall fixed s es,
  s_fclosed s = true -> (3 <= prod_steps fixed false s es)%nat -> is_closed (run (step fixed) s es) = true.
Proof. exact prompt_end_feedclose. Qed.
Print Assumptions C20_prompt_end_feedclose.

(** non-vacuity: retried failures, a lagging consumer and a cancel during a retrieval; a stalled consumer closed by the 17th
    header with 16 responses still readable; stop during a failing retrieval with and without the fix *)
Theorem C20_nonvacuous :
  (let s := run (step true) init [Header (ex_h 1); GetAllFail; GetAllFail; GetAllOk; Send; Header (ex_h 2); GetAllOk; Send; Consume;
                                  Header (ex_h 3); GetAllFail; Cancel; GetAllFail] in
   s_emit s = [ex_h 1; ex_h 2] /\ s_cons s = [ex_h 1] /\ s_deliv s = [ex_h 1; ex_h 2; ex_h 3] /\ is_closed s = true) /\
  (let hs := map (fun n => ex_h (Z.of_nat n)) (seq 1 17) in
   let s := run (step true) init (flat_map (fun h => [Header h; GetAllOk; Send]) hs) in
   is_closed s = true /\ length (s_emit s) = 16%nat /\ length (s_deliv s) = 17%nat /\ s_cancel s = false /\ s_stop s = false) /\
  (is_closed (run (step true) init [Header (ex_h 1); StopService; GetAllFail]) = true /\
   is_closed (run (step false) init [Header (ex_h 1); StopService; GetAllFail; GetAllFail; GetAllFail]) = false).
Proof. exact (conj ex_cancel (conj ex_overflow ex_stop)). Qed.
Print Assumptions C20_nonvacuous.

(** Theorems about the identifier model (Ids.v): round trip, position-in-square, canonical decoding,
    and the 16-bit truncation of the V0 range encoding. *)
From Coq Require Import List ZArith Lia Bool.
From CN Require Import Base.Bytes Shwap.Ids.
Import ListNotations.
Open Scope Z_scope.

Lemma slice_0 {n} (x y : list Z) : length x = n -> slice (x ++ y) 0 n = x.
Proof. intros H. unfold slice. cbn [skipn]. apply firstn_app_exact; exact H. Qed.

Lemma slice_skip {n} m (x y : list Z) : length x = n -> slice (x ++ y) n m = firstn m y.
Proof. intros H. unfold slice. rewrite skipn_app_exact by exact H. reflexivity. Qed.

Lemma slice_skip2 {n1 n2} m (x y z : list Z) :
  length x = n1 -> length y = n2 -> slice (x ++ y ++ z) (n1 + n2) m = firstn m z.
Proof.
  intros H1 H2. rewrite app_assoc. apply slice_skip. rewrite app_length. lia.
Qed.

Lemma firstn_exact (x : list Z) n : length x = n -> firstn n x = x.
Proof. intros <-. apply firstn_all. Qed.

Lemma firstn_app_l (x y : list Z) n : length x = n -> firstn n (x ++ y) = x.
Proof. apply firstn_app_exact. Qed.

Definition height_ok (i : id) : Prop := 0 <= h i < 18446744073709551616.

Lemma pow64 : 256 ^ Z.of_nat 8 = 18446744073709551616. Proof. reflexivity. Qed.
Lemma pow16 : 256 ^ Z.of_nat 2 = 65536. Proof. reflexivity. Qed.
Lemma pow32 : 256 ^ Z.of_nat 4 = 4294967296. Proof. reflexivity. Qed.

Lemma unbe_h x : 0 <= x < 18446744073709551616 -> unbe (be 8 x) = x.
Proof. intros H. apply be_small. rewrite pow64. exact H. Qed.
Lemma unbe_16 x : 0 <= x < 65536 -> unbe (be 2 x) = x.
Proof. intros H. apply be_small. rewrite pow16. exact H. Qed.
Lemma unbe_32 x : 0 <= x < 4294967296 -> unbe (be 4 x) = x.
Proof. intros H. apply be_small. rewrite pow32. exact H. Qed.

Lemma ns_valid_length n : ns_valid n = true -> length n = 29%nat.
Proof.
  unfold ns_valid. intros H. apply andb_true_iff in H as [H _]. apply andb_true_iff in H as [H _].
  apply Nat.eqb_eq in H. exact H.
Qed.

Lemma ns_valid_for_data_valid n : ns_valid_for_data n = true -> ns_valid n = true.
Proof.
  unfold ns_valid_for_data. intros H. apply andb_true_iff in H as [H _]. apply andb_true_iff in H as [H _]. exact H.
Qed.

(** the bound a square width must satisfy for the index fields to fit their encodings *)
Definition size_ok (k : kind) (sz : Z) : Prop :=
  match k with
  | KEds | KNd => True
  | KRow | KSample | KRnd => 0 < sz <= 2 * max_ods          (* EDS width *)
  | KRange => 0 < sz <= max_ods                             (* ODS width: sz*sz <= 262144 < 2^32 *)
  | KRangeV0 => 0 < sz <= max_ods                           (* the constructor itself refuses To > 65535 *)
  end.

Ltac btrue :=
  repeat match goal with
  | H : _ && _ = true |- _ => apply andb_true_iff in H as [? ?]
  | H : negb _ = true |- _ => apply negb_true_iff in H
  | H : (_ <=? _) = true |- _ => apply Z.leb_le in H
  | H : (_ <? _) = true |- _ => apply Z.ltb_lt in H
  | H : (_ =? _) = false |- _ => apply Z.eqb_neq in H
  | H : (_ =? _) = true |- _ => apply Z.eqb_eq in H
  end.

(** ** Round trip: what a constructor accepts decodes back to an equal value *)
Theorem id_roundtrip k sz i j :
  height_ok i -> size_ok k sz -> new k sz i = Some j -> dec k (enc k j) = Some j.
Proof.
  unfold new. intros Hh Hs Hn. destruct (verify k sz i && fits_encoding k i) eqn:Hv0; [|discriminate].
  apply andb_true_iff in Hv0 as [Hv Hfit]. inversion Hn; subst j; clear Hn.
  unfold height_ok in Hh. unfold max_ods in *.
  destruct k; cbn [canon enc size_ok] in *; unfold max_ods in *; unfold verify, validate in Hv; btrue;
    unfold dec; cbn [size h a b nsb].
  - (* Eds *)
    rewrite be_length. cbn [Nat.eqb negb].
    unfold slice. cbn [skipn]. rewrite (firstn_exact _ 8) by apply be_length.
    rewrite unbe_h by lia. destruct (h i =? 0) eqn:E; [btrue; lia|]. reflexivity.
  - (* Row *)
    rewrite app_length, !be_length. cbn [Nat.add Nat.eqb negb].
    rewrite (slice_0 (n:=8)) by apply be_length. rewrite unbe_h by lia.
    destruct (h i =? 0) eqn:E; [btrue; lia|].
    rewrite (slice_skip (n:=8)) by apply be_length. rewrite (firstn_exact _ 2) by apply be_length.
    rewrite unbe_16 by lia. reflexivity.
  - (* Sample *)
    rewrite !app_length, !be_length. cbn [Nat.add Nat.eqb negb].
    rewrite (slice_0 (n:=8)) by apply be_length. rewrite unbe_h by lia.
    destruct (h i =? 0) eqn:E; [btrue; lia|].
    rewrite (slice_skip (n:=8)) by apply be_length. rewrite (firstn_app_l _ _ 2) by apply be_length.
    change 10%nat with (8 + 2)%nat. rewrite (slice_skip2 (n1:=8) (n2:=2)) by apply be_length.
    rewrite (firstn_exact _ 2) by apply be_length.
    rewrite !unbe_16 by lia. reflexivity.
  - (* Nd *)
    match goal with H : ns_valid_for_data _ = true |- _ => pose proof (ns_valid_for_data_valid _ H) as Hnv end.
    pose proof (ns_valid_length _ Hnv) as Hl.
    rewrite app_length, be_length, Hl. cbn [Nat.add Nat.eqb negb].
    rewrite (slice_0 (n:=8)) by apply be_length. rewrite unbe_h by lia.
    destruct (h i =? 0) eqn:E; [btrue; lia|].
    rewrite (slice_skip (n:=8)) by apply be_length. rewrite (firstn_exact _ 29) by exact Hl.
    rewrite Hnv. match goal with H : ns_valid_for_data _ = true |- _ => rewrite H end. reflexivity.
  - (* Rnd *)
    match goal with H : ns_valid_for_data _ = true |- _ => pose proof (ns_valid_for_data_valid _ H) as Hnv end.
    pose proof (ns_valid_length _ Hnv) as Hl.
    rewrite !app_length, !be_length, Hl. cbn [Nat.add Nat.eqb negb].
    rewrite (slice_0 (n:=8)) by apply be_length. rewrite unbe_h by lia.
    destruct (h i =? 0) eqn:E; [btrue; lia|].
    rewrite (slice_skip (n:=8)) by apply be_length. rewrite (firstn_app_l _ _ 2) by apply be_length.
    change 10%nat with (8 + 2)%nat. rewrite (slice_skip2 (n1:=8) (n2:=2)) by apply be_length.
    rewrite (firstn_exact _ 29) by exact Hl.
    rewrite Hnv. rewrite unbe_16 by lia. unfold validate. cbn [h a nsb]. rewrite E.
    replace (0 <=? a i) with true by (symmetry; apply Z.leb_le; lia).
    match goal with H : ns_valid_for_data _ = true |- _ => rewrite H end. reflexivity.
  - (* Range *)
    rewrite !app_length, !be_length. cbn [Nat.add Nat.eqb negb].
    rewrite (slice_0 (n:=8)) by apply be_length. rewrite unbe_h by lia.
    destruct (h i =? 0) eqn:E; [btrue; lia|].
    rewrite (slice_skip (n:=8)) by apply be_length. rewrite (firstn_app_l _ _ 4) by apply be_length.
    change 12%nat with (8 + 4)%nat. rewrite (slice_skip2 (n1:=8) (n2:=4)) by apply be_length.
    rewrite (firstn_exact _ 4) by apply be_length.
    assert (sz * sz <= 512 * 512) by nia.
    rewrite !unbe_32 by lia.
    unfold validate. cbn [h a b].
    replace (h i =? 0) with false by (symmetry; apply Z.eqb_neq; lia).
    replace (0 <=? a i) with true by (symmetry; apply Z.leb_le; lia).
    replace (0 <? b i) with true by (symmetry; apply Z.ltb_lt; lia).
    replace (a i <? b i) with true by (symmetry; apply Z.ltb_lt; lia).
    reflexivity.
  - (* RangeV0: the constructor's own 16-bit guard bounds both fields *)
    cbn [fits_encoding] in Hfit. btrue.
    rewrite !app_length, !be_length. cbn [Nat.add Nat.eqb negb].
    rewrite (slice_0 (n:=8)) by apply be_length. rewrite unbe_h by lia.
    destruct (h i =? 0) eqn:E; [btrue; lia|].
    rewrite (slice_skip (n:=8)) by apply be_length. rewrite (firstn_app_l _ _ 2) by apply be_length.
    change 10%nat with (8 + 2)%nat. rewrite (slice_skip2 (n1:=8) (n2:=2)) by apply be_length.
    rewrite (firstn_exact _ 2) by apply be_length.
    rewrite !unbe_16 by lia.
    unfold validate. cbn [h a b].
    replace (h i =? 0) with false by (symmetry; apply Z.eqb_neq; lia).
    replace (0 <=? a i) with true by (symmetry; apply Z.leb_le; lia).
    replace (0 <? b i) with true by (symmetry; apply Z.ltb_lt; lia).
    replace (a i <? b i) with true by (symmetry; apply Z.ltb_lt; lia).
    reflexivity.
Qed.

(** ** An identifier accepted for a square addresses a position inside it *)
Definition in_square (k : kind) (sz : Z) (i : id) : Prop :=
  match k with
  | KEds | KNd => h i <> 0
  | KRow | KRnd => h i <> 0 /\ 0 <= a i < sz
  | KSample => h i <> 0 /\ 0 <= a i < sz /\ 0 <= b i < sz
  | KRange | KRangeV0 => h i <> 0 /\ 0 <= a i /\ a i < b i /\ b i <= sz * sz
  end.

Theorem verify_in_square k sz i : verify k sz i = true -> in_square k sz i.
Proof.
  destruct k; unfold verify, validate, in_square; intros H; btrue; repeat split; try lia.
Qed.

(** ** Decoders: wrong length is refused; what is accepted is canonical (re-encodes to the same bytes) *)
Theorem dec_wrong_length k bs : length bs <> size k -> dec k bs = None.
Proof.
  intros H. unfold dec. destruct (Nat.eqb (length bs) (size k)) eqn:E; [apply Nat.eqb_eq in E; contradiction|reflexivity].
Qed.

Lemma split3 (bs : list Z) n1 n2 n3 :
  length bs = (n1 + n2 + n3)%nat -> bs = slice bs 0 n1 ++ slice bs n1 n2 ++ slice bs (n1 + n2) n3.
Proof.
  intros H. unfold slice. cbn [skipn].
  rewrite <- (firstn_skipn n1 bs) at 1. f_equal.
  rewrite <- (firstn_skipn n2 (skipn n1 bs)) at 1. f_equal.
  rewrite skipn_skipn_add. symmetry. apply firstn_all2. rewrite skipn_length. lia.
Qed.

Lemma slice_length bs from len : (from + len <= length bs)%nat -> length (slice bs from len) = len.
Proof. intros H. unfold slice. rewrite firstn_length, skipn_length. lia. Qed.

Lemma slice_ok bs from len : bytes_ok bs = true -> bytes_ok (slice bs from len) = true.
Proof. intros H. unfold slice. apply bytes_ok_firstn, bytes_ok_skipn, H. Qed.

Lemma be_unbe_slice bs from len :
  bytes_ok bs = true -> (from + len <= length bs)%nat -> be len (unbe (slice bs from len)) = slice bs from len.
Proof.
  intros Hok Hl. pose proof (slice_length bs from len Hl) as E.
  rewrite <- E at 1. apply be_unbe. apply slice_ok, Hok.
Qed.

Theorem dec_canonical k bs i :
  bytes_ok bs = true -> dec k bs = Some i -> enc k i = bs /\ length bs = size k /\ h i <> 0.
Proof.
  intros Hok. unfold dec.
  destruct (Nat.eqb (length bs) (size k)) eqn:El; cbn [negb]; [|discriminate]. apply Nat.eqb_eq in El.
  destruct (unbe (slice bs 0 8) =? 0) eqn:Eh; [discriminate|]. apply Z.eqb_neq in Eh.
  destruct k; cbn [size] in El.
  - intros H; inversion H; subst; clear H. cbn [enc h]. repeat split; try assumption.
    unfold w_height. rewrite be_unbe_slice by (try assumption; lia).
    unfold slice. cbn [skipn]. apply firstn_all2. lia.
  - intros H; inversion H; subst; clear H. cbn [enc h a]. repeat split; try assumption.
    unfold w_height, w_idx. rewrite !be_unbe_slice by (try assumption; lia).
    pose proof (split3 bs 8 2 0 ltac:(lia)) as S. unfold slice at 3 in S. cbn [firstn] in S.
    rewrite app_nil_r in S. symmetry. exact S.
  - intros H; inversion H; subst; clear H. cbn [enc h a b]. repeat split; try assumption.
    unfold w_height, w_idx. rewrite !be_unbe_slice by (try assumption; lia).
    symmetry. apply (split3 bs 8 2 2). lia.
  - destruct (ns_valid (slice bs 8 29) && ns_valid_for_data (slice bs 8 29)) eqn:En; [|discriminate].
    intros H; inversion H; subst; clear H. cbn [enc h nsb]. repeat split; try assumption.
    unfold w_height. rewrite !be_unbe_slice by (try assumption; lia).
    pose proof (split3 bs 8 29 0 ltac:(lia)) as S. unfold slice at 3 in S. cbn [firstn] in S.
    rewrite app_nil_r in S. symmetry. exact S.
  - destruct (ns_valid (slice bs 10 29) && validate KRnd _) eqn:En; [|discriminate].
    intros H; inversion H; subst; clear H. cbn [enc h a nsb]. repeat split; try assumption.
    unfold w_height, w_idx. rewrite !be_unbe_slice by (try assumption; lia).
    symmetry. apply (split3 bs 8 2 29). lia.
  - destruct (validate KRange _) eqn:Ev; [|discriminate].
    intros H; inversion H; subst; clear H. cbn [enc h a b]. repeat split; try assumption.
    unfold w_height, w_range. rewrite !be_unbe_slice by (try assumption; lia).
    symmetry. apply (split3 bs 8 4 4). lia.
  - destruct (validate KRange _) eqn:Ev; [|discriminate].
    intros H; inversion H; subst; clear H. cbn [enc h a b]. repeat split; try assumption.
    unfold w_height, w_range_v0. rewrite !be_unbe_slice by (try assumption; lia).
    symmetry. apply (split3 bs 8 2 2). lia.
Qed.

(** what a decoder accepts is a *valid* identifier;
the decoded integer fields are never negative when the input is a byte string *)
Theorem dec_validates k bs i :
  bytes_ok bs = true -> dec k bs = Some i -> validate k i = true.
Proof.
  intros Hok. unfold dec.
  destruct (Nat.eqb (length bs) (size k)) eqn:El; cbn [negb]; [|discriminate].
  destruct (unbe (slice bs 0 8) =? 0) eqn:Eh; [discriminate|].
  assert (Hpos : forall f l, 0 <= unbe (slice bs f l))
    by (intros f l; pose proof (unbe_range _ (slice_ok bs f l Hok)); lia).
  destruct k.
  - intros H; inversion H; subst. unfold validate. cbn [h]. rewrite Eh. reflexivity.
  - intros H; inversion H; subst. unfold validate. cbn [h a]. rewrite Eh.
    pose proof (Hpos 8%nat 2%nat). replace (0 <=? _) with true by (symmetry; apply Z.leb_le; lia). reflexivity.
  - intros H; inversion H; subst. unfold validate. cbn [h a b]. rewrite Eh.
    pose proof (Hpos 8%nat 2%nat). pose proof (Hpos 10%nat 2%nat).
    repeat replace (0 <=? _) with true by (symmetry; apply Z.leb_le; lia). reflexivity.
  - destruct (ns_valid (slice bs 8 29) && ns_valid_for_data (slice bs 8 29)) eqn:En; [|discriminate].
    intros H; inversion H; subst. unfold validate. cbn [h nsb]. rewrite Eh.
    apply andb_true_iff in En as [_ En]. rewrite En. reflexivity.
  - destruct (ns_valid (slice bs 10 29) && validate KRnd _) eqn:En; [|discriminate].
    intros H; inversion H; subst. apply andb_true_iff in En as [_ En]. exact En.
  - destruct (validate KRange _) eqn:Ev; [|discriminate].
    intros H; inversion H; subst. exact Ev.
  - destruct (validate KRange _) eqn:Ev; [|discriminate].
    intros H; inversion H; subst. exact Ev.
Qed.

(** ** No silent alteration: the encoding of an accepted identifier determines it *)
Theorem enc_injective k sz sz' i i' j j' :
  height_ok i -> height_ok i' -> size_ok k sz -> size_ok k sz' ->
  new k sz i = Some j -> new k sz' i' = Some j' -> enc k j = enc k j' -> j = j'.
Proof.
  intros Hi Hi' Hs Hs' Hn Hn' He.
  pose proof (id_roundtrip k sz i j Hi Hs Hn) as R.
  pose proof (id_roundtrip k sz' i' j' Hi' Hs' Hn') as R'.
  rewrite He in R. rewrite R in R'. inversion R'. reflexivity.
Qed.

(** ** The V0 range encoding carries 16-bit indices: the constructor refuses what does not fit (this was a
    silent truncation before the repair recorded in KNOWN_FINDINGS.txt: ODS 512, From = 65536 decoded as From = 0). *)
Theorem rangev0_refuses_overflow sz i : 65535 < b i -> new KRangeV0 sz i = None.
Proof.
  intros H. unfold new. cbn [fits_encoding]. replace (b i <=? 65535) with false by (symmetry; apply Z.leb_gt; lia).
  rewrite andb_false_r. reflexivity.
Qed.

(** non-vacuity: the hypotheses of [id_roundtrip] are met by real identifiers of every kind *)
Definition ns_example : list Z := 0 :: repeat 0 18 ++ [1;2;3;4;5;6;7;8;9;10].
Example roundtrip_nonvacuous :
  new KSample 1024 (mkid 7 1023 1023 []) <> None /\ new KRnd 4 (mkid 7 3 0 ns_example) <> None /\
  new KRange 512 (mkid 7 262143 262144 []) <> None /\ new KNd 0 (mkid 9 0 0 ns_example) <> None /\
  new KRangeV0 512 (mkid 7 65000 65535 []) <> None.
Proof. vm_compute. repeat split; discriminate. Qed.

(** Non-vacuity: a concrete 4x4 extended square (ODS 2x2) whose honest responses verify in the model and whose rows are
    well formed — the hypotheses of the C01/C02 theorems are met by real inputs. All by computation. *)
From Coq Require Import List Arith NArith Bool.
From CN Require Import Base.Nmt Base.NmtProofs Base.NmtComplete Shwap.Verify Shwap.VerifyProofs.
Import ListNotations.

Definition ex_cell (i j : nat) : share :=
  match i, j with
  | O, O => (10%N, 1%N) | O, S O => (10%N, 2%N) | S O, O => (10%N, 3%N) | S O, S O => (20%N, 4%N)
  | _, _ => (999%N, N.of_nat (100 + 4 * i + j))
  end.
Definition ex_dah := dah 2 ex_cell.

Definition ex_row_proof (i s e : nat) : proof :=
  mkproof s e (prove 2 0 s e (row_leaves 4 i (eds_row 2 ex_cell i))) None.
Definition ex_col_proof (j s e : nat) : proof :=
  mkproof s e (prove 2 0 s e (col_leaves 4 j (eds_col 2 ex_cell j))) None.

Example ex_rows_valid : forallb (fun i => validb (row_root 2 ex_cell i)) (seq 0 4) = true.
Proof. vm_compute. reflexivity. Qed.

Example ex_samples_verify :
  forallb (fun ij => sample_verify ex_dah (mksample (ex_cell (fst ij) (snd ij)) (Some (ex_row_proof (fst ij) (snd ij) (snd ij + 1))) 0) (fst ij) (snd ij)
                  && sample_verify ex_dah (mksample (ex_cell (fst ij) (snd ij)) (Some (ex_col_proof (snd ij) (fst ij) (fst ij + 1))) 1) (fst ij) (snd ij))
          (list_prod (seq 0 4) (seq 0 4)) = true.
Proof. vm_compute. reflexivity. Qed.

(** namespace 10 spans rows 0 and 1; namespace 20 sits in row 1; 15 is absent inside row 1's range *)
Example ex_nd_verify :
  nd_verify ex_dah 10 [mkrnd [(10, 1); (10, 2)]%N (Some (ex_row_proof 0 0 2)); mkrnd [(10, 3)]%N (Some (ex_row_proof 1 0 1))] = true /\
  nd_verify ex_dah 20 [mkrnd [(20, 4)]%N (Some (ex_row_proof 1 1 2))] = true /\
  nd_verify ex_dah 15 [mkrnd [] (Some (mkproof 1 2 (prove 2 0 1 2 (row_leaves 4 1 (eds_row 2 ex_cell 1)))
                                               (Some (leaf_at 4 1 1 (ex_cell 1 1)))))] = true /\
  nd_verify ex_dah 5 [] = true.
Proof. vm_compute. repeat split; reflexivity. Qed.

(** range (0,1)..(1,0) over namespace 10: last column of row 0 with a first-row proof, first column of row 1 with a last-row proof *)
Example ex_range_verify :
  range_verify (fun l => map (fun s => (999, snd s + 1000)%N) l)
    (mkrng [[(10, 2)]; [(10, 3)]]%N (Some (ex_row_proof 0 1 2)) (Some (ex_row_proof 1 0 1)))
    0 1 1 0 2 (map (row_root 2 ex_cell) (seq 0 2)) false = true.
Proof. vm_compute. reflexivity. Qed.

Example ex_row_both_verify :
  row_verify (fun _ => None) (fun _ => None) ex_dah 2 (eds_row 2 ex_cell 1) 1 = true.
Proof. vm_compute. reflexivity. Qed.

(** Model of the shwap containers on the wire: Sample, Row, RowNamespaceData, NamespaceData, RangeNamespaceData
    (share/shwap/{sample,row,row_namespace_data,namespace_data,range_namespace_data,share}.go) in their protobuf form
    (ToProto + generated Marshal / generated Unmarshal + XxxFromProto) and their length-delimited stream form (WriteTo / ReadFrom).

    Layers, each transcribing one piece of code:
      domain value  --ToProto-->  pb record  --MarshalToSizedBuffer-->  field list  --Wire.encode_fields-->  bytes
      bytes --Wire.decode_fields--> field list --Unmarshal's switch (merge rules)--> pb record --XxxFromProto--> domain value
    Shares are opaque byte strings (the codecs never look inside; only [len = 512] is checked, by libshare.NewShare).
    Go [nil] vs empty slices are identified (no code modelled here distinguishes them observably); pointer-nil of a proof
    IS modelled ([option proof]) because the code branches on it.
    Executable definitions only; proofs: ContainersProofs.v. *)
From Coq Require Import List ZArith Bool.
From CN Require Import Base.Bytes Base.Varint Shwap.Wire.
Import ListNotations.
Open Scope Z_scope.

Definition share_size : nat := 512.            (* libshare.ShareSize *)
Definition share := list Z.

(** nmt.Proof and nmt/pb.Proof have the same five fields; [Start]/[End] are Go [int] resp. [int64]. *)
Record proof := mkproof { p_start : Z; p_end : Z; p_nodes : list (list Z); p_leaf : list Z; p_ign : bool }.
Definition proof0 : proof := mkproof 0 0 [] [] false.

Record sample := mksample { s_share : share; s_proof : option proof; s_axis : Z }.   (* ProofType : rsmt2d.Axis (int) *)
Record row := mkrow { r_shares : list share; r_side : Z }.                            (* RowSide (int): 0 Left, 1 Right, 2 Both *)
Record rnd := mkrnd { d_shares : list share; d_proof : option proof }.
Definition nsdata := list rnd.
Record range := mkrange { g_rows : list (list share); g_first : option proof; g_last : option proof }.

(** * pb records (the generated structs) *)
Record pb_sample := mkpbsample { ps_share : option (list Z); ps_proof : option proof; ps_type : Z }.   (* AxisType int32 *)
Record pb_row := mkpbrow { pr_shares : list (list Z); pr_side : Z }.                                   (* Row_HalfSide int32 *)
Record pb_rnd := mkpbrnd { pd_shares : list (list Z); pd_proof : option proof }.
Record pb_range := mkpbrange { pg_rows : list (list (list Z)); pg_first : option proof; pg_last : option proof }.

(** * Marshal: pb record -> fields, in the byte order MarshalToSizedBuffer produces (ascending field number; proto3: a zero scalar,
    an empty [bytes], a nil message pointer are not emitted; a non-nil message pointer and every element of a repeated field
    are emitted even when empty). *)
Definition pb_share_fields (d : list Z) : list field := match d with [] => [] | _ => [(1, VBytes d)] end.
Definition pb_share_bytes (d : list Z) : list Z := encode_fields (pb_share_fields d).

Definition pb_proof_fields (p : proof) : list field :=
  (if p_start p =? 0 then [] else [(1, VVarint (u64_of_int (p_start p)))]) ++
  (if p_end p =? 0 then [] else [(2, VVarint (u64_of_int (p_end p)))]) ++
  map (fun n => (3, VBytes n)) (p_nodes p) ++
  (match p_leaf p with [] => [] | l => [(4, VBytes l)] end) ++
  (if p_ign p then [(5, VVarint 1)] else []).
Definition pb_proof_bytes (p : proof) : list Z := encode_fields (pb_proof_fields p).

Definition opt_msg {A} (num : Z) (enc : A -> list Z) (o : option A) : list field :=
  match o with None => [] | Some a => [(num, VBytes (enc a))] end.
Definition rep_msg {A} (num : Z) (enc : A -> list Z) (l : list A) : list field := map (fun a => (num, VBytes (enc a))) l.
Definition enum_field (num : Z) (v : Z) : list field := if v =? 0 then [] else [(num, VVarint (u64_of_int v))].

Definition pb_sample_fields (m : pb_sample) : list field :=
  opt_msg 1 pb_share_bytes (ps_share m) ++ opt_msg 2 pb_proof_bytes (ps_proof m) ++ enum_field 3 (ps_type m).
Definition pb_row_fields (m : pb_row) : list field := rep_msg 1 pb_share_bytes (pr_shares m) ++ enum_field 2 (pr_side m).
Definition pb_rnd_fields (m : pb_rnd) : list field := rep_msg 1 pb_share_bytes (pd_shares m) ++ opt_msg 2 pb_proof_bytes (pd_proof m).
Definition pb_rowshares_bytes (r : list (list Z)) : list Z := encode_fields (rep_msg 1 pb_share_bytes r).
Definition pb_range_fields (m : pb_range) : list field :=
  rep_msg 1 pb_rowshares_bytes (pg_rows m) ++ opt_msg 2 pb_proof_bytes (pg_first m) ++ opt_msg 3 pb_proof_bytes (pg_last m).

(** * Unmarshal: fields -> pb record.  Each [step] is the [switch fieldNum] of a generated Unmarshal: a known number with another wire
    type is an error, an unknown number is skipped, scalars and [bytes] are overwritten (last wins), repeated fields append, a
    non-repeated message field is MERGED into the message already there. *)
Definition share_step (d : list Z) (f : field) : res (list Z) :=
  let '(n, v) := f in
  if n =? 1 then match v with VBytes b => Ok b | _ => Err end
  else Ok d.
Definition pb_share_of_bytes (d0 : list Z) (bs : list Z) : res (list Z) := bind (decode_fields bs) (msg_fold share_step d0).

Definition proof_step (p : proof) (f : field) : res proof :=
  let '(n, v) := f in
  if n =? 1 then match v with VVarint x => Ok (mkproof (i64_of_u64 x) (p_end p) (p_nodes p) (p_leaf p) (p_ign p)) | _ => Err end
  else if n =? 2 then match v with VVarint x => Ok (mkproof (p_start p) (i64_of_u64 x) (p_nodes p) (p_leaf p) (p_ign p)) | _ => Err end
  else if n =? 3 then match v with VBytes b => Ok (mkproof (p_start p) (p_end p) (p_nodes p ++ [b]) (p_leaf p) (p_ign p)) | _ => Err end
  else if n =? 4 then match v with VBytes b => Ok (mkproof (p_start p) (p_end p) (p_nodes p) b (p_ign p)) | _ => Err end
  else if n =? 5 then match v with VVarint x => Ok (mkproof (p_start p) (p_end p) (p_nodes p) (p_leaf p) (negb (x mod two64 =? 0))) | _ => Err end
  else Ok p.
Definition pb_proof_of_bytes (p0 : proof) (bs : list Z) : res proof := bind (decode_fields bs) (msg_fold proof_step p0).

Definition merge_proof (o : option proof) (bs : list Z) : res (option proof) :=
  bind (pb_proof_of_bytes (match o with Some p => p | None => proof0 end) bs) (fun p => Ok (Some p)).

Definition sample_step (m : pb_sample) (f : field) : res pb_sample :=
  let '(n, v) := f in
  if n =? 1 then
    match v with
    | VBytes b => bind (pb_share_of_bytes (match ps_share m with Some d => d | None => [] end) b)
                       (fun d => Ok (mkpbsample (Some d) (ps_proof m) (ps_type m)))
    | _ => Err
    end
  else if n =? 2 then
    match v with VBytes b => bind (merge_proof (ps_proof m) b) (fun p => Ok (mkpbsample (ps_share m) p (ps_type m))) | _ => Err end
  else if n =? 3 then
    match v with VVarint x => Ok (mkpbsample (ps_share m) (ps_proof m) (i32_of_u64 x)) | _ => Err end
  else Ok m.
Definition pb_sample_of_bytes (bs : list Z) : res pb_sample :=
  bind (decode_fields bs) (msg_fold sample_step (mkpbsample None None 0)).

Definition row_step (m : pb_row) (f : field) : res pb_row :=
  let '(n, v) := f in
  if n =? 1 then
    match v with VBytes b => bind (pb_share_of_bytes [] b) (fun d => Ok (mkpbrow (pr_shares m ++ [d]) (pr_side m))) | _ => Err end
  else if n =? 2 then
    match v with VVarint x => Ok (mkpbrow (pr_shares m) (i32_of_u64 x)) | _ => Err end
  else Ok m.
Definition pb_row_of_bytes (bs : list Z) : res pb_row := bind (decode_fields bs) (msg_fold row_step (mkpbrow [] 0)).

Definition rnd_step (m : pb_rnd) (f : field) : res pb_rnd :=
  let '(n, v) := f in
  if n =? 1 then
    match v with VBytes b => bind (pb_share_of_bytes [] b) (fun d => Ok (mkpbrnd (pd_shares m ++ [d]) (pd_proof m))) | _ => Err end
  else if n =? 2 then
    match v with VBytes b => bind (merge_proof (pd_proof m) b) (fun p => Ok (mkpbrnd (pd_shares m) p)) | _ => Err end
  else Ok m.
Definition pb_rnd_of_bytes (bs : list Z) : res pb_rnd := bind (decode_fields bs) (msg_fold rnd_step (mkpbrnd [] None)).

Definition rowshares_step (r : list (list Z)) (f : field) : res (list (list Z)) :=
  let '(n, v) := f in
  if n =? 1 then match v with VBytes b => bind (pb_share_of_bytes [] b) (fun d => Ok (r ++ [d])) | _ => Err end
  else Ok r.
Definition pb_rowshares_of_bytes (bs : list Z) : res (list (list Z)) := bind (decode_fields bs) (msg_fold rowshares_step []).

Definition range_step (m : pb_range) (f : field) : res pb_range :=
  let '(n, v) := f in
  if n =? 1 then
    match v with VBytes b => bind (pb_rowshares_of_bytes b) (fun r => Ok (mkpbrange (pg_rows m ++ [r]) (pg_first m) (pg_last m))) | _ => Err end
  else if n =? 2 then
    match v with VBytes b => bind (merge_proof (pg_first m) b) (fun p => Ok (mkpbrange (pg_rows m) p (pg_last m))) | _ => Err end
  else if n =? 3 then
    match v with VBytes b => bind (merge_proof (pg_last m) b) (fun p => Ok (mkpbrange (pg_rows m) (pg_first m) p)) | _ => Err end
  else Ok m.
Definition pb_range_of_bytes (bs : list Z) : res pb_range := bind (decode_fields bs) (msg_fold range_step (mkpbrange [] None None)).

(** * ToProto.  [None] = the Go code panics (nil-pointer dereference). *)
Definition sample_to_pb (s : sample) : option pb_sample :=
  match s_proof s with
  | None => None                                   (* s.Proof.Start() on a nil *nmt.Proof *)
  | Some p => Some (mkpbsample (Some (s_share s)) (Some p) (i32_wrap (s_axis s)))
  end.

Definition side_to_pb (side : Z) : Z := if side =? 0 then 0 else 1.    (* RowSide.ToProto: Left -> LEFT, anything else -> RIGHT *)
Definition row_to_pb (r : row) : pb_row :=
  if r_side r =? 2 then mkpbrow (firstn (Nat.div (length (r_shares r)) 2) (r_shares r)) 0   (* Both: the LEFT half only *)
  else mkpbrow (r_shares r) (side_to_pb (r_side r)).

Definition rnd_to_pb (d : rnd) : pb_rnd := mkpbrnd (d_shares d) (d_proof d).
Definition range_to_pb (g : range) : pb_range := mkpbrange (g_rows g) (g_first g) (g_last g).

(** * FromProto.  [None] = error. *)
Definition share_from_pb (d : list Z) : option share := if Nat.eqb (length d) share_size then Some d else None.
Fixpoint shares_from_pb (l : list (list Z)) : option (list share) :=
  match l with
  | [] => Some []
  | d :: l' => match share_from_pb d, shares_from_pb l' with Some s, Some r => Some (s :: r) | _, _ => None end
  end.

(** SampleFromProto: nil-safe getters make a missing proof an all-zero INCLUSION proof; [LeafHash] is not passed on. *)
Definition sample_from_pb (m : pb_sample) : option sample :=
  let p := match ps_proof m with Some p => p | None => proof0 end in
  match ps_share m with
  | None => None                                   (* "pb share is nil" *)
  | Some d => match share_from_pb d with
              | None => None
              | Some s => Some (mksample s (Some (mkproof (p_start p) (p_end p) (p_nodes p) [] (p_ign p))) (ps_type m))
              end
  end.

Definition side_from_pb (side : Z) : Z := if side =? 0 then 0 else 1.  (* sideFromProto: LEFT -> Left, anything else -> Right *)
Definition row_from_pb (m : pb_row) : option row :=
  match shares_from_pb (pr_shares m) with None => None | Some s => Some (mkrow s (side_from_pb (pr_side m))) end.

(** RowNamespaceDataFromProto: nil proof stays nil; otherwise absence/inclusion by [LeafHash != nil] — the two constructors differ
    only in a nil vs empty leaf hash, which this model identifies. *)
Definition rnd_from_pb (m : pb_rnd) : option rnd :=
  match shares_from_pb (pd_shares m) with None => None | Some s => Some (mkrnd s (pd_proof m)) end.

(** nmt.ProtoToProof: [Start = End = 0] yields the EMPTY proof (nodes and leaf hash dropped), a non-empty leaf hash an absence
    proof, otherwise an inclusion proof. *)
Definition proto_to_proof (p : proof) : proof :=
  if (p_start p =? 0) && (p_end p =? 0) then mkproof 0 0 [] [] (p_ign p)
  else p.
Definition pb_nmt_to_nmt (o : option proof) : option proof := option_map proto_to_proof o.

Fixpoint range_rows_from_pb (l : list (list (list Z))) : option (list (list share)) :=
  match l with
  | [] => Some []
  | r :: l' => match shares_from_pb r with
               | None => None
               | Some [] => None                                    (* "empty shares at row %d" *)
               | Some s => match range_rows_from_pb l' with None => None | Some t => Some (s :: t) end
               end
  end.
Definition range_from_pb (m : pb_range) : option range :=
  match range_rows_from_pb (pg_rows m) with
  | None => None
  | Some rows => Some (mkrange rows (pb_nmt_to_nmt (pg_first m)) (pb_nmt_to_nmt (pg_last m)))
  end.

(** * Whole codecs: protobuf form *)
Inductive enc_res := EBytes (b : list Z) | EError | EPanic.

Definition sample_to_bytes (s : sample) : enc_res :=
  match sample_to_pb s with None => EPanic | Some m => EBytes (encode_fields (pb_sample_fields m)) end.
Definition row_to_bytes (r : row) : enc_res := EBytes (encode_fields (pb_row_fields (row_to_pb r))).
Definition rnd_to_bytes (d : rnd) : enc_res := EBytes (encode_fields (pb_rnd_fields (rnd_to_pb d))).
Definition range_to_bytes (g : range) : enc_res := EBytes (encode_fields (pb_range_fields (range_to_pb g))).

Definition sample_from_bytes (bs : list Z) : res sample := bind (pb_sample_of_bytes bs) (fun m => of_opt (sample_from_pb m)).
Definition row_from_bytes (bs : list Z) : res row := bind (pb_row_of_bytes bs) (fun m => of_opt (row_from_pb m)).
Definition rnd_from_bytes (bs : list Z) : res rnd := bind (pb_rnd_of_bytes bs) (fun m => of_opt (rnd_from_pb m)).
Definition range_from_bytes (bs : list Z) : res range := bind (pb_range_of_bytes bs) (fun m => of_opt (range_from_pb m)).

(** * Stream form (WriteTo / ReadFrom over serde) *)
Definition frame_of (e : enc_res) : enc_res :=
  match e with
  | EBytes m => match write_frame m with Some b => EBytes b | None => EError end
  | e => e
  end.
Definition sample_to_stream (s : sample) : enc_res := frame_of (sample_to_bytes s).
Definition row_to_stream (r : row) : enc_res := frame_of (row_to_bytes r).
Definition rnd_to_stream (d : rnd) : enc_res := frame_of (rnd_to_bytes d).

(** single-message ReadFrom: one frame; whatever follows stays unread in the stream *)
Definition read_one {A} (dec : list Z -> res A) (bs : list Z) : res (A * list Z) :=
  match read_frame bs with
  | FOk m rest => bind (dec m) (fun a => Ok (a, rest))
  | _ => Err
  end.
Definition sample_read (bs : list Z) : res (sample * list Z) := read_one sample_from_bytes bs.
Definition row_read (bs : list Z) : res (row * list Z) := read_one row_from_bytes bs.
Definition rnd_read (bs : list Z) : res (rnd * list Z) := read_one rnd_from_bytes bs.

(** NamespaceData.WriteTo: the frames of the rows, concatenated; the first failing row aborts. *)
Fixpoint nd_to_stream (nd : nsdata) : enc_res :=
  match nd with
  | [] => EBytes []
  | d :: nd' => match rnd_to_stream d, nd_to_stream nd' with
                | EBytes a, EBytes b => EBytes (a ++ b)
                | EBytes _, e => e
                | e, _ => e
                end
  end.

(** NamespaceData.ReadFrom: frames until the reader reports io.EOF (which serde also reports for a length prefix that is
    followed by nothing); any other error aborts. *)
Fixpoint nd_read_fuel (fuel : nat) (bs : list Z) : res nsdata :=
  match fuel with
  | O => Fuel
  | S f =>
    match read_frame bs with
    | FEof => Ok []
    | FErr => Err
    | FOk m rest => bind (rnd_from_bytes m) (fun d => bind (nd_read_fuel f rest) (fun l => Ok (d :: l)))
    end
  end.
Definition nd_read (bs : list Z) : res nsdata := nd_read_fuel (S (length bs)) bs.

(** RangeNamespaceData.WriteTo: row i as a RowNamespaceData frame; proof = First for i = 0, Last for the last row when it
    is not also the first, none for rows in between. *)
Fixpoint range_rows_as_rnd (i : nat) (n : nat) (first last : option proof) (rows : list (list share)) : nsdata :=
  match rows with
  | [] => []
  | r :: rows' =>
    mkrnd r (if Nat.eqb i 0 then first else if Nat.eqb i (n - 1) then last else None)
    :: range_rows_as_rnd (S i) n first last rows'
  end.
Definition range_as_nd (g : range) : nsdata := range_rows_as_rnd 0 (length (g_rows g)) (g_first g) (g_last g) (g_rows g).
Definition range_to_stream (g : range) : enc_res :=
  match nd_to_stream (range_as_nd g) with
  | EError => EError       (* "failed to write data" *)
  | e => e
  end.

(** RangeNamespaceData.ReadFrom into a FRESH (zero) value: rows = the shares of each frame (an empty row is NOT refused here),
    First = proof of frame 0, Last = proof of the last frame when there are at least two (every later frame overwrites it). *)
Definition range_of_nd (nd : nsdata) : range :=
  mkrange (map d_shares nd)
          (match nd with d :: _ => d_proof d | [] => None end)
          (match nd with _ :: ((_ :: _) as tl) => d_proof (last tl (mkrnd [] None)) | _ => None end).
Definition range_read (bs : list Z) : res range := bind (nd_read bs) (fun nd => Ok (range_of_nd nd)).

(** * Well-formedness (what every value built by the real constructors satisfies) and the normalisations the code performs *)
Definition share_ok (s : share) : bool := Nat.eqb (length s) share_size && bytes_ok s.
Definition shares_ok (l : list share) : bool := forallb share_ok l.
Definition proof_ok (p : proof) : bool :=
  in_i64 (p_start p) && in_i64 (p_end p) && forallb bytes_ok (p_nodes p) && bytes_ok (p_leaf p).
Definition oproof_ok (o : option proof) : bool := match o with Some p => proof_ok p | None => true end.
Definition small (bs : list Z) : bool := len bs <? two63.

Definition sample_wf (s : sample) : bool :=
  share_ok (s_share s) && match s_proof s with Some p => proof_ok p | None => false end && in_i32 (s_axis s).
Definition row_wf (r : row) : bool :=
  shares_ok (r_shares r) && ((r_side r =? 0) || (r_side r =? 1) || (r_side r =? 2)).
Definition rnd_wf (d : rnd) : bool := shares_ok (d_shares d) && oproof_ok (d_proof d).
Definition nd_wf (nd : nsdata) : bool := forallb rnd_wf nd.
Definition range_wf (g : range) : bool :=
  forallb (fun r => negb (Nat.eqb (length r) 0) && shares_ok r) (g_rows g) && oproof_ok (g_first g) && oproof_ok (g_last g).

(** what comes back *)
Definition sample_canon (s : sample) : sample :=
  mksample (s_share s)
           (option_map (fun p => mkproof (p_start p) (p_end p) (p_nodes p) [] (p_ign p)) (s_proof s))   (* leaf hash dropped *)
           (s_axis s).
Definition row_canon (r : row) : row :=
  if r_side r =? 2 then mkrow (firstn (Nat.div (length (r_shares r)) 2) (r_shares r)) 0 else r.    (* Both -> its Left half *)
Definition range_canon_pb (g : range) : range :=
  mkrange (g_rows g) (pb_nmt_to_nmt (g_first g)) (pb_nmt_to_nmt (g_last g)).                            (* 0/0 proofs emptied *)
Definition range_canon_stream (g : range) : range :=
  match g_rows g with
  | [] => mkrange [] None None                                   (* nothing is written: both proofs lost *)
  | [_] => mkrange (g_rows g) (g_first g) None                   (* single row: Last is not sent *)
  | _ => g
  end.

(** * Correspondence cases *)
(** run-length encoded byte strings keep the generated case files small *)
Inductive chunk := Lit (l : list Z) | Rep (n : Z) (b : Z).
Definition expand (cs : list chunk) : list Z :=
  flat_map (fun c => match c with Lit l => l | Rep n b => repeat b (Z.to_nat n) end) cs.

Inductive cont :=
| CSample (s : sample) | CRow (r : row) | CRnd (d : rnd) | CNd (nd : nsdata) | CRange (g : range).
Inductive ckind := KSampleC | KRowC | KRndC | KNdC | KRangeC.
Inductive form := FProto | FStream.

Inductive eobs := EoBytes (b : list chunk) | EoError | EoPanic.
Inductive dobs := DoErr | DoPanic | DoVal (c : cont).

Inductive ccase :=
| CEnc (f : form) (c : cont) (o : eobs)                 (* ToProto+MarshalTo / WriteTo of this value gave these bytes *)
| CDec (f : form) (k : ckind) (input : list chunk) (o : dobs)   (* Unmarshal+FromProto / ReadFrom (fresh receiver) of these bytes *)
| CWf (c : cont)                                        (* a value built by the real constructors: must be well formed *)
| CConst (name : nat) (v : Z).

Definition model_enc (f : form) (c : cont) : enc_res :=
  match f, c with
  | FProto, CSample s => sample_to_bytes s
  | FProto, CRow r => row_to_bytes r
  | FProto, CRnd d => rnd_to_bytes d
  | FProto, CRange g => range_to_bytes g
  | FProto, CNd _ => EError                 (* NamespaceData has no protobuf form in the node *)
  | FStream, CSample s => sample_to_stream s
  | FStream, CRow r => row_to_stream r
  | FStream, CRnd d => rnd_to_stream d
  | FStream, CNd nd => nd_to_stream nd
  | FStream, CRange g => range_to_stream g
  end.

Definition model_dec (f : form) (k : ckind) (bs : list Z) : res cont :=
  match f, k with
  | FProto, KSampleC => bind (sample_from_bytes bs) (fun x => Ok (CSample x))
  | FProto, KRowC => bind (row_from_bytes bs) (fun x => Ok (CRow x))
  | FProto, KRndC => bind (rnd_from_bytes bs) (fun x => Ok (CRnd x))
  | FProto, KRangeC => bind (range_from_bytes bs) (fun x => Ok (CRange x))
  | FProto, KNdC => Err
  | FStream, KSampleC => bind (sample_read bs) (fun x => Ok (CSample (fst x)))
  | FStream, KRowC => bind (row_read bs) (fun x => Ok (CRow (fst x)))
  | FStream, KRndC => bind (rnd_read bs) (fun x => Ok (CRnd (fst x)))
  | FStream, KNdC => bind (nd_read bs) (fun x => Ok (CNd x))
  | FStream, KRangeC => bind (range_read bs) (fun x => Ok (CRange x))
  end.

Definition ll_eqb (a b : list (list Z)) : bool :=
  Nat.eqb (length a) (length b) && forallb (fun p => list_eqb (fst p) (snd p)) (combine a b).
Definition proof_eqb (p q : proof) : bool :=
  (p_start p =? p_start q) && (p_end p =? p_end q) && ll_eqb (p_nodes p) (p_nodes q) &&
  list_eqb (p_leaf p) (p_leaf q) && Bool.eqb (p_ign p) (p_ign q).
Definition oproof_eqb (a b : option proof) : bool :=
  match a, b with Some p, Some q => proof_eqb p q | None, None => true | _, _ => false end.
Definition rnd_eqb (a b : rnd) : bool := ll_eqb (d_shares a) (d_shares b) && oproof_eqb (d_proof a) (d_proof b).
Definition cont_eqb (x y : cont) : bool :=
  match x, y with
  | CSample a, CSample b => list_eqb (s_share a) (s_share b) && oproof_eqb (s_proof a) (s_proof b) && (s_axis a =? s_axis b)
  | CRow a, CRow b => ll_eqb (r_shares a) (r_shares b) && (r_side a =? r_side b)
  | CRnd a, CRnd b => rnd_eqb a b
  | CNd a, CNd b => Nat.eqb (length a) (length b) && forallb (fun p => rnd_eqb (fst p) (snd p)) (combine a b)
  | CRange a, CRange b =>
      Nat.eqb (length (g_rows a)) (length (g_rows b)) && forallb (fun p => ll_eqb (fst p) (snd p)) (combine (g_rows a) (g_rows b)) &&
      oproof_eqb (g_first a) (g_first b) && oproof_eqb (g_last a) (g_last b)
  | _, _ => false
  end.

Definition cont_wf (c : cont) : bool :=
  match c with
  | CSample s => sample_wf s && ((s_axis s =? 0) || (s_axis s =? 1))
  | CRow r => row_wf r
  | CRnd d => rnd_wf d
  | CNd nd => nd_wf nd
  | CRange g => range_wf g
  end.

Definition model_const (name : nat) : Z :=
  match name with
  | 0%nat => Z.of_nat share_size | 1%nat => max_message_size
  | 2%nat => 0 (* shwap.Left *) | 3%nat => 1 (* Right *) | 4%nat => 2 (* Both *)
  | 5%nat => 0 (* pb.Row_LEFT *) | 6%nat => 1 (* pb.Row_RIGHT *) | 7%nat => 0 (* rsmt2d.Row *) | 8%nat => 1 (* rsmt2d.Col *)
  | _ => -1
  end.

Definition agree (c : ccase) : bool :=
  match c with
  | CEnc f x o =>
      match model_enc f x, o with
      | EBytes b, EoBytes cs => list_eqb b (expand cs)
      | EError, EoError => true
      | EPanic, EoPanic => true
      | _, _ => false
      end
  | CDec f k input o =>
      match model_dec f k (expand input), o with
      | Ok v, DoVal w => cont_eqb v w
      | Err, DoErr => true
      | _, _ => false              (* the model never predicts a panic; [Fuel] never agrees with anything *)
      end
  | CWf x => cont_wf x
  | CConst n v => model_const n =? v
  end.

Fixpoint mism_from (n : N) (cs : list ccase) : list N :=
  match cs with
  | [] => []
  | c :: cs' => if agree c then mism_from (N.succ n) cs' else n :: mism_from (N.succ n) cs'
  end.
Definition mismatches (cs : list ccase) : list N := mism_from 0%N cs.

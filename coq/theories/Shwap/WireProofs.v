(** Proofs about Shwap/Wire.v: the tokeniser inverts the encoder, never runs out of fuel, always consumes input;
    frames of the delimited stream round-trip and their truncations are refused. *)
From Coq Require Import List ZArith Lia Bool.
From CN Require Import Base.Bytes Base.Varint Base.VarintProofs Shwap.Wire.
Import ListNotations.
Open Scope Z_scope.

(** ** [take] *)
Lemma take_app b rest : len b < two63 -> take (len b) (b ++ rest) = Some (b, rest).
Proof.
  intros H. unfold take, len in *.
  destruct (Z.ltb_spec (Z.of_nat (length b)) 0); [lia|].
  destruct (Z.leb_spec two63 (Z.of_nat (length b))); [lia|].
  rewrite app_length, Nat2Z.inj_add.
  destruct (Z.ltb_spec (Z.of_nat (length b) + Z.of_nat (length rest)) (Z.of_nat (length b))); [lia|].
  cbn [orb]. rewrite Nat2Z.id. rewrite firstn_app_exact, skipn_app_exact by reflexivity. reflexivity.
Qed.

Lemma take_spec n bs a r : take n bs = Some (a, r) -> bs = a ++ r /\ len a = n /\ 0 <= n < two63.
Proof.
  unfold take, len. intros H.
  destruct (Z.ltb_spec n 0); [discriminate|].
  destruct (Z.leb_spec two63 n); [discriminate|].
  destruct (Z.ltb_spec (Z.of_nat (length bs)) n); [discriminate|]. cbn [orb] in H.
  inversion H; subst. rewrite firstn_skipn. split; [reflexivity|]. rewrite firstn_length. lia.
Qed.

Lemma take_shorter n bs a r : take n bs = Some (a, r) -> (length r <= length bs)%nat.
Proof. intros H. apply take_spec in H as (-> & _). rewrite app_length. lia. Qed.

Lemma take_short n bs : len bs < n -> take n bs = None.
Proof.
  intros H. unfold take. destruct (n <? 0); [reflexivity|]. destruct (two63 <=? n); [reflexivity|].
  destruct (Z.ltb_spec (len bs) n); [reflexivity|lia].
Qed.

(** ** well-formed fields (everything an encoder of Containers.v emits is one) *)
Definition field_ok (f : field) : Prop :=
  1 <= fst f < two31 /\
  match snd f with
  | VVarint v => 0 <= v < two64
  | VBytes b => len b < two63
  | VFixed64 b => length b = 8%nat
  | VFixed32 b => length b = 4%nat
  | VGroup => False
  end.

Lemma tag_split num wt : 0 <= wt < 8 -> (num * 8 + wt) / 8 = num /\ (num * 8 + wt) mod 8 = wt.
Proof.
  intros H. split.
  - rewrite Z.add_comm, Z.div_add by lia. rewrite Z.div_small by lia. lia.
  - rewrite Z.add_comm, Z.mod_add by lia. apply Z.mod_small; lia.
Qed.

Lemma wtype_range v : 0 <= wtype v < 8.
Proof. destruct v; cbn; lia. Qed.

Lemma i32_small n : 0 <= n < two31 -> i32_of_u64 n = n.
Proof.
  intros H. unfold i32_of_u64, two31, two32 in *. rewrite Z.mod_small by lia.
  destruct (Z.ltb_spec n 2147483648); lia.
Qed.

Lemma encode_field_nonempty f : encode_field f <> [].
Proof.
  unfold encode_field, uvarint_enc. intros H. apply app_eq_nil in H as [H _].
  eapply uvarint_enc_fuel_nonempty; eassumption.
Qed.

(** one field: decode inverts encode, whatever follows *)
Lemma decode_encode_field f rest : field_ok f -> decode_field (encode_field f ++ rest) = Ok (f, rest).
Proof.
  destruct f as [num v]. intros [Hn Hv]. cbn [fst snd] in *.
  unfold decode_field, encode_field. cbn [fst snd]. rewrite <- app_assoc.
  pose proof (wtype_range v) as Hw.
  rewrite pb_uvarint_enc by (unfold two31, two64 in *; lia).
  destruct (tag_split num (wtype v) Hw) as [Hd Hm]. rewrite Hd, Hm.
  rewrite i32_small by lia.
  destruct (Z.leb_spec num 0); [lia|].
  destruct v as [x|b|b| |b]; cbn [wtype encode_value Z.eqb]; cbn [wtype] in Hv.
  - rewrite pb_uvarint_enc by exact Hv. reflexivity.
  - replace 8 with (len b) by (unfold len; lia). rewrite take_app by (unfold len, two63; lia). reflexivity.
  - rewrite <- app_assoc. rewrite pb_uvarint_enc by (unfold len, two63, two64 in *; lia).
    rewrite take_app by exact Hv. reflexivity.
  - contradiction.
  - replace 4 with (len b) by (unfold len; lia). rewrite take_app by (unfold len, two63; lia). reflexivity.
Qed.

Lemma decode_fields_fuel_step n bs :
  bs <> [] ->
  decode_fields_fuel (S n) bs =
  bind (decode_field bs) (fun '(fd, rest) => bind (decode_fields_fuel n rest) (fun l => Ok (fd :: l))).
Proof. destruct bs; [congruence|reflexivity]. Qed.

Lemma encode_fields_cons f fs : encode_fields (f :: fs) = encode_field f ++ encode_fields fs.
Proof. reflexivity. Qed.

Lemma encode_fields_app a b : encode_fields (a ++ b) = encode_fields a ++ encode_fields b.
Proof. unfold encode_fields. apply flat_map_app. Qed.

Lemma decode_encode_fuel fs : forall fuel,
  Forall field_ok fs -> (length (encode_fields fs) <= fuel)%nat -> decode_fields_fuel fuel (encode_fields fs) = Ok fs.
Proof.
  induction fs as [|f fs IH]; intros fuel Hok Hl.
  - destruct fuel; reflexivity.
  - inversion Hok as [|? ? Hf Hfs]; subst. rewrite encode_fields_cons in *.
    pose proof (encode_field_nonempty f) as Hne.
    destruct fuel as [|fuel].
    + rewrite app_length in Hl. destruct (encode_field f); [congruence|cbn in Hl; lia].
    + rewrite decode_fields_fuel_step by (intros H; apply app_eq_nil in H as [H _]; congruence).
      rewrite decode_encode_field by exact Hf. cbn [bind].
      rewrite IH; [reflexivity|exact Hfs|].
      rewrite app_length in Hl. destruct (encode_field f); [congruence|cbn in Hl; lia].
Qed.

(** Round trip of the wire layer *)
Theorem decode_encode_fields fs : Forall field_ok fs -> decode_fields (encode_fields fs) = Ok fs.
Proof. intros H. apply decode_encode_fuel; [exact H|lia]. Qed.

(** ** truncation: a message cut inside a field is refused; cut between fields it is the shorter field list *)
Lemma firstn_app_lt {A} (a b : list A) k : (k < length a)%nat -> firstn k (a ++ b) = firstn k a.
Proof. intros H. rewrite firstn_app. replace (k - length a)%nat with 0%nat by lia. cbn. apply app_nil_r. Qed.
Lemma firstn_app_ge {A} (a b : list A) k : (length a <= k)%nat -> firstn k (a ++ b) = a ++ firstn (k - length a) b.
Proof. intros H. rewrite firstn_app. rewrite firstn_all2 by lia. reflexivity. Qed.

Lemma take_firstn_short n k b : (k < length b)%nat -> n = len b -> take n (firstn k b) = None.
Proof. intros Hk ->. apply take_short. unfold len. rewrite firstn_length. lia. Qed.

Lemma decode_field_truncated f k : field_ok f -> (0 < k < length (encode_field f))%nat ->
  decode_field (firstn k (encode_field f)) = Err.
Proof.
  destruct f as [num v]. intros [Hn Hv] Hk. cbn [fst snd] in *.
  unfold encode_field in *. cbn [fst snd] in *.
  pose proof (wtype_range v) as Hw.
  set (tag := num * 8 + wtype v) in *.
  assert (Htag : 0 <= tag < two64) by (subst tag; unfold two31, two64 in *; lia).
  unfold decode_field.
  destruct (le_lt_dec (length (uvarint_enc tag)) k) as [Hge|Hlt].
  2:{ rewrite firstn_app_lt by exact Hlt. rewrite pb_uvarint_enc_truncated by (try exact Hlt; lia). reflexivity. }
  rewrite firstn_app_ge by exact Hge. set (k' := (k - length (uvarint_enc tag))%nat).
  assert (Hk' : (k' < length (encode_value v))%nat) by (subst k'; rewrite app_length in Hk; lia).
  rewrite pb_uvarint_enc by exact Htag.
  destruct (tag_split num (wtype v) Hw) as [Hd Hm]. fold tag in Hd, Hm. rewrite Hd, Hm.
  rewrite i32_small by lia.
  destruct (Z.leb_spec num 0); [lia|].
  destruct v as [x|b|b| |b]; cbn [wtype encode_value Z.eqb Pos.eqb] in *.
  - rewrite pb_uvarint_enc_truncated by (try exact Hk'; lia). reflexivity.
  - rewrite take_firstn_short by (try exact Hk'; unfold len; lia). reflexivity.
  - assert (Hl : 0 <= len b < two64) by (unfold len, two63, two64 in *; lia).
    destruct (le_lt_dec (length (uvarint_enc (len b))) k') as [Hge2|Hlt2].
    + rewrite firstn_app_ge by exact Hge2. rewrite pb_uvarint_enc by exact Hl.
      rewrite take_firstn_short; [reflexivity| |reflexivity]. rewrite app_length in Hk'. lia.
    + rewrite firstn_app_lt by exact Hlt2. rewrite pb_uvarint_enc_truncated by (try exact Hlt2; lia). reflexivity.
  - contradiction.
  - rewrite take_firstn_short by (try exact Hk'; unfold len; lia). reflexivity.
Qed.

Lemma decode_fields_fuel_truncated fs : forall k fuel,
  Forall field_ok fs -> (k < length (encode_fields fs))%nat -> (length (firstn k (encode_fields fs)) <= fuel)%nat ->
  decode_fields_fuel fuel (firstn k (encode_fields fs)) = Err \/
  exists j, (j < length fs)%nat /\ decode_fields_fuel fuel (firstn k (encode_fields fs)) = Ok (firstn j fs).
Proof.
  induction fs as [|f fs IH]; intros k fuel Hok Hk Hf.
  - cbn in Hk. lia.
  - inversion Hok as [|? ? Hfo Hfs]; subst. rewrite encode_fields_cons in *.
    pose proof (encode_field_nonempty f) as Hne.
    assert (Hlen : (0 < length (encode_field f))%nat) by (destruct (encode_field f); [congruence|cbn; lia]).
    destruct k as [|k].
    { right. exists 0%nat. split; [cbn; lia|]. cbn [firstn]. destruct fuel; reflexivity. }
    destruct (le_lt_dec (length (encode_field f)) (S k)) as [Hge|Hlt].
    + rewrite firstn_app_ge in * by exact Hge. set (k' := (S k - length (encode_field f))%nat) in *.
      destruct fuel as [|fuel]; [rewrite app_length in Hf; lia|].
      rewrite decode_fields_fuel_step by (intros H; apply app_eq_nil in H as [H _]; congruence).
      rewrite decode_encode_field by exact Hfo. cbn [bind].
      assert (Hk' : (k' < length (encode_fields fs))%nat) by (subst k'; rewrite app_length in Hk; lia).
      assert (Hf' : (length (firstn k' (encode_fields fs)) <= fuel)%nat) by (rewrite app_length in Hf; lia).
      destruct (IH k' fuel Hfs Hk' Hf') as [-> | (j & Hj & ->)]; [left; reflexivity|].
      right. exists (S j). split; [cbn; lia|reflexivity].
    + rewrite firstn_app_lt in * by exact Hlt. left.
      destruct fuel as [|fuel]; [rewrite firstn_length in Hf; lia|].
      rewrite decode_fields_fuel_step.
      2:{ intros H. apply (f_equal (@length Z)) in H. rewrite firstn_length in H. cbn [length] in H. lia. }
      rewrite decode_field_truncated by (try exact Hfo; lia). reflexivity.
Qed.

Theorem decode_fields_truncated fs k : Forall field_ok fs -> (k < length (encode_fields fs))%nat ->
  decode_fields (firstn k (encode_fields fs)) = Err \/
  exists j, (j < length fs)%nat /\ decode_fields (firstn k (encode_fields fs)) = Ok (firstn j fs).
Proof. intros Hok Hk. unfold decode_fields. apply decode_fields_fuel_truncated; try assumption. lia. Qed.

(** ** totality: no recursion budget is ever exhausted, and every step consumes input *)
Lemma skip_group_total fuel : forall depth bs, (length bs < fuel)%nat -> skip_group fuel depth bs <> Fuel.
Proof.
  induction fuel as [|fuel IH]; intros depth bs Hl; [lia|].
  cbn [skip_group]. destruct depth as [|d]; [discriminate|].
  destruct bs as [|b bs]; [discriminate|].
  destruct (pb_uvarint (b :: bs)) as [[wire bs1]|] eqn:E; [|discriminate].
  apply pb_uvarint_shorter in E.
  assert (Hrec : forall dd r, (length r <= length bs1)%nat -> skip_group fuel dd r <> Fuel)
    by (intros dd r Hr; apply IH; cbn [length] in *; lia).
  repeat match goal with |- context [if ?c then _ else _] => destruct c end; try discriminate.
  - destruct (pb_uvarint bs1) as [[? bs2]|] eqn:E2; [|discriminate]. apply pb_uvarint_shorter in E2. apply Hrec; lia.
  - destruct (take 8 bs1) as [[? bs2]|] eqn:E2; [|discriminate]. apply take_shorter in E2. apply Hrec; lia.
  - destruct (pb_uvarint bs1) as [[n bs2]|] eqn:E2; [|discriminate]. apply pb_uvarint_shorter in E2.
    destruct (take n bs2) as [[? bs3]|] eqn:E3; [|discriminate]. apply take_shorter in E3. apply Hrec; lia.
  - apply Hrec; lia.
  - apply Hrec; lia.
  - destruct (take 4 bs1) as [[? bs2]|] eqn:E2; [|discriminate]. apply take_shorter in E2. apply Hrec; lia.
Qed.

Lemma skip_group_shorter fuel : forall depth bs r, skip_group fuel depth bs = Ok r -> (length r <= length bs)%nat.
Proof.
  induction fuel as [|fuel IH]; intros depth bs r H; [discriminate|].
  cbn [skip_group] in H. destruct depth as [|d]; [inversion H; subst; lia|].
  destruct bs as [|b bs]; [discriminate|].
  destruct (pb_uvarint (b :: bs)) as [[wire bs1]|] eqn:E; [|discriminate].
  apply pb_uvarint_shorter in E.
  repeat match type of H with context [if ?c then _ else _] => destruct c end; try discriminate.
  - destruct (pb_uvarint bs1) as [[? bs2]|] eqn:E2; [|discriminate]. apply pb_uvarint_shorter in E2. apply IH in H. lia.
  - destruct (take 8 bs1) as [[? bs2]|] eqn:E2; [|discriminate]. apply take_shorter in E2. apply IH in H. lia.
  - destruct (pb_uvarint bs1) as [[n bs2]|] eqn:E2; [|discriminate]. apply pb_uvarint_shorter in E2.
    destruct (take n bs2) as [[? bs3]|] eqn:E3; [|discriminate]. apply take_shorter in E3. apply IH in H. lia.
  - apply IH in H. lia.
  - apply IH in H. lia.
  - destruct (take 4 bs1) as [[? bs2]|] eqn:E2; [|discriminate]. apply take_shorter in E2. apply IH in H. lia.
Qed.

Lemma decode_field_total bs : decode_field bs <> Fuel.
Proof.
  unfold decode_field. destruct (pb_uvarint bs) as [[wire bs1]|] eqn:E; [|discriminate].
  repeat match goal with |- context [if ?c then _ else _] => destruct c end; try discriminate.
  - destruct (pb_uvarint bs1) as [[? ?]|]; discriminate.
  - destruct (take 8 bs1) as [[? ?]|]; discriminate.
  - destruct (pb_uvarint bs1) as [[n bs2]|]; [|discriminate]. destruct (take n bs2) as [[? ?]|]; discriminate.
  - destruct (skip_group (S (length bs1)) 1 bs1) eqn:E2; cbn; try discriminate.
    exfalso. eapply skip_group_total; [|exact E2]. lia.
  - destruct (take 4 bs1) as [[? ?]|]; discriminate.
Qed.

Lemma decode_field_shorter bs fd rest : decode_field bs = Ok (fd, rest) -> (length rest < length bs)%nat.
Proof.
  unfold decode_field. intros H. destruct (pb_uvarint bs) as [[wire bs1]|] eqn:E; [|discriminate].
  apply pb_uvarint_shorter in E.
  repeat match type of H with context [if ?c then _ else _] => destruct c end; try discriminate.
  - destruct (pb_uvarint bs1) as [[? bs2]|] eqn:E2; [|discriminate]. apply pb_uvarint_shorter in E2. inversion H; subst. lia.
  - destruct (take 8 bs1) as [[? bs2]|] eqn:E2; [|discriminate]. apply take_shorter in E2. inversion H; subst. lia.
  - destruct (pb_uvarint bs1) as [[n bs2]|] eqn:E2; [|discriminate]. apply pb_uvarint_shorter in E2.
    destruct (take n bs2) as [[? bs3]|] eqn:E3; [|discriminate]. apply take_shorter in E3. inversion H; subst. lia.
  - destruct (skip_group (S (length bs1)) 1 bs1) eqn:E2; cbn in H; try discriminate.
    apply skip_group_shorter in E2. inversion H; subst. lia.
  - destruct (take 4 bs1) as [[? bs2]|] eqn:E2; [|discriminate]. apply take_shorter in E2. inversion H; subst. lia.
Qed.

Lemma decode_fields_fuel_total fuel : forall bs, (length bs <= fuel)%nat -> decode_fields_fuel fuel bs <> Fuel.
Proof.
  induction fuel as [|fuel IH]; intros bs Hl.
  - destruct bs; [discriminate|cbn in Hl; lia].
  - destruct bs as [|b bs]; [discriminate|].
    rewrite decode_fields_fuel_step by discriminate.
    destruct (decode_field (b :: bs)) as [[fd rest]| |] eqn:E; cbn [bind]; [|discriminate|exfalso; eapply decode_field_total; exact E].
    apply decode_field_shorter in E.
    destruct (decode_fields_fuel fuel rest) eqn:E2; cbn [bind]; try discriminate.
    exfalso. eapply IH; [|exact E2]. cbn [length] in *. lia.
Qed.

(** The tokeniser is total: a field list or an error, for every byte string *)
Theorem decode_fields_total bs : decode_fields bs <> Fuel.
Proof. apply decode_fields_fuel_total. lia. Qed.

(** ** first error wins in the message interpretation; appending *)
Lemma msg_fold_app {S} (step : S -> field -> res S) s a b :
  msg_fold step s (a ++ b) = bind (msg_fold step s a) (fun s' => msg_fold step s' b).
Proof.
  revert s; induction a as [|f a IH]; intros s; [reflexivity|].
  cbn [app msg_fold]. destruct (step s f); cbn [bind]; [apply IH|reflexivity|reflexivity].
Qed.

Lemma msg_fold_total {S} (step : S -> field -> res S) :
  (forall s f, step s f <> Fuel) -> forall fs s, msg_fold step s fs <> Fuel.
Proof.
  intros Hs fs; induction fs as [|f fs IH]; intros s; [discriminate|].
  cbn [msg_fold]. destruct (step s f) eqn:E; cbn [bind]; [apply IH|discriminate|exfalso; eapply Hs; exact E].
Qed.

Lemma bind_total {A B} (r : res A) (f : A -> res B) : r <> Fuel -> (forall a, f a <> Fuel) -> bind r f <> Fuel.
Proof. destruct r; cbn; intros H1 H2; [apply H2|discriminate|congruence]. Qed.

(** ** sizes *)
Lemma encode_fields_in_len f fs : In f fs -> (length (encode_field f) <= length (encode_fields fs))%nat.
Proof.
  induction fs as [|g fs IH]; intros H; [contradiction|]. rewrite encode_fields_cons, app_length.
  destruct H as [->|H]; [lia|]. specialize (IH H). lia.
Qed.

Lemma encode_field_bytes_len num b : (length b <= length (encode_field (num, VBytes b)))%nat.
Proof. unfold encode_field. cbn. rewrite !app_length. lia. Qed.

(** every [bytes] payload of a message is shorter than the message *)
Lemma payload_len num b fs : In (num, VBytes b) fs -> len b <= len (encode_fields fs).
Proof.
  intros H. apply encode_fields_in_len in H. pose proof (encode_field_bytes_len num b). unfold len. lia.
Qed.

(** ** delimited stream *)
Theorem read_write_frame m bs rest : write_frame m = Some bs -> read_frame (bs ++ rest) = FOk m rest.
Proof.
  unfold write_frame. destruct (Z.ltb_spec max_message_size (len m)) as [|Hsz]; [discriminate|].
  intros H; inversion H; subst; clear H. unfold read_frame.
  assert (Hr : 0 <= len m < two64) by (unfold len, two64, max_message_size in *; lia).
  rewrite <- app_assoc.
  destruct (uvarint_enc (len m) ++ m ++ rest) eqn:E.
  { exfalso. apply app_eq_nil in E as [E _]. eapply uvarint_enc_fuel_nonempty; exact E. }
  rewrite <- E. rewrite std_uvarint_enc by exact Hr.
  destruct (Z.ltb_spec max_message_size (len m)); [lia|].
  destruct (Z.eqb_spec (len m) 0) as [H0|H0].
  - destruct m; [reflexivity|unfold len in H0; cbn in H0; lia].
  - destruct m as [|x m]; [unfold len in H0; cbn in H0; lia|]. cbn [app].
    change (x :: m ++ rest) with ((x :: m) ++ rest).
    rewrite take_app by (unfold two63, max_message_size in *; lia). reflexivity.
Qed.

(** a frame cut short anywhere is never accepted (an error, or — right after the length prefix — io.EOF) *)
Theorem read_frame_truncated m bs k :
  write_frame m = Some bs -> (k < length bs)%nat ->
  read_frame (firstn k bs) = FErr \/ read_frame (firstn k bs) = FEof.
Proof.
  unfold write_frame. destruct (Z.ltb_spec max_message_size (len m)) as [|Hsz]; [discriminate|].
  intros H Hk; inversion H; subst; clear H.
  assert (Hr : 0 <= len m < two64) by (unfold len, two64, max_message_size in *; lia).
  destruct (le_lt_dec (length (uvarint_enc (len m))) k) as [Hge|Hlt].
  - (* the prefix is complete, the payload is not *)
    rewrite firstn_app. rewrite firstn_all2 by lia.
    set (j := (k - length (uvarint_enc (len m)))%nat).
    assert (Hj : (j < length m)%nat) by (subst j; rewrite app_length in Hk; lia).
    unfold read_frame.
    destruct (uvarint_enc (len m) ++ firstn j m) eqn:E.
    { exfalso. apply app_eq_nil in E as [E _]. eapply uvarint_enc_fuel_nonempty; exact E. }
    rewrite <- E. rewrite std_uvarint_enc by exact Hr.
    destruct (Z.ltb_spec max_message_size (len m)); [lia|].
    destruct (Z.eqb_spec (len m) 0) as [H0|H0]; [unfold len in H0; lia|].
    destruct (firstn j m) eqn:E2; [right; reflexivity|]. rewrite <- E2.
    rewrite take_short; [left; reflexivity|]. unfold len. rewrite firstn_length. lia.
  - (* cut inside the length prefix *)
    rewrite firstn_app. replace (k - length (uvarint_enc (len m)))%nat with 0%nat by lia.
    cbn [firstn]. rewrite app_nil_r. unfold read_frame.
    destruct (firstn k (uvarint_enc (len m))) eqn:E; [right; reflexivity|]. rewrite <- E.
    rewrite std_uvarint_enc_truncated; [left; reflexivity|unfold len; lia|exact Hlt].
Qed.

(** the reader consumes at least the prefix byte *)
Lemma read_frame_shorter bs m rest : read_frame bs = FOk m rest -> (length rest < length bs)%nat.
Proof.
  unfold read_frame. destruct bs as [|b bs]; [discriminate|].
  destruct (std_uvarint (b :: bs)) as [[size r]|] eqn:E; [|discriminate].
  apply std_uvarint_shorter in E.
  destruct (max_message_size <? size); [discriminate|].
  destruct (size =? 0); [intros H; inversion H; subst; lia|].
  destruct r as [|x r]; [discriminate|].
  destruct (take size (x :: r)) as [[mm rr]|] eqn:E2; [|discriminate].
  apply take_shorter in E2. intros H; inversion H; subst. lia.
Qed.

Lemma write_frame_len m bs : write_frame m = Some bs -> (length m <= length bs)%nat /\ bs <> [].
Proof.
  unfold write_frame. destruct (max_message_size <? len m); [discriminate|]. intros H; inversion H; subst.
  rewrite app_length. split; [lia|]. intros E. apply app_eq_nil in E as [E _]. eapply uvarint_enc_fuel_nonempty; exact E.
Qed.

(** Proofs about Shwap/Containers.v: every container survives the protobuf form and the delimited-stream form up to the
    normalisation the Go code itself performs; decoders are total, refuse malformed shares / empty range rows / wrong wire
    types / truncated frames; encoders are injective up to the same normalisation. *)
From Coq Require Import List ZArith Lia Bool.
From CN Require Import Base.Bytes Base.Varint Base.VarintProofs Shwap.Wire Shwap.WireProofs Shwap.Containers.
Import ListNotations.
Open Scope Z_scope.

(** * Preliminaries *)
Lemma small_iff bs : small bs = true <-> len bs < two63.
Proof. unfold small. apply Z.ltb_lt. Qed.

Lemma Forall_app_intro {A} (P : A -> Prop) a b : Forall P a -> Forall P b -> Forall P (a ++ b).
Proof. intros; apply Forall_app; split; assumption. Qed.

Lemma len_app a b : len (a ++ b) = len a + len b.
Proof. unfold len. rewrite app_length. lia. Qed.

Lemma len_nonneg a : 0 <= len a.
Proof. unfold len. lia. Qed.

(** shape of the fields the encoders emit: number in range, a uint64 varint or a bytes payload *)
Definition shape_ok (f : field) : Prop :=
  1 <= fst f < two31 /\ match snd f with VVarint v => 0 <= v < two64 | VBytes _ => True | _ => False end.

Lemma fields_ok_small fs :
  Forall shape_ok fs -> len (encode_fields fs) < two63 -> Forall field_ok fs.
Proof.
  intros Hs Hl. rewrite Forall_forall in *. intros [n v] Hin. specialize (Hs _ Hin) as [Hn Hv].
  split; [exact Hn|]. cbn [fst snd] in *. destruct v; try contradiction; try exact Hv.
  apply payload_len in Hin. lia.
Qed.

Lemma shape_varint n v : 1 <= n < two31 -> shape_ok (n, VVarint (u64_of_int v)).
Proof. intros H. split; [exact H|]. apply u64_of_int_range. Qed.
Lemma shape_bytes n b : 1 <= n < two31 -> shape_ok (n, VBytes b).
Proof. intros H. split; [exact H|exact I]. Qed.

Lemma shape_opt_msg {A} n (enc : A -> list Z) o : 1 <= n < two31 -> Forall shape_ok (opt_msg n enc o).
Proof. intros H. destruct o; cbn; repeat constructor; cbn; try lia. Qed.
Lemma shape_rep_msg {A} n (enc : A -> list Z) l : 1 <= n < two31 -> Forall shape_ok (rep_msg n enc l).
Proof. intros H. unfold rep_msg. apply Forall_forall. intros f Hin. apply in_map_iff in Hin as (a & <- & _). apply shape_bytes; exact H. Qed.
Lemma shape_enum n v : 1 <= n < two31 -> Forall shape_ok (enum_field n v).
Proof. intros H. unfold enum_field. destruct (v =? 0); repeat constructor; cbn; try lia; apply u64_of_int_range. Qed.

Ltac range31 := unfold two31; lia.

(** payloads of an encoded message are no longer than the message *)
Lemma small_payload n b fs : In (n, VBytes b) fs -> len (encode_fields fs) < two63 -> len b < two63.
Proof. intros H Hl. apply payload_len in H. lia. Qed.

(** * Share message *)
Lemma share_rt d0 d : len d < two63 ->
  pb_share_of_bytes d0 (pb_share_bytes d) = Ok (match d with [] => d0 | _ => d end).
Proof.
  intros H. unfold pb_share_of_bytes, pb_share_bytes.
  rewrite decode_encode_fields.
  - destruct d; reflexivity.
  - destruct d; [constructor|]. constructor; [|constructor]. split; cbn [fst snd]; [range31|exact H].
Qed.

Lemma share_bytes_small d : len (pb_share_bytes d) < two63 -> len d < two63.
Proof.
  intros H. destruct d as [|x d]; [unfold len, two63; cbn; lia|].
  eapply small_payload; [|exact H]. left; reflexivity.
Qed.

(** * Proof message *)
Lemma proof_step_1 p x : proof_step p (1, VVarint x) = Ok (mkproof (i64_of_u64 x) (p_end p) (p_nodes p) (p_leaf p) (p_ign p)).
Proof. reflexivity. Qed.
Lemma proof_step_2 p x : proof_step p (2, VVarint x) = Ok (mkproof (p_start p) (i64_of_u64 x) (p_nodes p) (p_leaf p) (p_ign p)).
Proof. reflexivity. Qed.
Lemma proof_step_3 p b : proof_step p (3, VBytes b) = Ok (mkproof (p_start p) (p_end p) (p_nodes p ++ [b]) (p_leaf p) (p_ign p)).
Proof. reflexivity. Qed.
Lemma proof_step_4 p b : proof_step p (4, VBytes b) = Ok (mkproof (p_start p) (p_end p) (p_nodes p) b (p_ign p)).
Proof. reflexivity. Qed.
Lemma proof_step_5 p x : proof_step p (5, VVarint x) = Ok (mkproof (p_start p) (p_end p) (p_nodes p) (p_leaf p) (negb (x mod two64 =? 0))).
Proof. reflexivity. Qed.

Lemma proof_nodes_fold ns : forall s,
  msg_fold proof_step s (map (fun n => (3, VBytes n)) ns) = Ok (mkproof (p_start s) (p_end s) (p_nodes s ++ ns) (p_leaf s) (p_ign s)).
Proof.
  induction ns as [|n ns IH]; intros s.
  - cbn. rewrite app_nil_r. destruct s; reflexivity.
  - cbn [map msg_fold]. rewrite proof_step_3. cbn [bind]. rewrite IH. cbn. rewrite <- app_assoc. reflexivity.
Qed.

Lemma proof_fold p : in_i64 (p_start p) = true -> in_i64 (p_end p) = true ->
  msg_fold proof_step proof0 (pb_proof_fields p) = Ok p.
Proof.
  destruct p as [st en ns lf ig]. cbn [p_start p_end p_nodes p_leaf p_ign]. intros Hs He.
  unfold pb_proof_fields. cbn [p_start p_end p_nodes p_leaf p_ign].
  rewrite msg_fold_app.
  match goal with |- bind ?x _ = _ => assert (E1 : x = Ok (mkproof st 0 [] [] false)) end.
  { destruct (Z.eqb_spec st 0) as [->|]; [reflexivity|]. cbn [msg_fold]. rewrite proof_step_1. cbn [bind]. rewrite i64_u64 by exact Hs. reflexivity. }
  rewrite E1. cbn [bind]. rewrite msg_fold_app.
  match goal with |- bind ?x _ = _ => assert (E2 : x = Ok (mkproof st en [] [] false)) end.
  { destruct (Z.eqb_spec en 0) as [->|]; [reflexivity|]. cbn [msg_fold]. rewrite proof_step_2. cbn [bind]. rewrite i64_u64 by exact He. reflexivity. }
  rewrite E2. cbn [bind]. rewrite msg_fold_app. rewrite proof_nodes_fold. cbn [bind p_start p_end p_nodes p_leaf p_ign app].
  rewrite msg_fold_app.
  match goal with |- bind ?x _ = _ => assert (E4 : x = Ok (mkproof st en ns lf false)) end.
  { destruct lf; [reflexivity|]. cbn [msg_fold]. rewrite proof_step_4. reflexivity. }
  rewrite E4. cbn [bind].
  destruct ig; [|reflexivity]. cbn [msg_fold]. rewrite proof_step_5. reflexivity.
Qed.

Lemma proof_fields_shape p : Forall shape_ok (pb_proof_fields p).
Proof.
  unfold pb_proof_fields. repeat apply Forall_app_intro.
  - destruct (p_start p =? 0); repeat constructor; cbn; try lia; apply u64_of_int_range.
  - destruct (p_end p =? 0); repeat constructor; cbn; try lia; apply u64_of_int_range.
  - apply Forall_forall. intros f Hin. apply in_map_iff in Hin as (a & <- & _). apply shape_bytes. range31.
  - destruct (p_leaf p); repeat constructor; cbn; lia.
  - destruct (p_ign p); repeat constructor; cbn; unfold two64; lia.
Qed.

Lemma proof_rt p : proof_ok p = true -> len (pb_proof_bytes p) < two63 ->
  pb_proof_of_bytes proof0 (pb_proof_bytes p) = Ok p.
Proof.
  intros Hok Hl. unfold pb_proof_of_bytes, pb_proof_bytes in *.
  rewrite decode_encode_fields by (apply fields_ok_small; [apply proof_fields_shape|exact Hl]).
  cbn [bind]. unfold proof_ok in Hok. do 3 (apply andb_true_iff in Hok as [Hok ?]).
  apply proof_fold; assumption.
Qed.

Lemma merge_proof_rt p : proof_ok p = true -> len (pb_proof_bytes p) < two63 ->
  merge_proof None (pb_proof_bytes p) = Ok (Some p).
Proof. intros H1 H2. unfold merge_proof. rewrite proof_rt by assumption. reflexivity. Qed.

(** * Repeated shares *)
Lemma shares_small_of l num tail :
  len (encode_fields (rep_msg num pb_share_bytes l ++ tail)) < two63 -> Forall (fun d => len d < two63) l.
Proof.
  intros H. apply Forall_forall. intros d Hin. apply share_bytes_small.
  eapply small_payload; [|exact H]. apply in_or_app. left. unfold rep_msg. apply in_map_iff. exists d. split; [reflexivity|exact Hin].
Qed.

Lemma row_step_1 m b : row_step m (1, VBytes b) = bind (pb_share_of_bytes [] b) (fun d => Ok (mkpbrow (pr_shares m ++ [d]) (pr_side m))).
Proof. reflexivity. Qed.
Lemma row_step_2 m x : row_step m (2, VVarint x) = Ok (mkpbrow (pr_shares m) (i32_of_u64 x)).
Proof. reflexivity. Qed.
Lemma rnd_step_1 m b : rnd_step m (1, VBytes b) = bind (pb_share_of_bytes [] b) (fun d => Ok (mkpbrnd (pd_shares m ++ [d]) (pd_proof m))).
Proof. reflexivity. Qed.
Lemma rnd_step_2 m b : rnd_step m (2, VBytes b) = bind (merge_proof (pd_proof m) b) (fun p => Ok (mkpbrnd (pd_shares m) p)).
Proof. reflexivity. Qed.
Lemma rowshares_step_1 r b : rowshares_step r (1, VBytes b) = bind (pb_share_of_bytes [] b) (fun d => Ok (r ++ [d])).
Proof. reflexivity. Qed.
Lemma sample_step_1 m b : sample_step m (1, VBytes b) =
  bind (pb_share_of_bytes (match ps_share m with Some d => d | None => [] end) b) (fun d => Ok (mkpbsample (Some d) (ps_proof m) (ps_type m))).
Proof. reflexivity. Qed.
Lemma sample_step_2 m b : sample_step m (2, VBytes b) = bind (merge_proof (ps_proof m) b) (fun p => Ok (mkpbsample (ps_share m) p (ps_type m))).
Proof. reflexivity. Qed.
Lemma sample_step_3 m x : sample_step m (3, VVarint x) = Ok (mkpbsample (ps_share m) (ps_proof m) (i32_of_u64 x)).
Proof. reflexivity. Qed.
Lemma range_step_1 m b : range_step m (1, VBytes b) = bind (pb_rowshares_of_bytes b) (fun r => Ok (mkpbrange (pg_rows m ++ [r]) (pg_first m) (pg_last m))).
Proof. reflexivity. Qed.
Lemma range_step_2 m b : range_step m (2, VBytes b) = bind (merge_proof (pg_first m) b) (fun p => Ok (mkpbrange (pg_rows m) p (pg_last m))).
Proof. reflexivity. Qed.
Lemma range_step_3 m b : range_step m (3, VBytes b) = bind (merge_proof (pg_last m) b) (fun p => Ok (mkpbrange (pg_rows m) (pg_first m) p)).
Proof. reflexivity. Qed.

Lemma share_rt_nil d : len d < two63 -> pb_share_of_bytes [] (pb_share_bytes d) = Ok d.
Proof. intros H. rewrite share_rt by exact H. destruct d; reflexivity. Qed.

Lemma row_shares_fold l : forall m, Forall (fun d => len d < two63) l ->
  msg_fold row_step m (rep_msg 1 pb_share_bytes l) = Ok (mkpbrow (pr_shares m ++ l) (pr_side m)).
Proof.
  induction l as [|d l IH]; intros m H.
  - cbn. rewrite app_nil_r. destruct m; reflexivity.
  - inversion H; subst. cbn [rep_msg map msg_fold]. rewrite row_step_1, share_rt_nil by assumption. cbn [bind].
    fold (rep_msg 1 pb_share_bytes l). rewrite IH by assumption. cbn. rewrite <- app_assoc. reflexivity.
Qed.

Lemma rnd_shares_fold l : forall m, Forall (fun d => len d < two63) l ->
  msg_fold rnd_step m (rep_msg 1 pb_share_bytes l) = Ok (mkpbrnd (pd_shares m ++ l) (pd_proof m)).
Proof.
  induction l as [|d l IH]; intros m H.
  - cbn. rewrite app_nil_r. destruct m; reflexivity.
  - inversion H; subst. cbn [rep_msg map msg_fold]. rewrite rnd_step_1, share_rt_nil by assumption. cbn [bind].
    fold (rep_msg 1 pb_share_bytes l). rewrite IH by assumption. cbn. rewrite <- app_assoc. reflexivity.
Qed.

Lemma rowshares_fold l : forall r, Forall (fun d => len d < two63) l ->
  msg_fold rowshares_step r (rep_msg 1 pb_share_bytes l) = Ok (r ++ l).
Proof.
  induction l as [|d l IH]; intros r H.
  - cbn. rewrite app_nil_r. reflexivity.
  - inversion H; subst. cbn [rep_msg map msg_fold]. rewrite rowshares_step_1, share_rt_nil by assumption. cbn [bind].
    fold (rep_msg 1 pb_share_bytes l). rewrite IH by assumption. rewrite <- app_assoc. reflexivity.
Qed.

Lemma rowshares_rt r : len (pb_rowshares_bytes r) < two63 -> pb_rowshares_of_bytes (pb_rowshares_bytes r) = Ok r.
Proof.
  intros H. unfold pb_rowshares_of_bytes, pb_rowshares_bytes in *.
  rewrite decode_encode_fields by (apply fields_ok_small; [apply shape_rep_msg; range31|exact H]).
  cbn [bind]. rewrite rowshares_fold; [reflexivity|].
  apply (shares_small_of r 1 []). rewrite app_nil_r. exact H.
Qed.

(** * pb records round-trip through their bytes *)
Lemma enum_fold_row m v : in_i32 v = true ->
  msg_fold row_step m (enum_field 2 v) = Ok (mkpbrow (pr_shares m) (if v =? 0 then pr_side m else v)).
Proof.
  intros H. unfold enum_field. destruct (v =? 0); [destruct m; reflexivity|].
  cbn [msg_fold]. rewrite row_step_2, i32_u64 by exact H. reflexivity.
Qed.

Theorem pb_row_rt m : in_i32 (pr_side m) = true -> len (encode_fields (pb_row_fields m)) < two63 ->
  pb_row_of_bytes (encode_fields (pb_row_fields m)) = Ok m.
Proof.
  intros Hside Hl. unfold pb_row_of_bytes.
  rewrite decode_encode_fields.
  2:{ apply fields_ok_small; [|exact Hl]. unfold pb_row_fields. apply Forall_app_intro; [apply shape_rep_msg|apply shape_enum]; range31. }
  cbn [bind]. unfold pb_row_fields in *. rewrite msg_fold_app.
  rewrite row_shares_fold by (eapply shares_small_of; exact Hl). cbn [bind pr_shares pr_side app].
  rewrite enum_fold_row by exact Hside. cbn [pr_shares pr_side]. destruct m as [ss sd]; cbn [pr_side pr_shares].
  destruct (Z.eqb_spec sd 0) as [->|]; reflexivity.
Qed.

Lemma opt_proof_small n o (pre post : list field) :
  len (encode_fields (pre ++ opt_msg n pb_proof_bytes o ++ post)) < two63 ->
  match o with Some p => len (pb_proof_bytes p) < two63 | None => True end.
Proof.
  intros H. destruct o as [p|]; [|exact I]. eapply small_payload; [|exact H].
  apply in_or_app. right. apply in_or_app. left. left. reflexivity.
Qed.

Theorem pb_rnd_rt m : oproof_ok (pd_proof m) = true -> len (encode_fields (pb_rnd_fields m)) < two63 ->
  pb_rnd_of_bytes (encode_fields (pb_rnd_fields m)) = Ok m.
Proof.
  intros Hp Hl. unfold pb_rnd_of_bytes.
  rewrite decode_encode_fields.
  2:{ apply fields_ok_small; [|exact Hl]. unfold pb_rnd_fields. apply Forall_app_intro; [apply shape_rep_msg|apply shape_opt_msg]; range31. }
  cbn [bind]. unfold pb_rnd_fields in *. rewrite msg_fold_app.
  rewrite rnd_shares_fold by (eapply shares_small_of; exact Hl). cbn [bind pd_shares pd_proof app].
  destruct m as [ss [p|]]; cbn [pd_proof pd_shares opt_msg msg_fold] in *; [|reflexivity].
  rewrite rnd_step_2. cbn [pd_proof pd_shares].
  rewrite merge_proof_rt; [reflexivity|exact Hp|].
  pose proof (opt_proof_small 2 (Some p) (rep_msg 1 pb_share_bytes ss) []) as Hs. cbn [opt_msg] in Hs. rewrite app_nil_r in Hs. apply Hs. exact Hl.
Qed.

Theorem pb_sample_rt d p t : proof_ok p = true -> in_i32 t = true ->
  len (encode_fields (pb_sample_fields (mkpbsample (Some d) (Some p) t))) < two63 ->
  pb_sample_of_bytes (encode_fields (pb_sample_fields (mkpbsample (Some d) (Some p) t))) = Ok (mkpbsample (Some d) (Some p) t).
Proof.
  intros Hp Ht Hl. unfold pb_sample_of_bytes.
  rewrite decode_encode_fields.
  2:{ apply fields_ok_small; [|exact Hl]. unfold pb_sample_fields. repeat apply Forall_app_intro; [apply shape_opt_msg|apply shape_opt_msg|apply shape_enum]; range31. }
  cbn [bind]. unfold pb_sample_fields in *. cbn [ps_share ps_proof ps_type opt_msg] in *.
  cbn [app msg_fold]. rewrite sample_step_1. cbn [ps_share ps_proof ps_type].
  rewrite share_rt_nil.
  2:{ apply share_bytes_small. eapply small_payload; [|exact Hl]. left; reflexivity. }
  cbn [bind]. rewrite sample_step_2. cbn [ps_share ps_proof ps_type].
  rewrite merge_proof_rt; [|exact Hp|].
  2:{ eapply small_payload; [|exact Hl]. right; left; reflexivity. }
  cbn [bind]. unfold enum_field. destruct (Z.eqb_spec t 0) as [->|]; [reflexivity|].
  cbn [msg_fold]. rewrite sample_step_3, i32_u64 by exact Ht. reflexivity.
Qed.

Lemma range_rows_fold l : forall m, Forall (fun r => len (pb_rowshares_bytes r) < two63) l ->
  msg_fold range_step m (rep_msg 1 pb_rowshares_bytes l) = Ok (mkpbrange (pg_rows m ++ l) (pg_first m) (pg_last m)).
Proof.
  induction l as [|r l IH]; intros m H.
  - cbn. rewrite app_nil_r. destruct m; reflexivity.
  - inversion H; subst. cbn [rep_msg map msg_fold]. rewrite range_step_1, rowshares_rt by assumption. cbn [bind].
    fold (rep_msg 1 pb_rowshares_bytes l). rewrite IH by assumption. cbn. rewrite <- app_assoc. reflexivity.
Qed.

Theorem pb_range_rt m : oproof_ok (pg_first m) = true -> oproof_ok (pg_last m) = true ->
  len (encode_fields (pb_range_fields m)) < two63 ->
  pb_range_of_bytes (encode_fields (pb_range_fields m)) = Ok m.
Proof.
  intros Hf Hla Hl. unfold pb_range_of_bytes.
  rewrite decode_encode_fields.
  2:{ apply fields_ok_small; [|exact Hl]. unfold pb_range_fields. repeat apply Forall_app_intro; [apply shape_rep_msg|apply shape_opt_msg|apply shape_opt_msg]; range31. }
  cbn [bind]. unfold pb_range_fields in *. rewrite msg_fold_app.
  rewrite range_rows_fold.
  2:{ apply Forall_forall. intros r Hin. eapply small_payload; [|exact Hl]. apply in_or_app. left. unfold rep_msg. apply in_map_iff. exists r. split; [reflexivity|exact Hin]. }
  cbn [bind pg_rows pg_first pg_last app]. rewrite msg_fold_app.
  pose proof (opt_proof_small 2 (pg_first m) (rep_msg 1 pb_rowshares_bytes (pg_rows m)) (opt_msg 3 pb_proof_bytes (pg_last m)) Hl) as Hs1.
  assert (Hs2 : match pg_last m with Some p => len (pb_proof_bytes p) < two63 | None => True end).
  { destruct (pg_last m) as [p|]; [|exact I]. eapply small_payload; [|exact Hl].
    apply in_or_app. right. apply in_or_app. right. left. reflexivity. }
  destruct m as [rows [pf|] [pl|]]; cbn [pg_rows pg_first pg_last opt_msg msg_fold bind oproof_ok] in *.
  - rewrite range_step_2. cbn [pg_rows pg_first pg_last]. rewrite merge_proof_rt by assumption. cbn [bind].
    rewrite range_step_3. cbn [pg_rows pg_first pg_last]. rewrite merge_proof_rt by assumption. reflexivity.
  - rewrite range_step_2. cbn [pg_rows pg_first pg_last]. rewrite merge_proof_rt by assumption. reflexivity.
  - rewrite range_step_3. cbn [pg_rows pg_first pg_last]. rewrite merge_proof_rt by assumption. reflexivity.
  - reflexivity.
Qed.

(** * FromProto after ToProto *)
Lemma shares_from_pb_ok l : shares_ok l = true -> shares_from_pb l = Some l.
Proof.
  induction l as [|d l IH]; intros H; [reflexivity|]. cbn [shares_ok forallb] in H. apply andb_true_iff in H as [Hd Hl].
  cbn [shares_from_pb]. unfold share_from_pb. unfold share_ok in Hd. apply andb_true_iff in Hd as [Hd _]. rewrite Hd.
  rewrite IH by exact Hl. reflexivity.
Qed.

Lemma shares_from_pb_spec l s : shares_from_pb l = Some s -> s = l /\ Forall (fun d => length d = share_size) s.
Proof.
  revert s; induction l as [|d l IH]; intros s H; cbn [shares_from_pb] in H.
  - inversion H; subst. split; [reflexivity|constructor].
  - unfold share_from_pb in H. destruct (Nat.eqb_spec (length d) share_size) as [Hd|]; [|discriminate].
    destruct (shares_from_pb l) as [t|]; [|discriminate]. inversion H; subst.
    destruct (IH t eq_refl) as [-> Hall]. split; [reflexivity|]. constructor; assumption.
Qed.

Lemma forallb_firstn {A} (f : A -> bool) n l : forallb f l = true -> forallb f (firstn n l) = true.
Proof.
  revert n; induction l as [|x l IH]; intros n H; [destruct n; reflexivity|].
  destruct n; [reflexivity|]. cbn in *. apply andb_true_iff in H as [H1 H2]. rewrite H1, IH by exact H2. reflexivity.
Qed.

Lemma range_rows_from_pb_ok rows :
  forallb (fun r => negb (Nat.eqb (length r) 0) && shares_ok r) rows = true -> range_rows_from_pb rows = Some rows.
Proof.
  induction rows as [|r rows IH]; intros H; [reflexivity|]. cbn [forallb] in H.
  apply andb_true_iff in H as [Hr Hrows]. apply andb_true_iff in Hr as [Hne Hs].
  cbn [range_rows_from_pb]. rewrite shares_from_pb_ok by exact Hs. rewrite IH by exact Hrows.
  destruct r; [discriminate|reflexivity].
Qed.

Lemma range_rows_from_pb_spec l rows : range_rows_from_pb l = Some rows ->
  rows = l /\ Forall (fun r => r <> [] /\ Forall (fun d => length d = share_size) r) rows.
Proof.
  revert rows; induction l as [|r l IH]; intros rows H; cbn [range_rows_from_pb] in H.
  - inversion H; subst. split; [reflexivity|constructor].
  - destruct (shares_from_pb r) as [s|] eqn:E; [|discriminate]. apply shares_from_pb_spec in E as [-> Hs].
    destruct r as [|d r]; [discriminate|].
    destruct (range_rows_from_pb l) as [t|]; [|discriminate]. inversion H; subst.
    destruct (IH t eq_refl) as [-> Hall]. split; [reflexivity|]. constructor; [split; [discriminate|exact Hs]|exact Hall].
Qed.

(** * Round trips, protobuf form *)
Definition enc_is (e : enc_res) (bs : list Z) : Prop := e = EBytes bs.

Theorem sample_roundtrip s bs :
  sample_wf s = true -> sample_to_bytes s = EBytes bs -> small bs = true -> sample_from_bytes bs = Ok (sample_canon s).
Proof.
  intros Hwf He Hsm. apply small_iff in Hsm. unfold sample_wf in Hwf.
  destruct s as [d [p|] ax]; cbn [s_share s_proof s_axis] in Hwf.
  2:{ rewrite andb_false_r in Hwf. discriminate. }
  apply andb_true_iff in Hwf as [Hwf Hax]. apply andb_true_iff in Hwf as [Hd Hp].
  unfold sample_to_bytes, sample_to_pb in He. cbn [s_share s_proof s_axis] in He.
  assert (Hbs : bs = encode_fields (pb_sample_fields (mkpbsample (Some d) (Some p) (i32_wrap ax)))) by congruence. subst bs. clear He.
  unfold sample_from_bytes. rewrite i32_wrap_id in * by exact Hax.
  rewrite pb_sample_rt by assumption. cbn [bind].
  unfold sample_from_pb. cbn [ps_share ps_proof ps_type]. unfold share_from_pb.
  unfold share_ok in Hd. apply andb_true_iff in Hd as [Hd _]. rewrite Hd. reflexivity.
Qed.

Lemma row_to_pb_side r : row_wf r = true -> in_i32 (pr_side (row_to_pb r)) = true.
Proof.
  intros _. unfold row_to_pb. destruct (r_side r =? 2); [reflexivity|]. unfold side_to_pb. destruct (r_side r =? 0); reflexivity.
Qed.

Theorem row_roundtrip r bs :
  row_wf r = true -> row_to_bytes r = EBytes bs -> small bs = true -> row_from_bytes bs = Ok (row_canon r).
Proof.
  intros Hwf He Hsm. apply small_iff in Hsm. unfold row_to_bytes in He.
  assert (Hbs : bs = encode_fields (pb_row_fields (row_to_pb r))) by congruence. subst bs. clear He.
  unfold row_from_bytes. rewrite pb_row_rt by (try apply row_to_pb_side; assumption). cbn [bind].
  unfold row_wf in Hwf. apply andb_true_iff in Hwf as [Hs Hside].
  unfold row_from_pb, row_to_pb, row_canon.
  destruct (Z.eqb_spec (r_side r) 2) as [E2|N2]; cbn [pr_shares pr_side].
  - unfold shares_ok in *. rewrite shares_from_pb_ok by (apply forallb_firstn; exact Hs). reflexivity.
  - rewrite shares_from_pb_ok by exact Hs. unfold side_to_pb, side_from_pb. destruct r as [ss sd]; cbn [r_side r_shares] in *.
    destruct (Z.eqb_spec sd 0) as [->|N0]; [reflexivity|].
    destruct (Z.eqb_spec sd 1) as [->|N1]; [reflexivity|].
    destruct (Z.eqb_spec sd 2); [contradiction|discriminate].
Qed.

Theorem rnd_roundtrip d bs :
  rnd_wf d = true -> rnd_to_bytes d = EBytes bs -> small bs = true -> rnd_from_bytes bs = Ok d.
Proof.
  intros Hwf He Hsm. apply small_iff in Hsm. unfold rnd_to_bytes in He.
  assert (Hbs : bs = encode_fields (pb_rnd_fields (rnd_to_pb d))) by congruence. subst bs. clear He.
  unfold rnd_wf in Hwf. apply andb_true_iff in Hwf as [Hs Hp].
  unfold rnd_from_bytes. rewrite pb_rnd_rt by assumption. cbn [bind].
  unfold rnd_from_pb, rnd_to_pb. cbn [pd_shares pd_proof]. rewrite shares_from_pb_ok by exact Hs. destruct d; reflexivity.
Qed.

Theorem range_roundtrip g bs :
  range_wf g = true -> range_to_bytes g = EBytes bs -> small bs = true -> range_from_bytes bs = Ok (range_canon_pb g).
Proof.
  intros Hwf He Hsm. apply small_iff in Hsm. unfold range_to_bytes in He.
  assert (Hbs : bs = encode_fields (pb_range_fields (range_to_pb g))) by congruence. subst bs. clear He.
  unfold range_wf in Hwf. apply andb_true_iff in Hwf as [Hwf Hl]. apply andb_true_iff in Hwf as [Hrows Hf].
  unfold range_from_bytes. rewrite pb_range_rt by assumption. cbn [bind].
  unfold range_from_pb, range_to_pb. cbn [pg_rows pg_first pg_last]. rewrite range_rows_from_pb_ok by exact Hrows. reflexivity.
Qed.

(** * Round trips, delimited stream *)
Lemma frame_small m bs : write_frame m = Some bs -> len m < two63.
Proof.
  unfold write_frame. destruct (Z.ltb_spec max_message_size (len m)); [discriminate|]. intros _.
  unfold max_message_size, two63 in *. lia.
Qed.

Lemma frame_of_bytes e bs : frame_of e = EBytes bs -> exists m, e = EBytes m /\ write_frame m = Some bs.
Proof.
  destruct e as [m| |]; cbn; try discriminate. destruct (write_frame m) as [b|] eqn:E; [|discriminate].
  intros H; inversion H; subst. exists m. split; [reflexivity|exact E].
Qed.

Lemma read_one_rt {A} (dec : list Z -> res A) m bs rest a :
  write_frame m = Some bs -> dec m = Ok a -> read_one dec (bs ++ rest) = Ok (a, rest).
Proof. intros Hw Hd. unfold read_one. rewrite (read_write_frame m bs rest Hw). rewrite Hd. reflexivity. Qed.

Theorem sample_stream_roundtrip s bs rest :
  sample_wf s = true -> sample_to_stream s = EBytes bs -> sample_read (bs ++ rest) = Ok (sample_canon s, rest).
Proof.
  intros Hwf He. apply frame_of_bytes in He as (m & Hm & Hw).
  eapply read_one_rt; [exact Hw|]. apply sample_roundtrip; [exact Hwf|exact Hm|]. apply small_iff. eapply frame_small; exact Hw.
Qed.

Theorem row_stream_roundtrip r bs rest :
  row_wf r = true -> row_to_stream r = EBytes bs -> row_read (bs ++ rest) = Ok (row_canon r, rest).
Proof.
  intros Hwf He. apply frame_of_bytes in He as (m & Hm & Hw).
  eapply read_one_rt; [exact Hw|]. apply row_roundtrip; [exact Hwf|exact Hm|]. apply small_iff. eapply frame_small; exact Hw.
Qed.

Theorem rnd_stream_roundtrip d bs rest :
  rnd_wf d = true -> rnd_to_stream d = EBytes bs -> rnd_read (bs ++ rest) = Ok (d, rest).
Proof.
  intros Hwf He. apply frame_of_bytes in He as (m & Hm & Hw).
  eapply read_one_rt; [exact Hw|]. apply rnd_roundtrip; [exact Hwf|exact Hm|]. apply small_iff. eapply frame_small; exact Hw.
Qed.

Lemma nd_to_stream_cons d nd bs :
  nd_to_stream (d :: nd) = EBytes bs -> exists a b, rnd_to_stream d = EBytes a /\ nd_to_stream nd = EBytes b /\ bs = a ++ b.
Proof.
  cbn [nd_to_stream]. destruct (rnd_to_stream d) as [a| |]; try discriminate.
  destruct (nd_to_stream nd) as [b| |]; try discriminate. intros H; inversion H; subst. exists a, b. repeat split.
Qed.

Lemma nd_read_fuel_rt nd : forall bs fuel,
  nd_wf nd = true -> nd_to_stream nd = EBytes bs -> (length bs < fuel)%nat -> nd_read_fuel fuel bs = Ok nd.
Proof.
  induction nd as [|d nd IH]; intros bs fuel Hwf He Hl.
  - cbn in He. inversion He; subst. destruct fuel; [lia|reflexivity].
  - apply nd_to_stream_cons in He as (a & b & Ha & Hb & ->).
    cbn [nd_wf forallb] in Hwf. apply andb_true_iff in Hwf as [Hd Hnd].
    apply frame_of_bytes in Ha as (m & Hm & Hw).
    destruct fuel as [|fuel]; [lia|]. cbn [nd_read_fuel]. rewrite (read_write_frame m a b Hw).
    rewrite (rnd_roundtrip d m Hd Hm) by (apply small_iff; eapply frame_small; exact Hw). cbn [bind].
    rewrite IH; [reflexivity|exact Hnd|exact Hb|].
    apply write_frame_len in Hw as [_ Hne]. rewrite app_length in Hl. destruct a; [congruence|cbn in Hl; lia].
Qed.

Theorem nd_stream_roundtrip nd bs : nd_wf nd = true -> nd_to_stream nd = EBytes bs -> nd_read bs = Ok nd.
Proof. intros Hwf He. unfold nd_read. apply nd_read_fuel_rt; [exact Hwf|exact He|lia]. Qed.

(** the range travels as the row sequence [range_as_nd] *)
Lemma rows_as_rnd_shares rows : forall i n f l, map d_shares (range_rows_as_rnd i n f l rows) = rows.
Proof. induction rows as [|r rows IH]; intros; [reflexivity|]. cbn. rewrite IH. reflexivity. Qed.

Lemma rows_as_rnd_wf rows : forall i n f l,
  forallb shares_ok rows = true -> oproof_ok f = true -> oproof_ok l = true -> nd_wf (range_rows_as_rnd i n f l rows) = true.
Proof.
  induction rows as [|r rows IH]; intros i n f l Hr Hf Hl; [reflexivity|].
  cbn [forallb] in Hr. apply andb_true_iff in Hr as [Hr1 Hr2].
  cbn [range_rows_as_rnd nd_wf forallb]. fold (nd_wf (range_rows_as_rnd (S i) n f l rows)). rewrite IH by assumption.
  unfold rnd_wf. cbn [d_shares d_proof]. rewrite Hr1.
  destruct (Nat.eqb i 0); [rewrite Hf; reflexivity|]. destruct (Nat.eqb i (n - 1)); [rewrite Hl; reflexivity|reflexivity].
Qed.

Lemma rows_as_rnd_last rows : forall i n f l dflt,
  rows <> [] -> (0 < i)%nat -> (i + length rows = n)%nat ->
  d_proof (last (range_rows_as_rnd i n f l rows) dflt) = l.
Proof.
  induction rows as [|r rows IH]; intros i n f l dflt Hne Hi Hn; [congruence|].
  destruct rows as [|r2 rows].
  - cbn [range_rows_as_rnd last d_proof length] in *. destruct (Nat.eqb_spec i 0); [lia|].
    destruct (Nat.eqb_spec i (n - 1)); [reflexivity|lia].
  - cbn [range_rows_as_rnd]. cbn [range_rows_as_rnd] in IH.
    change (last (?a :: ?b :: ?c) dflt) with (last (b :: c) dflt).
    apply (IH (S i) n f l dflt); [discriminate|lia|cbn [length] in *; lia].
Qed.

Lemma range_of_as_nd g : range_of_nd (range_as_nd g) = range_canon_stream g.
Proof.
  destruct g as [rows f l]. unfold range_as_nd, range_of_nd, range_canon_stream. cbn [g_rows g_first g_last].
  destruct rows as [|r1 [|r2 rows]]; [reflexivity|reflexivity|].
  rewrite rows_as_rnd_shares. f_equal.
  cbn [range_rows_as_rnd].
  apply (rows_as_rnd_last (r2 :: rows) 1 (length (r1 :: r2 :: rows)) f l); [discriminate|lia|reflexivity].
Qed.

Lemma range_rows_shares_ok g : range_wf g = true -> forallb shares_ok (g_rows g) = true /\ oproof_ok (g_first g) = true /\ oproof_ok (g_last g) = true.
Proof.
  unfold range_wf. intros H. apply andb_true_iff in H as [H Hl]. apply andb_true_iff in H as [Hr Hf].
  repeat split; try assumption. rewrite forallb_forall in *. intros r Hin. specialize (Hr r Hin). apply andb_true_iff in Hr as [_ Hr]. exact Hr.
Qed.

Theorem range_stream_roundtrip g bs :
  range_wf g = true -> range_to_stream g = EBytes bs -> range_read bs = Ok (range_canon_stream g).
Proof.
  intros Hwf He. apply range_rows_shares_ok in Hwf as (Hr & Hf & Hl).
  unfold range_to_stream in He. destruct (nd_to_stream (range_as_nd g)) as [b| |] eqn:E; try discriminate.
  inversion He; subst b. unfold range_read.
  rewrite (nd_stream_roundtrip (range_as_nd g) bs); [|apply rows_as_rnd_wf; assumption|exact E].
  cbn [bind]. rewrite range_of_as_nd. reflexivity.
Qed.

(** * Totality: a value or an error for every byte string, never an exhausted budget *)
Lemma share_of_bytes_total d bs : pb_share_of_bytes d bs <> Fuel.
Proof.
  unfold pb_share_of_bytes. apply bind_total; [apply decode_fields_total|]. intros fs. apply msg_fold_total.
  intros s [n v]. unfold share_step. destruct (n =? 1); [destruct v|]; discriminate.
Qed.

Lemma proof_of_bytes_total p bs : pb_proof_of_bytes p bs <> Fuel.
Proof.
  unfold pb_proof_of_bytes. apply bind_total; [apply decode_fields_total|]. intros fs. apply msg_fold_total.
  intros s [n v]. unfold proof_step.
  repeat match goal with |- context [if ?c then _ else _] => destruct c end; try destruct v; discriminate.
Qed.

Lemma merge_proof_total o bs : merge_proof o bs <> Fuel.
Proof. unfold merge_proof. apply bind_total; [apply proof_of_bytes_total|discriminate]. Qed.

Lemma of_opt_total {A} (o : option A) : of_opt o <> Fuel.
Proof. destruct o; discriminate. Qed.

Ltac step_total :=
  intros s [n v];
  repeat match goal with |- context [if ?c then _ else _] => destruct c end;
  try destruct v; try discriminate;
  apply bind_total; try discriminate;
  first [apply share_of_bytes_total | apply merge_proof_total | idtac].

Lemma rowshares_of_bytes_total bs : pb_rowshares_of_bytes bs <> Fuel.
Proof.
  unfold pb_rowshares_of_bytes. apply bind_total; [apply decode_fields_total|]. intros fs. apply msg_fold_total.
  unfold rowshares_step. step_total.
Qed.

Theorem sample_from_bytes_total bs : sample_from_bytes bs <> Fuel.
Proof.
  unfold sample_from_bytes. apply bind_total; [|intros; apply of_opt_total].
  unfold pb_sample_of_bytes. apply bind_total; [apply decode_fields_total|]. intros fs. apply msg_fold_total.
  unfold sample_step. step_total.
Qed.

Theorem row_from_bytes_total bs : row_from_bytes bs <> Fuel.
Proof.
  unfold row_from_bytes. apply bind_total; [|intros; apply of_opt_total].
  unfold pb_row_of_bytes. apply bind_total; [apply decode_fields_total|]. intros fs. apply msg_fold_total.
  unfold row_step. step_total.
Qed.

Theorem rnd_from_bytes_total bs : rnd_from_bytes bs <> Fuel.
Proof.
  unfold rnd_from_bytes. apply bind_total; [|intros; apply of_opt_total].
  unfold pb_rnd_of_bytes. apply bind_total; [apply decode_fields_total|]. intros fs. apply msg_fold_total.
  unfold rnd_step. step_total.
Qed.

Theorem range_from_bytes_total bs : range_from_bytes bs <> Fuel.
Proof.
  unfold range_from_bytes. apply bind_total; [|intros; apply of_opt_total].
  unfold pb_range_of_bytes. apply bind_total; [apply decode_fields_total|]. intros fs. apply msg_fold_total.
  unfold range_step. intros s [n v].
  repeat match goal with |- context [if ?c then _ else _] => destruct c end;
  try destruct v; try discriminate; apply bind_total; try discriminate;
  first [apply rowshares_of_bytes_total | apply merge_proof_total].
Qed.

Lemma read_one_total {A} (dec : list Z -> res A) bs : (forall m, dec m <> Fuel) -> read_one dec bs <> Fuel.
Proof. intros H. unfold read_one. destruct (read_frame bs); try discriminate. apply bind_total; [apply H|discriminate]. Qed.

Lemma nd_read_fuel_total fuel : forall bs, (length bs < fuel)%nat -> nd_read_fuel fuel bs <> Fuel.
Proof.
  induction fuel as [|fuel IH]; intros bs Hl; [lia|].
  cbn [nd_read_fuel]. destruct (read_frame bs) as [| |m rest] eqn:E; try discriminate.
  apply read_frame_shorter in E. apply bind_total; [apply rnd_from_bytes_total|]. intros d.
  apply bind_total; [apply IH; lia|discriminate].
Qed.

Theorem nd_read_total bs : nd_read bs <> Fuel.
Proof. apply nd_read_fuel_total. lia. Qed.

Theorem range_read_total bs : range_read bs <> Fuel.
Proof. unfold range_read. apply bind_total; [apply nd_read_total|discriminate]. Qed.

Theorem model_dec_total f k bs : model_dec f k bs <> Fuel.
Proof.
  destruct f, k; cbn [model_dec]; try discriminate; apply bind_total; try discriminate;
  first [apply sample_from_bytes_total | apply row_from_bytes_total | apply rnd_from_bytes_total | apply range_from_bytes_total
        | apply nd_read_total | apply range_read_total
        | apply read_one_total; first [apply sample_from_bytes_total | apply row_from_bytes_total | apply rnd_from_bytes_total]].
Qed.

(** * What a decoder returns is well formed: no share of another length, no empty range row (protobuf form) *)
Definition all_shares_512 (l : list share) : Prop := Forall (fun d => length d = share_size) l.

Theorem sample_from_bytes_share bs s : sample_from_bytes bs = Ok s -> length (s_share s) = share_size /\ s_proof s <> None.
Proof.
  unfold sample_from_bytes. destruct (pb_sample_of_bytes bs) as [m| |]; cbn [bind]; try discriminate.
  unfold sample_from_pb. destruct (ps_share m) as [d|]; [|discriminate].
  unfold share_from_pb. destruct (Nat.eqb_spec (length d) share_size); [|discriminate].
  cbn. intros H; inversion H; subst. cbn. split; [assumption|discriminate].
Qed.

Theorem row_from_bytes_shares bs r : row_from_bytes bs = Ok r -> all_shares_512 (r_shares r) /\ (r_side r = 0 \/ r_side r = 1).
Proof.
  unfold row_from_bytes. destruct (pb_row_of_bytes bs) as [m| |]; cbn [bind]; try discriminate.
  unfold row_from_pb. destruct (shares_from_pb (pr_shares m)) as [s|] eqn:E; [|discriminate].
  apply shares_from_pb_spec in E as [_ Hs]. cbn. intros H; inversion H; subst. cbn. split; [exact Hs|].
  unfold side_from_pb. destruct (pr_side m =? 0); [left|right]; reflexivity.
Qed.

Theorem rnd_from_bytes_shares bs d : rnd_from_bytes bs = Ok d -> all_shares_512 (d_shares d).
Proof.
  unfold rnd_from_bytes. destruct (pb_rnd_of_bytes bs) as [m| |]; cbn [bind]; try discriminate.
  unfold rnd_from_pb. destruct (shares_from_pb (pd_shares m)) as [s|] eqn:E; [|discriminate].
  apply shares_from_pb_spec in E as [_ Hs]. cbn. intros H; inversion H; subst. exact Hs.
Qed.

Theorem range_from_bytes_rows bs g : range_from_bytes bs = Ok g -> Forall (fun r => r <> [] /\ all_shares_512 r) (g_rows g).
Proof.
  unfold range_from_bytes. destruct (pb_range_of_bytes bs) as [m| |]; cbn [bind]; try discriminate.
  unfold range_from_pb. destruct (range_rows_from_pb (pg_rows m)) as [rows|] eqn:E; [|discriminate].
  apply range_rows_from_pb_spec in E as [_ Hs]. cbn. intros H; inversion H; subst. exact Hs.
Qed.

Lemma nd_read_fuel_shares fuel : forall bs nd, nd_read_fuel fuel bs = Ok nd -> Forall (fun d => all_shares_512 (d_shares d)) nd.
Proof.
  induction fuel as [|fuel IH]; intros bs nd H; [discriminate|]. cbn [nd_read_fuel] in H.
  destruct (read_frame bs) as [| |m rest]; try discriminate; [inversion H; constructor|].
  destruct (rnd_from_bytes m) as [d| |] eqn:E; cbn [bind] in H; try discriminate.
  destruct (nd_read_fuel fuel rest) as [l| |] eqn:E2; cbn [bind] in H; try discriminate.
  inversion H; subst. constructor; [eapply rnd_from_bytes_shares; exact E|eapply IH; exact E2].
Qed.

Theorem nd_read_shares bs nd : nd_read bs = Ok nd -> Forall (fun d => all_shares_512 (d_shares d)) nd.
Proof. apply nd_read_fuel_shares. Qed.

Theorem range_read_shares bs g : range_read bs = Ok g -> Forall all_shares_512 (g_rows g).
Proof.
  unfold range_read. destruct (nd_read bs) as [nd| |] eqn:E; cbn [bind]; try discriminate.
  intros H; inversion H; subst. cbn [range_of_nd g_rows]. apply nd_read_shares in E.
  apply Forall_forall. intros r Hin. apply in_map_iff in Hin as (d & <- & Hd). rewrite Forall_forall in E. apply E; exact Hd.
Qed.

(** * Wrong wire type for a known field: refused wherever it occurs in the message *)
Lemma msg_fold_err {S} (step : S -> field -> res S) f :
  (forall s, step s f = Err) -> forall a b s s', msg_fold step s (a ++ f :: b) <> Ok s'.
Proof.
  intros Hf a b s s'. rewrite msg_fold_app. destruct (msg_fold step s a); cbn [bind]; try discriminate.
  cbn [msg_fold]. rewrite Hf. discriminate.
Qed.

(** the wire type each container demands for its fields: 2 = length-delimited, 0 = varint *)
Definition known_wt (k : ckind) (n : Z) : option Z :=
  match k with
  | KSampleC => if n =? 1 then Some 2 else if n =? 2 then Some 2 else if n =? 3 then Some 0 else None
  | KRowC => if n =? 1 then Some 2 else if n =? 2 then Some 0 else None
  | KRndC | KNdC => if n =? 1 then Some 2 else if n =? 2 then Some 2 else None
  | KRangeC => if n =? 1 then Some 2 else if n =? 2 then Some 2 else if n =? 3 then Some 2 else None
  end.

Definition from_fields (k : ckind) (fs : list field) : res cont :=
  match k with
  | KSampleC => bind (msg_fold sample_step (mkpbsample None None 0) fs) (fun m => bind (of_opt (sample_from_pb m)) (fun x => Ok (CSample x)))
  | KRowC => bind (msg_fold row_step (mkpbrow [] 0) fs) (fun m => bind (of_opt (row_from_pb m)) (fun x => Ok (CRow x)))
  | KRndC | KNdC => bind (msg_fold rnd_step (mkpbrnd [] None) fs) (fun m => bind (of_opt (rnd_from_pb m)) (fun x => Ok (CRnd x)))
  | KRangeC => bind (msg_fold range_step (mkpbrange [] None None) fs) (fun m => bind (of_opt (range_from_pb m)) (fun x => Ok (CRange x)))
  end.

Theorem wrong_wiretype_refused k n v wt a b c :
  known_wt k n = Some wt -> wtype v <> wt -> from_fields k (a ++ (n, v) :: b) <> Ok c.
Proof.
  intros Hk Hw.
  assert (Hgen : forall S (step : S -> field -> res S) (init : S) (g : S -> res cont),
            (forall s, step s (n, v) = Err) -> bind (msg_fold step init (a ++ (n, v) :: b)) g <> Ok c).
  { intros S step init g Hs. destruct (msg_fold step init (a ++ (n, v) :: b)) eqn:E; cbn [bind]; try discriminate.
    exfalso. eapply msg_fold_err; [exact Hs|exact E]. }
  destruct k; cbn [from_fields known_wt] in *; apply Hgen; intros s;
  unfold sample_step, row_step, rnd_step, range_step;
  repeat match type of Hk with context [if ?c then _ else _] => destruct c eqn:? end;
  try discriminate; inversion Hk; subst wt; destruct v; cbn [wtype] in Hw; try reflexivity; try lia; congruence.
Qed.

(** the byte-level decoders are [from_fields] after the tokeniser *)
Lemma model_dec_proto_fields k bs : k <> KNdC ->
  model_dec FProto k bs = bind (decode_fields bs) (from_fields k).
Proof.
  intros Hk. destruct k; try congruence; cbn [model_dec from_fields];
  unfold sample_from_bytes, row_from_bytes, rnd_from_bytes, range_from_bytes,
         pb_sample_of_bytes, pb_row_of_bytes, pb_rnd_of_bytes, pb_range_of_bytes;
  destruct (decode_fields bs); cbn [bind from_fields]; try reflexivity;
  match goal with |- bind (bind ?x _) _ = _ => destruct x; reflexivity end.
Qed.

Theorem wrong_wiretype_refused_bytes k n v wt a b bs c :
  k <> KNdC -> known_wt k n = Some wt -> wtype v <> wt -> decode_fields bs = Ok (a ++ (n, v) :: b) ->
  model_dec FProto k bs <> Ok c.
Proof.
  intros Hk Hn Hw Hd. rewrite model_dec_proto_fields by exact Hk. rewrite Hd. cbn [bind].
  eapply wrong_wiretype_refused; eassumption.
Qed.

(** * Every decoder, both forms: what it returns holds only 512-byte shares; the protobuf form of a range has no empty row;
    a decoded row is a Left or Right half; a decoded sample carries a (non-nil) proof *)
Definition cont_decoded_ok (f : form) (c : cont) : Prop :=
  match c with
  | CSample s => length (s_share s) = share_size /\ s_proof s <> None
  | CRow r => all_shares_512 (r_shares r) /\ (r_side r = 0 \/ r_side r = 1)
  | CRnd d => all_shares_512 (d_shares d)
  | CNd nd => Forall (fun d => all_shares_512 (d_shares d)) nd
  | CRange g => Forall all_shares_512 (g_rows g) /\ (f = FProto -> Forall (fun r => r <> []) (g_rows g))
  end.

Lemma read_one_inv {A} (dec : list Z -> res A) bs a rest : read_one dec bs = Ok (a, rest) -> exists m, dec m = Ok a.
Proof.
  unfold read_one. destruct (read_frame bs) as [| |m r]; try discriminate.
  destruct (dec m) as [x| |] eqn:E; cbn [bind]; try discriminate. intros H; inversion H; subst. exists m. exact E.
Qed.

Theorem decoded_wellformed f k bs c : model_dec f k bs = Ok c -> cont_decoded_ok f c.
Proof.
  destruct f, k; cbn [model_dec]; try discriminate.
  - destruct (sample_from_bytes bs) as [x| |] eqn:E; cbn [bind]; try discriminate. intros H; inversion H; subst.
    apply sample_from_bytes_share in E. exact E.
  - destruct (row_from_bytes bs) as [x| |] eqn:E; cbn [bind]; try discriminate. intros H; inversion H; subst.
    apply row_from_bytes_shares in E. exact E.
  - destruct (rnd_from_bytes bs) as [x| |] eqn:E; cbn [bind]; try discriminate. intros H; inversion H; subst.
    apply rnd_from_bytes_shares in E. exact E.
  - destruct (range_from_bytes bs) as [x| |] eqn:E; cbn [bind]; try discriminate. intros H; inversion H; subst.
    apply range_from_bytes_rows in E. cbn. split; [|intros _]; apply Forall_forall; intros r Hin;
    rewrite Forall_forall in E; destruct (E r Hin); assumption.
  - destruct (sample_read bs) as [[x r]| |] eqn:E; cbn [bind]; try discriminate. intros H; inversion H; subst.
    apply read_one_inv in E as (m & E). apply sample_from_bytes_share in E. exact E.
  - destruct (row_read bs) as [[x r]| |] eqn:E; cbn [bind]; try discriminate. intros H; inversion H; subst.
    apply read_one_inv in E as (m & E). apply row_from_bytes_shares in E. exact E.
  - destruct (rnd_read bs) as [[x r]| |] eqn:E; cbn [bind]; try discriminate. intros H; inversion H; subst.
    apply read_one_inv in E as (m & E). apply rnd_from_bytes_shares in E. exact E.
  - destruct (nd_read bs) as [x| |] eqn:E; cbn [bind]; try discriminate. intros H; inversion H; subst.
    apply nd_read_shares in E. exact E.
  - destruct (range_read bs) as [x| |] eqn:E; cbn [bind]; try discriminate. intros H; inversion H; subst.
    apply range_read_shares in E. cbn. split; [exact E|discriminate].
Qed.

(** * Truncated frames are refused by every single-message stream decoder *)
Theorem read_one_truncated {A} (dec : list Z -> res A) m bs k :
  write_frame m = Some bs -> (k < length bs)%nat -> read_one dec (firstn k bs) = Err.
Proof.
  intros Hw Hk. unfold read_one. destruct (read_frame_truncated m bs k Hw Hk) as [-> | ->]; reflexivity.
Qed.

Theorem stream_truncated_refused f c bs k :
  f = FStream -> (match c with CNd _ | CRange _ => False | _ => True end) ->
  model_enc f c = EBytes bs -> (k < length bs)%nat ->
  model_dec f (match c with CSample _ => KSampleC | CRow _ => KRowC | CRnd _ => KRndC | CNd _ => KNdC | CRange _ => KRangeC end) (firstn k bs) = Err.
Proof.
  intros -> Hc He Hk. destruct c; try contradiction; cbn [model_enc model_dec] in *;
  apply frame_of_bytes in He as (m & _ & Hw);
  unfold sample_read, row_read, rnd_read; rewrite (read_one_truncated _ m bs k Hw Hk); reflexivity.
Qed.

(** A NamespaceData stream (a bare sequence of frames, no count) cut short anywhere yields an error or a proper prefix of the
    rows — never a wrong or partial row.  (Cut exactly between two frames, or right after a length prefix, the shorter sequence
    is accepted: the count is only checked later, by NamespaceData.Verify against the row roots.) *)
Lemma nd_read_fuel_truncated nd : forall bs k fuel,
  nd_wf nd = true -> nd_to_stream nd = EBytes bs -> (k < length bs)%nat -> (length (firstn k bs) < fuel)%nat ->
  nd_read_fuel fuel (firstn k bs) = Err \/ exists j, (j < length nd)%nat /\ nd_read_fuel fuel (firstn k bs) = Ok (firstn j nd).
Proof.
  induction nd as [|d nd IH]; intros bs k fuel Hwf He Hk Hf.
  - cbn in He. inversion He; subst. cbn in Hk. lia.
  - apply nd_to_stream_cons in He as (a & b & Ha & Hb & ->).
    cbn [nd_wf forallb] in Hwf. apply andb_true_iff in Hwf as [Hd Hnd].
    apply frame_of_bytes in Ha as (m & Hm & Hw).
    destruct fuel as [|fuel]; [lia|].
    destruct (le_lt_dec (length a) k) as [Hge|Hlt].
    + rewrite firstn_app in *. rewrite (firstn_all2 a) in * by lia.
      set (k' := (k - length a)%nat) in *.
      cbn [nd_read_fuel]. rewrite (read_write_frame m a _ Hw).
      rewrite (rnd_roundtrip d m Hd Hm) by (apply small_iff; eapply frame_small; exact Hw). cbn [bind].
      assert (Hk' : (k' < length b)%nat) by (subst k'; rewrite app_length in Hk; lia).
      assert (Hf' : (length (firstn k' b) < fuel)%nat).
      { apply write_frame_len in Hw as [_ Hne]. rewrite app_length in Hf. destruct a; [congruence|cbn in Hf; lia]. }
      destruct (IH b k' fuel Hnd Hb Hk' Hf') as [-> | (j & Hj & ->)]; [left; reflexivity|].
      right. exists (S j). split; [cbn; lia|reflexivity].
    + rewrite firstn_app. replace (k - length a)%nat with 0%nat by lia. cbn [firstn]. rewrite app_nil_r.
      cbn [nd_read_fuel]. destruct (read_frame_truncated m a k Hw Hlt) as [-> | ->]; [left; reflexivity|].
      right. exists 0%nat. split; [cbn; lia|reflexivity].
Qed.

Theorem nd_stream_truncated nd bs k :
  nd_wf nd = true -> nd_to_stream nd = EBytes bs -> (k < length bs)%nat ->
  nd_read (firstn k bs) = Err \/ exists j, (j < length nd)%nat /\ nd_read (firstn k bs) = Ok (firstn j nd).
Proof. intros Hwf He Hk. unfold nd_read. apply nd_read_fuel_truncated; try assumption. lia. Qed.

(** * Encoders are injective up to the normalisation *)
Theorem sample_enc_injective s1 s2 bs :
  sample_wf s1 = true -> sample_wf s2 = true -> small bs = true ->
  sample_to_bytes s1 = EBytes bs -> sample_to_bytes s2 = EBytes bs -> sample_canon s1 = sample_canon s2.
Proof.
  intros W1 W2 Hs E1 E2. pose proof (sample_roundtrip s1 bs W1 E1 Hs) as R1. pose proof (sample_roundtrip s2 bs W2 E2 Hs) as R2. congruence.
Qed.

Theorem row_enc_injective r1 r2 bs :
  row_wf r1 = true -> row_wf r2 = true -> small bs = true ->
  row_to_bytes r1 = EBytes bs -> row_to_bytes r2 = EBytes bs -> row_canon r1 = row_canon r2.
Proof.
  intros W1 W2 Hs E1 E2. pose proof (row_roundtrip r1 bs W1 E1 Hs) as R1. pose proof (row_roundtrip r2 bs W2 E2 Hs) as R2. congruence.
Qed.

Theorem rnd_enc_injective d1 d2 bs :
  rnd_wf d1 = true -> rnd_wf d2 = true -> small bs = true ->
  rnd_to_bytes d1 = EBytes bs -> rnd_to_bytes d2 = EBytes bs -> d1 = d2.
Proof.
  intros W1 W2 Hs E1 E2. pose proof (rnd_roundtrip d1 bs W1 E1 Hs) as R1. pose proof (rnd_roundtrip d2 bs W2 E2 Hs) as R2. congruence.
Qed.

Theorem range_enc_injective g1 g2 bs :
  range_wf g1 = true -> range_wf g2 = true -> small bs = true ->
  range_to_bytes g1 = EBytes bs -> range_to_bytes g2 = EBytes bs -> range_canon_pb g1 = range_canon_pb g2.
Proof.
  intros W1 W2 Hs E1 E2. pose proof (range_roundtrip g1 bs W1 E1 Hs) as R1. pose proof (range_roundtrip g2 bs W2 E2 Hs) as R2. congruence.
Qed.

Theorem nd_enc_injective n1 n2 bs :
  nd_wf n1 = true -> nd_wf n2 = true -> nd_to_stream n1 = EBytes bs -> nd_to_stream n2 = EBytes bs -> n1 = n2.
Proof.
  intros W1 W2 E1 E2. pose proof (nd_stream_roundtrip n1 bs W1 E1) as R1. pose proof (nd_stream_roundtrip n2 bs W2 E2) as R2. congruence.
Qed.

(** the normalisations are the identity exactly where one expects *)
Lemma sample_canon_id s : (forall p, s_proof s = Some p -> p_leaf p = []) -> sample_canon s = s.
Proof.
  destruct s as [d [p|] ax]; intros H; unfold sample_canon; cbn; [|reflexivity].
  specialize (H p eq_refl). destruct p; cbn in *; subst; reflexivity.
Qed.
Lemma row_canon_id r : r_side r <> 2 -> row_canon r = r.
Proof. intros H. unfold row_canon. destruct (Z.eqb_spec (r_side r) 2); [contradiction|reflexivity]. Qed.
Lemma range_canon_pb_id g :
  (forall p, g_first g = Some p \/ g_last g = Some p -> p_start p <> 0 \/ p_end p <> 0) -> range_canon_pb g = g.
Proof.
  assert (Hp : forall p, (p_start p <> 0 \/ p_end p <> 0) -> proto_to_proof p = p).
  { intros p H. unfold proto_to_proof. destruct (Z.eqb_spec (p_start p) 0), (Z.eqb_spec (p_end p) 0); cbn; try reflexivity. lia. }
  destruct g as [rows [f|] [l|]]; intros H; unfold range_canon_pb; cbn in *; repeat rewrite Hp; try reflexivity;
  apply H; auto.
Qed.
Lemma range_canon_stream_id g : (2 <= length (g_rows g))%nat -> range_canon_stream g = g.
Proof. destruct g as [[|r1 [|r2 rows]] f l]; cbn; intros H; try lia. reflexivity. Qed.

Theorem canon_identity :
  (forall s, (forall p, s_proof s = Some p -> p_leaf p = []) -> sample_canon s = s) /\
  (forall r, r_side r <> 2 -> row_canon r = r) /\
  (forall g, (forall p, g_first g = Some p \/ g_last g = Some p -> p_start p <> 0 \/ p_end p <> 0) -> range_canon_pb g = g) /\
  (forall g, (2 <= length (g_rows g))%nat -> range_canon_stream g = g).
Proof. exact (conj sample_canon_id (conj row_canon_id (conj range_canon_pb_id range_canon_stream_id))). Qed.

Theorem container_enc_injective :
  (forall s1 s2 bs, sample_wf s1 = true -> sample_wf s2 = true -> small bs = true ->
     sample_to_bytes s1 = EBytes bs -> sample_to_bytes s2 = EBytes bs -> sample_canon s1 = sample_canon s2) /\
  (forall r1 r2 bs, row_wf r1 = true -> row_wf r2 = true -> small bs = true ->
     row_to_bytes r1 = EBytes bs -> row_to_bytes r2 = EBytes bs -> row_canon r1 = row_canon r2) /\
  (forall d1 d2 bs, rnd_wf d1 = true -> rnd_wf d2 = true -> small bs = true ->
     rnd_to_bytes d1 = EBytes bs -> rnd_to_bytes d2 = EBytes bs -> d1 = d2) /\
  (forall g1 g2 bs, range_wf g1 = true -> range_wf g2 = true -> small bs = true ->
     range_to_bytes g1 = EBytes bs -> range_to_bytes g2 = EBytes bs -> range_canon_pb g1 = range_canon_pb g2) /\
  (forall n1 n2 bs, nd_wf n1 = true -> nd_wf n2 = true -> nd_to_stream n1 = EBytes bs -> nd_to_stream n2 = EBytes bs -> n1 = n2).
Proof. exact (conj sample_enc_injective (conj row_enc_injective (conj rnd_enc_injective (conj range_enc_injective nd_enc_injective)))). Qed.

(** * Examples: non-vacuity and the normalisations at work *)
Definition ex_share (b : Z) : share := repeat b share_size.
Definition ex_node (b : Z) : list Z := repeat b 90%nat.
Definition ex_proof : proof := mkproof 1 2 [ex_node 7; ex_node 8] [] true.
Definition ex_absence : proof := mkproof 1 2 [ex_node 7] (ex_node 9) true.
Definition ex_sample : sample := mksample (ex_share 5) (Some ex_proof) 1.
Definition ex_row_left : row := mkrow [ex_share 1; ex_share 2] 0.
Definition ex_row_both : row := mkrow [ex_share 1; ex_share 2; ex_share 3; ex_share 4] 2.
Definition ex_rnd_incl : rnd := mkrnd [ex_share 1; ex_share 2] (Some ex_proof).
Definition ex_rnd_abs : rnd := mkrnd [] (Some ex_absence).
Definition ex_range1 : range := mkrange [[ex_share 1]] (Some ex_proof) (Some ex_proof).
Definition ex_range3 : range := mkrange [[ex_share 1]; [ex_share 2; ex_share 3]; [ex_share 4]] (Some ex_proof) (Some (mkproof 0 1 [ex_node 3] [] true)).
Definition ex_range_zero : range := mkrange [[ex_share 1; ex_share 2]] (Some (mkproof 0 0 [ex_node 3] [] true)) None.

Definition dec_eq (r : res cont) (c : cont) : bool := match r with Ok v => cont_eqb v c | _ => false end.
Definition bytes_of (e : enc_res) : list Z := match e with EBytes b => b | _ => [] end.

Example examples_wf :
  cont_wf (CSample ex_sample) = true /\ cont_wf (CRow ex_row_left) = true /\ cont_wf (CRow ex_row_both) = true /\
  cont_wf (CRnd ex_rnd_incl) = true /\ cont_wf (CRnd ex_rnd_abs) = true /\ cont_wf (CNd [ex_rnd_incl; ex_rnd_abs]) = true /\
  cont_wf (CRange ex_range1) = true /\ cont_wf (CRange ex_range3) = true /\ cont_wf (CRange ex_range_zero) = true.
Proof. vm_compute. repeat split. Qed.

(** the round trips compute, on both forms *)
Example examples_roundtrip :
  dec_eq (model_dec FProto KSampleC (bytes_of (model_enc FProto (CSample ex_sample)))) (CSample ex_sample) = true /\
  dec_eq (model_dec FStream KSampleC (bytes_of (model_enc FStream (CSample ex_sample)))) (CSample ex_sample) = true /\
  dec_eq (model_dec FProto KRowC (bytes_of (model_enc FProto (CRow ex_row_left)))) (CRow ex_row_left) = true /\
  dec_eq (model_dec FProto KRndC (bytes_of (model_enc FProto (CRnd ex_rnd_abs)))) (CRnd ex_rnd_abs) = true /\
  dec_eq (model_dec FStream KNdC (bytes_of (model_enc FStream (CNd [ex_rnd_incl; ex_rnd_abs])))) (CNd [ex_rnd_incl; ex_rnd_abs]) = true /\
  dec_eq (model_dec FProto KRangeC (bytes_of (model_enc FProto (CRange ex_range3)))) (CRange ex_range3) = true /\
  dec_eq (model_dec FStream KRangeC (bytes_of (model_enc FStream (CRange ex_range3)))) (CRange ex_range3) = true.
Proof. vm_compute. repeat split. Qed.

(** ... and the normalisations are real: these values do NOT come back unchanged *)
Example normalisations_are_real :
  (* a Both row comes back as its Left half *)
  dec_eq (model_dec FProto KRowC (bytes_of (model_enc FProto (CRow ex_row_both)))) (CRow (mkrow [ex_share 1; ex_share 2] 0)) = true /\
  (* a sample's leaf hash is dropped *)
  dec_eq (model_dec FProto KSampleC (bytes_of (model_enc FProto (CSample (mksample (ex_share 5) (Some ex_absence) 0)))))
         (CSample (mksample (ex_share 5) (Some (mkproof 1 2 [ex_node 7] [] true)) 0)) = true /\
  (* protobuf form of a range: a proof with Start = End = 0 loses its nodes *)
  dec_eq (model_dec FProto KRangeC (bytes_of (model_enc FProto (CRange ex_range_zero))))
         (CRange (mkrange [[ex_share 1; ex_share 2]] (Some (mkproof 0 0 [] [] true)) None)) = true /\
  (* ... the stream form keeps them *)
  dec_eq (model_dec FStream KRangeC (bytes_of (model_enc FStream (CRange ex_range_zero)))) (CRange ex_range_zero) = true /\
  (* stream form of a single-row range: the last-row proof is not sent *)
  dec_eq (model_dec FStream KRangeC (bytes_of (model_enc FStream (CRange ex_range1)))) (CRange (mkrange [[ex_share 1]] (Some ex_proof) None)) = true.
Proof. vm_compute. repeat split. Qed.

(** outside the hypothesis the encoders do alter or refuse: an out-of-range side is sent as RIGHT, an axis is truncated to 32 bits,
    a sample without proof panics, an over-size row is refused by the stream writer *)
Example outside_wf :
  dec_eq (model_dec FProto KRowC (bytes_of (model_enc FProto (CRow (mkrow [ex_share 1] 7))))) (CRow (mkrow [ex_share 1] 1)) = true /\
  dec_eq (model_dec FProto KSampleC (bytes_of (model_enc FProto (CSample (mksample (ex_share 5) (Some ex_proof) 4294967297)))))
         (CSample (mksample (ex_share 5) (Some ex_proof) 1)) = true /\
  model_enc FProto (CSample (mksample (ex_share 5) None 0)) = EPanic /\
  model_enc FStream (CRow (mkrow (repeat (ex_share 1) 2048) 0)) = EError.
Proof. vm_compute. repeat split. Qed.

(** decoders accept what the format allows and nothing else *)
Example decoder_examples :
  (* unknown fields of every wire type (varint, fixed64, bytes, group, fixed32) are skipped *)
  model_dec FProto KRowC [16;1; 56;5; 57;1;2;3;4;5;6;7;8; 58;2;9;9; 59;8;1;60; 61;1;2;3;4] = Ok (CRow (mkrow [] 1)) /\
  (* wrong wire type for half_side; end-group at top level; tag 0; field number 2^29+1 wraps to ... an unknown field (skipped) *)
  model_dec FProto KRowC [18;1;0] = Err /\ model_dec FProto KRowC [12] = Err /\ model_dec FProto KRowC [0] = Err /\
  (* a share of 3 bytes *)
  model_dec FProto KRowC [10;5;10;3;1;2;3] = Err /\
  (* an empty row in a range *)
  model_dec FProto KRangeC [10;0] = Err /\
  (* half_side = 2^32 is LEFT (the enum is read as int32), half_side = 7 is RIGHT *)
  model_dec FProto KRowC [16;128;128;128;128;16] = Ok (CRow (mkrow [] 0)) /\ model_dec FProto KRowC [16;7] = Ok (CRow (mkrow [] 1)) /\
  (* stream: empty input, bare length prefix, short payload *)
  model_dec FStream KRowC [] = Err /\ model_dec FStream KRowC [5] = Err /\ model_dec FStream KRowC [5;16;1] = Err /\
  (* NamespaceData: empty stream = no rows; a length prefix followed by nothing is taken for the end of the stream *)
  model_dec FStream KNdC [] = Ok (CNd []) /\ model_dec FStream KNdC [0; 5] = Ok (CNd [mkrnd [] None]) /\ model_dec FStream KNdC [0; 5; 1] = Err.
Proof. vm_compute. repeat split. Qed.

(** C10 — the acceptance check of shwap blocks received over Bitswap (share/shwap/p2p/bitswap: block_fetch.go hasher.write /
    unmarshal / the duplicate path of fetch, *_block.go UnmarshalFn, block_store.go Blockstore.Get, block_proto.go).

    What verification is does not matter here: [verify] (the container's Verify against the requester's roots; for ranges
    also the identifier's Verify against the square size) and [cdecode] (protobuf -> container) are Section variables.
    What matters: which registry entry a body reaches, the order identifier check -> decode -> verify -> populate, what a
    rejected body leaves behind, and that an accepted body has ALWAYS been verified (since fix-c10-1 also for a block that is
    already populated).  Executable; no proofs here (BitswapProofs.v). *)
From Coq Require Import List ZArith Lia Bool.
From CN Require Import Base.Bytes Shwap.Ids Shwap.Cid.
Import ListNotations.
Open Scope Z_scope.

Section Bitswap.
  Context {root cont cbytes : Type}.
  Variable cdecode : bty -> cbytes -> option cont.
  Variable verify : root -> bty -> id -> cont -> bool.

  (** the Block behind a registered UnmarshalFn (an [unmarshalEntry]) *)
  Record entry := mkentry { e_ty : bty; e_id : id; e_root : root; e_cont : option cont }.

  (** the global [unmarshalFns] map, keyed by the CID (its bytes) *)
  Definition registry := list (list Z * entry).

  Fixpoint lookup (k : list Z) (r : registry) : option entry :=
    match r with
    | [] => None
    | (k', e) :: r' => if list_eqb k k' then Some e else lookup k r'
    end.
  Fixpoint update (k : list Z) (e : entry) (r : registry) : registry :=
    match r with
    | [] => []
    | (k', e') :: r' => if list_eqb k k' then (k', e) :: r' else (k', e') :: update k e r'
    end.

  Definition populate (e : entry) (c : cont) : entry :=
    match e_cont e with Some _ => e | None => mkentry (e_ty e) (e_id e) (e_root e) (Some c) end.

  (** UnmarshalFn(container, id) of a block.  [early_return = true] is the code before fix-c10-1: a block that is already
      populated accepts any body without looking at it. *)
  Definition unmarshal_fn (early_return : bool) (e : entry) (container : cbytes) (idb : list Z) : option entry :=
    if early_return && (match e_cont e with Some _ => true | None => false end) then Some e else
    match dec (kind_of (e_ty e)) idb with
    | None => None                                           (* XxxIDFromBinary *)
    | Some i =>
      if negb (id_eqb i (e_id e)) then None else              (* "requested ... doesnt match given ..." *)
      match cdecode (e_ty e) container with
      | None => None                                         (* protobuf Unmarshal / XxxFromProto *)
      | Some c => if verify (e_root e) (e_ty e) (e_id e) c then Some (populate e c) else None
      end
    end.

  (** a block body as it comes out of [unmarshalProto]: None = the envelope protobuf does not parse;
      otherwise the bytes of the inner CID field and the container bytes *)
  Definition body := option (list Z * cbytes).

  Inductive wres := WOk (digest : list Z) | WErr.

  (** hasher.write: envelope, cid.Cast + extractFromCID, registry lookup, UnmarshalFn under the entry lock; the digest it
      reports is the identifier of the inner CID *)
  Definition hasher_write (early_return : bool) (r : registry) (b : body) : registry * wres :=
    match b with
    | None => (r, WErr)
    | Some (cidb, container) =>
      match extract_bytes cidb with
      | None => (r, WErr)
      | Some (_, idb) =>
        match lookup cidb r with
        | None => (r, WErr)                                  (* "no unmarshallers registered" *)
        | Some e =>
          match unmarshal_fn early_return e container idb with
          | None => (r, WErr)
          | Some e' => (update cidb e' r, WOk idb)
          end
        end
      end
    end.

  Definition run_writes (early_return : bool) (r : registry) (bs : list body) : registry :=
    fold_left (fun r b => fst (hasher_write early_return r b)) bs r.

  (** the duplicate path of fetch: a second Fetch of a CID that is already registered keeps its own Block (with its own
      roots) and unmarshals the body the exchange hands over itself.  None = the error fetch returns (a panic before
      fix-c10-1). *)
  Definition dup_unmarshal (early_return : bool) (d : entry) (b : body) : option entry :=
    match b with
    | None => None
    | Some (cidb, container) =>
      match extract_bytes cidb with
      | None => None
      | Some (_, idb) => unmarshal_fn early_return d container idb
      end
    end.

  (** * the serving side: Blockstore.Get(cid) = EmptyBlock(cid), Populate from the accessor, marshalProto *)
  Variable populate_from : bty -> id -> option cont.   (* Block.Populate over the stored square; None = the accessor refuses *)
  Variable cencode : bty -> cont -> cbytes.            (* Block.Marshal *)

  Definition blockstore_get (cidb : list Z) : option (list Z * cbytes) :=
    match empty_block cidb with
    | None => None
    | Some (t, i) =>
      match populate_from t i with
      | None => None
      | Some c => Some (block_cid t i, cencode t c)
      end
    end.
End Bitswap.

Arguments mkentry {root cont}. Arguments entry : clear implicits. Arguments registry : clear implicits.

(** * correspondence cases: the container bytes are replaced by the harness' classification of them against the
    targeted entry (None = does not decode; Some (id, what Verify says)) *)
Definition cclass : Type := option (N * bool).
Definition k_cdecode (_ : bty) (x : cclass) : option (N * bool) := x.
Definition k_verify (_ : unit) (_ : bty) (_ : id) (c : N * bool) : bool := snd c.

Definition kentry (t : bty) (i : id) (c : option N) : entry unit (N * bool) :=
  mkentry t i tt (option_map (fun p => (p, true)) c).

(** one case: a registry of blocks, a sequence of bodies; observed per body accept/reject + the digest reported, and the
    container every block holds at the end *)
Record hcase := mkhcase {
  h_reg : list (list Z * (bty * id * option N));
  h_bodies : list (option (list Z * cclass));
  h_results : list (option (list Z));          (* Some digest = accepted *)
  h_final : list (option N)
}.

Fixpoint run_obs (r : registry unit (N * bool)) (bs : list (option (list Z * cclass))) : registry unit (N * bool) * list (option (list Z)) :=
  match bs with
  | [] => (r, [])
  | b :: bs' =>
    let '(r1, w) := hasher_write k_cdecode k_verify false r b in
    let '(r2, ws) := run_obs r1 bs' in
    (r2, (match w with WOk d => Some d | WErr => None end) :: ws)
  end.

Definition optl_eqb (a b : option (list Z)) : bool :=
  match a, b with Some x, Some y => list_eqb x y | None, None => true | _, _ => false end.
Definition optn_eqb (a b : option N) : bool :=
  match a, b with Some x, Some y => N.eqb x y | None, None => true | _, _ => false end.
Fixpoint all2 {A} (f : A -> A -> bool) (a b : list A) : bool :=
  match a, b with [], [] => true | x :: a', y :: b' => f x y && all2 f a' b' | _, _ => false end.

Definition hagree (c : hcase) : bool :=
  let r0 := map (fun x => (fst x, kentry (fst (fst (snd x))) (snd (fst (snd x))) (snd (snd x)))) (h_reg c) in
  let '(r1, ws) := run_obs r0 (h_bodies c) in
  all2 optl_eqb ws (h_results c) &&
  all2 optn_eqb (map (fun x => option_map fst (e_cont (snd x))) r1) (h_final c).

Fixpoint hmism_from (n : N) (cs : list hcase) : list N :=
  match cs with
  | [] => []
  | c :: cs' => if hagree c then hmism_from (N.succ n) cs' else n :: hmism_from (N.succ n) cs'
  end.
Definition hasher_mismatches (cs : list hcase) : list N := hmism_from 0%N cs.

(** * concurrent fetches of ONE CID (block_fetch.go: fetch, hasher.write; boxo bitswap client: publication)

    Any number of Fetch calls for the same CID [k], each with its own Block (own roots), interleaved at the granularity at
    which they touch shared state: the registry entry of the CID, the sessions of the exchange, the hasher.

    [atomic_reg = true]  registration is ONE step, unmarshalFns.LoadOrStore (the code).
    [atomic_reg = false] registration is Load (at [SEnter]) followed later by Store (at [SReg]) — the "before" witness of
                         seeded change C10-c.
    [trust = true]       a fetch that registered the CID itself takes a delivered block as verified by the hasher without
                         looking (the code before fix-c10-3).
    [trust = false]      it verifies the block itself unless the hasher has run successfully on ITS entry
                         (unmarshalEntry.verified / ensureVerified, fix-c10-3).

    The exchange: a body is decoded (= hashed = [hasher_write]) when its message arrives, and published later to the
    sessions that want the CID at publication time ([SCheck] / [SPublish]; [SDeliver] = both at once); every fetch
    re-publishes the block it received (exchg.NotifyNewBlocks, [SNotify]); a session receives a CID once. *)
Section Conc.
  Context {root cont cbytes : Type}.
  Variable cdecode : bty -> cbytes -> option cont.
  Variable verify : root -> bty -> id -> cont -> bool.
  Variable atomic_reg : bool.
  Variable trust : bool.
  Variable k : list Z.

  Notation cbody := (option (list Z * cbytes)).

  Inductive fpc :=
  | FInit                                   (* Fetch not yet at the registration of the CID *)
  | FEntered (hit : bool)                   (* two-step registration only: Load done, [hit] = an entry was there *)
  | FReg (dup : bool)                       (* registered ([dup = false]) or marked as duplicate; GetBlocks not yet called *)
  | FSub (dup : bool) (inbox : option cbody)  (* the session wants the CID / holds the block in its channel *)
  | FGot (dup : bool) (b : cbody)           (* block taken from the channel *)
  | FNotified (dup : bool) (b : cbody)      (* exchg.NotifyNewBlocks done *)
  | FRet (ok : bool).                       (* Fetch returned nil / an error *)

  (** [f_done] = unmarshalEntry.verified of the entry this fetch created *)
  Record fetcher := mkf { f_blk : entry root cont; f_done : bool; f_pc : fpc }.

  (** [c_owner]: whose entry the registry holds for the CID; [c_pend]: decoded, not yet published bodies *)
  Record cstate := mkc { c_fs : nat -> fetcher; c_owner : option nat; c_pend : list cbody }.

  Inductive cstep :=
  | SEnter (f : nat) | SReg (f : nat) | SSub (f : nat) | SCancel (f : nat)
  | SCheck (b : cbody) | SPublish (i : nat) | SDeliver (b : cbody)
  | SRecv (f : nat) | SNotify (f : nat) | SFinish (f : nat).

  Definition upd (fs : nat -> fetcher) (i : nat) (x : fetcher) : nat -> fetcher :=
    fun j => if Nat.eqb j i then x else fs j.
  Definition set_pc (x : fetcher) (p : fpc) : fetcher := mkf (f_blk x) (f_done x) p.

  (** the exchange hands [b] to every session that wants the CID now *)
  Definition offer (b : cbody) (x : fetcher) : fetcher :=
    match f_pc x with FSub d None => set_pc x (FSub d (Some b)) | _ => x end.
  Definition publish (b : cbody) (fs : nat -> fetcher) : nat -> fetcher := fun j => offer b (fs j).

  (** hasher.write against the registry, which holds at most the entry of this CID *)
  Definition check (st : cstate) (b : cbody) : cstate * bool :=
    match c_owner st with
    | None => (st, false)
    | Some o =>
      let x := c_fs st o in
      match hasher_write cdecode verify false [(k, f_blk x)] b with
      | (r', WOk _) =>
        match lookup k r' with
        | Some e' => (mkc (upd (c_fs st) o (mkf e' true (f_pc x))) (c_owner st) (c_pend st), true)
        | None => (st, false)
        end
      | (_, WErr) => (st, false)
      end
    end.

  (** return of Fetch; a fetch that registered the CID itself runs the deferred unmarshalFns.Delete(cid) — whatever entry
      is there *)
  Definition ret (st : cstate) (f : nat) (x : fetcher) (dup ok : bool) : cstate :=
    mkc (upd (c_fs st) f (set_pc x (FRet ok))) (if dup then c_owner st else None) (c_pend st).

  Fixpoint remove_nth {A} (i : nat) (l : list A) : list A :=
    match l, i with
    | [], _ => []
    | _ :: l', O => l'
    | x :: l', S i' => x :: remove_nth i' l'
    end.

  Definition is_some {A} (o : option A) : bool := match o with Some _ => true | None => false end.

  Definition cstep_fn (st : cstate) (s : cstep) : cstate :=
    match s with
    | SEnter f =>
      let x := c_fs st f in
      match f_pc x with
      | FInit => mkc (upd (c_fs st) f (set_pc x (FEntered (negb atomic_reg && is_some (c_owner st))))) (c_owner st) (c_pend st)
      | _ => st
      end
    | SReg f =>
      let x := c_fs st f in
      match f_pc x with
      | FEntered hit =>
        if (if atomic_reg then is_some (c_owner st) else hit)
        then mkc (upd (c_fs st) f (set_pc x (FReg true))) (c_owner st) (c_pend st)
        else mkc (upd (c_fs st) f (set_pc x (FReg false))) (Some f) (c_pend st)
      | _ => st
      end
    | SSub f =>
      let x := c_fs st f in
      match f_pc x with
      | FReg d => mkc (upd (c_fs st) f (set_pc x (FSub d None))) (c_owner st) (c_pend st)
      | _ => st
      end
    | SCancel f =>
      let x := c_fs st f in
      match f_pc x with
      | FReg d | FSub d _ => ret st f x d false
      | _ => st
      end
    | SCheck b =>
      let '(st', ok) := check st b in
      if ok then mkc (c_fs st') (c_owner st') (c_pend st' ++ [b]) else st'
    | SPublish i =>
      match nth_error (c_pend st) i with
      | Some b => mkc (publish b (c_fs st)) (c_owner st) (remove_nth i (c_pend st))
      | None => st
      end
    | SDeliver b =>
      let '(st', ok) := check st b in
      if ok then mkc (publish b (c_fs st')) (c_owner st') (c_pend st') else st'
    | SRecv f =>
      let x := c_fs st f in
      match f_pc x with
      | FSub d (Some b) => mkc (upd (c_fs st) f (set_pc x (FGot d b))) (c_owner st) (c_pend st)
      | _ => st
      end
    | SNotify f =>
      let x := c_fs st f in
      match f_pc x with
      | FGot d b => mkc (publish b (upd (c_fs st) f (set_pc x (FNotified d b)))) (c_owner st) (c_pend st)
      | _ => st
      end
    | SFinish f =>
      let x := c_fs st f in
      match f_pc x with
      | FNotified d b =>
        if (negb d && (trust || f_done x))%bool then ret st f x false true          (* "the block was populated by the hasher" *)
        else match dup_unmarshal cdecode verify false (f_blk x) b with             (* duplicate path / ensureVerified *)
             | Some e' => ret st f (mkf e' (negb d || f_done x) (f_pc x)) d true
             | None => ret st f x d false
             end
      | _ => st
      end
    end.

  Definition crun (st : cstate) (tr : list cstep) : cstate := fold_left cstep_fn tr st.

  Definition cinit (blk0 : nat -> entry root cont) : cstate := mkc (fun i => mkf (blk0 i) false FInit) None [].

  (** what "verified" means for a fetch: its Block holds a container that verifies for its identifier against ITS roots *)
  Definition holds_verified (x : fetcher) : Prop :=
    exists c, e_cont (f_blk x) = Some c /\ verify (e_root (f_blk x)) (e_ty (f_blk x)) (e_id (f_blk x)) c = true.

  (** a Fetch that returned nil holds verified data *)
  Definition fetch_safe (st : cstate) : Prop := forall i, f_pc (c_fs st i) = FRet true -> holds_verified (c_fs st i).

  (** the fetch registered the CID itself and has not returned *)
  Definition orig_inflight (p : fpc) : bool :=
    match p with
    | FReg false | FSub false _ | FGot false _ | FNotified false _ => true
    | _ => false
    end.

  Definition returned (p : fpc) : bool := match p with FRet _ => true | _ => false end.

  (** "concurrent": no fetch registers after some fetch has returned *)
  Fixpoint overlapping (st : cstate) (tr : list cstep) : Prop :=
    match tr with
    | [] => True
    | s :: tr' =>
      (match s with SReg _ => forall j, returned (f_pc (c_fs st j)) = false | _ => True end) /\
      overlapping (cstep_fn st s) tr'
    end.
End Conc.

Arguments mkf {root cont cbytes}. Arguments mkc {root cont cbytes}.
Arguments FInit {cbytes}. Arguments FRet {cbytes}. Arguments FReg {cbytes}. Arguments FEntered {cbytes}.
Arguments SEnter {cbytes}. Arguments SReg {cbytes}. Arguments SSub {cbytes}. Arguments SCancel {cbytes}.
Arguments SPublish {cbytes}. Arguments SRecv {cbytes}. Arguments SNotify {cbytes}. Arguments SFinish {cbytes}.

(** ** correspondence cases for the concurrent model (the repaired code: atomic registration, no blind trust).
    Roots: false = the square, true = the other square of the same height.  A container is abstracted to the pair
    (verifies against the square's roots, verifies against the other square's roots). *)
Definition cv_decode (_ : bty) (x : option (bool * bool)) : option (bool * bool) := x.
Definition cv_verify (r : bool) (_ : bty) (_ : id) (c : bool * bool) : bool := if r then snd c else fst c.

Record ccase := mkccase {
  cc_ty : bty; cc_id : id; cc_cid : list Z;
  cc_roots : list bool;                       (* one per fetch *)
  cc_bodies : list (option (bool * bool));    (* body kinds: None = the container does not decode *)
  cc_steps : list Z;                          (* op + 16 * argument *)
  cc_obs : list Z;                            (* after each step: bit i = Block i populated; +64 = the hasher accepted;
                                                 +128 + 256 * (o + 1) = the registry holds the entry created by fetch o *)
  cc_final : list Z                           (* per fetch: 0 = not returned, 1 = nil, 2 = error *)
}.

Definition cc_body (c : ccase) (i : Z) : option (list Z * option (bool * bool)) :=
  Some (cc_cid c, nth (Z.to_nat i) (cc_bodies c) None).

Definition cc_step (c : ccase) (code : Z) : cstep (cbytes := option (bool * bool)) :=
  let a := code / 16 in
  match code mod 16 with
  | 0 => SEnter (Z.to_nat a) | 1 => SReg (Z.to_nat a) | 2 => SSub (Z.to_nat a) | 3 => SCancel (Z.to_nat a)
  | 4 => SCheck (cc_body c a) | 5 => SPublish (Z.to_nat a) | 6 => SDeliver (cc_body c a)
  | 7 => SRecv (Z.to_nat a) | 8 => SNotify (Z.to_nat a) | _ => SFinish (Z.to_nat a)
  end.

Definition cc_accepts (c : ccase) (st : cstate (root := bool) (cont := bool * bool) (cbytes := option (bool * bool))) (s : cstep) : bool :=
  match s with
  | SCheck b | SDeliver b => snd (check cv_decode cv_verify (cc_cid c) st b)
  | _ => false
  end.

Fixpoint cc_mask {root cont cbytes} (fs : nat -> fetcher (root := root) (cont := cont) (cbytes := cbytes)) (n : nat) : Z :=
  match n with
  | O => 0
  | S n' => cc_mask fs n' + (if is_some (e_cont (f_blk (fs n'))) then 2 ^ Z.of_nat n' else 0)
  end.

Fixpoint cc_run (c : ccase) (n : nat) st (steps : list Z) : list Z * cstate (root := bool) (cont := bool * bool) (cbytes := option (bool * bool)) :=
  match steps with
  | [] => ([], st)
  | code :: steps' =>
    let s := cc_step c code in
    let acc := cc_accepts c st s in
    let st' := cstep_fn cv_decode cv_verify true false (cc_cid c) st s in
    let '(os, stf) := cc_run c n st' steps' in
    ((cc_mask (c_fs st') n + (if acc then 64 else 0) +
      match c_owner st' with Some o => 128 + 256 * (Z.of_nat o + 1) | None => 0 end) :: os, stf)
  end.

Definition cc_agree (c : ccase) : bool :=
  let n := length (cc_roots c) in
  let st0 := cinit (fun i => mkentry (cc_ty c) (cc_id c) (nth i (cc_roots c) false) None) in
  let '(os, stf) := cc_run c n st0 (cc_steps c) in
  list_eqb os (cc_obs c) &&
  list_eqb (map (fun i => match f_pc (c_fs stf i) with FRet true => 1 | FRet false => 2 | _ => 0 end) (seq 0 n)) (cc_final c).

Fixpoint cmism_from (n : N) (cs : list ccase) : list N :=
  match cs with
  | [] => []
  | c :: cs' => if cc_agree c then cmism_from (N.succ n) cs' else n :: cmism_from (N.succ n) cs'
  end.
Definition conc_mismatches (cs : list ccase) : list N := cmism_from 0%N cs.

(** * serving a row from any representation (row_block.go: RowBlock.Populate = AxisHalf.ToRow; shwap.Row.Shares/Verify)

    An accessor may hand out either half of a row as long as it says which one (eds.Accessor.AxisHalf, "side is
    determined by implementation"): the in-memory square and ODS files the data half, ODS+Q4 files the PARITY half for the
    rows of the lower half of the EDS.  [keep_flag = false] is seeded change C10-d (NewRow(half.Shares, Left)). *)
Section ServeRow.
  Context {share : Type}.
  Variable parity : list share -> list share.    (* codec.Encode: the parity half of a data half *)
  Variable recover : list share -> list share.   (* codec.Decode given the parity half only: the data half *)

  Inductive rside := RLeft | RRight.

  (** AxisHalf.ToRow on (IsParity, Shares) *)
  Definition to_row (keep_flag : bool) (h : bool * list share) : rside * list share :=
    (if keep_flag && fst h then RRight else RLeft, snd h).

  (** Row.Shares: the full row reconstructed from the half and its side *)
  Definition row_shares (r : rside * list share) : list share :=
    match fst r with RLeft => snd r ++ parity (snd r) | RRight => recover (snd r) ++ snd r end.

  (** Row.Verify against the committed row: the NMT root of the reconstructed row equals the committed root, which by
      injectivity of the root (Base/Sym) is equality of the rows *)
  Definition row_verifies (committed : list share) (r : rside * list share) : Prop := row_shares r = committed.

  (** what an accessor over the square with data half [data] may return for the row *)
  Definition half_of (data : list share) (h : bool * list share) : Prop := h = (false, data) \/ h = (true, parity data).
End ServeRow.

(** ** correspondence: which half each representation hands out for row [row] of a square of ODS width [k], and how the
    served container is labelled *)
Inductive srep := RepMem | RepOdsQ4 | RepOds | RepCachedFile | RepRecent.
Definition rep_parity (r : srep) (k row : Z) : bool :=
  match r with RepOdsQ4 | RepCachedFile => k <=? row | _ => false end.
Record scase := mkscase { s_rep : srep; s_k : Z; s_row : Z; s_parity : bool; s_right : bool; s_accepted : bool }.
Definition sagree (c : scase) : bool :=
  Bool.eqb (s_parity c) (rep_parity (s_rep c) (s_k c) (s_row c)) &&
  match fst (to_row (share := unit) true (s_parity c, [])) with RRight => s_right c | RLeft => negb (s_right c) end &&
  s_accepted c.
Fixpoint smism_from (n : N) (cs : list scase) : list N :=
  match cs with
  | [] => []
  | c :: cs' => if sagree c then smism_from (N.succ n) cs' else n :: smism_from (N.succ n) cs'
  end.
Definition serve_mismatches (cs : list scase) : list N := smism_from 0%N cs.

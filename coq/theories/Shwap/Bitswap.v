(** C10 — the acceptance check of shwap blocks received over Bitswap (share/shwap/p2p/bitswap: block_fetch.go hasher.write /
    unmarshal / the duplicate path of fetch, *_block.go UnmarshalFn, block_store.go Blockstore.Get, block_proto.go).

    What verification is does not matter here: [verify] (the container's Verify against the requester's roots; for ranges
    also the identifier's Verify against the square size) and [cdecode] (protobuf -> container) are Section variables.
    What matters: which registry entry a body reaches, the order identifier check -> decode -> verify -> populate, what a
    rejected body leaves behind, and that an accepted body has ALWAYS been verified (since fix-c10-1 also for a block that is
    already populated).  Executable; no proofs here (BitswapProofs.v). *)
From Coq Require Import List ZArith Lia Bool.
From CN Require Import Base.Bytes Shwap.Ids Shwap.Cid.
Import ListNotations.
Open Scope Z_scope.

Section Bitswap.
  Context {root cont cbytes : Type}.
  Variable cdecode : bty -> cbytes -> option cont.
  Variable verify : root -> bty -> id -> cont -> bool.

  (** the Block behind a registered UnmarshalFn (an [unmarshalEntry]) *)
  Record entry := mkentry { e_ty : bty; e_id : id; e_root : root; e_cont : option cont }.

  (** the global [unmarshalFns] map, keyed by the CID (its bytes) *)
  Definition registry := list (list Z * entry).

  Fixpoint lookup (k : list Z) (r : registry) : option entry :=
    match r with
    | [] => None
    | (k', e) :: r' => if list_eqb k k' then Some e else lookup k r'
    end.
  Fixpoint update (k : list Z) (e : entry) (r : registry) : registry :=
    match r with
    | [] => []
    | (k', e') :: r' => if list_eqb k k' then (k', e) :: r' else (k', e') :: update k e r'
    end.

  Definition populate (e : entry) (c : cont) : entry :=
    match e_cont e with Some _ => e | None => mkentry (e_ty e) (e_id e) (e_root e) (Some c) end.

  (** UnmarshalFn(container, id) of a block.  [early_return = true] is the code before fix-c10-1: a block that is already
      populated accepts any body without looking at it. *)
  Definition unmarshal_fn (early_return : bool) (e : entry) (container : cbytes) (idb : list Z) : option entry :=
    if early_return && (match e_cont e with Some _ => true | None => false end) then Some e else
    match dec (kind_of (e_ty e)) idb with
    | None => None                                           (* XxxIDFromBinary *)
    | Some i =>
      if negb (id_eqb i (e_id e)) then None else              (* "requested ... doesnt match given ..." *)
      match cdecode (e_ty e) container with
      | None => None                                         (* protobuf Unmarshal / XxxFromProto *)
      | Some c => if verify (e_root e) (e_ty e) (e_id e) c then Some (populate e c) else None
      end
    end.

  (** a block body as it comes out of [unmarshalProto]: None = the envelope protobuf does not parse;
      otherwise the bytes of the inner CID field and the container bytes *)
  Definition body := option (list Z * cbytes).

  Inductive wres := WOk (digest : list Z) | WErr.

  (** hasher.write: envelope, cid.Cast + extractFromCID, registry lookup, UnmarshalFn under the entry lock; the digest it
      reports is the identifier of the inner CID *)
  Definition hasher_write (early_return : bool) (r : registry) (b : body) : registry * wres :=
    match b with
    | None => (r, WErr)
    | Some (cidb, container) =>
      match extract_bytes cidb with
      | None => (r, WErr)
      | Some (_, idb) =>
        match lookup cidb r with
        | None => (r, WErr)                                  (* "no unmarshallers registered" *)
        | Some e =>
          match unmarshal_fn early_return e container idb with
          | None => (r, WErr)
          | Some e' => (update cidb e' r, WOk idb)
          end
        end
      end
    end.

  Definition run_writes (early_return : bool) (r : registry) (bs : list body) : registry :=
    fold_left (fun r b => fst (hasher_write early_return r b)) bs r.

  (** the duplicate path of fetch: a second Fetch of a CID that is already registered keeps its own Block (with its own
      roots) and unmarshals the body the exchange hands over itself.  None = the error fetch returns (a panic before
      fix-c10-1). *)
  Definition dup_unmarshal (early_return : bool) (d : entry) (b : body) : option entry :=
    match b with
    | None => None
    | Some (cidb, container) =>
      match extract_bytes cidb with
      | None => None
      | Some (_, idb) => unmarshal_fn early_return d container idb
      end
    end.

  (** * the serving side: Blockstore.Get(cid) = EmptyBlock(cid), Populate from the accessor, marshalProto *)
  Variable populate_from : bty -> id -> option cont.   (* Block.Populate over the stored square; None = the accessor refuses *)
  Variable cencode : bty -> cont -> cbytes.            (* Block.Marshal *)

  Definition blockstore_get (cidb : list Z) : option (list Z * cbytes) :=
    match empty_block cidb with
    | None => None
    | Some (t, i) =>
      match populate_from t i with
      | None => None
      | Some c => Some (block_cid t i, cencode t c)
      end
    end.
End Bitswap.

Arguments mkentry {root cont}. Arguments entry : clear implicits. Arguments registry : clear implicits.

(** * correspondence cases: the container bytes are replaced by the harness' classification of them against the
    targeted entry (None = does not decode; Some (id, what Verify says)) *)
Definition cclass : Type := option (N * bool).
Definition k_cdecode (_ : bty) (x : cclass) : option (N * bool) := x.
Definition k_verify (_ : unit) (_ : bty) (_ : id) (c : N * bool) : bool := snd c.

Definition kentry (t : bty) (i : id) (c : option N) : entry unit (N * bool) :=
  mkentry t i tt (option_map (fun p => (p, true)) c).

(** one case: a registry of blocks, a sequence of bodies; observed per body accept/reject + the digest reported, and the
    container every block holds at the end *)
Record hcase := mkhcase {
  h_reg : list (list Z * (bty * id * option N));
  h_bodies : list (option (list Z * cclass));
  h_results : list (option (list Z));          (* Some digest = accepted *)
  h_final : list (option N)
}.

Fixpoint run_obs (r : registry unit (N * bool)) (bs : list (option (list Z * cclass))) : registry unit (N * bool) * list (option (list Z)) :=
  match bs with
  | [] => (r, [])
  | b :: bs' =>
    let '(r1, w) := hasher_write k_cdecode k_verify false r b in
    let '(r2, ws) := run_obs r1 bs' in
    (r2, (match w with WOk d => Some d | WErr => None end) :: ws)
  end.

Definition optl_eqb (a b : option (list Z)) : bool :=
  match a, b with Some x, Some y => list_eqb x y | None, None => true | _, _ => false end.
Definition optn_eqb (a b : option N) : bool :=
  match a, b with Some x, Some y => N.eqb x y | None, None => true | _, _ => false end.
Fixpoint all2 {A} (f : A -> A -> bool) (a b : list A) : bool :=
  match a, b with [], [] => true | x :: a', y :: b' => f x y && all2 f a' b' | _, _ => false end.

Definition hagree (c : hcase) : bool :=
  let r0 := map (fun x => (fst x, kentry (fst (fst (snd x))) (snd (fst (snd x))) (snd (snd x)))) (h_reg c) in
  let '(r1, ws) := run_obs r0 (h_bodies c) in
  all2 optl_eqb ws (h_results c) &&
  all2 optn_eqb (map (fun x => option_map fst (e_cont (snd x))) r1) (h_final c).

Fixpoint hmism_from (n : N) (cs : list hcase) : list N :=
  match cs with
  | [] => []
  | c :: cs' => if hagree c then hmism_from (N.succ n) cs' else n :: hmism_from (N.succ n) cs'
  end.
Definition hasher_mismatches (cs : list hcase) : list N := hmism_from 0%N cs.
